(* L3: concrete executions (Spec/Exec.v) pass the block and edge constraints of the analyses, and the
   per-domain end-to-end theorems obtained with RunLemmas.solve_sound. *)
From Coq Require Import String List NArith ZArith Bool Arith Lia.
From Tealer Require Import Tables LeafPrelude Leaves Syntax Parse Cfg StackAst Keys Analysis Domains.
From Tealer Require Import LeafLemmas AssertedLemmas StackLemmas SolverLemmas Instances Eval SingleLemmas.
From Tealer Require Import Runs RunLemmas Exec.
Import ListNotations.
Open Scope list_scope.

(* ====================================================================== *)
(* A. facts about recorded traces                                          *)
(* ====================================================================== *)
Lemma last_map' {A B} (g : A -> B) : forall l d, l <> [] -> g (last l d) = last (map g l) (g d).
Proof.
  induction l as [|a [|b t] IH]; intros d H; [congruence | reflexivity |].
  change (g (last (b :: t) d) = last (map g (b :: t)) (g d)). apply IH. discriminate.
Qed.

Section Trace.
  Variable sem : opsem.
  Variable p : prog.

  (* every trace entry is an instruction of the program applied by sem to the recorded arguments *)
  Lemma crun_tr_sem : forall poss cs tr fin, crun_tr cval sem p poss cs = Some (tr, fin) ->
    forall k a o, In (k, a, o) tr -> exists op, op_at p k = Some op /\ o = sem op k a.
  Proof.
    induction poss as [|k0 t IH]; intros cs tr fin H k a o Hin.
    - simpl in H. inversion H; subst. destruct Hin.
    - apply crun_tr_cons_inv in H. destruct H as (op & n & m & tr1 & Hop & _ & _ & _ & Hr & ->).
      destruct Hin as [E|Hin].
      + inversion E; subst. eauto.
      + eapply IH; eauto.
  Qed.

  (* the last entry is the block's exit instruction *)
  Lemma crun_tr_last : forall poss cs tr fin, crun_tr cval sem p poss cs = Some (tr, fin) -> poss <> [] ->
    exists a o, last tr (0, [], []) = (last poss 0, a, o) /\ In (last poss 0, a, o) tr.
  Proof.
    intros poss cs tr fin H Hne. pose proof (crun_tr_positions _ _ _ _ _ _ _ H) as Hp.
    assert (Htr : tr <> []) by (intros ->; simpl in Hp; congruence).
    pose proof (last_map' (tr_pos cval) tr (0, [], []) Htr) as E. rewrite Hp in E. simpl in E.
    destruct (last tr (0, [], [])) as [[k a] o] eqn:El. simpl in E. subst k.
    exists a, o. split; [reflexivity|]. rewrite <- El.
    destruct tr as [|x tr']; [congruence|]. apply (@exists_last _ (x :: tr')) in Htr.
    destruct Htr as (l' & z & Ez). rewrite Ez, last_last. apply in_or_app. right. left. reflexivity.
  Qed.
End Trace.

(* ====================================================================== *)
(* B. (1) operand trees denote the values Spec/Eval gives them             *)
(* ====================================================================== *)
(* every node of the tree names the program's opcode at its position (StackLemmas.emulate_provenance) *)
Definition opsok (p : prog) : sval -> Prop := sv_ok (fun op pos _ _ => op_at p pos = Some op).

Lemma producer_opsok p d v : sv_ok (producer_ok p d) v -> opsok p v.
Proof. apply sv_ok_mono. intros op pos args j (_ & H & _). exact H. Qed.

Lemma truthy_b2c b : truthy (b2c b) = b.
Proof. destruct b; reflexivity. Qed.

Lemma all_int2 a b : all_int [a; b] = true -> exists x y, a = CInt x /\ b = CInt y.
Proof. destruct a, b; simpl; try discriminate. eauto. Qed.
Lemma all_int1 a : all_int [a] = true -> exists x, a = CInt x.
Proof. destruct a; simpl; try discriminate. eauto. Qed.

Lemma nth_error_single {A} (a c : A) k : nth_error [a] k = Some c -> c = a.
Proof. destruct k as [|[|k]]; simpl; intros H; inversion H; reflexivity. Qed.

(* evaluation of a condition tree when the truth of each leaf is given by a relation *)
Section Cev.
  Variable L : instr -> nat -> list sval -> bool -> Prop.
  Inductive cev : cond -> bool -> Prop :=
  | cev_unknown b : cev CUnknown b
  | cev_leaf op pos args b : L op pos args b -> cev (CLeaf op pos args) b
  | cev_not a b : cev a b -> cev (CNot a) (negb b)
  | cev_and a b x y : cev a x -> cev b y -> cev (CAnd a b) (x && y)
  | cev_or a b x y : cev a x -> cev b y -> cev (COr a b) (x || y).
End Cev.

Lemma cond_of_cases op pos args out :
  (exists a b, op = IAnd /\ args = [a; b]) \/ (exists a b, op = IOr /\ args = [a; b]) \/
  (exists a, op = INot /\ args = [a]) \/ cond_of (SKnown op pos args out) = CLeaf op pos args.
Proof.
  destruct op; try (right; right; right; reflexivity);
    destruct args as [|a [|b [|c r]]]; eauto 10; right; right; right; reflexivity.
Qed.

Section Values.
  Variable e : env.
  Variable sem : opsem.
  Hypothesis Hsem : sem_ok e sem.
  Variable p : prog.
  Variable tr : trace cval.
  Hypothesis Htr : forall k a o, In (k, a, o) tr -> exists op, op_at p k = Some op /\ o = sem op k a.
  Hypothesis Hnf : no_fail e p tr.

  Lemma agrees_args : forall args cargs,
    Forall (fun v => opsok p v -> forall c x, den cval tr v c -> sv_eval e v = Some x -> c = of_value x) args ->
    Forall (opsok p) args -> Forall2 (den cval tr) args cargs ->
    Forall2 agrees cargs (map (sv_eval e) args).
  Proof.
    intros args cargs HI HO HD. induction HD as [|v c args cargs Hd HD IH]; simpl; constructor.
    - inversion HI; inversion HO; subst. intros y Hy. eauto.
    - inversion HI; inversion HO; subst. auto.
  Qed.

  (* (1) tree_value *)
  Theorem tree_value : forall v, opsok p v ->
    forall c x, den cval tr v c -> sv_eval e v = Some x -> c = of_value x.
  Proof.
    induction v as [|op pos args out IH] using sval_ind'; intros Hok c x Hd Hx; [discriminate|].
    inversion Hok as [|? ? ? ? Hop HO]; subst. inversion Hd as [|? ? ? ? ? cargs couts Hin Hnth HD]; subst.
    destruct (Htr _ _ _ Hin) as (op' & Hop' & ->). rewrite Hop in Hop'. inversion Hop'; subst op'.
    rewrite sv_eval_known in Hx.
    rewrite (so_eval e sem Hsem op pos cargs _ x (agrees_args args cargs IH HO HD) Hx) in Hnth.
    exact (nth_error_single _ _ _ Hnth).
  Qed.

  (* truth of a comparison leaf *)
  Theorem leaf_value : forall op pos args out c b,
    opsok p (SKnown op pos args out) -> den cval tr (SKnown op pos args out) c ->
    leaf_truth e op args = Some b -> truthy c = b.
  Proof.
    intros op pos args out c b Hok Hd Hb.
    inversion Hok as [|? ? ? ? Hop HO]; subst. inversion Hd as [|? ? ? ? ? cargs couts Hin Hnth HD]; subst.
    destruct (Htr _ _ _ Hin) as (op' & Hop' & ->). rewrite Hop in Hop'. inversion Hop'; subst op'.
    apply leaf_truth_inv in Hb. destruct Hb as (a1 & a2 & -> & Hb).
    inversion HD as [|? c1 ? cr1 Hd1 HD1]; subst. inversion HD1 as [|? c2 ? cr2 Hd2 HD2]; subst. inversion HD2; subst.
    inversion HO as [|? ? O1 HO1]; subst. inversion HO1 as [|? ? O2 _]; subst.
    destruct Hb as [(x & y & E1 & E2 & Hc) | (x & y & E1 & E2 & Hc)].
    - rewrite (tree_value a1 O1 c1 _ Hd1 E1), (tree_value a2 O2 c2 _ Hd2 E2) in Hnth. simpl in Hnth.
      rewrite (so_icmp e sem Hsem op pos x y b Hc) in Hnth.
      rewrite (nth_error_single _ _ _ Hnth). apply truthy_b2c.
    - rewrite (tree_value a1 O1 c1 _ Hd1 E1), (tree_value a2 O2 c2 _ Hd2 E2) in Hnth. simpl in Hnth.
      rewrite (so_acmp e sem Hsem op pos x y b Hc) in Hnth.
      rewrite (nth_error_single _ _ _ Hnth). apply truthy_b2c.
  Qed.

  (* concrete truth of a leaf: the truthiness of the value it pushed in this trace *)
  Definition Lf (op : instr) (pos : nat) (args : list sval) (b : bool) : Prop :=
    exists out c, opsok p (SKnown op pos args out) /\ den cval tr (SKnown op pos args out) c /\ truthy c = b.

  Lemma Lf_leaf_truth op pos args b b' : Lf op pos args b -> leaf_truth e op args = Some b' -> b = b'.
  Proof. intros (out & c & Hok & Hd & <-) Hb. eapply leaf_value; eauto. Qed.

  (* condition trees: && || ! nodes are the machine's logical operations *)
  Theorem cond_sound : forall v, opsok p v -> forall c, den cval tr v c -> cev Lf (cond_of v) (truthy c).
  Proof.
    induction v as [|op pos args out IH] using sval_ind'; intros Hok c Hd; [constructor|].
    destruct (cond_of_cases op pos args out) as [(a & b & -> & ->) | [(a & b & -> & ->) | [(a & -> & ->) | E]]].
    - inversion Hok as [|? ? ? ? Hop HO]; subst. inversion Hd as [|? ? ? ? ? cargs couts Hin Hnth HD]; subst.
      destruct (Htr _ _ _ Hin) as (op' & Hop' & ->). rewrite Hop in Hop'. inversion Hop'; subst op'.
      inversion HD as [|? c1 ? cr1 Hd1 HD1]; subst. inversion HD1 as [|? c2 ? cr2 Hd2 HD2]; subst. inversion HD2; subst.
      inversion HO as [|? ? O1 HO1]; subst. inversion HO1 as [|? ? O2 _]; subst.
      inversion IH as [|? ? I1 IH1]; subst. inversion IH1 as [|? ? I2 _]; subst.
      pose proof (Hnf _ _ _ _ Hin Hop) as Hf. simpl in Hf. apply negb_false_iff in Hf.
      destruct (all_int2 _ _ Hf) as (x & y & -> & ->).
      rewrite (so_and e sem Hsem) in Hnth. rewrite (nth_error_single _ _ _ Hnth), truthy_b2c.
      simpl. constructor; [exact (I1 O1 _ Hd1) | exact (I2 O2 _ Hd2)].
    - inversion Hok as [|? ? ? ? Hop HO]; subst. inversion Hd as [|? ? ? ? ? cargs couts Hin Hnth HD]; subst.
      destruct (Htr _ _ _ Hin) as (op' & Hop' & ->). rewrite Hop in Hop'. inversion Hop'; subst op'.
      inversion HD as [|? c1 ? cr1 Hd1 HD1]; subst. inversion HD1 as [|? c2 ? cr2 Hd2 HD2]; subst. inversion HD2; subst.
      inversion HO as [|? ? O1 HO1]; subst. inversion HO1 as [|? ? O2 _]; subst.
      inversion IH as [|? ? I1 IH1]; subst. inversion IH1 as [|? ? I2 _]; subst.
      pose proof (Hnf _ _ _ _ Hin Hop) as Hf. simpl in Hf. apply negb_false_iff in Hf.
      destruct (all_int2 _ _ Hf) as (x & y & -> & ->).
      rewrite (so_or e sem Hsem) in Hnth. rewrite (nth_error_single _ _ _ Hnth), truthy_b2c.
      simpl. constructor; [exact (I1 O1 _ Hd1) | exact (I2 O2 _ Hd2)].
    - inversion Hok as [|? ? ? ? Hop HO]; subst. inversion Hd as [|? ? ? ? ? cargs couts Hin Hnth HD]; subst.
      destruct (Htr _ _ _ Hin) as (op' & Hop' & ->). rewrite Hop in Hop'. inversion Hop'; subst op'.
      inversion HD as [|? c1 ? cr1 Hd1 HD1]; subst. inversion HD1; subst.
      inversion HO as [|? ? O1 _]; subst. inversion IH as [|? ? I1 _]; subst.
      pose proof (Hnf _ _ _ _ Hin Hop) as Hf. simpl in Hf. apply negb_false_iff in Hf.
      destruct (all_int1 _ Hf) as (x & ->).
      rewrite (so_not e sem Hsem) in Hnth. rewrite (nth_error_single _ _ _ Hnth), truthy_b2c.
      simpl. constructor. exact (I1 O1 _ Hd1).
    - rewrite E. constructor. exists out, c. auto.
  Qed.
End Values.

(* ====================================================================== *)
(* C. _get_asserted is sound when only the leaves of the condition are known to be sound *)
(* ====================================================================== *)
Fixpoint cond_leaf (c : cond) (op : instr) (pos : nat) (args : list sval) : Prop :=
  match c with
  | CUnknown => False
  | CLeaf o k a => o = op /\ k = pos /\ a = args
  | CNot a => cond_leaf a op pos args
  | CAnd a b | COr a b => cond_leaf a op pos args \/ cond_leaf b op pos args
  end.

Section RelSound.
  Variable T : Type.
  Variable univ null : T.
  Variable union inter : T -> T -> T.
  Variable single : instr -> nat -> list sval -> T * T.
  Variable V : Type.
  Variable gamma : T -> V -> Prop.
  Hypothesis gamma_univ : forall x, gamma univ x.
  Hypothesis gamma_union_l : forall a b x, gamma a x -> gamma (union a b) x.
  Hypothesis gamma_union_r : forall a b x, gamma b x -> gamma (union a b) x.
  Hypothesis gamma_inter : forall a b x, gamma a x -> gamma b x -> gamma (inter a b) x.
  Variable x : V.
  Variable L : instr -> nat -> list sval -> bool -> Prop.

  Notation ass := (asserted T univ null union inter single).
  Notation aparts := (and_parts T univ null union inter single).
  Notation oparts := (or_parts T univ null union inter single).
  Notation snd' := (sound T V gamma x).

  Definition leaves_sound (c : cond) : Prop :=
    forall op pos args b, cond_leaf c op pos args -> L op pos args b -> snd' (single op pos args) b.

  Lemma sound_all_rel : forall c, leaves_sound c ->
    (forall b, cev L c b -> snd' (ass c) b) /\
    (forall b, cev L c b -> P_and T V gamma x (aparts c) b) /\
    (forall b, cev L c b -> P_or T V gamma x (oparts c) b).
  Proof.
    induction c as [|a IHa b IHb|a IHa b IHb|a IHa|op pos args]; intros HL.
    - split; [|split]; intros b _.
      + apply sound_univ; auto.
      + apply P_and_none.
      + apply P_or_none.
    - destruct IHa as (Xa & Aa & Oa); [intros o k r z H; apply HL; left; exact H|].
      destruct IHb as (Xb & Ab & Ob); [intros o k r z H; apply HL; right; exact H|].
      assert (A : forall b0, cev L (CAnd a b) b0 -> P_and T V gamma x (aparts (CAnd a b)) b0).
      { intros b0 H. inversion H; subst. rewrite and_parts_char. apply P_and_app; auto. }
      assert (X : forall b0, cev L (CAnd a b) b0 -> snd' (ass (CAnd a b)) b0).
      { intros b0 H. rewrite asserted_and. apply finish_and_sound; auto. }
      split; [|split]; auto.
      intros b0 H. rewrite or_parts_char. apply P_or_single. auto.
    - destruct IHa as (Xa & Aa & Oa); [intros o k r z H; apply HL; left; exact H|].
      destruct IHb as (Xb & Ab & Ob); [intros o k r z H; apply HL; right; exact H|].
      assert (O : forall b0, cev L (COr a b) b0 -> P_or T V gamma x (oparts (COr a b)) b0).
      { intros b0 H. inversion H; subst. rewrite or_parts_char. apply P_or_app; auto. }
      assert (X : forall b0, cev L (COr a b) b0 -> snd' (ass (COr a b)) b0).
      { intros b0 H. rewrite asserted_or. apply finish_or_sound; auto. }
      split; [|split]; auto.
      intros b0 H. rewrite and_parts_char. apply P_and_single. auto.
    - destruct IHa as (Xa & Aa & Oa); [intros o k r z H; apply HL; exact H|].
      assert (X : forall b0, cev L (CNot a) b0 -> snd' (ass (CNot a)) b0).
      { intros b0 H. inversion H; subst. rewrite asserted_not. apply sound_neg; auto. }
      split; [|split]; auto.
      + intros b0 H. rewrite and_parts_char. apply P_and_single. auto.
      + intros b0 H. rewrite or_parts_char. apply P_or_single. auto.
    - assert (X : forall b0, cev L (CLeaf op pos args) b0 -> snd' (ass (CLeaf op pos args)) b0).
      { intros b0 H. inversion H; subst. simpl. apply HL; simpl; auto. }
      split; [|split]; auto.
      + intros b0 H. rewrite and_parts_char. apply P_and_single. auto.
      + intros b0 H. rewrite or_parts_char. apply P_or_single. auto.
  Qed.

  Theorem asserted_sound_rel : forall c, leaves_sound c -> forall b, cev L c b ->
    if b then gamma (fst (ass c)) x else gamma (snd (ass c)) x.
  Proof. intros c HL b H. exact (proj1 (sound_all_rel c HL) b H). Qed.
End RelSound.

(* ====================================================================== *)
(* D. (2)(3) block and edge constraints are sound, for any domain          *)
(* ====================================================================== *)
(* the instructions whose operand the analyses turn into a condition *)
Definition is_check (op : instr) : bool :=
  match op with IAssert | IReturn | IBZ _ | IBNZ _ => true | _ => false end.

(* (op, pos, args) is a leaf of a condition checked in block blk / somewhere in the function *)
Definition block_leaf (f : func) (blk : block) (op : instr) (pos : nat) (args : list sval) : Prop :=
  exists ast k o a rest, emulate (fn_prog f) (b_ins blk) [] = Some ast /\ In (k, o, a :: rest) ast /\
    is_check o = true /\ cond_leaf (cond_of a) op pos args.
Definition prog_leaf (f : func) (op : instr) (pos : nat) (args : list sval) : Prop :=
  exists b blk, fblock f b = Some blk /\ block_leaf f blk op pos args.

(* well-formedness of the block graph used below (all hold for parsed programs) *)
Definition ins_nodup_P (f : func) : Prop := forall b blk, fblock f b = Some blk -> NoDup (b_ins blk).
Definition next_nodup_P (f : func) : Prop := forall b blk, fblock f b = Some blk -> NoDup (b_next blk).
Definition branch_labels_P (f : func) : Prop := forall b blk l, fblock f b = Some blk ->
  fexit_op f blk = Some (IBZ l) \/ fexit_op f blk = Some (IBNZ l) -> find_label (fn_prog f) l <> None.

Lemma args_of_In ast k args : args_of ast k = Some args -> exists o, In (k, o, args) ast.
Proof.
  unfold args_of. destruct (find _ ast) as [[[k' o] a]|] eqn:E; [|discriminate].
  simpl. intros H; inversion H; subst. apply find_some in E. destruct E as [Hin Hk].
  apply Nat.eqb_eq in Hk. subst. eauto.
Qed.

Lemma fexit_op_inv f blk op : fexit_op f blk = Some op ->
  b_ins blk <> [] /\ op_at (fn_prog f) (last (b_ins blk) 0) = Some op.
Proof.
  unfold fexit_op. destruct (b_ins blk) as [|i r]; [discriminate|].
  intros H; split; [discriminate | exact H].
Qed.

Section Generic.
  Variable T : Type.
  Variable univ null : T.
  Variable union inter : T -> T -> T.
  Variable single : instr -> nat -> list sval -> T * T.
  Variable V : Type.
  Variable gamma : T -> V -> Prop.
  Hypothesis gamma_univ : forall x, gamma univ x.
  Hypothesis gamma_union_l : forall a b x, gamma a x -> gamma (union a b) x.
  Hypothesis gamma_union_r : forall a b x, gamma b x -> gamma (union a b) x.
  Hypothesis gamma_inter : forall a b x, gamma a x -> gamma b x -> gamma (inter a b) x.

  Variable e : env.
  Variable sem : opsem.
  Hypothesis Hsem : sem_ok e sem.
  Variable f : func.
  Hypothesis Hintcs : fn_intcs f = e_intcs e.
  Variable x : V.

  Notation p := (fn_prog f).
  Notation ass := (asserted T univ null union inter single).
  Notation bcst := (block_constraint T univ null union inter single f).
  Notation ecst := (edge_constraint T univ null union inter single f).

  (* what the domain must provide for a leaf: the side selected by any truth value not contradicted by
     the semantics contains x (the _total theorems of SingleLemmas) *)
  Definition leaf_hyp (op : instr) (pos : nat) (args : list sval) : Prop :=
    forall b, leaf_truth e op args <> Some (negb b) ->
      gamma (if b then fst (single op pos args) else snd (single op pos args)) x.

  Section Block.
    Variable blk : block.
    Variable cs cs' : list cval.
    Variable tr : trace cval.
    Hypothesis Hex : bexec e sem p blk cs tr cs'.
    Hypothesis Hleaves : forall op pos args, block_leaf f blk op pos args -> leaf_hyp op pos args.
    Variable ast : list (nat * instr * list sval).
    Hypothesis Hast : emulate p (b_ins blk) [] = Some ast.

    Let Htr := crun_tr_sem sem p _ _ _ _ (proj1 Hex).
    Let Hnf := proj2 Hex.

    (* an instruction of the block: its concrete operands, denoted by the reconstructed trees *)
    Lemma ins_sound k o args : In (k, o, args) ast ->
      exists cargs couts, In (k, cargs, couts) tr /\ op_at p k = Some o /\ fails e o cargs = false /\
        Forall2 (den cval tr) args cargs /\ Forall (opsok p) args.
    Proof.
      intros Hin.
      assert (Hinv : inv cval tr [] cs) by (exists [], cs; split; [reflexivity | constructor]).
      destruct (emulate_sound_gen cval sem (so_len e sem Hsem) p tr (b_ins blk) [] cs ast tr cs' Hinv Hast
                  (proj1 Hex) (incl_refl _) k o args Hin) as (cargs & couts & Hi & HF).
      pose proof (emulate_ops p _ _ _ Hast k o args Hin) as Hop.
      destruct (emulate_provenance p _ _ Hast k o args Hin) as (a1 & a2 & _ & HP).
      exists cargs, couts. repeat split; auto.
      - exact (Hnf _ _ _ _ Hi Hop).
      - eapply Forall_impl; [|exact HP]. intros v. apply producer_opsok.
    Qed.

    (* the first operand of a checking instruction: the analysed condition evaluates to its truthiness *)
    Lemma check_sound k o a rest : In (k, o, a :: rest) ast -> is_check o = true ->
      exists c crest couts, In (k, c :: crest, couts) tr /\ op_at p k = Some o /\ fails e o (c :: crest) = false /\
        den cval tr a c /\ opsok p a /\ length crest = length rest /\
        (if truthy c then gamma (fst (ass (cond_of a))) x else gamma (snd (ass (cond_of a))) x).
    Proof.
      intros Hin Hck. destruct (ins_sound k o (a :: rest) Hin) as (cargs & couts & Hi & Hop & Hf & HD & HO).
      inversion HD as [|? c ? crest Hd HD']; subst. inversion HO as [|? ? Oa _]; subst.
      exists c, crest, couts. repeat split; auto.
      - symmetry. exact (Forall2_length' _ _ _ HD').
      - apply (asserted_sound_rel T univ null union inter single V gamma gamma_univ gamma_union_l
                 gamma_union_r gamma_inter x (Lf p tr)).
        + intros op pos args b Hl HL.
          assert (Hh : leaf_hyp op pos args).
          { apply Hleaves. exists ast, k, o, a, rest. auto. }
          unfold sound, Pt, Pf. specialize (Hh b). destruct b; apply Hh; intros E;
            pose proof (Lf_leaf_truth e sem Hsem p tr Htr _ _ _ _ _ HL E) as E'; discriminate.
        + exact (cond_sound e sem Hsem p tr Htr Hnf a Oa c Hd).
    Qed.

    Lemma forallb_truthy_cons c l : negb (forallb truthy (c :: l)) = false -> truthy c = true.
    Proof. simpl. destruct (truthy c); [reflexivity | discriminate]. Qed.

    (* (2) *)
    Theorem block_constraint_sound : forall c, bcst blk = Some c -> gamma c x.
    Proof.
      intros c. unfold block_constraint. rewrite Hast. intros H; inversion H; subst c; clear H.
      assert (G : forall l acc, incl l ast -> gamma acc x ->
                gamma (fold_left
                  (fun acc '(pos, op, args) =>
                     match op with
                     | IAssert => match args with SUnknown :: _ => acc | a :: _ => inter acc (fst (ass (cond_of a))) | [] => acc end
                     | IReturn =>
                         match args with
                         | SUnknown :: _ => acc
                         | (SKnown aop _ _ _ as a) :: _ =>
                             match is_int_push_ins (fn_intcs f) aop with
                             | IntNum 0 => null
                             | _ => inter acc (fst (ass (cond_of a)))
                             end
                         | [] => acc
                         end
                     | IErr | ICustomErr => null
                     | _ => acc
                     end) l acc) x).
      { induction l as [|[[k o] args] l IH]; intros acc Hl Hacc; [exact Hacc|].
        cbn [fold_left]. apply IH; [intros z Hz; apply Hl; right; exact Hz|].
        assert (Hin : In (k, o, args) ast) by (apply Hl; left; reflexivity).
        destruct o; try exact Hacc.
        - (* assert *)
          destruct args as [|a rest]; [exact Hacc|].
          destruct (check_sound k IAssert a rest Hin eq_refl) as (c & crest & couts & _ & _ & Hf & _ & _ & _ & Hg).
          simpl in Hf. rewrite (forallb_truthy_cons _ _ Hf) in Hg.
          destruct a; [exact Hacc | apply gamma_inter; auto].
        - (* err *)
          destruct (ins_sound k IErr args Hin) as (cargs & couts & _ & _ & Hf & _). discriminate.
        - (* return *)
          destruct args as [|a rest]; [exact Hacc|].
          destruct (check_sound k IReturn a rest Hin eq_refl) as (c & crest & couts & _ & _ & Hf & Hd & Oa & _ & Hg).
          simpl in Hf. pose proof (forallb_truthy_cons _ _ Hf) as Ht. rewrite Ht in Hg.
          destruct a as [|aop ap aa au]; [exact Hacc|].
          destruct (is_int_push_ins (fn_intcs f) aop) as [| |[|n]|] eqn:Ei; try (apply gamma_inter; auto).
          exfalso. rewrite Hintcs in Ei.
          pose proof (int_push_eval e aop ap aa au 0%N Ei) as Ev.
          rewrite (tree_value e sem Hsem p tr Htr _ Oa c _ Hd Ev) in Ht. discriminate.
        - (* custom err *)
          destruct (ins_sound k ICustomErr args Hin) as (cargs & couts & _ & _ & Hf & _). discriminate. }
      apply G; [apply incl_refl | apply gamma_univ].
    Qed.

    (* (3) *)
    Lemma nodup2 (d j : nat) r : NoDup (d :: j :: r) -> d <> j.
    Proof. intros H E. inversion H; subst. apply H2. left. reflexivity. Qed.

    Theorem edge_constraint_sound :
      NoDup (b_ins blk) -> NoDup (b_next blk) ->
      (forall l, fexit_op f blk = Some (IBZ l) \/ fexit_op f blk = Some (IBNZ l) -> find_label p l <> None) ->
      forall b' c, branch_ok f blk tr b' -> ecst blk b' = Some c -> gamma c x.
    Proof.
      intros Hnd Hnn Hlab b' c Hbr. unfold edge_constraint.
      destruct (next_global f blk) as [nx|]; [|discriminate].
      destruct (negb (nat_mem b' nx)); [discriminate|].
      assert (U : Some univ = Some c -> gamma c x) by (intros E; inversion E; subst; apply gamma_univ).
      destruct (fexit_op f blk) as [xop|] eqn:Ex; [|exact U].
      destruct (fexit_op_inv _ _ _ Ex) as [Hne Hop].
      rewrite Hast.
      assert (Main : forall l, xop = IBZ l \/ xop = IBNZ l ->
        match args_of ast (last (b_ins blk) 0) with
        | Some (SUnknown :: _) | Some [] | None => Some univ
        | Some (a :: _) =>
            let '(tv, fv) := ass (cond_of a) in
            let is_bz := match xop with IBZ _ => true | _ => false end in
            match b_next blk with
            | [j] =>
                if branch_to_next p xop (last (b_ins blk) 0) then Some univ
                else if Nat.eqb b' j then Some (if is_bz then fv else tv) else Some univ
            | d :: j :: _ =>
                if Nat.eqb b' d then Some (if is_bz then tv else fv)
                else if Nat.eqb b' j then Some (if is_bz then fv else tv)
                else Some univ
            | [] => None
            end
        end = Some c -> gamma c x).
      { intros l Hl.
        assert (Hfl : find_label p l <> None) by (apply Hlab; destruct Hl; subst; auto).
        destruct (args_of ast (last (b_ins blk) 0)) as [[|a rest]|] eqn:Ea; try exact U.
        destruct (args_of_In _ _ _ Ea) as (o & Hin).
        pose proof (emulate_ops p _ _ _ Hast _ _ _ Hin) as Hop'. rewrite Hop in Hop'. inversion Hop'; subst o.
        assert (Hck : is_check xop = true) by (destruct Hl; subst; reflexivity).
        destruct (check_sound _ _ _ _ Hin Hck) as (c0 & crest & couts & Hi & _ & _ & _ & _ & Hlen & Hg).
        pose proof (emulate_args_length_gen p _ _ _ Hast _ _ _ Hin) as Har.
        assert (Hr : rest = []).
        { assert (Hp1 : stack_pop_size xop = Some 1) by (destruct Hl; subst xop; reflexivity).
          rewrite Hp1 in Har. inversion Har as [E0]. destruct rest; [reflexivity | discriminate]. }
        subst rest. destruct crest; [|discriminate].
        destruct (crun_tr_last sem p _ _ _ _ (proj1 Hex) Hne) as (a' & o' & El & Hil).
        destruct (crun_tr_functional cval sem p _ _ _ _ Hnd (proj1 Hex) _ _ _ _ _ Hi Hil) as [<- <-].
        assert (Hpop : popped tr = [c0]) by (unfold popped; rewrite El; reflexivity).
        unfold branch_ok in Hbr. rewrite Ex, Hpop in Hbr.
        destruct a as [|aop ap aa au]; [exact U|].
        destruct (ass (cond_of (SKnown aop ap aa au))) as [tv fv]. cbn [fst snd] in Hg. cbv beta iota zeta.
        set (z := match xop with IBZ _ => true | _ => false end).
        set (jumped := if z then negb (truthy c0) else truthy c0).
        assert (Hj : jump_ok f blk jumped b').
        { unfold jumped, z. destruct Hl; subst xop; exact Hbr. }
        assert (Hg' : gamma (if jumped then (if z then fv else tv) else (if z then tv else fv)) x).
        { unfold jumped, z. destruct Hl; subst xop; destruct (truthy c0); exact Hg. }
        clearbody jumped z. clear Hbr Hg. unfold jump_ok in Hj.
        destruct (b_next blk) as [|d [|j r]] eqn:En; [discriminate| |].
        - (* one successor *)
          destruct (branch_to_next p xop (last (b_ins blk) 0)) eqn:Ei; [exact U|].
          destruct (Nat.eqb b' d); [|exact U].
          assert (Hnn' : exit_to_next f blk = false) by (unfold exit_to_next; rewrite Ex; exact Ei).
          rewrite (Hj Hnn') in Hg'. intros E; inversion E; subst c; exact Hg'.
        - (* fall-through d, jump target j *)
          pose proof (nodup2 _ _ _ Hnn) as Hdj.
          destruct jumped; subst b'.
          + destruct (Nat.eqb_spec j d) as [E|_]; [congruence|]. rewrite Nat.eqb_refl.
            intros E; inversion E; subst; exact Hg'.
          + rewrite Nat.eqb_refl. intros E; inversion E; subst; exact Hg'. }
      destruct xop; try exact U; eapply Main; eauto.
    Qed.
  End Block.
End Generic.

(* ====================================================================== *)
(* E. (4) executions pass the constraints; combination with solve_sound    *)
(* ====================================================================== *)
(* a block that runs has defined arities: the symbolic emulation succeeds on it *)
Lemma crun_emulate sem p : forall poss cs tr fin, crun_tr cval sem p poss cs = Some (tr, fin) ->
  forall st, exists ast, emulate p poss st = Some ast.
Proof.
  induction poss as [|k t IH]; intros cs tr fin H st; [exists []; reflexivity|].
  apply crun_tr_cons_inv in H. destruct H as (op & n & m & tr1 & Hop & Hn & Hm & _ & Hr & _).
  simpl. rewrite Hop. unfold emulate_ins. rewrite Hn, Hm.
  destruct (pop_n st n) as [a s'].
  destruct (IH _ _ _ Hr (push_outs op k a m s')) as [r Er]. rewrite Er. eauto.
Qed.

Lemma passes_cons (f : func) (okb : nat -> Prop) (oke : nat -> nat -> Prop) c c' rest :
  okb (fst c) -> oke (fst c) (fst c') -> run_passes okb oke (c' :: rest) -> run_passes okb oke (c :: c' :: rest).
Proof.
  intros Hb He [H1 H2]. split.
  - intros c0 [<-|Hin]; auto.
  - intros pre a a' post E. destruct pre as [|q pre]; simpl in E; inversion E; subst; auto.
    eapply H2; eauto.
Qed.

Lemma passes_one (okb : nat -> Prop) (oke : nat -> nat -> Prop) (c : rconfig) :
  okb (fst c) -> run_passes okb oke [c].
Proof.
  intros Hb. split.
  - intros c0 [<-|[]]; auto.
  - intros pre a a' post E. destruct pre as [|q [|q' pre]]; simpl in E; inversion E.
Qed.

Section ExecRuns.
  Variable e : env.
  Variable sem : opsem.
  Variable f : func.

  Lemma ExecFrom_head c cs cfgs : ExecFrom e sem f c cs cfgs -> exists rest, cfgs = c :: rest.
  Proof. intros H; inversion H; subst; eauto. Qed.

  Lemma ExecFrom_RunFrom c cs cfgs : ExecFrom e sem f c cs cfgs -> RunFrom f c cfgs.
  Proof. induction 1; [constructor | econstructor; eauto]. Qed.

  Lemma Exec_Run cfgs : Exec e sem f cfgs -> Run f cfgs.
  Proof. apply ExecFrom_RunFrom. Qed.
End ExecRuns.

(* graph hypotheses of RunLemmas.solve_sound and of section D, bundled *)
Record graph_ok (f : func) : Prop := {
  g_cover_prev : cover_prev_P f;
  g_cover_ret : cover_ret_P f;
  g_cover_next : cover_next_P f;
  g_cover_call : cover_call_P f;
  g_entry_ok : entry_ok_P f;
  g_target_not_rp : target_not_rp_P f;
  g_sub_entry_in : sub_entry_in_P f;
  g_sub_closed : sub_closed_P f;
  g_ret_in_next : ret_in_next_P f;
  g_fwd_wl : forall b, In b (ids f) -> In b (forward_worklist f);
  g_bwd_wl : forall b xb, fblock f b = Some xb -> leaf_global f xb = false -> In b (backward_worklist f);
  g_ins_nodup : ins_nodup_P f;
  g_next_nodup : next_nodup_P f;
  g_branch_labels : branch_labels_P f }.

Section GenericRun.
  Variable T : Type.
  Variable t_eqb : T -> T -> bool.
  Variable univ null : T.
  Variable union inter : T -> T -> T.
  Variable single : instr -> nat -> list sval -> T * T.
  Variable V : Type.
  Variable gamma : T -> V -> Prop.
  Hypothesis gamma_univ : forall x, gamma univ x.
  Hypothesis gamma_union_l : forall a b x, gamma a x -> gamma (union a b) x.
  Hypothesis gamma_union_r : forall a b x, gamma b x -> gamma (union a b) x.
  Hypothesis gamma_inter : forall a b x, gamma a x -> gamma b x -> gamma (inter a b) x.
  Hypothesis gamma_eqb : forall a b x, t_eqb a b = true -> (gamma a x <-> gamma b x).
  Hypothesis teq_refl : forall a, t_eqb a a = true.

  Variable e : env.
  Variable sem : opsem.
  Hypothesis Hsem : sem_ok e sem.
  Variable f : func.
  Hypothesis Hintcs : fn_intcs f = e_intcs e.
  Hypothesis Hg : graph_ok f.
  Variable x : V.
  Hypothesis Hleaves : forall op pos args, prog_leaf f op pos args ->
    leaf_hyp T single V gamma e x op pos args.

  Notation p := (fn_prog f).
  Notation bcst := (block_constraint T univ null union inter single f).
  Notation okb' := (okb T V gamma x).
  Notation oke' := (oke T univ null union inter single f V gamma x).

  Lemma block_leaves b blk : fblock f b = Some blk ->
    forall op pos args, block_leaf f blk op pos args -> leaf_hyp T single V gamma e x op pos args.
  Proof. intros Hb op pos args H. apply Hleaves. exists b, blk. auto. Qed.

  (* every executed block passes its own block-level constraint *)
  Lemma exec_block_constraint b blk cs tr cs' c :
    fblock f b = Some blk -> bexec e sem p blk cs tr cs' -> bcst blk = Some c -> gamma c x.
  Proof.
    intros Hb Hex Hc. destruct (crun_emulate sem p _ _ _ _ (proj1 Hex) []) as [ast Hast].
    exact (block_constraint_sound T univ null union inter single V gamma gamma_univ gamma_union_l gamma_union_r
             gamma_inter e sem Hsem f Hintcs x blk cs cs' tr Hex (block_leaves b blk Hb) ast Hast c Hc).
  Qed.

  (* every step of an execution passes the constraint of the edge it takes *)
  Lemma exec_edge_constraint b blk cs tr cs' b' :
    fblock f b = Some blk -> bexec e sem p blk cs tr cs' -> branch_ok f blk tr b' -> oke' b b'.
  Proof.
    intros Hb Hex Hbr pb c Hpb Hc. rewrite Hb in Hpb. inversion Hpb; subst pb.
    destruct (crun_emulate sem p _ _ _ _ (proj1 Hex) []) as [ast Hast].
    refine (edge_constraint_sound T univ null union inter single V gamma gamma_univ gamma_union_l gamma_union_r
             gamma_inter e sem Hsem f x blk cs cs' tr Hex (block_leaves b blk Hb) ast Hast
             (g_ins_nodup f Hg b blk Hb) (g_next_nodup f Hg b blk Hb) _ b' c Hbr Hc).
    intros l Hl. exact (g_branch_labels f Hg b blk l Hb Hl).
  Qed.

  (* block-level constraints bc (init_constraints, or its refinement for at-index keys) *)
  Variable bc : list (nat * T).
  (* every block of the run that executes is passed by bc *)
  Definition blocks_pass (cfgs : list rconfig) : Prop :=
    forall c0 blk cs tr cs', In c0 cfgs -> fblock f (fst c0) = Some blk -> bexec e sem p blk cs tr cs' -> okb' bc (fst c0).

  (* (4) *)
  Theorem exec_run_passes : forall c cs cfgs, ExecFrom e sem f c cs cfgs -> blocks_pass cfgs ->
    run_passes (okb' bc) oke' cfgs.
  Proof.
    induction 1 as [c cs blk tr cs' Hb Hex | c c' rest cs blk tr cs' Hb Hex Hstep Hbr Hrest IH]; intros Hbc.
    - apply passes_one. eapply Hbc; eauto. left; reflexivity.
    - destruct (ExecFrom_head _ _ _ _ _ _ Hrest) as [rest' ->].
      apply (passes_cons f); auto.
      + eapply Hbc; eauto. left; reflexivity.
      + destruct c as [b st]. eapply exec_edge_constraint; eauto.
      + apply IH. intros c0 blk0 cs0 tr0 cs0' Hin. apply Hbc. right. exact Hin.
  Qed.

  (* (5), generic: the concrete value is in the result of every block visited by an accepting execution *)
  Theorem exec_solve_sound fuel lo cfgs :
    solve T t_eqb univ null union inter single f fuel bc = Done lo ->
    Accepts e sem f cfgs -> blocks_pass cfgs ->
    forall b st, In (b, st) cfgs -> exists v, lookup T lo b = Some v /\ gamma v x.
  Proof.
    intros Hs (Hexec & Hacc & Hret & _) Hbc b st Hin.
    exact (solve_sound T t_eqb univ null union inter single f V gamma x (gamma_univ x)
             (fun a b => gamma_union_l a b x) (fun a b => gamma_union_r a b x) (fun a b => gamma_inter a b x)
             (fun a b => gamma_eqb a b x) bc teq_refl
             (g_cover_prev f Hg) (g_cover_ret f Hg) (g_cover_next f Hg) (g_cover_call f Hg) (g_entry_ok f Hg)
             (g_target_not_rp f Hg) (g_sub_entry_in f Hg) (g_sub_closed f Hg) (g_ret_in_next f Hg)
             fuel lo cfgs (g_fwd_wl f Hg) (g_bwd_wl f Hg) Hs Hacc Hret
             (exec_run_passes _ _ _ Hexec Hbc) b st Hin).
  Qed.
End GenericRun.

(* init_constraints lists, for every block, its block constraint *)
Lemma init_lookup T univ null union inter single f bc b blk :
  init_constraints T univ null union inter single f = Some bc -> fblock f b = Some blk ->
  exists c, lookup T bc b = Some c /\ block_constraint T univ null union inter single f blk = Some c.
Proof.
  unfold init_constraints, fblock. destruct (forallb _ (fn_blocks f)); [|discriminate].
  unfold all_some. generalize (fn_blocks f) bc. clear bc.
  induction l as [|a l IH]; intros bc H Hf; [discriminate|].
  cbn [map map_opt] in H.
  destruct (block_constraint T univ null union inter single f a) as [ca|] eqn:Ea; [|discriminate].
  cbn [option_map] in H.
  destruct (map_opt (fun x => x) (map _ l)) as [r|] eqn:Er; [|discriminate].
  inversion H; subst bc. cbn [find] in Hf. cbn [lookup].
  destruct (Nat.eqb (b_idx a) b).
  - inversion Hf; subst. eauto.
  - apply IH; auto.
Qed.

Section PlainRun.
  Variable T : Type.
  Variable t_eqb : T -> T -> bool.
  Variable univ null : T.
  Variable union inter : T -> T -> T.
  Variable single : instr -> nat -> list sval -> T * T.
  Variable V : Type.
  Variable gamma : T -> V -> Prop.
  Hypothesis gamma_univ : forall x, gamma univ x.
  Hypothesis gamma_union_l : forall a b x, gamma a x -> gamma (union a b) x.
  Hypothesis gamma_union_r : forall a b x, gamma b x -> gamma (union a b) x.
  Hypothesis gamma_inter : forall a b x, gamma a x -> gamma b x -> gamma (inter a b) x.
  Hypothesis gamma_eqb : forall a b x, t_eqb a b = true -> (gamma a x <-> gamma b x).
  Hypothesis teq_refl : forall a, t_eqb a a = true.

  (* run_analysis for one key: init_constraints then solve *)
  Theorem analysis_sound e sem f x bc fuel lo cfgs :
    sem_ok e sem -> fn_intcs f = e_intcs e -> graph_ok f ->
    (forall op pos args, prog_leaf f op pos args -> leaf_hyp T single V gamma e x op pos args) ->
    init_constraints T univ null union inter single f = Some bc ->
    solve T t_eqb univ null union inter single f fuel bc = Done lo ->
    Accepts e sem f cfgs ->
    forall b st, In (b, st) cfgs -> exists v, lookup T lo b = Some v /\ gamma v x.
  Proof.
    intros Hsem Hi Hg Hl Hinit Hs Hacc.
    apply (exec_solve_sound T t_eqb univ null union inter single V gamma gamma_univ gamma_union_l gamma_union_r
             gamma_inter gamma_eqb teq_refl e sem Hsem f Hg x Hl bc) with (fuel := fuel); auto.
    intros [b0 st0] blk cs tr cs' _ Hb Hex. simpl in *.
    destruct (init_lookup _ _ _ _ _ _ _ _ _ _ Hinit Hb) as (c & Hc & Hbcst).
    exists c. split; [exact Hc|].
    eapply (exec_block_constraint T univ null union inter single V gamma); eauto.
  Qed.
End PlainRun.

(* ====================================================================== *)
(* F. (5) the per-domain theorems                                          *)
(* ====================================================================== *)
Local Open Scope string_scope.

(* ---------------------------------------------------------------- fee_field *)
(* every checked comparison involving the key's Fee compares it with an integer constant known to the tool
   (SingleLemmas.const_compared, see fee_unknown_heuristic_refuted), and contains no array-field reads *)
Definition fee_leaves_ok (f : func) (fam : keyfam) : Prop :=
  forall op pos args, prog_leaf f op pos args ->
    const_compared (fn_intcs f) fam "Fee" args /\ forallb tree_wf args = true.

Lemma feeval_eqb_gamma : forall a b (x : fee_val), feeval_eqb a b = true -> (fgamma a x <-> fgamma b x).
Proof. intros a b x H. apply feeval_eqb_spec in H. subst. tauto. Qed.

(* the analysis of one fee key, for the families whose block constraints are not refined (KSelf, KAbs, KRel) *)
Theorem fee_analysis_sound e sem f fam t fee bc fuel lo cfgs :
  sem_ok e sem -> env_ok e -> fn_intcs f = e_intcs e -> graph_ok f ->
  key_txn e fam = Some t -> e_field e t "Fee" = VInt fee -> (0 <= fee <= MAX_UINT64z)%Z ->
  fee_leaves_ok f fam ->
  init_constraints feeval fee_universal_set fee_null_set fee_union fee_intersection
    (fee_single (fn_intcs f) fam) f = Some bc ->
  solve feeval feeval_eqb fee_universal_set fee_null_set fee_union fee_intersection
    (fee_single (fn_intcs f) fam) f fuel bc = Done lo ->
  Accepts e sem f cfgs ->
  forall b st, In (b, st) cfgs -> exists v, lookup feeval lo b = Some v /\ fee_gamma v fee.
Proof.
  intros Hsem Hok Hi Hg Hk Hf Hr Hl Hinit Hs Hacc b st Hin.
  exact (analysis_sound feeval feeval_eqb fee_universal_set fee_null_set fee_union fee_intersection
           (fee_single (fn_intcs f) fam) fee_val fgamma fgamma_univ fgamma_union_l fgamma_union_r fgamma_inter
           feeval_eqb_gamma feeval_eqb_refl e sem f (exist _ fee Hr) bc fuel lo cfgs Hsem Hi Hg
           (fun op pos args Hp b0 Hb =>
              eq_ind_r (fun ic => fee_gamma (if b0 then fst (fee_single ic fam op pos args)
                                             else snd (fee_single ic fam op pos args)) fee)
                (fee_single_sound_total e fam op pos args t fee b0 Hok (proj2 (Hl op pos args Hp)) Hk Hf Hr
                   (eq_ind (fn_intcs f) (fun ic => const_compared ic fam "Fee" args)
                           (proj1 (Hl op pos args Hp)) _ Hi) Hb) Hi)
           Hinit Hs Hacc b st Hin).
Qed.

(* C09: the bound recorded for a block is an upper bound on the fee of the transaction running the program *)
Theorem C09_sound e sem f fee bc fuel lo cfgs :
  sem_ok e sem -> env_ok e -> fn_intcs f = e_intcs e -> graph_ok f ->
  e_field e (e_own e) "Fee" = VInt fee -> (0 <= fee <= MAX_UINT64z)%Z ->
  fee_leaves_ok f KSelf ->
  init_constraints feeval fee_universal_set fee_null_set fee_union fee_intersection
    (fee_single (fn_intcs f) KSelf) f = Some bc ->
  solve feeval feeval_eqb fee_universal_set fee_null_set fee_union fee_intersection
    (fee_single (fn_intcs f) KSelf) f fuel bc = Done lo ->
  Accepts e sem f cfgs ->
  forall b st, In (b, st) cfgs -> exists v, lookup feeval lo b = Some v /\ fee_gamma v fee.
Proof. intros Hsem Hok Hi Hg. exact (fee_analysis_sound e sem f KSelf (e_own e) fee bc fuel lo cfgs Hsem Hok Hi Hg eq_refl). Qed.

(* ---------------------------------------------------------------- int_fields *)
(* no checked comparison has the D2 shape  <constant> <,<=,>,>= <field>  (SingleLemmas.mirrored_ordered) *)
Definition int_leaves_ok (f : func) (sz : bool) : Prop :=
  forall op pos args, prog_leaf f op pos args ->
    mirrored_ordered sz (fn_intcs f) op args = false /\ forallb tree_wf args = true.

Lemma zset_eqb_gamma U : forall a b (x : inU U), zset_eqb a b = true -> (zgamma U a x <-> zgamma U b x).
Proof. intros a b x H. unfold zgamma. apply (proj1 (zset_eqb_spec a b) H). Qed.
Lemma zset_eqb_refl : forall a, zset_eqb a a = true.
Proof. intros a. apply zset_eqb_spec. tauto. Qed.

(* C06 (sz = true: GroupSize, sz = false: GroupIndex), with the D2 exclusion *)
Theorem C06_sound_partial e sem f sz fuel lo cfgs :
  sem_ok e sem -> env_ok e -> fn_intcs f = e_intcs e -> graph_ok f ->
  int_leaves_ok f sz ->
  run_int f fuel sz = Done lo ->
  Accepts e sem f cfgs ->
  forall b st, In (b, st) cfgs -> exists v, lookup (list Z) lo b = Some v /\ In (int_value sz e) v.
Proof.
  intros Hsem Hok Hi Hg Hl Hrun Hacc b st Hin. unfold run_int in Hrun.
  change (if sz then int_universal_groupsize else int_universal_groupindex) with (int_U sz) in Hrun.
  destruct (init_constraints (list Z) (int_U sz) [] zunion zinter (int_single sz (fn_intcs f)) f) as [bc|] eqn:Hinit;
    [|discriminate].
  exact (analysis_sound (list Z) zset_eqb (int_U sz) [] zunion zinter (int_single sz (fn_intcs f))
           (inU (int_U sz)) (zgamma (int_U sz)) (zgamma_univ _) (zgamma_union_l _) (zgamma_union_r _) (zgamma_inter _)
           (zset_eqb_gamma _) zset_eqb_refl e sem f (exist _ (int_value sz e) (int_value_in_U sz e Hok))
           bc fuel lo cfgs Hsem Hi Hg
           (fun op pos args Hp b0 Hb =>
              eq_ind_r (fun ic => In (int_value sz e) (if b0 then fst (int_single sz ic op pos args)
                                                      else snd (int_single sz ic op pos args)))
                (int_single_sound_partial_total sz e op pos args b0 Hok (proj2 (Hl op pos args Hp))
                   (eq_ind (fn_intcs f) (fun ic => mirrored_ordered sz ic op args = false)
                           (proj1 (Hl op pos args Hp)) _ Hi) Hb) Hi)
           Hinit Hrun Hacc b st Hin).
Qed.

(* ---------------------------------------------------------------- addr_fields *)
(* The solver runs on raw string sets, on which addr_gamma obeys the lattice laws only for well-formed
   values (LeafLemmas.addr_intersection_exact_nowf_refuted).  The concretisation below reads a set containing
   NO_ADDRESS as empty; it obeys the laws on ALL sets, implies addr_gamma, and coincides with it on
   well-formed sets. *)
Definition rgamma (s : sset) (n : Instances.addr_name) : Prop :=
  smem NO_ADDRESS s = false /\ (smem ANY_ADDRESS s = true \/ smem (proj1_sig n) s = true).

Lemma rgamma_addr s n : rgamma s n -> addr_gamma s (proj1_sig n).
Proof. intros [_ H]. split; [exact (proj2_sig n) | exact H]. Qed.

Lemma addr_rgamma s n : addr_wf s -> addr_gamma s (proj1_sig n) -> rgamma s n.
Proof.
  intros Hw Hg. split; [|exact (proj2 Hg)].
  destruct (smem NO_ADDRESS s) eqn:E; [|reflexivity].
  rewrite (addr_wf_NO s Hw E) in Hg. exfalso. exact (addr_null_gamma _ Hg).
Qed.

Lemma rgamma_univ : forall n, rgamma addr_universal_set n.
Proof. intros n. split; [reflexivity | left; reflexivity]. Qed.

Lemma smem_true_In x s : smem x s = true -> In x s. Proof. apply smem_In. Qed.
Lemma In_smem_true x s : In x s -> smem x s = true. Proof. apply smem_In. Qed.

Lemma rgamma_union_l : forall a b n, rgamma a n -> rgamma (addr_union a b) n.
Proof.
  intros a b n [Na H]. unfold addr_union. change (@mem_any string Mem_string) with smem.
  destruct (smem ANY_ADDRESS a) eqn:Aa; [apply rgamma_univ|].
  destruct (smem ANY_ADDRESS b) eqn:Ab; [apply rgamma_univ|]. cbn [orb]. rewrite Na. cbn [andb].
  destruct H as [H|H]; [discriminate|].
  destruct (smem NO_ADDRESS b) eqn:Nb; [split; auto|].
  split.
  - apply smem_false. rewrite set_union_In. apply smem_false in Na, Nb. tauto.
  - right. apply In_smem_true. rewrite set_union_In. left. apply smem_true_In. exact H.
Qed.

Lemma rgamma_union_r : forall a b n, rgamma b n -> rgamma (addr_union a b) n.
Proof.
  intros a b n [Nb H]. unfold addr_union. change (@mem_any string Mem_string) with smem.
  destruct (smem ANY_ADDRESS a) eqn:Aa; [apply rgamma_univ|].
  destruct (smem ANY_ADDRESS b) eqn:Ab; [apply rgamma_univ|]. cbn [orb]. rewrite Nb.
  destruct H as [H|H]; [discriminate|].
  destruct (smem NO_ADDRESS a) eqn:Na; cbn [andb]; [split; auto|].
  split.
  - apply smem_false. rewrite set_union_In. apply smem_false in Na, Nb. tauto.
  - right. apply In_smem_true. rewrite set_union_In. right. apply smem_true_In. exact H.
Qed.

Lemma rgamma_inter : forall a b n, rgamma a n -> rgamma b n -> rgamma (addr_intersection a b) n.
Proof.
  intros a b n [Na Ha] [Nb Hb]. unfold addr_intersection. change (@mem_any string Mem_string) with smem.
  rewrite Na, Nb. cbn [orb].
  destruct (smem ANY_ADDRESS a) eqn:Aa; destruct (smem ANY_ADDRESS b) eqn:Ab; cbn [andb].
  - apply rgamma_univ.
  - destruct Hb as [Hb|Hb]; [discriminate|]. split.
    + apply smem_false. rewrite set_of_list_In. apply smem_false in Nb. exact Nb.
    + right. apply In_smem_true. rewrite set_of_list_In. apply smem_true_In. exact Hb.
  - destruct Ha as [Ha|Ha]; [discriminate|]. split.
    + apply smem_false. rewrite set_of_list_In. apply smem_false in Na. exact Na.
    + right. apply In_smem_true. rewrite set_of_list_In. apply smem_true_In. exact Ha.
  - destruct Ha as [Ha|Ha]; [discriminate|]. destruct Hb as [Hb|Hb]; [discriminate|]. split.
    + apply smem_false. rewrite set_inter_In. apply smem_false in Na. tauto.
    + right. apply In_smem_true. rewrite set_inter_In. split; apply smem_true_In; assumption.
Qed.

Lemma smem_ext a b : (forall x, In x a <-> In x b) -> forall x, smem x a = smem x b.
Proof.
  intros H x. destruct (smem x b) eqn:E.
  - apply smem_In, H, smem_In. exact E.
  - apply smem_false. intros Hin. apply smem_false in E. apply E, H, Hin.
Qed.

Lemma sset_seteqb_rgamma : forall a b n, sset_seteqb a b = true -> (rgamma a n <-> rgamma b n).
Proof.
  intros a b n H. pose proof (smem_ext a b (proj1 (sset_seteqb_spec a b) H)) as E.
  unfold rgamma. rewrite !E. tauto.
Qed.
Lemma sset_seteqb_refl : forall a, sset_seteqb a a = true.
Proof. intros a. apply sset_seteqb_spec. tauto. Qed.

(* every checked comparison involving the key's field compares it with global ZeroAddress, global
   CreatorAddress or an address literal (addr_const_compared); the tool's ZERO_ADDRESS literal, if used,
   denotes the zero address (D19); the creator's address is not spelled as a literal *)
Definition addr_leaves_ok (e : env) (f : func) (fam : keyfam) (fld : string) : Prop :=
  forall op pos args, prog_leaf f op pos args ->
    addr_const_compared (fn_intcs f) fam fld args /\ zero_literal_ok args /\ creator_not_literal e args /\
    forallb tree_wf args = true.

Theorem addr_analysis_sound e sem f fam fld t a bc fuel lo cfgs :
  sem_ok e sem -> env_ok e -> fn_intcs f = e_intcs e -> graph_ok f ->
  In fld addr_fields_list ->
  key_txn e fam = Some t -> e_field e t fld = VAddr a -> a <> "ZERO" -> is_marker a = false ->
  addr_leaves_ok e f fam fld ->
  init_constraints sset addr_universal_set addr_null_set addr_union addr_intersection
    (addr_single (fn_intcs f) fam fld) f = Some bc ->
  solve sset sset_seteqb addr_universal_set addr_null_set addr_union addr_intersection
    (addr_single (fn_intcs f) fam fld) f fuel bc = Done lo ->
  Accepts e sem f cfgs ->
  forall b st, In (b, st) cfgs -> exists v, lookup sset lo b = Some v /\ addr_gamma v (abs_name e a).
Proof.
  intros Hsem Hok Hi Hg Hfld Hk Hf Ha Hm Hl Hinit Hs Hacc b st Hin.
  set (x := exist (fun n => is_marker n = false) (abs_name e a) (abs_name_not_marker e a Hm) : Instances.addr_name).
  destruct (analysis_sound sset sset_seteqb addr_universal_set addr_null_set addr_union addr_intersection
              (addr_single (fn_intcs f) fam fld) Instances.addr_name rgamma rgamma_univ rgamma_union_l rgamma_union_r
              rgamma_inter sset_seteqb_rgamma sset_seteqb_refl e sem f x bc fuel lo cfgs Hsem Hi Hg) with (b := b) (st := st)
    as (v & Hv & Hgv); auto.
  - intros op pos args Hp b0 Hb. destruct (Hl op pos args Hp) as (Hcc & Hz & Hcr & Hw).
    rewrite Hi in *.
    destruct (addr_single_wf (e_intcs e) fam fld op pos args) as [W1 W2].
    pose proof (addr_single_sound_total e fam fld op pos args t a b0 Hok Hw
                  (addr_fields_not_groupindex fld Hfld) Hk Hf Ha Hm Hcc Hz Hcr Hb) as HS.
    cbv zeta in HS. destruct b0; apply addr_rgamma; assumption.
  - exists v. split; [exact Hv|]. exact (rgamma_addr v x Hgv).
Qed.

(* C08: the set recorded for a block and an address field contains (the abstract name of) the non-zero
   address the own transaction carries in that field *)
Theorem C08_sound_partial e sem f fld a bc fuel lo cfgs :
  sem_ok e sem -> env_ok e -> fn_intcs f = e_intcs e -> graph_ok f ->
  In fld addr_fields_list ->
  e_field e (e_own e) fld = VAddr a -> a <> "ZERO" -> is_marker a = false ->
  addr_leaves_ok e f KSelf fld ->
  init_constraints sset addr_universal_set addr_null_set addr_union addr_intersection
    (addr_single (fn_intcs f) KSelf fld) f = Some bc ->
  solve sset sset_seteqb addr_universal_set addr_null_set addr_union addr_intersection
    (addr_single (fn_intcs f) KSelf fld) f fuel bc = Done lo ->
  Accepts e sem f cfgs ->
  forall b st, In (b, st) cfgs -> exists v, lookup sset lo b = Some v /\ addr_gamma v (abs_name e a).
Proof.
  intros Hsem Hok Hi Hg Hfld.
  exact (addr_analysis_sound e sem f KSelf fld (e_own e) a bc fuel lo cfgs Hsem Hok Hi Hg Hfld eq_refl).
Qed.

(* ====================================================================== *)
(* G. C10: the group-transaction key families of Domains.run_family         *)
(* ====================================================================== *)
Lemma seq_outcomes_inv {A B} (g : A -> outcome B) : forall (l : list A) rs,
  seq_outcomes l g = Done rs -> forall b, In b rs -> exists a, In a l /\ g a = Done b.
Proof.
  unfold seq_outcomes. induction l as [|a l IH]; simpl; intros rs H b Hb.
  - inversion H; subst. destruct Hb.
  - destruct (fold_right _ (Done []) l) as [r| |] eqn:E; try discriminate.
    destruct (g a) as [y| |] eqn:Ea; try discriminate. inversion H; subst.
    destruct Hb as [<-|Hb]; [eauto|]. destruct (IH r eq_refl b Hb) as (a' & Hin & Ha'). eauto.
Qed.

(* the refinement of the block constraints of an at-index key (Domains.run_family) *)
Definition refine_at {T} (inter : T -> T -> T) (null : T) (indices : list (nat * list Z)) (base : list (nat * T))
           (i : N) (bc : list (nat * T)) : list (nat * T) :=
  map (fun '(b, c) =>
         let gi := match Analysis.lookup _ indices b with Some l => l | None => [] end in
         if zmem (Z.of_N i) gi
         then (b, inter c (match Analysis.lookup _ base b with Some v => v | None => null end))
         else (b, null)) bc.

Lemma lookup_refine_at {T} (inter : T -> T -> T) null indices base i : forall bc b c,
  lookup T bc b = Some c ->
  lookup T (refine_at inter null indices base i bc) b =
  Some (if zmem (Z.of_N i) (match lookup _ indices b with Some l => l | None => [] end)
        then inter c (match lookup _ base b with Some v => v | None => null end) else null).
Proof.
  induction bc as [|[k w] bc IH]; intros b c H; [discriminate|].
  cbn [refine_at map]. cbn [lookup] in H.
  destruct (zmem (Z.of_N i) (match lookup _ indices k with Some l => l | None => [] end)) eqn:Ez;
    cbn [lookup]; destruct (Nat.eqb_spec k b) as [->|Hne].
  - inversion H; subst. rewrite Ez. reflexivity.
  - apply IH; exact H.
  - inversion H; subst. rewrite Ez. reflexivity.
  - apply IH; exact H.
Qed.

(* the possible own indices recorded for the blocks of the run contain i *)
Definition index_sound (indices : list (nat * list Z)) (i : N) (cfgs : list rconfig) : Prop :=
  forall b st, In (b, st) cfgs -> exists gi, lookup (list Z) indices b = Some gi /\ In (Z.of_N i) gi.

Section Family.
  Variable T : Type.
  Variable t_eqb : T -> T -> bool.
  Variable univ null : T.
  Variable union inter : T -> T -> T.
  Variable single : keyfam -> instr -> nat -> list sval -> T * T.
  Variable V : Type.
  Variable gamma : T -> V -> Prop.
  Hypothesis gamma_univ : forall x, gamma univ x.
  Hypothesis gamma_union_l : forall a b x, gamma a x -> gamma (union a b) x.
  Hypothesis gamma_union_r : forall a b x, gamma b x -> gamma (union a b) x.
  Hypothesis gamma_inter : forall a b x, gamma a x -> gamma b x -> gamma (inter a b) x.
  Hypothesis gamma_eqb : forall a b x, t_eqb a b = true -> (gamma a x <-> gamma b x).
  Hypothesis teq_refl : forall a, t_eqb a a = true.

  Notation init fam f := (init_constraints T univ null union inter (single fam) f).
  Notation slv fam f := (solve T t_eqb univ null union inter (single fam) f).

  (* what run_family computes for each key family *)
  Lemma run_family_inv f fuel indices res :
    run_family f fuel t_eqb univ null union inter single indices = Done res ->
    exists bc0 base rest, init KSelf f = Some bc0 /\ slv KSelf f fuel bc0 = Done base /\ res = (KSelf, base) :: rest /\
      forall fam r, In (fam, r) rest ->
        exists bc, init fam f = Some bc /\
          slv fam f fuel (match fam with KAtIndex i => refine_at inter null indices base i bc | _ => bc end) = Done r.
  Proof.
    unfold run_family. intros H.
    destruct (init KSelf f) as [bc0|] eqn:E0; [|discriminate].
    destruct (slv KSelf f fuel bc0) as [base| |] eqn:Eb; try discriminate.
    match type of H with match ?S with _ => _ end = _ => destruct S as [rest| |] eqn:Er; try discriminate end.
    inversion H; subst res. exists bc0, base, rest. repeat split; auto.
    intros fam r Hin. destruct (seq_outcomes_inv _ _ _ Er _ Hin) as (fam' & _ & Hg).
    destruct (init fam' f) as [bc|] eqn:Ei; [|discriminate].
    match type of Hg with match ?S with _ => _ end = _ => destruct S as [r'| |] eqn:Es; try discriminate end.
    inversion Hg; subst. exists bc. split; [exact Ei|]. destruct fam; exact Es.
  Qed.

  Variable e : env.
  Variable sem : opsem.
  Variable f : func.
  Variable x : V.
  Hypothesis Hsem : sem_ok e sem.
  Hypothesis Hintcs : fn_intcs f = e_intcs e.
  Hypothesis Hg : graph_ok f.

  Definition fam_leaves (fam : keyfam) : Prop :=
    forall op pos args, prog_leaf f op pos args -> leaf_hyp T (single fam) V gamma e x op pos args.

  (* every entry of the result of run_family is sound for the value x of the key's field, provided the
     leaves are (for an at-index key: for the base key as well, and the recorded indices contain i) *)
  Theorem run_family_sound fuel indices res fam r cfgs :
    run_family f fuel t_eqb univ null union inter single indices = Done res ->
    In (fam, r) res ->
    fam_leaves fam ->
    match fam with KAtIndex i => fam_leaves KSelf /\ index_sound indices i cfgs | _ => True end ->
    Accepts e sem f cfgs ->
    forall b st, In (b, st) cfgs -> exists v, lookup T r b = Some v /\ gamma v x.
  Proof.
    intros Hrun Hin Hl Hat Hacc.
    destruct (run_family_inv f fuel indices res Hrun) as (bc0 & base & rest & E0 & Eb & -> & Hrest).
    assert (Hplain : forall fam' bc' r', fam_leaves fam' -> init fam' f = Some bc' -> slv fam' f fuel bc' = Done r' ->
              forall b st, In (b, st) cfgs -> exists v, lookup T r' b = Some v /\ gamma v x).
    { intros fam' bc' r' Hl' Hi' Hs'.
      exact (analysis_sound T t_eqb univ null union inter (single fam') V gamma gamma_univ gamma_union_l gamma_union_r
               gamma_inter gamma_eqb teq_refl e sem f x bc' fuel r' cfgs Hsem Hintcs Hg Hl' Hi' Hs' Hacc). }
    destruct Hin as [E|Hin]; [inversion E; subst; eapply Hplain; eauto|].
    destruct (Hrest fam r Hin) as (bc & Ei & Es).
    destruct fam as [|i|i|k]; try solve [eapply Hplain; eauto].
    destruct Hat as [Hself Hidx].
    pose proof (Hplain KSelf bc0 base Hself E0 Eb) as Hbase.
    apply (exec_solve_sound T t_eqb univ null union inter (single (KAtIndex i)) V gamma gamma_univ gamma_union_l
             gamma_union_r gamma_inter gamma_eqb teq_refl e sem Hsem f Hg x Hl
             (refine_at inter null indices base i bc)) with (fuel := fuel); auto.
    intros [b0 st0] blk cs tr cs' Hc0 Hb Hex. simpl in *.
    destruct (init_lookup _ _ _ _ _ _ _ _ _ _ Ei Hb) as (c & Hc & Hbcst).
    destruct (Hidx b0 st0 Hc0) as (gi & Egi & Hgi).
    destruct (Hbase b0 st0 Hc0) as (vb & Evb & Hvb).
    exists (inter c vb). split.
    - rewrite (lookup_refine_at inter null indices base i bc b0 c Hc), Egi, Evb.
      rewrite (proj2 (zmem_In _ _) Hgi). reflexivity.
    - apply gamma_inter; [|exact Hvb].
      eapply (exec_block_constraint T univ null union inter (single (KAtIndex i)) V gamma); eauto.
  Qed.
End Family.

(* ---------------------------------------------------------------- the leaf obligations of the three domains *)
Lemma fee_leaf_hyp e f fam t fee (Hr : (0 <= fee <= MAX_UINT64z)%Z) :
  env_ok e -> fn_intcs f = e_intcs e -> key_txn e fam = Some t -> e_field e t "Fee" = VInt fee ->
  fee_leaves_ok f fam ->
  forall op pos args, prog_leaf f op pos args ->
    leaf_hyp feeval (fee_single (fn_intcs f) fam) fee_val fgamma e (exist _ fee Hr) op pos args.
Proof.
  intros Hok Hi Hk Hf Hl op pos args Hp b Hb. destruct (Hl op pos args Hp) as [Hcc Hw]. rewrite Hi in *.
  exact (fee_single_sound_total e fam op pos args t fee b Hok Hw Hk Hf Hr Hcc Hb).
Qed.

Lemma addr_leaf_hyp e f fam fld t a (Hm : is_marker a = false) :
  env_ok e -> fn_intcs f = e_intcs e -> In fld addr_fields_list ->
  key_txn e fam = Some t -> e_field e t fld = VAddr a -> a <> "ZERO" ->
  addr_leaves_ok e f fam fld ->
  forall op pos args, prog_leaf f op pos args ->
    leaf_hyp sset (addr_single (fn_intcs f) fam fld) Instances.addr_name rgamma e
             (exist (fun n => is_marker n = false) (abs_name e a) (abs_name_not_marker e a Hm)) op pos args.
Proof.
  intros Hok Hi Hfld Hk Hf Ha Hl op pos args Hp b0 Hb. destruct (Hl op pos args Hp) as (Hcc & Hz & Hcr & Hw).
  rewrite Hi in *.
  destruct (addr_single_wf (e_intcs e) fam fld op pos args) as [W1 W2].
  pose proof (addr_single_sound_total e fam fld op pos args t a b0 Hok Hw
                (addr_fields_not_groupindex fld Hfld) Hk Hf Ha Hm Hcc Hz Hcr Hb) as HS.
  cbv zeta in HS. destruct b0; apply addr_rgamma; assumption.
Qed.

Lemma key_txn_at_index e i t : key_txn e (KAtIndex i) = Some t -> e_own e = i /\ key_txn e KSelf = Some t.
Proof.
  cbn [key_txn]. destruct (N.eqb_spec (e_own e) i) as [E|E]; [|discriminate]. intros H. auto.
Qed.

(* C10, fee: every entry (family, result) computed by run_family for the fee field *)
Theorem C10_fee_sound e sem f fuel indices res fam r t fee cfgs :
  sem_ok e sem -> env_ok e -> fn_intcs f = e_intcs e -> graph_ok f ->
  run_family f fuel feeval_eqb fee_universal_set fee_null_set fee_union fee_intersection
    (fun fam => fee_single (fn_intcs f) fam) indices = Done res ->
  In (fam, r) res ->
  key_txn e fam = Some t -> e_field e t "Fee" = VInt fee -> (0 <= fee <= MAX_UINT64z)%Z ->
  fee_leaves_ok f fam ->
  match fam with KAtIndex i => fee_leaves_ok f KSelf /\ index_sound indices i cfgs | _ => True end ->
  Accepts e sem f cfgs ->
  forall b st, In (b, st) cfgs -> exists v, lookup feeval r b = Some v /\ fee_gamma v fee.
Proof.
  intros Hsem Hok Hi Hg Hrun Hin Hk Hf Hr Hl Hat Hacc b st Hb.
  refine (run_family_sound feeval feeval_eqb fee_universal_set fee_null_set fee_union fee_intersection
            (fun fam => fee_single (fn_intcs f) fam) fee_val fgamma fgamma_univ fgamma_union_l fgamma_union_r
            fgamma_inter feeval_eqb_gamma feeval_eqb_refl e sem f (exist _ fee Hr) Hsem Hi Hg
            fuel indices res fam r cfgs Hrun Hin _ _ Hacc b st Hb).
  - exact (fee_leaf_hyp e f fam t fee Hr Hok Hi Hk Hf Hl).
  - destruct fam as [|i|i|k]; try exact I. destruct Hat as [Hs Hx]. split; [|exact Hx].
    exact (fee_leaf_hyp e f KSelf t fee Hr Hok Hi (proj2 (key_txn_at_index e i t Hk)) Hf Hs).
Qed.

(* C10, addresses *)
Theorem C10_addr_sound_partial e sem f fuel indices res fld fam r t a cfgs :
  sem_ok e sem -> env_ok e -> fn_intcs f = e_intcs e -> graph_ok f ->
  In fld addr_fields_list ->
  run_family f fuel sset_seteqb addr_universal_set addr_null_set addr_union addr_intersection
    (fun fam => addr_single (fn_intcs f) fam fld) indices = Done res ->
  In (fam, r) res ->
  key_txn e fam = Some t -> e_field e t fld = VAddr a -> a <> "ZERO" -> is_marker a = false ->
  addr_leaves_ok e f fam fld ->
  match fam with KAtIndex i => addr_leaves_ok e f KSelf fld /\ index_sound indices i cfgs | _ => True end ->
  Accepts e sem f cfgs ->
  forall b st, In (b, st) cfgs -> exists v, lookup sset r b = Some v /\ addr_gamma v (abs_name e a).
Proof.
  intros Hsem Hok Hi Hg Hfld Hrun Hin Hk Hf Ha Hm Hl Hat Hacc b st Hb.
  destruct (run_family_sound sset sset_seteqb addr_universal_set addr_null_set addr_union addr_intersection
            (fun fam => addr_single (fn_intcs f) fam fld) Instances.addr_name rgamma rgamma_univ rgamma_union_l
            rgamma_union_r rgamma_inter sset_seteqb_rgamma sset_seteqb_refl e sem f
            (exist (fun n => is_marker n = false) (abs_name e a) (abs_name_not_marker e a Hm)) Hsem Hi Hg
            fuel indices res fam r cfgs Hrun Hin) with (b := b) (st := st) as (v & Hv & Hgv); auto.
  - exact (addr_leaf_hyp e f fam fld t a Hm Hok Hi Hfld Hk Hf Ha Hl).
  - destruct fam as [|i|i|k]; try exact I. destruct Hat as [Hs Hx]. split; [|exact Hx].
    exact (addr_leaf_hyp e f KSelf fld t a Hm Hok Hi Hfld (proj2 (key_txn_at_index e i t Hk)) Hf Ha Hs).
  - exists v. split; [exact Hv|]. exact (rgamma_addr v _ Hgv).
Qed.

(* ---------------------------------------------------------------- the indices passed to run_family by run_all *)
Lemma lookup_map_vals {A B} (g : nat -> A -> B) : forall (l : list (nat * A)) b,
  lookup B (map (fun '(k, v) => (k, g k v)) l) b = option_map (g b) (lookup A l b).
Proof.
  induction l as [|[k v] l IH]; intros b; [reflexivity|]. cbn [map lookup].
  destruct (Nat.eqb_spec k b) as [->|Hne]; [reflexivity | apply IH].
Qed.

Lemma fold_max_ge : forall l a x, (x <= a)%Z \/ In x l -> (x <= fold_left Z.max l a)%Z.
Proof.
  induction l as [|y l IH]; simpl; intros a x [H|H]; try lia; try contradiction.
  - apply IH. left. lia.
  - destruct H as [->|H]; apply IH; [left; lia | right; exact H].
Qed.

Definition indices_of (sizes idx0 : list (nat * list Z)) : list (nat * list Z) :=
  map (fun '(b, gi) =>
         let gs := match Analysis.lookup _ sizes b with Some l => l | None => [] end in
         (b, filter (fun i => Z.ltb i (zmax_default gs)) gi)) idx0.

Theorem indices_sound e sem f fuel sizes idx0 cfgs :
  sem_ok e sem -> env_ok e -> fn_intcs f = e_intcs e -> graph_ok f ->
  int_leaves_ok f true -> int_leaves_ok f false ->
  run_int f fuel true = Done sizes -> run_int f fuel false = Done idx0 ->
  Accepts e sem f cfgs ->
  index_sound (indices_of sizes idx0) (e_own e) cfgs.
Proof.
  intros Hsem Hok Hi Hg Ht Hf Hs Hx Hacc b st Hin.
  destruct (C06_sound_partial e sem f true fuel sizes cfgs Hsem Hok Hi Hg Ht Hs Hacc b st Hin) as (gs & Egs & Hgs).
  destruct (C06_sound_partial e sem f false fuel idx0 cfgs Hsem Hok Hi Hg Hf Hx Hacc b st Hin) as (gi & Egi & Hgi).
  cbn [int_value] in Hgs, Hgi.
  unfold indices_of.
  rewrite (lookup_map_vals (fun b gi => filter (fun i => Z.ltb i (zmax_default
             match lookup _ sizes b with Some l => l | None => [] end)) gi) idx0 b), Egi, Egs.
  cbn [option_map]. eexists. split; [reflexivity|].
  apply filter_In. split; [exact Hgi|]. apply Z.ltb_lt.
  pose proof (fold_max_ge gs 0%Z _ (or_intror Hgs)) as Hm. unfold zmax_default.
  destruct Hok as [_ Hown]. lia.
Qed.

(* ---------------------------------------------------------------- the fee results of Domains.run_all *)
Lemma run_all_inv f fuel res : run_all f fuel = Done res ->
  exists sizes idx0, run_int f fuel true = Done sizes /\ run_int f fuel false = Done idx0 /\
    r_sizes res = sizes /\ r_indices res = indices_of sizes idx0 /\
    run_family f fuel feeval_eqb fee_universal_set fee_null_set fee_union fee_intersection
      (fun fam => fee_single (fn_intcs f) fam) (indices_of sizes idx0) = Done (r_fees res).
Proof.
  unfold run_all. intros H.
  destruct (run_int f fuel true) as [sizes| |] eqn:Es; destruct (run_int f fuel false) as [idx0| |] eqn:Ex;
    try discriminate.
  fold (indices_of sizes idx0) in H.
  match type of H with match ?S with _ => _ end = _ => destruct S as [addrs| |]; try discriminate end.
  match type of H with match ?S with _ => _ end = _ => destruct S as [fees| |] eqn:Ef; try discriminate end.
  match type of H with match ?S with _ => _ end = _ => destruct S as [types| |]; try discriminate end.
  inversion H; subst res. exists sizes, idx0. cbn [r_sizes r_indices r_fees]. auto.
Qed.

(* C09 + C10 on the tool's output: every fee entry of run_all *)
Theorem run_all_fee_sound e sem f fuel res fam r t fee cfgs :
  sem_ok e sem -> env_ok e -> fn_intcs f = e_intcs e -> graph_ok f ->
  run_all f fuel = Done res ->
  In (fam, r) (r_fees res) ->
  key_txn e fam = Some t -> e_field e t "Fee" = VInt fee -> (0 <= fee <= MAX_UINT64z)%Z ->
  fee_leaves_ok f fam ->
  match fam with
  | KAtIndex i => fee_leaves_ok f KSelf /\ int_leaves_ok f true /\ int_leaves_ok f false
  | _ => True
  end ->
  Accepts e sem f cfgs ->
  forall b st, In (b, st) cfgs -> exists v, lookup feeval r b = Some v /\ fee_gamma v fee.
Proof.
  intros Hsem Hok Hi Hg Hrun Hin Hk Hf Hr Hl Hat Hacc.
  destruct (run_all_inv f fuel res Hrun) as (sizes & idx0 & Es & Ex & _ & _ & Hfam).
  apply (C10_fee_sound e sem f fuel (indices_of sizes idx0) (r_fees res) fam r t fee cfgs); auto.
  destruct fam as [|i|i|k]; try exact I. destruct Hat as (Hs & Ht & Hf').
  split; [exact Hs|]. destruct (key_txn_at_index e i t Hk) as [<- _].
  exact (indices_sound e sem f fuel sizes idx0 cfgs Hsem Hok Hi Hg Ht Hf' Es Ex Hacc).
Qed.

(* ---------------------------------------------------------------- the address results of Domains.run_all *)
Lemma run_all_addr_inv f fuel res : run_all f fuel = Done res ->
  exists sizes idx0, run_int f fuel true = Done sizes /\ run_int f fuel false = Done idx0 /\
    forall fld fam v, In (fld, fam, v) (r_addrs res) ->
      In fld addr_fields_list /\
      exists r, run_family f fuel sset_seteqb addr_universal_set addr_null_set addr_union addr_intersection
                  (fun fam => addr_single (fn_intcs f) fam fld) (indices_of sizes idx0) = Done r /\ In (fam, v) r.
Proof.
  unfold run_all. intros H.
  destruct (run_int f fuel true) as [sizes| |] eqn:Es; destruct (run_int f fuel false) as [idx0| |] eqn:Ex;
    try discriminate.
  fold (indices_of sizes idx0) in H.
  match type of H with match ?S with _ => _ end = _ => destruct S as [addrs| |] eqn:Ea; try discriminate end.
  match type of H with match ?S with _ => _ end = _ => destruct S as [fees| |]; try discriminate end.
  match type of H with match ?S with _ => _ end = _ => destruct S as [types| |]; try discriminate end.
  inversion H; subst res. exists sizes, idx0. split; [reflexivity|]. split; [reflexivity|].
  cbn [r_addrs]. intros fld fam v Hin. apply in_concat in Hin. destruct Hin as (l & Hl & Hin).
  destruct (seq_outcomes_inv _ _ _ Ea _ Hl) as (fld' & Hf' & Hg).
  match type of Hg with match ?S with _ => _ end = _ => destruct S as [r| |] eqn:Er; try discriminate end.
  inversion Hg; subst l. apply in_map_iff in Hin. destruct Hin as ([fam' v'] & E & Hin). inversion E; subst.
  split; [exact Hf'|]. exists r. split; [exact Er | exact Hin].
Qed.

(* C08 + C10 on the tool's output: every address entry of run_all *)
Theorem run_all_addr_sound_partial e sem f fuel res fld fam r t a cfgs :
  sem_ok e sem -> env_ok e -> fn_intcs f = e_intcs e -> graph_ok f ->
  run_all f fuel = Done res ->
  In (fld, fam, r) (r_addrs res) ->
  key_txn e fam = Some t -> e_field e t fld = VAddr a -> a <> "ZERO" -> is_marker a = false ->
  addr_leaves_ok e f fam fld ->
  match fam with
  | KAtIndex i => addr_leaves_ok e f KSelf fld /\ int_leaves_ok f true /\ int_leaves_ok f false
  | _ => True
  end ->
  Accepts e sem f cfgs ->
  forall b st, In (b, st) cfgs -> exists v, lookup sset r b = Some v /\ addr_gamma v (abs_name e a).
Proof.
  intros Hsem Hok Hi Hg Hrun Hin Hk Hf Ha Hm Hl Hat Hacc.
  destruct (run_all_addr_inv f fuel res Hrun) as (sizes & idx0 & Es & Ex & Hall).
  destruct (Hall fld fam r Hin) as (Hfld & r0 & Hfam & Hin0).
  apply (C10_addr_sound_partial e sem f fuel (indices_of sizes idx0) r0 fld fam r t a cfgs); auto.
  destruct fam as [|i|i|k]; try exact I. destruct Hat as (Hs & Ht & Hf').
  split; [exact Hs|]. destruct (key_txn_at_index e i t Hk) as [<- _].
  exact (indices_sound e sem f fuel sizes idx0 cfgs Hsem Hok Hi Hg Ht Hf' Es Ex Hacc).
Qed.

(* ---------------------------------------------------------------- (2) per domain, for one block *)
(* a block that executes without failing in e: the value of the key's field is in the block constraint *)
Theorem fee_block_constraint_sound e sem f fam t fee blk cs tr cs' c :
  sem_ok e sem -> env_ok e -> fn_intcs f = e_intcs e ->
  key_txn e fam = Some t -> e_field e t "Fee" = VInt fee -> (0 <= fee <= MAX_UINT64z)%Z ->
  (forall op pos args, block_leaf f blk op pos args ->
     const_compared (fn_intcs f) fam "Fee" args /\ forallb tree_wf args = true) ->
  bexec e sem (fn_prog f) blk cs tr cs' ->
  block_constraint feeval fee_universal_set fee_null_set fee_union fee_intersection
    (fee_single (fn_intcs f) fam) f blk = Some c ->
  fee_gamma c fee.
Proof.
  intros Hsem Hok Hi Hk Hf Hr Hl Hex Hc.
  destruct (crun_emulate sem (fn_prog f) _ _ _ _ (proj1 Hex) []) as [ast Hast].
  refine (block_constraint_sound feeval fee_universal_set fee_null_set fee_union fee_intersection
            (fee_single (fn_intcs f) fam) fee_val fgamma fgamma_univ fgamma_union_l fgamma_union_r fgamma_inter
            e sem Hsem f Hi (exist _ fee Hr) blk cs cs' tr Hex _ ast Hast c Hc).
  intros op pos args Hp b Hb. destruct (Hl op pos args Hp) as [Hcc Hw]. rewrite Hi in *.
  exact (fee_single_sound_total e fam op pos args t fee b Hok Hw Hk Hf Hr Hcc Hb).
Qed.

Theorem int_block_constraint_sound_partial e sem f sz blk cs tr cs' c :
  sem_ok e sem -> env_ok e -> fn_intcs f = e_intcs e ->
  (forall op pos args, block_leaf f blk op pos args ->
     mirrored_ordered sz (fn_intcs f) op args = false /\ forallb tree_wf args = true) ->
  bexec e sem (fn_prog f) blk cs tr cs' ->
  block_constraint (list Z) (int_U sz) [] zunion zinter (int_single sz (fn_intcs f)) f blk = Some c ->
  In (int_value sz e) c.
Proof.
  intros Hsem Hok Hi Hl Hex Hc.
  destruct (crun_emulate sem (fn_prog f) _ _ _ _ (proj1 Hex) []) as [ast Hast].
  refine (block_constraint_sound (list Z) (int_U sz) [] zunion zinter (int_single sz (fn_intcs f))
            (inU (int_U sz)) (zgamma (int_U sz)) (zgamma_univ _) (zgamma_union_l _) (zgamma_union_r _) (zgamma_inter _)
            e sem Hsem f Hi (exist _ (int_value sz e) (int_value_in_U sz e Hok)) blk cs cs' tr Hex _ ast Hast c Hc).
  intros op pos args Hp b Hb. destruct (Hl op pos args Hp) as [Hm Hw]. rewrite Hi in *.
  exact (int_single_sound_partial_total sz e op pos args b Hok Hw Hm Hb).
Qed.

Theorem addr_block_constraint_sound_partial e sem f fam fld t a blk cs tr cs' c :
  sem_ok e sem -> env_ok e -> fn_intcs f = e_intcs e -> In fld addr_fields_list ->
  key_txn e fam = Some t -> e_field e t fld = VAddr a -> a <> "ZERO" -> is_marker a = false ->
  (forall op pos args, block_leaf f blk op pos args ->
     addr_const_compared (fn_intcs f) fam fld args /\ zero_literal_ok args /\ creator_not_literal e args /\
     forallb tree_wf args = true) ->
  bexec e sem (fn_prog f) blk cs tr cs' ->
  block_constraint sset addr_universal_set addr_null_set addr_union addr_intersection
    (addr_single (fn_intcs f) fam fld) f blk = Some c ->
  addr_gamma c (abs_name e a).
Proof.
  intros Hsem Hok Hi Hfld Hk Hf Ha Hm Hl Hex Hc.
  destruct (crun_emulate sem (fn_prog f) _ _ _ _ (proj1 Hex) []) as [ast Hast].
  apply (rgamma_addr c (exist (fun n => is_marker n = false) (abs_name e a) (abs_name_not_marker e a Hm))).
  refine (block_constraint_sound sset addr_universal_set addr_null_set addr_union addr_intersection
            (addr_single (fn_intcs f) fam fld) Instances.addr_name rgamma rgamma_univ rgamma_union_l rgamma_union_r
            rgamma_inter e sem Hsem f Hi _ blk cs cs' tr Hex _ ast Hast c Hc).
  intros op pos args Hp b0 Hb. destruct (Hl op pos args Hp) as (Hcc & Hz & Hcr & Hw). rewrite Hi in *.
  destruct (addr_single_wf (e_intcs e) fam fld op pos args) as [W1 W2].
  pose proof (addr_single_sound_total e fam fld op pos args t a b0 Hok Hw
                (addr_fields_not_groupindex fld Hfld) Hk Hf Ha Hm Hcc Hz Hcr Hb) as HS.
  cbv zeta in HS. destruct b0; apply addr_rgamma; assumption.
Qed.

(* ====================================================================== *)
(* H. non-vacuity: a semantics satisfying sem_ok, and a worked example      *)
(* ====================================================================== *)
Definition to_val (c : cval) : option value :=
  match c with CInt n => Some (VInt n) | CAddr a => Some (VAddr a) | COpaque _ => Some VOther end.
Definition dflt (op : instr) : list cval :=
  repeat (COpaque 0) (match stack_push_size op with Some m => m | None => 0 end).

(* the fragment as Spec/Eval and Spec/Exec describe it; opaque values everywhere else *)
Definition sem_ref (e : env) : opsem := fun op pos cs =>
  match eval_op e op (map to_val cs) with
  | Some x => [of_value x]
  | None =>
      match cs with
      | [CInt x; CInt y] =>
          match int_cmp op x y with
          | Some b => [b2c b]
          | None =>
              match op with
              | IAnd => [b2c (truthy (CInt x) && truthy (CInt y))]
              | IOr => [b2c (truthy (CInt x) || truthy (CInt y))]
              | _ => dflt op
              end
          end
      | [CAddr a; CAddr a'] => match addr_cmp op a a' with Some b => [b2c b] | None => dflt op end
      | [CInt x] => match op with INot => [b2c (negb (truthy (CInt x)))] | _ => dflt op end
      | _ => dflt op
      end
  end.

Lemma eval_op_agrees e op cs vs x :
  Forall2 agrees cs vs -> eval_op e op vs = Some x -> eval_op e op (map to_val cs) = Some x.
Proof.
  intros HF H. destruct op; try discriminate; try exact H.
  - (* gtxns *)
    destruct f as [fn [z|]]; [discriminate|]. cbn [eval_op] in *.
    destruct vs as [|[[j| |]|] [|? ?]]; try discriminate.
    inversion HF as [|c ? cs' ? Hc HF']; subst. inversion HF'; subst.
    rewrite (Hc _ eq_refl). exact H.
  - (* + *)
    cbn [eval_op] in *. destruct vs as [|[[x1| |]|] [|[[x2| |]|] [|? ?]]]; try discriminate.
    inversion HF as [|c1 ? cs1 ? Hc1 HF1]; subst. inversion HF1 as [|c2 ? cs2 ? Hc2 HF2]; subst. inversion HF2; subst.
    rewrite (Hc1 _ eq_refl), (Hc2 _ eq_refl). exact H.
  - (* - *)
    cbn [eval_op] in *. destruct vs as [|[[x1| |]|] [|[[x2| |]|] [|? ?]]]; try discriminate.
    inversion HF as [|c1 ? cs1 ? Hc1 HF1]; subst. inversion HF1 as [|c2 ? cs2 ? Hc2 HF2]; subst. inversion HF2; subst.
    rewrite (Hc1 _ eq_refl), (Hc2 _ eq_refl). exact H.
Qed.

Lemma intck_push1 k : stack_push_size (IIntcK k) = Some 1.
Proof. destruct k as [|[[p|p|]|[p|p|]|]]; reflexivity. Qed.

Lemma eval_op_push1 e op vs x : eval_op e op vs = Some x -> stack_push_size op = Some 1.
Proof. destruct op; try discriminate; intros _; try reflexivity. apply intck_push1. Qed.
Lemma int_cmp_push1 op x y b : int_cmp op x y = Some b -> stack_push_size op = Some 1.
Proof. destruct op; try discriminate; reflexivity. Qed.
Lemma addr_cmp_push1 op x y b : addr_cmp op x y = Some b -> stack_push_size op = Some 1.
Proof. destruct op; try discriminate; reflexivity. Qed.

Theorem sem_ref_ok : forall e, sem_ok e (sem_ref e).
Proof.
  intros e. constructor.
  - intros op pos vs n m Hn Hm Hlen. unfold sem_ref.
    assert (D : length (dflt op) = m) by (unfold dflt; rewrite Hm; apply repeat_length).
    assert (P1 : stack_push_size op = Some 1 -> forall c : cval, length [c] = m)
      by (intros E c; rewrite E in Hm; inversion Hm; reflexivity).
    destruct (eval_op e op (map to_val vs)) eqn:E; [exact (P1 (eval_op_push1 _ _ _ _ E) _)|].
    destruct vs as [|[x|a|k] [|[y|a'|k'] [|? ?]]]; try exact D.
    + destruct op; try exact D; apply P1; reflexivity.
    + destruct (int_cmp op x y) eqn:Ec; [exact (P1 (int_cmp_push1 _ _ _ _ Ec) _)|].
      destruct op; try exact D; apply P1; reflexivity.
    + destruct (addr_cmp op a a') eqn:Ec; [exact (P1 (addr_cmp_push1 _ _ _ _ Ec) _) | exact D].
  - intros op pos cs vs x HF H. unfold sem_ref. rewrite (eval_op_agrees e op cs vs x HF H). reflexivity.
  - intros op pos x y b H. unfold sem_ref. destruct op; try discriminate; cbn [map to_val eval_op]; rewrite H; reflexivity.
  - intros op pos a a' b H. unfold sem_ref. destruct op; try discriminate; cbn [map to_val eval_op]; rewrite H; reflexivity.
  - reflexivity.
  - reflexivity.
  - reflexivity.
Qed.
Print Assumptions sem_ref_ok.

(* A worked example: all hypotheses of C09_sound hold simultaneously.
     txn Fee; int 1000; <=; bz fail; int 1; return; fail: err
   run by a single transaction paying 700. *)
Module ExecWitness.
  Definition p0 : prog :=
    [mkIns 1 (ITxn ("Fee", None)); mkIns 2 (IInt (IANum 1000)); mkIns 3 ILessE; mkIns 4 (IBZ "fail");
     mkIns 5 (IInt (IANum 1)); mkIns 6 IReturn; mkIns 7 (ILabel "fail"); mkIns 8 IErr].
  Definition B0 := mkBlock 0 [0; 1; 2; 3] [1; 2] [].
  Definition B1 := mkBlock 1 [4; 5] [] [0].
  Definition B2 := mkBlock 2 [6; 7] [] [0].
  (* the blocks are the ones the model of the parser builds *)
  Example blocks_of_p0 : build_blocks p0 = Some [B0; B1; B2].
  Proof. vm_compute. reflexivity. Qed.

  Definition f0 : func := mkFunc p0 [B0; B1; B2] 0 [0; 1; 2] [] [] None.
  Definition e0 : env := mkEnv 1 0 (fun _ fld => if fld =? "Fee" then VInt 700 else VOther) "C" None.
  Definition run0 : list rconfig := [(0, []); (1, [])].
  Definition sem0 := sem_ref e0.

  Lemma f0_blocks b blk : fblock f0 b = Some blk -> (b = 0 /\ blk = B0) \/ (b = 1 /\ blk = B1) \/ (b = 2 /\ blk = B2).
  Proof. destruct b as [|[|[|b]]]; simpl; intros H; try discriminate; inversion H; auto 6. Qed.
  Ltac blk H := apply f0_blocks in H; destruct H as [[? ?]|[[? ?]|[? ?]]]; subst.
  Ltac one Hin := simpl in Hin; first [contradiction | destruct Hin as [Hin|Hin]; [subst|contradiction]].
  Ltac nd := repeat (apply NoDup_cons; [simpl; intuition discriminate|]); apply NoDup_nil.

  Lemma w_graph_ok : graph_ok f0.
  Proof.
    constructor.
    - intros b x xb ps Hx Hp Hin. blk Hx; cbv in Hp; inversion Hp; subst ps; one Hin;
        eexists; eexists; (split; [reflexivity|split; [reflexivity|cbv; auto]]).
    - intros x xb c Hx Hr Hc. blk Hx; cbv in Hr; discriminate.
    - intros b x xb nx Hx Hl Hn Hin. blk Hx; cbv in Hl, Hn; try discriminate.
      inversion Hn; subst nx. destruct Hin as [<-|[<-|[]]];
        eexists; eexists; (split; [reflexivity|split; [reflexivity|cbv; auto]]).
    - intros x xb l r s Hx Hop. blk Hx; cbv in Hop; discriminate.
    - exists B0. split; reflexivity.
    - intros b blk0 nx b' xb' Hb Hr Hn Hin Hb'. blk Hb'; reflexivity.
    - intros l s H. discriminate H.
    - intros l s b blk0 b' H. discriminate H.
    - intros r rblk cs cb l s rp nx _ _ _ _ H. discriminate H.
    - cbv. tauto.
    - intros b xb Hb Hl. blk Hb; cbv in Hl; try discriminate; cbv; auto.
    - intros b blk0 Hb. blk Hb; simpl; nd.
    - intros b blk0 Hb. blk Hb; simpl; nd.
    - intros b blk0 l Hb Hl. blk Hb; cbv in Hl; destruct Hl as [Hl|Hl]; inversion Hl; subst. cbv. discriminate.
  Qed.

  Lemma w_leaves : fee_leaves_ok f0 KSelf.
  Proof.
    intros op pos args (b & blk0 & Hb & ast & k & o & a & rest & Hast & Hin & Hck & Hcl).
    blk Hb; vm_compute in Hast; inversion Hast; subst ast; clear Hast; simpl in Hin;
      repeat (destruct Hin as [Hin|Hin]; [inversion Hin; subst; clear Hin; try discriminate Hck|]); try contradiction.
    - simpl in Hcl. destruct Hcl as (<- & <- & <-). split; [|reflexivity].
      intros x y E. inversion E; subst. split; [intros _; reflexivity | intros H; discriminate H].
    - simpl in Hcl. destruct Hcl as (<- & <- & <-). split; [|reflexivity].
      intros x y E. discriminate E.
  Qed.

  Lemma w_no_fail tr poss : (forall pos args outs, In (pos, args, outs) tr -> In (pos, args, outs) poss) ->
    Forall (fun '(pos, args, _) => forall op, op_at p0 pos = Some op -> fails e0 op args = false) poss ->
    no_fail e0 p0 tr.
  Proof.
    intros Hi HF pos args outs op Hin Hop. rewrite Forall_forall in HF.
    exact (HF _ (Hi _ _ _ Hin) op Hop).
  Qed.

  Lemma w_accepts : Accepts e0 sem0 f0 run0.
  Proof.
    assert (Hrun : Run f0 run0).
    { eapply RF_step; [apply (RS_edge f0 0 [] B0 1); [reflexivity|reflexivity|reflexivity|simpl; auto]|]. apply RF_one. }
    split; [|split; [|split]].
    - unfold Exec, run0.
      apply (EF_step e0 sem0 f0 (0, []) (1, []) [(1, [])] [] B0
               [(0, [], [CInt 700]); (1, [], [CInt 1000]); (2, [CInt 700; CInt 1000], [CInt 1]); (3, [CInt 1], [])] []).
      + reflexivity.
      + split; [vm_compute; reflexivity|].
        eapply w_no_fail; [intros pos args outs H; exact H|].
        repeat constructor; intros op Hop; vm_compute in Hop; inversion Hop; subst; reflexivity.
      + apply (RS_edge f0 0 [] B0 1); [reflexivity|reflexivity|reflexivity|simpl; auto].
      + reflexivity.
      + apply (EF_last e0 sem0 f0 (1, []) [] B1 [(4, [], [CInt 1]); (5, [CInt 1], [])] []).
        * reflexivity.
        * split; [vm_compute; reflexivity|].
          eapply w_no_fail; [intros pos args outs H; exact H|].
          repeat constructor; intros op Hop; vm_compute in Hop; inversion Hop; subst; reflexivity.
    - split; [exact Hrun|]. exists B1. split; reflexivity.
    - reflexivity.
    - exists B1. split; reflexivity.
  Qed.

  Definition bc0 : list (nat * feeval) :=
    [(0, fee_universal_set); (1, fee_universal_set); (2, fee_null_set)].
  Definition lo0 : list (nat * feeval) := [(0, mkFee false 1000); (1, mkFee false 1000); (2, fee_null_set)].

  Lemma w_init : init_constraints feeval fee_universal_set fee_null_set fee_union fee_intersection
                   (fee_single (fn_intcs f0) KSelf) f0 = Some bc0.
  Proof. vm_compute. reflexivity. Qed.
  Lemma w_solve : solve feeval feeval_eqb fee_universal_set fee_null_set fee_union fee_intersection
                    (fee_single (fn_intcs f0) KSelf) f0 100 bc0 = Done lo0.
  Proof. vm_compute. reflexivity. Qed.

  (* C09_sound applies: on both blocks of the run the recorded bound admits the fee 700 (it is 1000) *)
  Theorem w_C09 : forall b st, In (b, st) run0 -> exists v, lookup feeval lo0 b = Some v /\ fee_gamma v 700.
  Proof.
    apply (C09_sound e0 sem0 f0 700 bc0 100 lo0 run0 (sem_ref_ok e0)).
    - split; vm_compute; split; congruence.
    - reflexivity.
    - exact w_graph_ok.
    - reflexivity.
    - vm_compute. split; discriminate.
    - exact w_leaves.
    - exact w_init.
    - exact w_solve.
    - exact w_accepts.
  Qed.
End ExecWitness.

Print Assumptions tree_value.
Print Assumptions leaf_value.
Print Assumptions cond_sound.
Print Assumptions asserted_sound_rel.
Print Assumptions block_constraint_sound.
Print Assumptions edge_constraint_sound.
Print Assumptions exec_run_passes.
Print Assumptions exec_solve_sound.
Print Assumptions analysis_sound.
Print Assumptions C09_sound.
Print Assumptions C06_sound_partial.
Print Assumptions C08_sound_partial.
Print Assumptions run_family_sound.
Print Assumptions C10_fee_sound.
Print Assumptions C10_addr_sound_partial.
Print Assumptions indices_sound.
Print Assumptions run_all_fee_sound.
Print Assumptions run_all_addr_sound_partial.
Print Assumptions fee_block_constraint_sound.
Print Assumptions int_block_constraint_sound_partial.
Print Assumptions addr_block_constraint_sound_partial.
Print Assumptions ExecWitness.w_C09.
