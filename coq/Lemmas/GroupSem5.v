(* C13, last sentence, for rekey-to: the instance of the GroupSem4 family that GroupSem4 could not take.

   checks_rekey_to reads ONE thing of the block context: av_any (ctx_rekeyto c) = `ANY_ADDRESS in the RekeyTo value`
   (Detect.addrval_of).  The generic theorems of GroupSem4 ask for ONE predicate dg on abstract values obeying nine
   laws on ALL values.  On raw string sets no such predicate exists for the regenerated addr_union /
   addr_intersection (no_prime_point_on_raw_sets below: addr_union tests ANY first, addr_intersection tests NO first,
   and the set {ANY, NO} is read as `everything` by the one and as `nothing` by the other).  What does exist:

     any_in s     :=  ANY in s                 all laws but   dg a -> dg b -> dg (a n b)        (any_inter_law_refuted)
     any_strict s :=  ANY in s /\ NO notin s   all laws but   dg (a U b) -> dg a \/ dg b        (strict_union_inv_law_refuted)

   and the two AGREE on well-formed values (LeafLemmas.addr_wf: a value is the universal set, the null set, or a plain
   set of addresses -- never a mixture).  The two directions of GroupSem4.PathCore need disjoint halves of the laws:

     result holds the point -> LiveOut       (ExactLemmas.solve_exact)      null, union_inv, inter_inv      : any_in
     LiveOut -> result holds the point       (fwd_contains / bwd_contains)  univ, union_l/r, inter, eqb     : any_strict

   LiveOut itself is parametrised by the predicate through `the block constraint admits the point` (okb) and `the edge
   constraint admits the point` (oke); these constraints are built by init_constraints / edge_constraint from
   addr_single with the domain operations, so they are addr_wf (TotalDomains.*_closed + SingleLemmas.addr_single_wf),
   and for the refined block constraints of Domains.run_family (an intersection with the final own value, or null)
   `any_in (a n b) -> any_strict (a n b)` holds of ALL a b (any_inter_univ).  Literal.LiveOut is monotone in okb / oke
   (LiveOut_mono), hence LiveOut[any_in] -> LiveOut[any_strict] and the two containment lemmas are used with the
   predicate for which their laws hold.  So the invariant that is needed is on the CONSTRAINTS, not on the solver's
   intermediate states; that the solver's result obeys it follows (solve_any_strict: a result value holding ANY does
   not hold NO), and that every value of the result is addr_wf is proved directly by induction over the visited states
   (solve_addr_wf).

   Result: single_group_eq_contract_rekey -- for a function with a well-formed graph and no callsub / retsub, the
   one-transaction group reports the transaction for rekey-to IFF the single-contract rekey-to detector reports a
   path. *)
From Coq Require Import String List NArith ZArith Bool Arith Lia.
From Tealer Require Import Tables LeafPrelude Leaves Syntax Parse Cfg StackAst Keys Analysis Domains Detect Group Driver.
From Tealer Require Import Paths Literal LeafLemmas SingleLemmas SolverLemmas ExactLemmas ExecLemmas GraphWf GraphOk NoMiss
  ExactInstances TotalDomains.
From Tealer Require Import TypeExec GroupLemmas GroupSem GroupSem2 GroupSem3 GroupSem4.
Import ListNotations.
Open Scope string_scope.
Open Scope list_scope.

(* ====================================================================== *)
(* 0. the two readings of `the any-address flag is set`                      *)
(* ====================================================================== *)
Definition any_in (s : sset) : Prop := smem ANY_ADDRESS s = true.
Definition any_strict (s : sset) : Prop := smem ANY_ADDRESS s = true /\ smem NO_ADDRESS s = false.

Lemma any_null : ~ any_in addr_null_set.
Proof. intros H. vm_compute in H. discriminate. Qed.
Lemma any_univ : any_in addr_universal_set.
Proof. reflexivity. Qed.

Lemma any_union_inv : forall a b, any_in (addr_union a b) -> any_in a \/ any_in b.
Proof.
  intros a b. unfold any_in, addr_union. change (@mem_any string Mem_string) with smem.
  destruct (smem ANY_ADDRESS a) eqn:Aa; [left; reflexivity|].
  destruct (smem ANY_ADDRESS b) eqn:Ab; [right; reflexivity|]. cbn [orb].
  destruct (smem NO_ADDRESS a) eqn:Na, (smem NO_ADDRESS b) eqn:Nb; cbn [andb]; intros H.
  - vm_compute in H. discriminate.
  - congruence.
  - congruence.
  - apply (proj1 (smem_In _ _)), (proj1 (set_union_In _ _ _)) in H.
    destruct H as [H|H]; apply (proj2 (smem_In _ _)) in H; congruence.
Qed.

(* the point is in an intersection only when the intersection IS the universal set *)
Lemma any_inter_univ : forall a b, any_in (addr_intersection a b) ->
  addr_intersection a b = addr_universal_set /\ any_in a /\ any_in b /\
  smem NO_ADDRESS a = false /\ smem NO_ADDRESS b = false.
Proof.
  intros a b. unfold any_in, addr_intersection. change (@mem_any string Mem_string) with smem.
  destruct (smem NO_ADDRESS a) eqn:Na, (smem NO_ADDRESS b) eqn:Nb; cbn [orb];
    try (intros H; vm_compute in H; discriminate).
  destruct (smem ANY_ADDRESS a) eqn:Aa, (smem ANY_ADDRESS b) eqn:Ab; cbn [andb]; intros H.
  - repeat split; reflexivity.
  - exfalso. apply (proj1 (smem_In _ _)), (proj1 (set_of_list_In _ _)), (proj2 (smem_In _ _)) in H. congruence.
  - exfalso. apply (proj1 (smem_In _ _)), (proj1 (set_of_list_In _ _)), (proj2 (smem_In _ _)) in H. congruence.
  - exfalso. apply (proj1 (smem_In _ _)), (proj1 (set_inter_In _ _ _)) in H. destruct H as [H _].
    apply (proj2 (smem_In _ _)) in H. congruence.
Qed.

Lemma any_inter_inv : forall a b, any_in (addr_intersection a b) -> any_in a /\ any_in b.
Proof. intros a b H. destruct (any_inter_univ a b H) as (_ & Ha & Hb & _). auto. Qed.

Lemma any_union_l : forall a b, any_in a -> any_in (addr_union a b).
Proof.
  intros a b H. unfold any_in, addr_union in *. change (@mem_any string Mem_string) with smem.
  rewrite H. reflexivity.
Qed.
Lemma any_union_r : forall a b, any_in b -> any_in (addr_union a b).
Proof.
  intros a b H. unfold any_in, addr_union in *. change (@mem_any string Mem_string) with smem.
  rewrite H, orb_true_r. reflexivity.
Qed.

Lemma strict_any : forall s, any_strict s -> any_in s.
Proof. intros s [H _]. exact H. Qed.
Lemma strict_univ : any_strict addr_universal_set.
Proof. split; reflexivity. Qed.
Lemma strict_union_l : forall a b, any_strict a -> any_strict (addr_union a b).
Proof.
  intros a b [H _]. unfold addr_union. change (@mem_any string Mem_string) with smem.
  rewrite H. exact strict_univ.
Qed.
Lemma strict_union_r : forall a b, any_strict b -> any_strict (addr_union a b).
Proof.
  intros a b [H _]. unfold addr_union. change (@mem_any string Mem_string) with smem.
  rewrite H, orb_true_r. exact strict_univ.
Qed.
Lemma strict_inter : forall a b, any_strict a -> any_strict b -> any_strict (addr_intersection a b).
Proof.
  intros a b [Aa Na] [Ab Nb]. unfold addr_intersection. change (@mem_any string Mem_string) with smem.
  rewrite Aa, Na, Ab, Nb. exact strict_univ.
Qed.
Lemma smem_ext : forall (a b : sset) y, (forall x, In x a <-> In x b) -> smem y a = smem y b.
Proof.
  intros a b y H. destruct (smem y a) eqn:Ea, (smem y b) eqn:Eb; try reflexivity.
  - apply (proj1 (smem_In _ _)), (proj1 (H _)), (proj2 (smem_In _ _)) in Ea. congruence.
  - apply (proj1 (smem_In _ _)), (proj2 (H _)), (proj2 (smem_In _ _)) in Eb. congruence.
Qed.
Lemma strict_eqb : forall a b, sset_seteqb a b = true -> (any_strict a <-> any_strict b).
Proof.
  intros a b H0. pose proof (proj1 (sset_seteqb_spec a b) H0) as H. unfold any_strict.
  rewrite (smem_ext a b ANY_ADDRESS H), (smem_ext a b NO_ADDRESS H). tauto.
Qed.

(* the two readings agree on well-formed values, and on every intersection *)
Lemma wf_any_strict : forall s, addr_wf s -> any_in s -> any_strict s.
Proof. intros s Hw H. rewrite (addr_wf_ANY s Hw H). exact strict_univ. Qed.
Lemma any_inter_strict : forall a b, any_in (addr_intersection a b) -> any_strict (addr_intersection a b).
Proof. intros a b H. destruct (any_inter_univ a b H) as (-> & _). exact strict_univ. Qed.

(* why GroupSem4's generic theorems cannot be instantiated: the missing law of each reading, and no reading at all *)
Theorem any_inter_law_refuted : ~ (forall a b, any_in a -> any_in b -> any_in (addr_intersection a b)).
Proof.
  intros H. specialize (H [ANY_ADDRESS; NO_ADDRESS] [ANY_ADDRESS] eq_refl eq_refl). vm_compute in H. discriminate.
Qed.
Theorem any_inter_law_wf : forall a b, addr_wf a -> addr_wf b -> any_in a -> any_in b -> any_in (addr_intersection a b).
Proof.
  intros a b Wa Wb Ha Hb. apply strict_any, strict_inter; apply wf_any_strict; assumption.
Qed.
Theorem strict_union_inv_law_refuted :
  ~ (forall a b, any_strict (addr_union a b) -> any_strict a \/ any_strict b).
Proof.
  intros H. destruct (H [ANY_ADDRESS; NO_ADDRESS] [NO_ADDRESS] strict_univ) as [[_ H1]|[H1 _]];
    vm_compute in H1; discriminate.
Qed.
Theorem no_prime_point_on_raw_sets (dg : sset -> Prop) :
  ~ dg addr_null_set ->
  (forall a b, dg (addr_union a b) -> dg a \/ dg b) ->
  (forall a b, dg a -> dg b -> dg (addr_intersection a b)) ->
  dg addr_universal_set -> False.
Proof.
  intros Hn Hu Hi Hun.
  assert (Hm : dg [ANY_ADDRESS; NO_ADDRESS]).
  { destruct (Hu [ANY_ADDRESS; NO_ADDRESS] [NO_ADDRESS] Hun) as [H|H]; [exact H | destruct (Hn H)]. }
  exact (Hn (Hi [ANY_ADDRESS; NO_ADDRESS] addr_universal_set Hm Hun)).
Qed.

(* ====================================================================== *)
(* 1. Literal.ReachOut / LiveOut are monotone in the two admission predicates *)
(* ====================================================================== *)
Section LiteralMono.
  Variable f : func.
  Variables okb okb' : nat -> Prop.
  Variables oke oke' : nat -> nat -> Prop.
  Hypothesis Hb : forall b, okb b -> okb' b.
  Hypothesis He : forall p b, oke p b -> oke' p b.

  Lemma ReachOut_mono b : ReachOut f okb oke b -> ReachOut f okb' oke' b.
  Proof.
    intros H.
    induction H as [b blk Hblk Hok Hent Hc IHc | b blk ps p Hblk Hok Hps Hin Hp IHp Ho Hc IHc].
    - exact (RO_entry f okb' oke' b blk Hblk (Hb b Hok) Hent IHc).
    - exact (RO_step f okb' oke' b blk ps p Hblk (Hb b Hok) Hps Hin IHp (He p b Ho) IHc).
  Qed.

  Lemma LiveOut_mono b : LiveOut f okb oke b -> LiveOut f okb' oke' b.
  Proof.
    intros H.
    induction H as [b blk Hblk Hr Hl | b blk nx s Hblk Hr Hnx Hin Hs IHs Hret IHret].
    - exact (LO_leaf f okb' oke' b blk Hblk (ReachOut_mono b Hr) Hl).
    - exact (LO_inner f okb' oke' b blk nx s Hblk (ReachOut_mono b Hr) Hnx Hin IHs IHret).
  Qed.
End LiteralMono.

(* ====================================================================== *)
(* 2. one solve over the address domain                                     *)
(* ====================================================================== *)
Section AddrPath.
  Variable single : instr -> nat -> list sval -> sset * sset.
  Hypothesis single_wf : forall op pos args, addr_wf (fst (single op pos args)) /\ addr_wf (snd (single op pos args)).
  Variable f : func.
  Hypothesis Hwf : graph_wf f = true.
  Variable bc : list (nat * sset).
  (* THE INVARIANT on the block constraints: a constraint holding ANY does not hold NO *)
  Hypothesis bc_strict : forall b c, Analysis.lookup sset bc b = Some c -> any_in c -> any_strict c.

  Notation okbA := (ExactLemmas.okb sset unit (pgamma sset any_in) tt bc).
  Notation okeA := (ExactLemmas.oke sset addr_universal_set addr_null_set addr_union addr_intersection single f
                      unit (pgamma sset any_in) tt).
  Notation okbS := (ExactLemmas.okb sset unit (pgamma sset any_strict) tt bc).
  Notation okeS := (ExactLemmas.oke sset addr_universal_set addr_null_set addr_union addr_intersection single f
                      unit (pgamma sset any_strict) tt).

  Lemma edge_wf pb s ec :
    edge_constraint sset addr_universal_set addr_null_set addr_union addr_intersection single f pb s = Some ec ->
    addr_wf ec.
  Proof.
    exact (edge_constraint_closed sset addr_universal_set addr_null_set addr_union addr_intersection single addr_wf
             addr_universal_wf addr_null_wf addr_union_wf addr_intersection_wf single_wf f pb s ec).
  Qed.

  Lemma LO_any_strict b : LiveOut f okbA okeA b -> LiveOut f okbS okeS b.
  Proof.
    apply LiveOut_mono.
    - intros b0 (c & Hc & Hd). exists c. split; [exact Hc|]. exact (bc_strict b0 c Hc Hd).
    - intros p b0 (pb & c & Hp & He & Hd). exists pb, c. split; [exact Hp|]. split; [exact He|].
      exact (wf_any_strict c (edge_wf pb b0 c He) Hd).
  Qed.

  (* exactness, in the reading that has the inverse laws *)
  Lemma addr_result_live fuel lo :
    solve sset sset_seteqb addr_universal_set addr_null_set addr_union addr_intersection single f fuel bc = Done lo ->
    forall b x, Analysis.lookup sset lo b = Some x -> any_in x -> LiveOut f okbA okeA b.
  Proof.
    intros Hs b x Hx Hd.
    exact (solve_exact sset sset_seteqb addr_universal_set addr_null_set addr_union addr_intersection single f
             unit (pgamma sset any_in) tt any_null any_union_inv any_inter_inv bc fuel lo Hs b x Hx Hd).
  Qed.

  (* containment (fwd_contains / bwd_contains through GroupSem4.LO_contains), in the reading that has the direct laws *)
  Lemma addr_live_result fuel lo :
    solve sset sset_seteqb addr_universal_set addr_null_set addr_union addr_intersection single f fuel bc = Done lo ->
    forall b, LiveOut f okbA okeA b -> exists x, Analysis.lookup sset lo b = Some x /\ any_strict x.
  Proof.
    intros Hs b Hl.
    exact (LO_contains sset sset_seteqb addr_universal_set addr_null_set addr_union addr_intersection single f
             any_strict strict_univ strict_union_l strict_union_r strict_inter strict_eqb sset_seteqb_refl Hwf
             bc fuel lo Hs b (LO_any_strict b Hl)).
  Qed.

  (* THE SOLVER PRESERVES THE INVARIANT: a result value holding ANY does not hold NO *)
  Theorem solve_any_strict fuel lo :
    solve sset sset_seteqb addr_universal_set addr_null_set addr_union addr_intersection single f fuel bc = Done lo ->
    forall b x, Analysis.lookup sset lo b = Some x -> any_in x -> any_strict x.
  Proof.
    intros Hs b x Hx Hd.
    destruct (addr_live_result fuel lo Hs b (addr_result_live fuel lo Hs b x Hx Hd)) as (x' & Hx' & Hd').
    rewrite Hx in Hx'. inversion Hx'; subst x'. exact Hd'.
  Qed.

  (* exactness both ways for the flag the detector reads *)
  Theorem solve_any_iff_live fuel lo :
    solve sset sset_seteqb addr_universal_set addr_null_set addr_union addr_intersection single f fuel bc = Done lo ->
    forall b, (exists x, Analysis.lookup sset lo b = Some x /\ any_in x) <-> LiveOut f okbA okeA b.
  Proof.
    intros Hs b. split.
    - intros (x & Hx & Hd). exact (addr_result_live fuel lo Hs b x Hx Hd).
    - intros Hl. destruct (addr_live_result fuel lo Hs b Hl) as (x & Hx & Hd). exists x. split; [exact Hx|].
      exact (strict_any x Hd).
  Qed.

  Hypothesis Hsf : subroutine_free f.

  (* ONE SOLVE (GroupSem4.solve_unvalidated_reachable for the address domain) *)
  Theorem solve_unvalidated_reachable_addr fuel lo (v : nat -> bool) :
    solve sset sset_seteqb addr_universal_set addr_null_set addr_union addr_intersection single f fuel bc = Done lo ->
    (forall b, (exists x, Analysis.lookup sset lo b = Some x /\ any_in x) -> okbA b -> v b = false) ->
    forall b x, Analysis.lookup sset lo b = Some x -> any_in x -> UReach f v b.
  Proof.
    intros Hs Hv b x Hx Hd.
    pose proof (addr_result_live fuel lo Hs b x Hx Hd) as Hl.
    apply (live_ureach sset addr_universal_set addr_null_set addr_union addr_intersection single f any_in Hwf Hsf bc v);
      [| exact (LiveOut_ReachOut sset addr_universal_set addr_null_set addr_union addr_intersection single f
                  unit (pgamma sset any_in) tt bc b Hl) | exact Hl].
    intros b' Hl'. apply Hv.
    - apply (solve_any_iff_live fuel lo Hs b'). exact Hl'.
    - apply (RO_okb sset addr_universal_set addr_null_set addr_union addr_intersection single f any_in bc b').
      exact (LiveOut_ReachOut sset addr_universal_set addr_null_set addr_union addr_intersection single f
               unit (pgamma sset any_in) tt bc b' Hl').
  Qed.
End AddrPath.

(* ====================================================================== *)
(* 3. run_family over the address domain                                    *)
(* ====================================================================== *)
Section AddrFamily.
  Variable single : keyfam -> instr -> nat -> list sval -> sset * sset.
  Hypothesis single_wf : forall fam op pos args,
    addr_wf (fst (single fam op pos args)) /\ addr_wf (snd (single fam op pos args)).
  Variable f : func.
  Variable fuel : nat.
  Variable indices : list (nat * list Z).
  Variable res : list (keyfam * list (nat * sset)).
  Hypothesis Hwf : graph_wf f = true.
  Hypothesis Hsf : subroutine_free f.
  Hypothesis Hrun : run_family f fuel sset_seteqb addr_universal_set addr_null_set addr_union addr_intersection
                      single indices = Done res.
  Hypothesis Hidx : forall b l i, Analysis.lookup _ indices b = Some l -> In i l -> (0 <= i < 16)%Z.

  Notation unvalA := (unval sset addr_universal_set any_in indices res).

  Definition unval_iff_key_addr :=
    unval_iff_key sset sset_seteqb addr_universal_set addr_null_set addr_union addr_intersection single any_in
      any_null any_union_inv any_inter_inv any_univ f fuel indices res Hwf Hrun Hidx.

  (* the refined block constraints obey the invariant whatever the base result is *)
  Lemma refine_strict base n bcn b c :
    Analysis.lookup sset (refine_at addr_intersection addr_null_set indices base n bcn) b = Some c ->
    any_in c -> any_strict c.
  Proof.
    intros Hc Hd.
    destruct (lookup_refine_at_inv addr_intersection addr_null_set indices base n bcn b c Hc) as (c0 & _ & Ec).
    destruct (zmem (Z.of_N n) _); subst c; [exact (any_inter_strict _ _ Hd) | destruct (any_null Hd)].
  Qed.

  Theorem family_unvalidated_reachable_addr (v : nat -> bool) :
    (forall b, v b = false <-> unvalA b) ->
    forall b blk, fblock f b = Some blk -> v b = false -> UReach f v b.
  Proof.
    intros Hv b blk Hb Hvb. apply Hv in Hvb.
    destruct (proj1 (unval_iff_key_addr b blk Hb) Hvb)
      as (n & bc0 & base & rest & bcn & l & x & Hn & Hres & Hin & Hi0 & Hin' & Hsn & Hval & Hx & Hd).
    apply (solve_unvalidated_reachable_addr (single (KAtIndex n)) (single_wf (KAtIndex n)) f Hwf
             (refine_at addr_intersection addr_null_set indices base n bcn) (refine_strict base n bcn) Hsf
             fuel l v Hsn) with (x := x); [|exact Hx|exact Hd].
    intros b' (x' & Hx' & Hd') Hok'.
    assert (Hb' : exists blk', fblock f b' = Some blk').
    { destruct Hok' as (c & Hc & _).
      destruct (lookup_refine_at_inv addr_intersection addr_null_set indices base n bcn b' c Hc) as (c0 & Hc0 & _).
      destruct (init_lookup_inv _ _ _ _ _ _ _ _ _ _ Hin' Hc0) as (blk' & Hblk' & _). eauto. }
    destruct Hb' as (blk' & Hblk').
    apply Hv. apply (unval_iff_key_addr b' blk' Hblk').
    exists n, bc0, base, rest, bcn, l, x'. repeat split; auto.
    destruct (run_family_inv sset sset_seteqb addr_universal_set addr_null_set addr_union addr_intersection single
                f fuel indices res Hrun) as (bc0' & base' & rest' & _ & _ & Hres' & Hrest').
    rewrite Hres in Hres'. inversion Hres'; subst base' rest'.
    unfold fam_val. rewrite Hres. cbn [find keyfam_eqb].
    destruct (find (fun '(fm, _) => keyfam_eqb fm (KAtIndex n)) rest) as [[fm l']|] eqn:Ef.
    - destruct (find_some _ _ Ef) as [Hin2 Hk]. apply keyfam_eqb_eq in Hk. subst fm.
      destruct (Hrest' _ _ Hin2) as (bcn2 & Hi2 & Hs2). rewrite Hin' in Hi2. inversion Hi2; subst bcn2.
      rewrite Hsn in Hs2. inversion Hs2; subst l'. rewrite Hx'. reflexivity.
    - exfalso. pose proof (find_none _ _ Ef _ Hin) as Hk. cbn beta iota in Hk.
      rewrite keyfam_eqb_refl in Hk. discriminate.
  Qed.

  Theorem unvalidated_leaf_has_unvalidated_path_addr (v : nat -> bool) b :
    single_key_pred sset addr_universal_set any_in indices res v -> fn_leaf_block f b -> v b = false ->
    exists p, GoodPath f v p /\ last p 0 = b.
  Proof.
    intros Hv (blk & Hin & Hleaf & Hidxb) Hvb.
    destruct (graph_wf_sound f Hwf) as (_ & _ & _ & _ & _ & _ & Hnd & _).
    pose proof (fblock_of_In f blk Hnd Hin) as Hb. rewrite Hidxb in Hb.
    pose proof (family_unvalidated_reachable_addr v Hv b blk Hb Hvb) as Hr.
    exact (ureach_good_path f v b blk Hsf Hr Hb Hleaf).
  Qed.
End AddrFamily.

(* ====================================================================== *)
(* 4. instance: rekey-to                                                    *)
(* ====================================================================== *)
(* the detector's predicate reads the any-address flag of the ONE value and nothing else *)
Lemma rekey_check_danger r b fam :
  checks_rekey_to (ctx_of r b fam) = false <-> any_in (res_addr r "RekeyTo" fam b).
Proof.
  unfold checks_rekey_to, ctx_of, any_in. cbn [ctx_rekeyto]. unfold addrval_of. cbn [av_any].
  apply negb_false_iff.
Qed.

Lemma seq_outcomes_cons_inv {A B} (g : A -> outcome B) a l rs :
  seq_outcomes (a :: l) g = Done rs -> exists b r, g a = Done b /\ seq_outcomes l g = Done r /\ rs = b :: r.
Proof.
  unfold seq_outcomes. cbn [fold_right]. intros H.
  destruct (fold_right _ (Done []) l) as [r| |] eqn:E; try discriminate.
  destruct (g a) as [y| |] eqn:Ea; try discriminate. inversion H. exists y, r. auto.
Qed.

Definition tag_rekey : keyfam * list (nat * sset) -> string * keyfam * list (nat * sset) :=
  fun '(fam, v) => ("RekeyTo", fam, v).

(* the RekeyTo part of r_addrs is the FIRST chunk, produced by one run_family, and no later entry carries the field *)
Lemma run_all_rekey_inv f fuel r : run_all f fuel = Done r ->
  exists sizes idx0 rk rest,
    r_indices r = indices_of sizes idx0 /\
    run_family f fuel sset_seteqb addr_universal_set addr_null_set addr_union addr_intersection
      (fun fam => addr_single (fn_intcs f) fam "RekeyTo") (indices_of sizes idx0) = Done rk /\
    r_addrs r = map tag_rekey rk ++ rest /\
    forall fld fam v, In (fld, fam, v) rest -> fld <> "RekeyTo".
Proof.
  unfold run_all. intros H.
  destruct (run_int f fuel true) as [sizes| |] eqn:Es; destruct (run_int f fuel false) as [idx0| |] eqn:Ex;
    try discriminate.
  fold (indices_of sizes idx0) in H.
  match type of H with match ?S with _ => _ end = _ => destruct S as [addrs| |] eqn:Ea; try discriminate end.
  match type of H with match ?S with _ => _ end = _ => destruct S as [fees| |]; try discriminate end.
  match type of H with match ?S with _ => _ end = _ => destruct S as [types| |]; try discriminate end.
  inversion H; subst r. cbn [r_addrs r_indices].
  unfold addr_fields_list in Ea. apply seq_outcomes_cons_inv in Ea. destruct Ea as (c0 & tl & E0 & Etl & ->).
  match type of E0 with match ?S with _ => _ end = _ => destruct S as [rk| |] eqn:Er; try discriminate end.
  inversion E0; subst c0.
  exists sizes, idx0, rk, (concat tl). split; [reflexivity|]. split; [exact Er|]. split; [reflexivity|].
  intros fld fam v Hin. apply in_concat in Hin. destruct Hin as (l & Hl & Hin).
  destruct (seq_outcomes_inv _ _ _ Etl _ Hl) as (fld' & Hf' & Hg).
  match type of Hg with match ?S with _ => _ end = _ => destruct S as [r'| |]; try discriminate end.
  inversion Hg; subst l. apply in_map_iff in Hin. destruct Hin as ([fam' v'] & E & _). inversion E; subst.
  destruct Hf' as [<-|[<-|[<-|[]]]]; discriminate.
Qed.

Lemma find_rekey fam : forall (rk : list (keyfam * list (nat * sset))) rest,
  (forall fld fm v, In (fld, fm, v) rest -> fld <> "RekeyTo") ->
  find (fun '(fl, fm, _) => (fl =? "RekeyTo") && keyfam_eqb fm fam) (map tag_rekey rk ++ rest) =
  option_map tag_rekey (find (fun '(fm, _) => keyfam_eqb fm fam) rk).
Proof.
  intros rk rest Hrest. induction rk as [|[fm l] rk IH].
  - cbn [map app find option_map]. induction rest as [|[[fl fm] l] rest IH]; [reflexivity|].
    cbn [find]. assert (E : (fl =? "RekeyTo") = false).
    { apply String.eqb_neq. exact (Hrest fl fm l (or_introl eq_refl)). }
    rewrite E. cbn [andb]. apply IH. intros fld fm' v Hin. exact (Hrest fld fm' v (or_intror Hin)).
  - cbn [map app find tag_rekey]. rewrite String.eqb_refl. cbn [andb].
    destruct (keyfam_eqb fm fam); [reflexivity | exact IH].
Qed.

Lemma res_addr_fam_val r rk rest fam b :
  r_addrs r = map tag_rekey rk ++ rest ->
  (forall fld fm v, In (fld, fm, v) rest -> fld <> "RekeyTo") ->
  res_addr r "RekeyTo" fam b = fam_val sset addr_universal_set rk fam b.
Proof.
  intros Hr Hrest. unfold res_addr, fam_val. rewrite Hr, (find_rekey fam rk rest Hrest).
  destruct (find (fun '(fm, _) => keyfam_eqb fm fam) rk) as [[fm l]|]; reflexivity.
Qed.

Lemma validated_rekey_unval r rk b :
  (forall fam b', res_addr r "RekeyTo" fam b' = fam_val sset addr_universal_set rk fam b') ->
  validated_in_block r checks_rekey_to None b = false <->
  unval sset addr_universal_set any_in (r_indices r) rk b.
Proof.
  intros Hfv. unfold validated_in_block, unval, gidx.
  change (ctx_group_indices (ctx_of r b KSelf))
    with (match Analysis.lookup _ (r_indices r) b with Some l => l | None => [] end).
  rewrite <- !Hfv.
  destruct (checks_rekey_to (ctx_of r b KSelf)) eqn:E.
  - split; [discriminate|]. intros [Hs _]. apply rekey_check_danger in Hs. congruence.
  - apply rekey_check_danger in E. rewrite forallb_false. split.
    + intros (i & Hi & Hc). split; [exact E|]. exists i. split; [exact Hi|].
      rewrite <- Hfv. apply rekey_check_danger. exact Hc.
    + intros (_ & i & Hi & Hd). exists i. split; [exact Hi|]. apply rekey_check_danger.
      rewrite <- Hfv in Hd. exact Hd.
Qed.

(* leaves_justified DISCHARGED for rekey-to, and the end of the path is the unvalidated exit *)
Theorem unvalidated_leaf_has_unvalidated_path_rekey f fuel r b :
  graph_wf f = true -> subroutine_free f -> run_all f fuel = Done r ->
  fn_leaf_block f b -> validated_in_block r checks_rekey_to None b = false ->
  exists p, GoodPath f (validated_in_block r checks_rekey_to None) p /\ last p 0 = b.
Proof.
  intros Hwf Hsf Hrun Hleaf Hv.
  destruct (run_all_rekey_inv f fuel r Hrun) as (sizes & idx0 & rk & rest & Eidx & Hfam & Haddrs & Hrest).
  rewrite <- Eidx in Hfam.
  apply (unvalidated_leaf_has_unvalidated_path_addr (fun fam => addr_single (fn_intcs f) fam "RekeyTo")
           (fun fam => addr_single_wf (fn_intcs f) fam "RekeyTo") f fuel (r_indices r) rk Hwf Hsf Hfam
           (run_all_indices_range f fuel r Hrun)); [|exact Hleaf|exact Hv].
  intros b'. apply validated_rekey_unval. intros fam b0. exact (res_addr_fam_val r rk rest fam b0 Haddrs Hrest).
Qed.

Theorem leaves_justified_rekey f fuel r :
  graph_wf f = true -> subroutine_free f -> run_all f fuel = Done r ->
  leaves_justified f r checks_rekey_to.
Proof.
  intros Hwf Hsf Hrun (b & Hleaf & Hv).
  destruct (unvalidated_leaf_has_unvalidated_path_rekey f fuel r b Hwf Hsf Hrun Hleaf Hv) as (p & HG & _).
  exists p. exact HG.
Qed.

(* C13, last sentence, for rekey-to: the one-transaction group reports the transaction IFF the single-contract
   detector reports a path *)
Theorem single_group_eq_contract_rekey funcs dtype vtypes t k f r fuelr fuel ps :
  single_contract t k -> nth_error funcs k = Some (f, r) -> relative_accessors [t] t = [] ->
  eligible dtype vtypes t -> g_abs t = None ->
  graph_wf f = true -> subroutine_free f -> run_all f fuelr = Done r ->
  run_detector f r fuel "rekey-to" checks_rekey_to = Done ps ->
  (txn_vulnerable funcs checks_rekey_to dtype vtypes [t] t = true <-> ps <> []).
Proof.
  intros Hone Hfun Hself Hel Habs Hwf Hsf Hrun Hdet.
  apply (single_group_eq_contract_partial funcs checks_rekey_to dtype vtypes t k f r Hone Hfun Hself Hel
           fuel "rekey-to" ps); [discriminate | exact Habs | exact (leaves_justified_rekey f fuelr r Hwf Hsf Hrun) | exact Hdet].
Qed.

(* ... for every parsed structured contract without subroutines *)
Corollary single_group_eq_contract_rekey_parsed funcs dtype vtypes t k p tl r fuelr fuel ps :
  parse_teal p = Ok tl -> struct_ok tl -> subroutine_free (whole_function tl) ->
  single_contract t k -> nth_error funcs k = Some (whole_function tl, r) -> relative_accessors [t] t = [] ->
  eligible dtype vtypes t -> g_abs t = None ->
  run_all (whole_function tl) fuelr = Done r ->
  run_detector (whole_function tl) r fuel "rekey-to" checks_rekey_to = Done ps ->
  (txn_vulnerable funcs checks_rekey_to dtype vtypes [t] t = true <-> ps <> []).
Proof.
  intros Hp Hok Hsf Hone Hfun Hself Hel Habs Hrun Hdet.
  exact (single_group_eq_contract_rekey funcs dtype vtypes t k _ r fuelr fuel ps Hone Hfun Hself Hel Habs
           (graph_wf_whole_function p tl Hp Hok) Hsf Hrun Hdet).
Qed.

(* ====================================================================== *)
(* 5. the representation invariant itself: every value of the result is addr_wf *)
(* ====================================================================== *)
Section AddrWf.
  Variable single : instr -> nat -> list sval -> sset * sset.
  Hypothesis single_wf : forall op pos args, addr_wf (fst (single op pos args)) /\ addr_wf (snd (single op pos args)).
  Variable f : func.

  Definition st_wf (st : list (nat * sset)) : Prop := forall b v, Analysis.lookup sset st b = Some v -> addr_wf v.

  Notation rstA := (SolverLemmas.rstep sset addr_universal_set addr_null_set addr_union addr_intersection single f).
  Notation lstA := (SolverLemmas.lstep sset addr_union).

  Lemma rfold_wf st xb : st_wf st -> forall ps a r,
    fold_left (rstA st xb) ps (Some a) = Some r -> addr_wf a -> addr_wf r.
  Proof.
    intros Hst. induction ps as [|q ps IH]; intros a r H Ha.
    - cbn [fold_left] in H. inversion H; subst. exact Ha.
    - cbn [fold_left] in H.
      destruct (rstA st xb (Some a) q) as [a'|] eqn:E; [|rewrite rfold_none in H; discriminate].
      apply (IH a' r H). unfold SolverLemmas.rstep in E.
      destruct (Analysis.lookup sset st q) as [ro|] eqn:El; [|discriminate].
      destruct (fblock f q) as [pb|]; [|discriminate].
      destruct (edge_constraint sset addr_universal_set addr_null_set addr_union addr_intersection single f pb (b_idx xb))
        as [ec|] eqn:Ee; [|discriminate].
      inversion E; subst a'. apply addr_union_wf; [exact Ha|].
      apply addr_intersection_wf; [exact (Hst q ro El) | exact (edge_wf single single_wf f pb (b_idx xb) ec Ee)].
  Qed.

  Lemma reachin_wf st xb ri : st_wf st ->
    Analysis.reachin sset addr_universal_set addr_null_set addr_union addr_intersection single f st xb = Some ri ->
    addr_wf ri.
  Proof.
    intros Hst. rewrite reachin_unfold. intros H.
    destruct (prev_global f xb) as [ps|]; [|discriminate].
    destruct (fold_left (rstA st xb) ps _) as [acc|] eqn:F; [|discriminate].
    assert (Hacc : addr_wf acc).
    { apply (rfold_wf st xb Hst ps _ acc F).
      destruct (Nat.eqb (b_idx xb) (fn_entry f)); [apply addr_universal_wf | apply addr_null_wf]. }
    destruct (is_sub_return_point f xb).
    - destruct (callsub_block_of f xb) as [c|]; [|discriminate].
      destruct (Analysis.lookup sset st c) as [rc|] eqn:El; [|discriminate]. inversion H; subst ri.
      apply addr_intersection_wf; [exact Hacc | exact (Hst c rc El)].
    - inversion H; subst ri. exact Hacc.
  Qed.

  Lemma lfold_wf st : st_wf st -> forall nx a r,
    fold_left (lstA st) nx (Some a) = Some r -> addr_wf a -> addr_wf r.
  Proof.
    intros Hst. induction nx as [|q nx IH]; intros a r H Ha.
    - cbn [fold_left] in H. inversion H; subst. exact Ha.
    - cbn [fold_left] in H.
      destruct (lstA st (Some a) q) as [a'|] eqn:E; [|rewrite lfold_none in H; discriminate].
      apply (IH a' r H). unfold SolverLemmas.lstep in E.
      destruct (Analysis.lookup sset st q) as [lo|] eqn:El; [|discriminate].
      inversion E; subst a'. apply addr_union_wf; [exact Ha | exact (Hst q lo El)].
  Qed.

  Lemma livein_wf st xb li : st_wf st ->
    Analysis.livein sset addr_null_set addr_union addr_intersection f st xb = Some li -> addr_wf li.
  Proof.
    intros Hst. rewrite livein_unfold. intros H.
    destruct (next_global f xb) as [nx|]; [|discriminate].
    destruct (fold_left (lstA st) nx _) as [acc|] eqn:F; [|discriminate].
    assert (Hacc : addr_wf acc) by exact (lfold_wf st Hst nx _ acc F addr_null_wf).
    assert (Hdef : Some acc = Some li -> addr_wf li) by (intros E; inversion E; subst; exact Hacc).
    destruct (fexit_op f xb) as [[]|]; auto.
    destruct (sub_return_point xb) as [rp|]; auto.
    destruct (f_find_sub f _) as [s|]; [|discriminate].
    destruct (sub_retsub_blocks f s); auto.
    destruct (Analysis.lookup sset st rp) as [lr|] eqn:El; [|discriminate]. inversion H; subst li.
    apply addr_intersection_wf; [exact Hacc | exact (Hst rp lr El)].
  Qed.

  Lemma update_wf st b v old : st_wf st -> Analysis.lookup sset st b = Some old -> addr_wf v ->
    st_wf (Analysis.update sset st b v).
  Proof.
    intros Hst Hold Hv b' w Hl. destruct (Nat.eq_dec b b') as [<-|Hne].
    - rewrite (lookup_update_same sset st b v old Hold) in Hl. inversion Hl; subst w. exact Hv.
    - rewrite lookup_update_other in Hl by exact Hne. exact (Hst b' w Hl).
  Qed.

  (* THE SOLVER PRESERVES addr_wf: constraints well formed => every value of the result is well formed *)
  Theorem solve_addr_wf fuel bc lo : st_wf bc ->
    solve sset sset_seteqb addr_universal_set addr_null_set addr_union addr_intersection single f fuel bc = Done lo ->
    st_wf lo.
  Proof.
    intros Hbc Hs. apply solve_passes in Hs. destruct Hs as (ro & Hfw & Hbw).
    assert (Hro : st_wf ro).
    { apply (forward_state_ind sset sset_seteqb addr_universal_set addr_null_set addr_union addr_intersection single f
               (Analysis.lookup sset bc) st_wf) with (fuel := fuel) (wl := forward_worklist f)
               (st := SolverLemmas.fwd_st0 sset addr_null_set f); [| |exact Hfw].
      - intros st b xb ri bcv old HP Hfb Hri Hb Hold _.
        apply (update_wf st b _ old HP Hold). apply addr_intersection_wf; [exact (reachin_wf st xb ri HP Hri) | exact (Hbc b bcv Hb)].
      - intros b v H. unfold SolverLemmas.fwd_st0 in H. rewrite lookup_map_blocks in H.
        destruct (fblock f b); [|discriminate]. cbn [option_map] in H. inversion H; subst v. apply addr_null_wf. }
    apply (backward_state_ind sset sset_seteqb addr_null_set addr_union addr_intersection f
             (Analysis.lookup sset ro) st_wf) with (fuel := fuel) (wl := backward_worklist f)
             (st := SolverLemmas.bwd_st0 sset addr_null_set f ro); [| |exact Hbw].
    - intros st b xb li bcv old HP Hfb _ Hli Hb Hold _.
      apply (update_wf st b _ old HP Hold). apply addr_intersection_wf; [exact (livein_wf st xb li HP Hli) | exact (Hro b bcv Hb)].
    - intros b v H. unfold SolverLemmas.bwd_st0 in H. rewrite lookup_map_blocks in H.
      destruct (fblock f b) as [xb|]; [|discriminate]. cbn [option_map] in H. inversion H; subst v.
      destruct (leaf_global f xb); [|apply addr_null_wf].
      destruct (Analysis.lookup sset ro (b_idx xb)) as [w|] eqn:E; [exact (Hro _ w E) | apply addr_null_wf].
  Qed.

  Lemma init_wf bc :
    init_constraints sset addr_universal_set addr_null_set addr_union addr_intersection single f = Some bc -> st_wf bc.
  Proof.
    intros Hi b v Hl.
    exact (init_constraints_closed sset addr_universal_set addr_null_set addr_union addr_intersection single addr_wf
             addr_universal_wf addr_null_wf addr_union_wf addr_intersection_wf single_wf f bc b v Hi Hl).
  Qed.
End AddrWf.

(* ... hence every value of every table of run_family over the address domain, in particular every RekeyTo value of
   run_all that Detect.ctx_of reads *)
Theorem run_family_addr_wf single f fuel indices res :
  (forall fam op pos args, addr_wf (fst (single fam op pos args)) /\ addr_wf (snd (single fam op pos args))) ->
  run_family f fuel sset_seteqb addr_universal_set addr_null_set addr_union addr_intersection single indices = Done res ->
  forall fam l, In (fam, l) res -> st_wf l.
Proof.
  intros Hsw Hrun fam l Hin.
  destruct (run_family_inv sset sset_seteqb addr_universal_set addr_null_set addr_union addr_intersection single
              f fuel indices res Hrun) as (bc0 & base & rest & Hi0 & Hs0 & Hres & Hrest).
  pose proof (solve_addr_wf (single KSelf) (Hsw KSelf) f fuel bc0 base (init_wf _ (Hsw KSelf) f bc0 Hi0) Hs0) as Hbase.
  subst res. destruct Hin as [E|Hin]; [inversion E; subst; exact Hbase|].
  destruct (Hrest fam l Hin) as (bcn & Hin' & Hsn).
  apply (solve_addr_wf (single fam) (Hsw fam) f fuel _ l) in Hsn; [exact Hsn|].
  pose proof (init_wf _ (Hsw fam) f bcn Hin') as Hbcn.
  destruct fam as [|i|i|k]; try exact Hbcn.
  intros b c Hc.
  destruct (lookup_refine_at_inv addr_intersection addr_null_set indices base i bcn b c Hc) as (c0 & Hc0 & Ec).
  destruct (zmem (Z.of_N i) _); subst c; [|apply addr_null_wf].
  apply addr_intersection_wf; [exact (Hbcn b c0 Hc0)|].
  destruct (Analysis.lookup sset base b) as [vb|] eqn:Eb; [exact (Hbase b vb Eb) | apply addr_null_wf].
Qed.

Theorem run_all_rekey_wf f fuel r : run_all f fuel = Done r -> forall fam b, addr_wf (res_addr r "RekeyTo" fam b).
Proof.
  intros Hrun fam b.
  destruct (run_all_rekey_inv f fuel r Hrun) as (sizes & idx0 & rk & rest & _ & Hfam & Haddrs & Hrest).
  rewrite (res_addr_fam_val r rk rest fam b Haddrs Hrest). unfold fam_val.
  destruct (find (fun '(fm, _) => keyfam_eqb fm fam) rk) as [[fm l]|] eqn:Ef; [|apply addr_universal_wf].
  destruct (find_some _ _ Ef) as [Hin _].
  destruct (Analysis.lookup sset l b) as [v|] eqn:El; [|apply addr_universal_wf].
  exact (run_family_addr_wf (fun fam0 => addr_single (fn_intcs f) fam0 "RekeyTo") f fuel (indices_of sizes idx0) rk
           (fun fam0 => addr_single_wf (fn_intcs f) fam0 "RekeyTo") Hfam fm l Hin b v El).
Qed.

(* ====================================================================== *)
(* 6. non-vacuity: parsed contracts on which all hypotheses are discharged  *)
(* ====================================================================== *)
Module WitnessRekey.
  Import Witness.
  (* A. a logic-sig that forbids rekeying on one branch only: both modes REPORT.
        txn TypeEnum; int 1; ==; bnz pay; txn RekeyTo; global ZeroAddress; ==; assert; pay: int 1; return *)
  Definition linesA : list string :=
    ["#pragma version 6"; "txn TypeEnum"; "int 1"; "=="; "bnz pay"; "txn RekeyTo"; "global ZeroAddress"; "=="; "assert";
     "pay:"; "int 1"; "return"].
  Definition pA : prog := Eval vm_compute in prog_of linesA.
  Definition tA : teal := Eval vm_compute in teal_of pA.
  Definition fA : func := whole_function tA.
  Definition rA : fn_result := Eval vm_compute in res_of fA.
  (* B. a diamond that forbids rekeying on both arms, on one of them through `gtxn 0 RekeyTo` with the own index pinned
        to 0 (an at-index key): both modes are SILENT *)
  Definition linesB : list string :=
    ["#pragma version 6"; "txn TypeEnum"; "int 1"; "=="; "bnz pay"; "txn RekeyTo"; "global ZeroAddress"; "=="; "assert";
     "b done"; "pay:"; "gtxn 0 RekeyTo"; "global ZeroAddress"; "=="; "assert"; "txn GroupIndex"; "int 0"; "=="; "assert";
     "done:"; "int 1"; "return"].
  Definition pB : prog := Eval vm_compute in prog_of linesB.
  Definition tB : teal := Eval vm_compute in teal_of pB.
  Definition fB : func := whole_function tB.
  Definition rB : fn_result := Eval vm_compute in res_of fB.

  Lemma parsed :
    (parse_program (unlines linesA) = Ok pA /\ parse_teal pA = Ok tA /\ struct_okb tA = true /\
     subroutine_freeb fA = true /\ run_all fA 100 = Done rA) /\
    (parse_program (unlines linesB) = Ok pB /\ parse_teal pB = Ok tB /\ struct_okb tB = true /\
     subroutine_freeb fB = true /\ run_all fB 100 = Done rB).
  Proof. repeat split; vm_compute; reflexivity. Qed.

  Example rekey_both_report :
    run_detector fA rA 100 "rekey-to" checks_rekey_to = Done [[0; 2]] /\
    txn_vulnerable [(fA, rA)] checks_rekey_to "STATELESS" None [TL] TL = true.
  Proof. split; vm_compute; reflexivity. Qed.
  Example rekey_both_silent :
    run_detector fB rB 100 "rekey-to" checks_rekey_to = Done [] /\
    txn_vulnerable [(fB, rB)] checks_rekey_to "STATELESS" None [TL] TL = false.
  Proof. split; vm_compute; reflexivity. Qed.
  Example rekey_validated :
    map (fun b => (b_idx b, validated_in_block rA checks_rekey_to None (b_idx b))) (fn_blocks fA) =
      [(0, false); (2, false); (1, true)] /\
    map (fun b => (b_idx b, validated_in_block rB checks_rekey_to None (b_idx b))) (fn_blocks fB) =
      [(0, true); (2, true); (3, true); (1, true)].
  Proof. split; vm_compute; reflexivity. Qed.

  (* the theorem applied: every hypothesis of single_group_eq_contract_rekey_parsed is discharged on A and on B *)
  Example rekey_eq_on_A ps :
    run_detector fA rA 100 "rekey-to" checks_rekey_to = Done ps ->
    (txn_vulnerable [(fA, rA)] checks_rekey_to "STATELESS" None [TL] TL = true <-> ps <> []).
  Proof.
    destruct parsed as ((_ & Hp & Hok & Hsf & Hrun) & _).
    apply (single_group_eq_contract_rekey_parsed [(fA, rA)] "STATELESS" None TL 0 pA tA rA 100 100 ps Hp
             (struct_okb_sound tA Hok) (subroutine_freeb_sound fA Hsf)
             (or_introl (conj eq_refl eq_refl)) eq_refl eq_refl (eligible_stateless TL eq_refl) eq_refl Hrun).
  Qed.
  Example rekey_eq_on_B ps :
    run_detector fB rB 100 "rekey-to" checks_rekey_to = Done ps ->
    (txn_vulnerable [(fB, rB)] checks_rekey_to "STATELESS" None [TL] TL = true <-> ps <> []).
  Proof.
    destruct parsed as (_ & (_ & Hp & Hok & Hsf & Hrun)).
    apply (single_group_eq_contract_rekey_parsed [(fB, rB)] "STATELESS" None TL 0 pB tB rB 100 100 ps Hp
             (struct_okb_sound tB Hok) (subroutine_freeb_sound fB Hsf)
             (or_introl (conj eq_refl eq_refl)) eq_refl eq_refl (eligible_stateless TL eq_refl) eq_refl Hrun).
  Qed.
  (* the path whose existence the theorem asserts for the unvalidated exit 2 of A ends there *)
  Example rekey_path_on_A :
    exists p, GoodPath fA (validated_in_block rA checks_rekey_to None) p /\ last p 0 = 2.
  Proof.
    destruct parsed as ((_ & Hp & Hok & Hsf & Hrun) & _).
    apply (unvalidated_leaf_has_unvalidated_path_rekey fA 100 rA 2
             (graph_wf_whole_function pA tA Hp (struct_okb_sound tA Hok)) (subroutine_freeb_sound fA Hsf) Hrun).
    - exists (mkBlock 2 [9; 10; 11] [] [1; 0]). split; [vm_compute; auto|]. split; vm_compute; reflexivity.
    - vm_compute. reflexivity.
  Qed.
  (* the values the detector reads on A: the universal set at the unvalidated blocks, the null set after the assert
     (RekeyTo == ZeroAddress: no non-zero address is left); all well formed *)
  Example rekey_values_on_A :
    map (fun b => (b_idx b, res_addr rA "RekeyTo" KSelf (b_idx b))) (fn_blocks fA) =
      [(0, addr_universal_set); (2, addr_universal_set); (1, addr_null_set)] /\
    forall fam b, addr_wf (res_addr rA "RekeyTo" fam b).
  Proof.
    split; [vm_compute; reflexivity|].
    destruct parsed as ((_ & _ & _ & _ & Hrun) & _). exact (run_all_rekey_wf fA 100 rA Hrun).
  Qed.
End WitnessRekey.

(* ====================================================================== *)
(* 7. subroutine_free cannot simply be dropped for rekey-to either           *)
(* ====================================================================== *)
(* GroupSem4.FeeSubRefuted with the fee bound replaced by the rekey check (the shape of known finding D4):
       txn GroupIndex; int 0; ==; assert; callsub S; int 1; return
       S: txn Sender; global CreatorAddress; ==; bnz ret; int 1; return
       ret: gtxn 0 RekeyTo; global ZeroAddress; ==; assert; retsub
   The entry block is validated for its only possible index through the return point; the approving exit inside S is
   not.  Group mode reports the transaction (rightly: the contract approves a rekeying transaction at index 0), the
   single-contract detector reports no path. *)
Module RekeySubRefuted.
  Definition linesS : list string :=
    ["#pragma version 6"; "txn GroupIndex"; "int 0"; "=="; "assert"; "callsub S"; "int 1"; "return";
     "S:"; "txn Sender"; "global CreatorAddress"; "=="; "bnz ret"; "int 1"; "return";
     "ret:"; "gtxn 0 RekeyTo"; "global ZeroAddress"; "=="; "assert"; "retsub"].
  Definition pS : prog := Eval vm_compute in Witness.prog_of linesS.
  Definition tS : teal := Eval vm_compute in Witness.teal_of pS.
  Definition fS : func := whole_function tS.
  Definition rS : fn_result := Eval vm_compute in Witness.res_of fS.
  Lemma parsedS :
    parse_program (unlines linesS) = Ok pS /\ parse_teal pS = Ok tS /\ struct_okb tS = true /\
    subroutine_freeb fS = false /\ run_all fS 100 = Done rS.
  Proof. repeat split; vm_compute; reflexivity. Qed.
  Example validatedS :
    map (fun b => (b_idx b, validated_in_block rS checks_rekey_to None (b_idx b))) (fn_blocks fS) =
    [(0, true); (1, true); (2, false); (4, true); (3, false)].
  Proof. vm_compute. reflexivity. Qed.
  Example differS :
    run_detector fS rS 100 "rekey-to" checks_rekey_to = Done [] /\
    txn_vulnerable [(fS, rS)] checks_rekey_to "STATELESS" None [Witness.TL] Witness.TL = true.
  Proof. split; vm_compute; reflexivity. Qed.
End RekeySubRefuted.

Theorem single_group_eq_contract_rekey_subroutine_refuted :
  ~ (forall funcs dtype vtypes t k p tl r fuelr fuel ps,
       parse_teal p = Ok tl -> struct_ok tl -> graph_wf (whole_function tl) = true ->
       single_contract t k -> nth_error funcs k = Some (whole_function tl, r) -> relative_accessors [t] t = [] ->
       eligible dtype vtypes t -> g_abs t = None ->
       run_all (whole_function tl) fuelr = Done r ->
       run_detector (whole_function tl) r fuel "rekey-to" checks_rekey_to = Done ps ->
       (txn_vulnerable funcs checks_rekey_to dtype vtypes [t] t = true <-> ps <> [])).
Proof.
  intros H. destruct RekeySubRefuted.parsedS as (_ & Hp & Hok & _ & Hrun).
  pose proof (struct_okb_sound _ Hok) as Hok'.
  destruct (H [(RekeySubRefuted.fS, RekeySubRefuted.rS)] "STATELESS" None Witness.TL 0 RekeySubRefuted.pS
              RekeySubRefuted.tS RekeySubRefuted.rS 100 100 [] Hp Hok' (graph_wf_whole_function _ _ Hp Hok')
              (or_introl (conj eq_refl eq_refl)) eq_refl eq_refl (eligible_stateless Witness.TL eq_refl) eq_refl Hrun
              (proj1 RekeySubRefuted.differS)) as [H1 _].
  exact (H1 (proj2 RekeySubRefuted.differS) eq_refl).
Qed.

Print Assumptions no_prime_point_on_raw_sets.
Print Assumptions solve_any_strict.
Print Assumptions solve_any_iff_live.
Print Assumptions solve_unvalidated_reachable_addr.
Print Assumptions family_unvalidated_reachable_addr.
Print Assumptions unvalidated_leaf_has_unvalidated_path_addr.
Print Assumptions unvalidated_leaf_has_unvalidated_path_rekey.
Print Assumptions leaves_justified_rekey.
Print Assumptions single_group_eq_contract_rekey.
Print Assumptions single_group_eq_contract_rekey_parsed.
Print Assumptions solve_addr_wf.
Print Assumptions run_family_addr_wf.
Print Assumptions run_all_rekey_wf.
Print Assumptions WitnessRekey.rekey_eq_on_A.
Print Assumptions WitnessRekey.rekey_eq_on_B.
Print Assumptions WitnessRekey.rekey_path_on_A.
Print Assumptions single_group_eq_contract_rekey_subroutine_refuted.
