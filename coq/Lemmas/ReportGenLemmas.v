(* The VALUES tealer reports, REGENERATED from the Python source (Gen/ReportGen.v, translated statement by statement from
   utils/output.py ExecutionPaths.to_json, __main__.py handle_output and the reporting statements of main,
   printers/transaction_context.py and printers/human_summary.py by tools/translate_report.py), against the hand-written
   Model/Output.v (json_count, json_paths, json_block_rows, filter_paths, short_notation) and the hand-written report
   definitions of section 1 below (paths_report, envelope, handle_output_model, filter_output), which are stated over them.

   Results:
     2. ExecutionPaths.to_json   to_json_gen_eq (+ to_json_gen_parsed for every parsed contract), transported:
                                 to_json_gen_paths (C18_json_count / json_count_spec: "count" is the number of listed
                                 paths, "paths" lists exactly the reported paths in order, each with its short notation and
                                 the rows of its blocks)
     3. handle_output            handle_output_gen_eq = handle_output_model; transported: handle_output_gen_json (the
                                 envelope: success iff no error, result = the results of all detectors in order),
                                 handle_output_gen_text_error (exit status -1)
     4. main                     main_filter_gen_eq, main_report_gen_eq; transported: main_detect_json_filtered (count and
                                 paths are those AFTER --filter-paths: json_count_filter)
     5. findings                 main_report_silent_on_empty_error, main_report_unbound_contract
     6. transaction-context      repr_num_list_gen_eq (= short_list, total), get_info_gen_eq; transported: get_info_gen_spec
                                 (GroupIndex from the group indices, GroupSize from the group sizes of the block's own context)
     7. human-summary            summary_gen_eq; transported: summary_gen_parsed (declared version, detected mode, counts) *)
From Coq Require Import String List NArith ZArith Bool Arith Ascii Lia.
From Tealer Require Import Tables LeafPrelude Syntax Parse Cfg Keys Analysis Domains Detect KeysGen Output OutputGen ReportGen.
From Tealer Require Import CfgLemmas SubLemmas GraphWf OutputLemmas OutputGenLemmas VersionLemmas VersionGenLemmas.
Import ListNotations.
Open Scope string_scope.
Open Scope list_scope.

(* ====================================================================== *)
(* 0. Generic facts                                                        *)
(* ====================================================================== *)
Lemma fold_none {S X : Type} (F : S -> X -> py S) (l : list X) :
  fold_left (fun acc x => bind acc (fun st => F st x)) l None = None.
Proof. induction l as [|a l IH]; cbn [fold_left bind]; [reflexivity | exact IH]. Qed.

(* mapM: the comprehension [e(x) for x in l] with an element expression that can raise *)
Definition mapM {A B : Type} (e : A -> py B) (l : list A) : py (list B) := comp (fun _ => ret true) e l.

Lemma mapM_cons {A B : Type} (e : A -> py B) a l :
  mapM e (a :: l) = bind (e a) (fun y => bind (mapM e l) (fun ys => ret (y :: ys))).
Proof. reflexivity. Qed.

Lemma mapM_some {A B : Type} (e : A -> py B) (g : A -> B) l :
  (forall x, In x l -> e x = Some (g x)) -> mapM e l = Some (map g l).
Proof. apply comp_some. Qed.

Lemma mapM_length {A B : Type} (e : A -> py B) : forall l ys, mapM e l = Some ys -> length ys = length l.
Proof.
  induction l as [|a l IH]; intros ys H.
  - inversion H. reflexivity.
  - rewrite mapM_cons in H. destruct (e a) as [y|]; [|discriminate]. cbn [bind] in H.
    destruct (mapM e l) as [ys'|] eqn:E; [|discriminate]. cbn [bind] in H. inversion H; subst. cbn [length].
    rewrite (IH ys' eq_refl). reflexivity.
Qed.

Lemma mapM_nth {A B : Type} (e : A -> py B) : forall l ys, mapM e l = Some ys ->
  forall i x, nth_error l i = Some x -> exists y, nth_error ys i = Some y /\ e x = Some y.
Proof.
  induction l as [|a l IH]; intros ys H i x Hi; [destruct i; discriminate|].
  rewrite mapM_cons in H. destruct (e a) as [y|] eqn:Ea; [|discriminate]. cbn [bind] in H.
  destruct (mapM e l) as [ys'|] eqn:E; [|discriminate]. cbn [bind] in H. inversion H; subst.
  destruct i as [|i]; cbn [nth_error] in *.
  - inversion Hi; subst. exists y. split; [reflexivity | exact Ea].
  - exact (IH ys' eq_refl i x Hi).
Qed.

(* ====================================================================== *)
(* 1. The hand-written report definitions, over Model/Output.v             *)
(* ====================================================================== *)
(* "<line>: <instruction>" *)
Definition row_text (r : nat * string) : string := String.append (dec_of_nat (fst r)) (String.append ": " (snd r)).
Definition block_json (rows : list (nat * string)) : json := JList (map (fun r => JStr (row_text r)) rows).
Definition path_json (e : string * list (list (nat * string))) : json :=
  JObj [("short", JStr (fst e)); ("blocks", JList (map block_json (snd e)))].
(* ExecutionPaths.to_json: Model/Output.v json_count and json_paths under the keys of the dict *)
Definition paths_report (t : teal) (meta : detmeta) (det : string) (paths : list (list nat)) : json :=
  JObj [("type", JStr "ExecutionPaths"); ("count", JNum (json_count paths));
        ("description", JStr (det_description meta det)); ("check", JStr det);
        ("impact", JStr (det_impact meta det)); ("confidence", JStr (det_confidence meta det));
        ("help", JStr (det_help meta det));
        ("paths", JList (map path_json (json_paths t paths)))].

(* field access on a JSON object *)
Fixpoint jassoc (k : string) (l : list (string * json)) : option json :=
  match l with [] => None | (k', v) :: r => if String.eqb k' k then Some v else jassoc k r end.
Definition jfield (k : string) (j : json) : option json := match j with JObj l => jassoc k l | _ => None end.

(* the blocks of the reported paths are blocks of the contract whose instruction positions are instructions *)
Definition block_ok (t : teal) (n : nat) : Prop :=
  exists b, tblock t n = Some b /\ forall k, In k (b_ins b) -> k < length (t_prog t).
Definition paths_ok (t : teal) (paths : list (list nat)) : Prop :=
  forall path n, In path paths -> In n path -> block_ok t n.

(* ====================================================================== *)
(* 2. ExecutionPaths.to_json                                                *)
(* ====================================================================== *)
Definition ins_row (t : teal) (k : nat) : string :=
  match nth_error (t_prog t) k with Some i => row_text (i_line i, str_of_instr (i_op i)) | None => "" end.
Definition block_rows (t : teal) (n : nat) : list string :=
  match tblock t n with Some b => map (ins_row t) (b_ins b) | None => [] end.

Lemma block_rows_model t n : block_ok t n -> block_rows t n = map row_text (json_block_rows t n).
Proof.
  intros (b & Hb & Hk). unfold block_rows, json_block_rows. rewrite Hb.
  induction (b_ins b) as [|k l IH]; [reflexivity|]. cbn [map flat_map].
  assert (Hlt : k < length (t_prog t)) by (apply Hk; left; reflexivity).
  unfold ins_row at 1. destruct (nth_error (t_prog t) k) as [i|] eqn:E; [|apply nth_error_None in E; lia].
  cbn [app map]. f_equal. apply IH. intros k' Hk'. apply Hk. right. exact Hk'.
Qed.

Lemma rows_fold t l : (forall k, In k l -> k < length (t_prog t)) ->
  forall acc,
  fold_left (fun acc3 ins => bind acc3 (fun st3 =>
      bind (bind (bind (attr_line t ins) (fun tmp1 => bind (ins_str t ins) (fun tmp2 =>
              ret (String.append (py_str_int tmp1) (String.append ": " tmp2)))))
            (fun tmp3 => ret (st3 ++ [tmp3]))) (fun block_v => ret block_v))) l (ret acc)
  = Some (acc ++ map (ins_row t) l).
Proof.
  induction l as [|k l IH]; intros Hk acc; cbn [fold_left map]; [rewrite app_nil_r; reflexivity|].
  assert (Hlt : k < length (t_prog t)) by (apply Hk; left; reflexivity).
  unfold ret at 1. cbn [bind]. unfold attr_line, ins_str, ins_row at 1.
  destruct (nth_error (t_prog t) k) as [i|] eqn:E; [|apply nth_error_None in E; lia].
  cbn [option_map bind ret]. unfold ret in IH. rewrite IH; [|intros k' Hk'; apply Hk; right; exact Hk'].
  rewrite <- app_assoc. reflexivity.
Qed.

Lemma blocks_fold t path : (forall n, In n path -> block_ok t n) ->
  forall acc,
  fold_left (fun acc2 bb => bind acc2 (fun st2 =>
      let blocks := st2 in
      let block_v := [] in
      bind (attr_instructions t bb) (fun tmp4 =>
      bind (fold_left (fun acc3 ins => bind acc3 (fun st3 =>
               let block_v := st3 in
               bind (bind (bind (attr_line t ins) (fun tmp1 => bind (ins_str t ins) (fun tmp2 =>
                       ret (String.append (py_str_int tmp1) (String.append ": " tmp2)))))
                     (fun tmp3 => ret (block_v ++ [tmp3]))) (fun block_v => ret block_v))) tmp4 (ret block_v))
        (fun tmp5 => let block_v := tmp5 in let blocks := blocks ++ [block_v] in ret blocks)))) path (ret acc)
  = Some (acc ++ map (block_rows t) path).
Proof.
  induction path as [|n path IH]; intros Hok acc; cbn [fold_left map]; [rewrite app_nil_r; reflexivity|].
  destruct (Hok n (or_introl eq_refl)) as (b & Hb & Hk).
  unfold ret at 1. cbn [bind]. cbv zeta. unfold attr_instructions. rewrite Hb. cbn [option_map bind].
  rewrite (rows_fold t (b_ins b) Hk []). cbn [bind app].
  replace (acc ++ block_rows t n :: map (block_rows t) path) with ((acc ++ [block_rows t n]) ++ map (block_rows t) path)
    by (rewrite <- app_assoc; reflexivity).
  unfold block_rows at 1. rewrite Hb. apply IH. intros n' Hn'. apply Hok. right. exact Hn'.
Qed.

Definition path_entry (t : teal) (path : list nat) : list (string * json) :=
  [("short", JStr (short_notation path)); ("blocks", JList (map (fun l => JList (map JStr l)) (map (block_rows t) path)))].

Lemma path_entry_model t path : (forall n, In n path -> block_ok t n) ->
  JObj (path_entry t path) = path_json (short_notation path, map (json_block_rows t) path).
Proof.
  intros Hok. unfold path_entry, path_json. cbn [fst snd]. do 4 f_equal. rewrite !map_map. f_equal.
  apply map_ext_in. intros n Hn. unfold block_json. rewrite (block_rows_model t n (Hok n Hn)), map_map. reflexivity.
Qed.

(* generated = hand-written *)
Theorem to_json_gen_eq t meta det paths : paths_ok t paths ->
  to_json_gen t meta paths det = Some (paths_report t meta det paths).
Proof.
  intros Hok. unfold to_json_gen. cbv zeta.
  assert (F : forall l acc, (forall path, In path l -> forall n, In n path -> block_ok t n) ->
    fold_left (fun acc1 path => bind acc1 (fun st1 =>
      bind (fold_left (fun acc2 bb => bind acc2 (fun st2 =>
               bind (attr_instructions t bb) (fun tmp4 =>
               bind (fold_left (fun acc3 ins => bind acc3 (fun st3 =>
                        bind (bind (bind (attr_line t ins) (fun tmp1 => bind (ins_str t ins) (fun tmp2 =>
                                ret (String.append (py_str_int tmp1) (String.append ": " tmp2)))))
                              (fun tmp3 => ret (st3 ++ [tmp3]))) (fun block_v => ret block_v))) tmp4 (ret []))
                 (fun tmp5 => ret (st2 ++ [tmp5]))))) path (ret []))
        (fun tmp6 => ret (st1 ++ [[("short", JStr (nums_text " -> " (map (fun bb : nat => attr_block_idx bb) path)));
                                   ("blocks", (fun l => JList (map (fun l0 => JList (map JStr l0)) l)) tmp6)]])))) l (ret acc)
    = Some (acc ++ map (path_entry t) l)).
  { induction l as [|path l IH]; intros acc H; cbn [fold_left map]; [rewrite app_nil_r; reflexivity|].
    unfold ret at 1. cbn [bind].
    pose proof (blocks_fold t path (H path (or_introl eq_refl)) []) as B. cbv zeta in B. rewrite B. cbn [bind app].
    replace (acc ++ path_entry t path :: map (path_entry t) l) with ((acc ++ [path_entry t path]) ++ map (path_entry t) l)
      by (rewrite <- app_assoc; reflexivity).
    unfold path_entry at 1, short_notation, nums_text, attr_block_idx. rewrite map_id.
    apply IH. intros p' Hp'. apply H. right. exact Hp'. }
  rewrite (F paths [] (fun path Hp n Hn => Hok path n Hp Hn)). cbn [bind app].
  assert (E : map JObj (map (path_entry t) paths) = map path_json (json_paths t paths)).
  { unfold json_paths. rewrite !map_map. apply map_ext_in. intros path Hp.
    rewrite (path_entry_model t path (fun n Hn => Hok path n Hp Hn)). reflexivity. }
  unfold ret, paths_report, attr_NAME, json_count. rewrite <- E. reflexivity.
Qed.

(* every block of a parsed contract is ok *)
Lemma parsed_block_ok p t n : parse_teal p = Ok t -> In n (full_cfg_nodes t) -> block_ok t n.
Proof.
  intros H Hn. destruct (full_cfg_nodes_spec p t H) as [_ Hs]. destruct (proj1 (Hs n) Hn) as [b Hb].
  exists b. split; [exact Hb|]. intros k Hk. destruct (parse_teal_version_mode p t H) as [_ [_ Hp]]. rewrite Hp.
  exact (parse_teal_block_positions p t b k H (tblock_in_blocks t n b Hb) Hk).
Qed.

(* ... hence on every parsed contract, for every list of paths through its blocks *)
Theorem to_json_gen_parsed p t meta det paths : parse_teal p = Ok t ->
  (forall path n, In path paths -> In n path -> In n (full_cfg_nodes t)) ->
  to_json_gen t meta paths det = Some (paths_report t meta det paths).
Proof.
  intros H Hin. apply to_json_gen_eq. intros path n Hp Hn. exact (parsed_block_ok p t n H (Hin path n Hp Hn)).
Qed.

(* transported (OutputLemmas.json_count_spec / Props C18_json_count): "count" is the number of listed paths, "paths"
   lists exactly the reported paths, in order, each with its short notation and, per block, the rows "<line>: <ins>" *)
Theorem to_json_gen_paths p t meta det paths : parse_teal p = Ok t ->
  (forall path n, In path paths -> In n path -> In n (full_cfg_nodes t)) ->
  exists j listed, to_json_gen t meta paths det = Some j /\
    jfield "check" j = Some (JStr det) /\
    jfield "count" j = Some (JNum (length listed)) /\ jfield "paths" j = Some (JList listed) /\
    length listed = length paths /\
    forall i path, nth_error paths i = Some path ->
      nth_error listed i = Some (JObj [("short", JStr (short_notation path));
                                       ("blocks", JList (map (fun n => block_json (json_block_rows t n)) path))]).
Proof.
  intros H Hin. exists (paths_report t meta det paths), (map path_json (json_paths t paths)).
  split; [exact (to_json_gen_parsed p t meta det paths H Hin)|].
  destruct (json_count_spec t paths) as [Hc _].
  split; [reflexivity|]. split; [cbn; rewrite map_length, <- Hc; reflexivity|]. split; [reflexivity|].
  split; [rewrite map_length; symmetry; exact Hc|].
  intros i path Hi. unfold json_paths. rewrite map_map, nth_error_map, Hi. cbn [option_map]. unfold path_json. cbn [fst snd].
  rewrite map_map. reflexivity.
Qed.

(* ====================================================================== *)
(* 3. handle_output                                                        *)
(* ====================================================================== *)
Lemma fold_concat {A : Type} (l : list (list A)) : forall s, fold_left (fun st x => st ++ x) l s = s ++ concat l.
Proof.
  induction l as [|a l IH]; intros s; cbn [fold_left concat]; [rewrite app_nil_r; reflexivity|].
  rewrite IH, app_assoc. reflexivity.
Qed.

Section ReportLemmas.
  Variable Other : Type.
  Variable other_detector : Other -> string.
  Variable other_to_json : Other -> py json.
  Variable other_generate_output : Other -> list string -> py bool.
  Variable meta : detmeta.
  Variable contract_name_of : teal -> string.
  Variable root : list string.
  Notation output := (output Other).

  Definition to_json_of : output -> py json := call_to_json Other other_to_json meta.
  Definition generate_of : output -> list string -> py (bool * list dotout) := call_generate_output Other other_generate_output.
  Definition detector_of : output -> string := out_detector Other other_detector.
  Definition handle : option string -> list (list output) -> teal -> option string -> py (list report_event * option Z) :=
    handle_output_gen Other other_detector other_to_json other_generate_output meta contract_name_of root.

  (* ---- hand-written: what handle_output reports *)
  (* the JSON envelope *)
  Definition envelope (error : option string) (results : list json) : json :=
    JObj [("success", JBool (match error with None => true | Some _ => false end)); ("error", jopt JStr error);
          ("result", JList results)].
  (* the detectors whose output generated nothing, in order *)
  Definition zero_results (outs : list output) (rs : list (bool * list dotout)) : list string :=
    flat_map (fun x : output * (bool * list dotout) => if fst (snd x) then [] else [detector_of (fst x)]) (combine outs rs).
  Definition handle_output_model (args_json : option string) (detector_results : list (list output)) (tl : teal)
      (error : option string) : py (list report_event * option Z) :=
    let outs := concat detector_results in
    let dir := root ++ [contract_name_of tl] in
    match args_json with
    | Some file =>
        bind (mapM to_json_of outs) (fun js =>
        ret (if String.eqb file "-" then [RepJsonStdout (envelope error js)]
             else [RepJsonNotice (dir ++ [file]); RepJsonFile (dir ++ [file]) (envelope error js)], @None Z))
    | None =>
        match error with
        | Some e => ret ([RepError e], Some (-1)%Z)
        | None =>
            bind (mapM (fun o => generate_of o dir) outs) (fun rs =>
            let zero := zero_results outs rs in
            ret (map (fun r => RepGenerated (fst r) (snd r)) rs ++ match zero with [] => [] | _ => [RepZeroResults zero] end,
                 @None Z))
        end
    end.

  Lemma text_fold dir : forall outs out zero,
    fold_left (fun acc1 output_v => bind acc1 (fun st1 =>
        bind (call_generate_output Other other_generate_output output_v dir) (fun wrote4 =>
        if negb (fst wrote4)
        then ret (fst st1 ++ [RepGenerated (fst wrote4) (snd wrote4)], snd st1 ++ [out_detector Other other_detector output_v])
        else ret (fst st1 ++ [RepGenerated (fst wrote4) (snd wrote4)], snd st1)))) outs (ret (out, zero))
    = bind (mapM (fun o => generate_of o dir) outs) (fun rs =>
        ret (out ++ map (fun r => RepGenerated (fst r) (snd r)) rs, zero ++ zero_results outs rs)).
  Proof.
    induction outs as [|o outs IH]; intros out zero.
    - cbn [fold_left]. unfold mapM. cbn [comp bind ret map]. unfold zero_results. cbn [combine flat_map]. rewrite !app_nil_r. reflexivity.
    - cbn [fold_left]. rewrite mapM_cons. unfold ret at 1. cbn [bind]. cbv zeta. cbn [fst snd]. fold (generate_of o dir).
      destruct (generate_of o dir) as [[b files]|] eqn:E; cbn [bind]; [|apply fold_none].
      cbn [fst snd]. destruct b; cbn [negb].
      + etransitivity; [apply (IH (out ++ [RepGenerated true files]) zero)|].
        destruct (mapM (fun o0 => generate_of o0 dir) outs) as [rs|]; cbn [bind ret]; [|reflexivity].
        cbn [map fst snd]. unfold zero_results. cbn [combine flat_map fst snd app]. rewrite <- app_assoc. reflexivity.
      + etransitivity; [apply (IH (out ++ [RepGenerated false files]) (zero ++ [out_detector Other other_detector o]))|].
        destruct (mapM (fun o0 => generate_of o0 dir) outs) as [rs|]; cbn [bind ret]; [|reflexivity].
        cbn [map fst snd]. unfold zero_results. cbn [combine flat_map fst snd app]. rewrite <- !app_assoc. reflexivity.
  Qed.

  (* generated = hand-written *)
  Theorem handle_output_gen_eq args_json detector_results teal error :
    handle args_json detector_results teal error = handle_output_model args_json detector_results teal error.
  Proof.
    unfold handle, handle_output_gen, handle_output_model. cbv zeta.
    rewrite (fold_some _ (fun st (x : list output) => st ++ x)); [|intros x _ st; reflexivity].
    unfold ret at 1. cbn [bind]. rewrite fold_concat. cbn [app]. unfold attr_contract_name.
    destruct args_json as [file|].
    - change (comp (fun _ : output => ret true) (fun output_v : output => call_to_json Other other_to_json meta output_v) (concat detector_results))
        with (mapM to_json_of (concat detector_results)).
      destruct (mapM to_json_of (concat detector_results)) as [js|]; cbn [bind]; [|reflexivity].
      rewrite map_id.
      assert (E : [("success", JBool (negb (opt_is_some error))); ("error", jopt JStr error); ("result", JList js)]
                  = [("success", JBool (match error with None => true | Some _ => false end)); ("error", jopt JStr error); ("result", JList js)])
        by (destruct error; reflexivity).
      rewrite E. fold (envelope error js). destruct (String.eqb file "-"); reflexivity.
    - destruct error as [e|]; [reflexivity|].
      rewrite (text_fold (root ++ [contract_name_of teal]) (concat detector_results) [] []).
      destruct (mapM (fun o => generate_of o (root ++ [contract_name_of teal])) (concat detector_results)) as [rs|]; cbn [bind]; [|reflexivity].
      cbn [fst snd app ret bind]. destruct (zero_results (concat detector_results) rs) as [|z zs] eqn:Z.
      + cbn [list_is_empty negb]. rewrite app_nil_r. reflexivity.
      + cbn [list_is_empty negb]. unfold attr_NAME. rewrite map_id. reflexivity.
  Qed.

  (* ---- the JSON of one Output object *)
  Definition json_of (o : output) : json :=
    match o with
    | OExecutionPaths t d ps => paths_report t meta d ps
    | OOther x => match other_to_json x with Some j => j | None => JNull end
    end.
  Definition out_ok (o : output) : Prop :=
    match o with OExecutionPaths t _ ps => paths_ok t ps | OOther x => other_to_json x <> None end.

  Lemma to_json_of_ok o : out_ok o -> to_json_of o = Some (json_of o).
  Proof.
    destruct o as [t d ps|x]; cbn [out_ok to_json_of call_to_json json_of]; intros H.
    - unfold to_json_of. cbn [call_to_json]. apply to_json_gen_eq. exact H.
    - unfold to_json_of. cbn [call_to_json]. destruct (other_to_json x); [reflexivity | congruence].
  Qed.

  (* transported (the envelope): in JSON mode exactly one document is produced; it lists the results of ALL detectors, in
     the order of the detectors and, per detector, of its outputs -- whether or not an output has paths --; success is
     true iff there is no error; the process is not exited *)
  Theorem handle_output_gen_json file detector_results teal error :
    (forall o, In o (concat detector_results) -> out_ok o) ->
    let doc := envelope error (map json_of (concat detector_results)) in
    handle (Some file) detector_results teal error =
      Some (if String.eqb file "-" then [RepJsonStdout doc]
            else [RepJsonNotice (root ++ [contract_name_of teal] ++ [file]); RepJsonFile (root ++ [contract_name_of teal] ++ [file]) doc],
            None) /\
    jfield "success" doc = Some (JBool (match error with None => true | Some _ => false end)) /\
    jfield "error" doc = Some (jopt JStr error) /\
    jfield "result" doc = Some (JList (map json_of (concat detector_results))).
  Proof.
    intros Hok doc. split; [|repeat split].
    rewrite handle_output_gen_eq. unfold handle_output_model. cbv zeta.
    rewrite (mapM_some to_json_of json_of); [|intros o Ho; apply to_json_of_ok; apply Hok; exact Ho].
    cbn [bind ret]. rewrite <- !app_assoc. reflexivity.
  Qed.

  (* text mode with an error: the message, exit status -1, nothing else *)
  Theorem handle_output_gen_text_error detector_results teal e :
    handle None detector_results teal (Some e) = Some ([RepError e], Some (-1)%Z).
  Proof. rewrite handle_output_gen_eq. reflexivity. Qed.

  (* text mode without error: one generate_output per output, in order; then the detectors without result *)
  Theorem handle_output_gen_text detector_results teal rs :
    mapM (fun o => generate_of o (root ++ [contract_name_of teal])) (concat detector_results) = Some rs ->
    exists tail, handle None detector_results teal None = Some (map (fun r => RepGenerated (fst r) (snd r)) rs ++ tail, None) /\
      (tail = [] /\ zero_results (concat detector_results) rs = [] \/
       tail = [RepZeroResults (zero_results (concat detector_results) rs)] /\ zero_results (concat detector_results) rs <> []).
  Proof.
    intros H. rewrite handle_output_gen_eq. unfold handle_output_model. cbv zeta. rewrite H. cbn [bind ret].
    destruct (zero_results (concat detector_results) rs) as [|z zs] eqn:Z.
    - exists []. split; [reflexivity|]. left. split; reflexivity.
    - exists [RepZeroResults (z :: zs)]. split; [reflexivity|]. right. split; [reflexivity | discriminate].
  Qed.

  (* ====================================================================== *)
  (* 4. main: --filter-paths, the call of handle_output                      *)
  (* ====================================================================== *)
  Definition filter_output (search : string -> string -> bool) (pattern : string) (o : output) : output :=
    match o with
    | OExecutionPaths t d ps => OExecutionPaths t d (filter_paths search pattern ps)
    | OOther x => OOther x
    end.

  Theorem main_filter_gen_eq (re_search : string -> string -> py bool) (search : string -> string -> bool) pattern results :
    (forall text, re_search pattern text = Some (search pattern text)) ->
    main_filter_gen Other re_search (Some pattern) results = Some (map (map (filter_output search pattern)) results).
  Proof.
    intros Hs. unfold main_filter_gen.
    rewrite (comp_some _ (map (filter_output search pattern))); [reflexivity|].
    intros l _. rewrite (comp_some _ (filter_output search pattern)); [reflexivity|].
    intros o _. destruct o as [t d ps|x]; cbn [call_filter_paths filter_output bind ret]; [|reflexivity].
    rewrite (filter_paths_gen_eq re_search search pattern ps Hs). reflexivity.
  Qed.

  Theorem main_filter_gen_none (re_search : string -> string -> py bool) results :
    main_filter_gen Other re_search None results = Some results.
  Proof. reflexivity. Qed.

  Definition main_report : option string -> string -> list (list output) -> py teal -> option string -> py (list report_event * option Z) :=
    main_report_gen Other other_detector other_to_json other_generate_output meta contract_name_of root.

  Theorem main_report_gen_eq args_json subcommand results tealer_contract error :
    main_report args_json subcommand results tealer_contract error =
    if (opt_text_truthy error || String.eqb subcommand "detect")%bool
    then bind tealer_contract (fun t => handle args_json results t error)
    else Some ([], None).
  Proof.
    unfold main_report, main_report_gen, handle. cbv zeta.
    destruct (opt_text_truthy error || String.eqb subcommand "detect")%bool; [|reflexivity].
    destruct tealer_contract as [t|]; cbn [bind]; [|reflexivity].
    destruct (handle_output_gen Other other_detector other_to_json other_generate_output meta contract_name_of root args_json results t error)
      as [[ev ex]|]; reflexivity.
  Qed.

  Lemma filter_output_ok search pattern o : out_ok o -> out_ok (filter_output search pattern o).
  Proof.
    destruct o as [t d ps|x]; cbn [out_ok filter_output]; [|exact (fun H => H)].
    intros H path n Hp Hn. apply (H path n); [|exact Hn].
    unfold filter_paths in Hp. destruct (String.eqb pattern ""); [exact Hp|]. apply filter_In in Hp. exact (proj1 Hp).
  Qed.

  (* transported (OutputLemmas.json_count_filter / filter_paths_spec, Props C18_filter_paths): `detect --json - --filter-paths
     pattern`: the document lists, for every ExecutionPaths result, the paths that do NOT match the pattern, in order, and
     its "count" is their number (the filter is applied before counting) *)
  Theorem main_detect_json_filtered (re_search : string -> string -> py bool) (search : string -> string -> bool)
      pattern results t :
    (forall text, re_search pattern text = Some (search pattern text)) ->
    (forall o, In o (concat results) -> out_ok o) ->
    exists results',
      main_filter_gen Other re_search (Some pattern) results = Some results' /\
      main_report (Some "-") "detect" results' (Some t) None =
        Some ([RepJsonStdout (envelope None (map json_of (concat results')))], None) /\
      concat results' = map (filter_output search pattern) (concat results) /\
      forall t' d ps, json_of (filter_output search pattern (OExecutionPaths t' d ps)) =
                      paths_report t' meta d (filter_paths search pattern ps).
  Proof.
    intros Hs Hok. exists (map (map (filter_output search pattern)) results).
    assert (Hc : concat (map (map (filter_output search pattern)) results) = map (filter_output search pattern) (concat results))
      by (symmetry; apply concat_map).
    split; [apply main_filter_gen_eq; exact Hs|]. split; [|split; [exact Hc | reflexivity]].
    rewrite main_report_gen_eq. cbn [opt_text_truthy String.eqb Ascii.eqb Bool.eqb orb bind].
    destruct (handle_output_gen_json "-" (map (map (filter_output search pattern)) results) t None) as [H _].
    - intros o Ho. rewrite Hc in Ho. apply in_map_iff in Ho. destruct Ho as (o' & <- & Ho'). apply filter_output_ok. apply Hok. exact Ho'.
    - exact H.
  Qed.

  (* ====================================================================== *)
  (* 5. Findings about main (the Python as it is)                            *)
  (* ====================================================================== *)
  (* an error whose message is empty (`raise TealerException from e` of fetch_contract: str(e) = "") is not reported at
     all unless the subcommand is detect: no output, normal exit *)
  Theorem main_report_silent_on_empty_error args_json subcommand results tealer_contract :
    String.eqb subcommand "detect" = false ->
    main_report args_json subcommand results tealer_contract (Some "") = Some ([], None).
  Proof. intros H. rewrite main_report_gen_eq. cbn [opt_text_truthy String.eqb negb orb]. rewrite H. reflexivity. Qed.

  (* when the error was raised before `tealer` was bound (fetch_contract, init_tealer_from_single_contract), the report
     is an uncaught exception (UnboundLocalError), not the JSON envelope with success = false *)
  Theorem main_report_unbound_contract args_json subcommand results e :
    e <> ""%string -> main_report args_json subcommand results None (Some e) = None.
  Proof.
    intros H. rewrite main_report_gen_eq. cbn [opt_text_truthy].
    destruct (String.eqb e "") eqn:E; [apply String.eqb_eq in E; congruence|]. reflexivity.
  Qed.
End ReportLemmas.

(* ====================================================================== *)
(* 6. printers/transaction_context.py                                      *)
(* ====================================================================== *)
(* ---- hand-written: the short form of a list of ints.  The maximal runs of consecutive values of the sorted list, in
   order (state of the scan: the finished runs and the current run); a run of at least 4 values is "first..last" *)
Definition run_step (st : list (list Z) * list Z) (i : Z) : list (list Z) * list Z :=
  match snd st with
  | [] => (fst st, [i])
  | _ => if Z.eqb (List.last (snd st) 0%Z) (i - 1)%Z then (fst st, snd st ++ [i]) else (fst st ++ [snd st], [i])
  end.
Definition runs (l : list Z) : list (list Z) := let st := fold_left run_step l ([], []) in fst st ++ [snd st].
Definition run_text (s : list Z) : string :=
  if Nat.leb 4 (length s) then String.append (string_of_Z (hd 0%Z s)) (String.append ".." (string_of_Z (List.last s 0%Z)))
  else join " " (map string_of_Z s).
Definition short_list (l : list Z) : string := join " " (map run_text (runs (z_sorted l))).

Lemma lst_last_app {A : Type} (l : list A) x : lst_last (l ++ [x]) = Some x.
Proof.
  unfold lst_last. destruct (l ++ [x]) eqn:E; [destruct l; discriminate|]. rewrite <- E.
  rewrite app_length. cbn [length]. replace (length l + 1 - 1) with (length l) by lia.
  rewrite nth_error_app2 by lia. rewrite Nat.sub_diag. reflexivity.
Qed.

Lemma lst_last_nonempty {A : Type} (l : list A) d : l <> [] -> lst_last l = Some (List.last l d).
Proof.
  intros H. destruct (exists_last H) as (l' & x & ->). rewrite lst_last_app, last_last. reflexivity.
Qed.

Lemma append_last_app {A : Type} (l : list (list A)) c v : append_last (l ++ [c]) v = Some (l ++ [c ++ [v]]).
Proof.
  induction l as [|a l IH]; [reflexivity|]. change ((a :: l) ++ [c]) with (a :: (l ++ [c])).
  destruct (l ++ [c]) as [|y r0] eqn:E; [destruct l; discriminate|].
  change (append_last (a :: y :: r0) v) with (bind (append_last (y :: r0) v) (fun r' => ret (a :: r'))).
  rewrite IH. reflexivity.
Qed.

Lemma bind_ret {A B : Type} (x : A) (k : A -> py B) : bind (ret x) k = k x.
Proof. reflexivity. Qed.

Lemma runs_fold : forall l done cur,
  fold_left (fun acc1 i => bind acc1 (fun st1 =>
      ifE (bind (lst_last st1) (fun tmp1 => ret (list_is_empty tmp1)))
          (bind (append_last st1 i) (fun sequences => ret sequences))
          (ifE (bind (bind (lst_last st1) (fun tmp2 => lst_last tmp2)) (fun tmp3 => ret (Z.eqb tmp3 (i - 1%Z)%Z)))
               (bind (append_last st1 i) (fun sequences => ret sequences))
               (ret (st1 ++ [[i]]))))) l (ret (done ++ [cur]))
  = Some (let st := fold_left run_step l (done, cur) in fst st ++ [snd st]).
Proof.
  induction l as [|i l IH]; intros done cur; [reflexivity|]. cbn [fold_left].
  rewrite bind_ret. rewrite lst_last_app.
  destruct cur as [|c0 cur'].
  - change (run_step (done, []) i) with (done, [i]). cbn [list_is_empty ifE bind ret].
    rewrite append_last_app. cbn [bind ret app]. apply (IH done [i]).
  - assert (RS : run_step (done, c0 :: cur') i =
                 if Z.eqb (List.last (c0 :: cur') 0%Z) (i - 1)%Z then (done, (c0 :: cur') ++ [i]) else (done ++ [c0 :: cur'], [i]))
      by reflexivity.
    rewrite RS. cbn [list_is_empty ifE bind ret]. rewrite (lst_last_nonempty (c0 :: cur') 0%Z) by discriminate.
    cbn [bind ret].
    destruct (Z.eqb (List.last (c0 :: cur') 0%Z) (i - 1)%Z); cbn [ifE bind ret].
    + rewrite append_last_app. cbn [bind ret]. apply (IH done ((c0 :: cur') ++ [i])).
    + apply (IH (done ++ [c0 :: cur']) [i]).
Qed.

(* generated = hand-written; _repr_num_list never raises *)
Theorem repr_num_list_gen_eq values : repr_num_list_gen values = Some (short_list values).
Proof.
  unfold repr_num_list_gen. cbv zeta. pose proof (runs_fold (z_sorted values) [] []) as R. cbn [app] in R.
  unfold ret at 1 in R. unfold ret at 1. rewrite R. cbn [bind]. fold (runs (z_sorted values)).
  rewrite (fold_some _ (fun st s => st ++ [run_text s])).
  - unfold ret. cbn [bind]. rewrite fold_app_map. cbn [app]. reflexivity.
  - intros s _ st. unfold run_text, py_str_z, texts_join. destruct (Nat.leb 4 (length s)) eqn:E.
    + destruct s as [|s0 s']; [discriminate|]. unfold subscript. cbn [nth_error bind].
      rewrite (lst_last_nonempty (s0 :: s') 0%Z) by discriminate. cbn [bind ret hd]. reflexivity.
    + rewrite map_id. reflexivity.
Qed.

(* the docstring's examples *)
Example short_list_doc :
  short_list [5; 6; 7; 8]%Z = "5..8" /\
  short_list [1; 2; 3; 5; 6; 7; 8; 9; 11; 13; 14; 15; 16]%Z = "1 2 3 5..9 11 13..16" /\
  short_list [16; 3; 2; 1]%Z = "1 2 3 16" /\ short_list [] = "".
Proof. vm_compute. repeat split. Qed.

Section TransactionContextLemmas.
  Variable f : func.
  Variable r : fn_result.

  (* hand-written: the comment lines the printer adds to block bb (Model/Driver.v ctx_entries shows the same two lists
     under "self:GroupIndex" / "self:GroupSize": r_indices / r_sizes of the analysis result) *)
  Definition info_model (bb : nat) : list string :=
    if nat_mem bb (map b_idx (fn_blocks f))
    then [String.append "GroupIndex: " (short_list (match Analysis.lookup _ (r_indices r) bb with Some l => l | None => [] end));
          String.append "GroupSize: " (short_list (match Analysis.lookup _ (r_sizes r) bb with Some l => l | None => [] end))]
    else [].

  Definition g (k : nat) : bctx := ctx_of r k KSelf.
  Definition dict_ok (d : list (nat * bctx)) : Prop := Forall (fun kv => snd kv = g (fst kv)) d.

  Lemma dict_set_ok d k : dict_ok d -> dict_ok (dict_set_nat d k (g k)).
  Proof.
    induction d as [|[k0 v0] d IH]; intros Hd; cbn [dict_set_nat].
    - constructor; [reflexivity | constructor].
    - inversion Hd as [|x l Hx Hl]; subst. cbn [fst snd] in Hx. destruct (Nat.eqb k0 k) eqn:E.
      + apply Nat.eqb_eq in E. subst. constructor; [reflexivity | exact Hl].
      + constructor; [exact Hx | exact (IH Hl)].
  Qed.

  Lemma dict_set_mem (d : list (nat * bctx)) k v k' :
    dict_mem (dict_set_nat d k v) k' = (dict_mem d k' || Nat.eqb k k')%bool.
  Proof.
    induction d as [|[k0 v0] d IH]; cbn [dict_set_nat dict_mem existsb fst].
    - rewrite orb_false_r. reflexivity.
    - destruct (Nat.eqb k0 k) eqn:E; cbn [existsb fst].
      + apply Nat.eqb_eq in E. subst. destruct (Nat.eqb k k'); cbn [orb]; [reflexivity|]. rewrite orb_false_r. reflexivity.
      + unfold dict_mem in IH. rewrite IH. rewrite orb_assoc. reflexivity.
  Qed.

  Lemma dict_get_ok d k : dict_ok d -> dict_get d k = if dict_mem d k then Some (g k) else None.
  Proof.
    induction d as [|[k0 v0] d IH]; intros Hd; [reflexivity|].
    inversion Hd as [|x l Hx Hl]; subst. cbn [fst snd] in Hx. cbn [dict_get dict_mem existsb fst].
    destruct (Nat.eqb k0 k) eqn:E; cbn [orb].
    - apply Nat.eqb_eq in E. subst. reflexivity.
    - exact (IH Hl).
  Qed.

  Lemma contexts_fold : forall l d, dict_ok d ->
    exists d', fold_left (fun dst (bi : nat) => bind dst (fun dacc => bind (function_context r bi) (fun dval =>
                 ret (dict_set_nat dacc (attr_block_idx bi) dval)))) l (ret d) = Some d' /\
      dict_ok d' /\ forall k, dict_mem d' k = (dict_mem d k || nat_mem k l)%bool.
  Proof.
    induction l as [|a l IH]; intros d Hd.
    - exists d. split; [reflexivity|]. split; [exact Hd|]. intros k. cbn [nat_mem]. rewrite orb_false_r. reflexivity.
    - cbn [fold_left]. unfold ret at 1. cbn [bind]. unfold function_context at 1, attr_block_idx at 1. cbn [bind ret].
      destruct (IH (dict_set_nat d a (g a)) (dict_set_ok d a Hd)) as (d' & Hf & Hok & Hm).
      exists d'. split; [exact Hf|]. split; [exact Hok|]. intros k. rewrite Hm, dict_set_mem.
      cbn [nat_mem]. rewrite <- orb_assoc. f_equal. rewrite Nat.eqb_sym. reflexivity.
  Qed.

  (* generated = hand-written *)
  Theorem get_info_gen_eq bb : get_info_gen f r bb = Some (info_model bb).
  Proof.
    unfold get_info_gen, info_model, function_blocks.
    destruct (contexts_fold (map b_idx (fn_blocks f)) [] (Forall_nil _)) as (d & Hf & Hok & Hm).
    unfold ret at 1 in Hf. unfold ret at 1. rewrite Hf. cbn [bind]. unfold attr_block_idx.
    rewrite (Hm bb). cbn [dict_mem existsb orb]. destruct (nat_mem bb (map b_idx (fn_blocks f))) eqn:E; cbn [negb]; [|reflexivity].
    rewrite (dict_get_ok d bb Hok), (Hm bb), E. cbn [dict_mem existsb orb bind ret].
    unfold attr_group_indices, attr_group_sizes. rewrite !repr_num_list_gen_eq. cbn [bind ret]. reflexivity.
  Qed.

  (* transported (what tools/propdefs.py run_c18 compares): the annotation of a block of the function shows GroupIndex
     computed from the group INDICES and GroupSize from the group SIZES of the block's own context, in this order; a block
     outside the function gets none *)
  Theorem get_info_gen_spec bb :
    (In bb (map b_idx (fn_blocks f)) ->
       get_info_gen f r bb = Some [String.append "GroupIndex: " (short_list (ctx_group_indices (ctx_of r bb KSelf)));
                                   String.append "GroupSize: " (short_list (ctx_group_sizes (ctx_of r bb KSelf)))]) /\
    (~ In bb (map b_idx (fn_blocks f)) -> get_info_gen f r bb = Some []).
  Proof.
    rewrite get_info_gen_eq. unfold info_model. split; intros H.
    - apply CfgLemmas.nat_mem_In in H. rewrite H. reflexivity.
    - destruct (nat_mem bb (map b_idx (fn_blocks f))) eqn:E; [|reflexivity]. apply CfgLemmas.nat_mem_In in E. contradiction.
  Qed.
End TransactionContextLemmas.

(* ====================================================================== *)
(* 7. printers/human_summary.py                                            *)
(* ====================================================================== *)
(* hand-written: the fields of the summary, in order *)
Definition summary_model (t : teal) : list summary_item :=
  [SumVersion (N.to_nat (t_version t)); SumMode (t_mode t); SumBlocks (length (t_blocks t));
   SumInstructions (length (t_retained_ins t)); SumSubroutines (length (t_subs t))]
  ++ flat_map (fun s => [SumSubName (s_name s); SumSubBlocks (s_blocks s)]) (t_subs t).

Lemma find_by_name (l : list subroutine) : NoDup (map s_name l) ->
  forall s, In s l -> find (fun s' => String.eqb (s_name s') (s_name s)) l = Some s.
Proof.
  induction l as [|a l IH]; intros Hnd s Hs; [contradiction|]. inversion Hnd as [|x l' Hx Hl]; subst. cbn [find].
  destruct Hs as [->|Hs]; [rewrite String.eqb_refl; reflexivity|].
  destruct (String.eqb (s_name a) (s_name s)) eqn:E.
  - apply String.eqb_eq in E. exfalso. apply Hx. rewrite E. apply in_map. exact Hs.
  - exact (IH Hl s Hs).
Qed.

(* generated = hand-written, when the subroutine names are pairwise distinct (every parsed contract) *)
Theorem summary_gen_eq t : NoDup (map s_name (t_subs t)) -> summary_gen t = Some (summary_model t).
Proof.
  intros Hnd. unfold summary_gen. cbv zeta.
  assert (F : forall l acc, (forall s, In s l -> In s (t_subs t)) ->
    fold_left (fun acc1 sub_name => bind acc1 (fun st1 =>
        bind (bind (bind (sub_lookup t sub_name) (fun tmp1 => ret (attr_sub_blocks tmp1))) (fun tmp2 => ret (map (fun bi : nat => bi) tmp2)))
          (fun block_ids => ret ((st1 ++ [SumSubName sub_name]) ++ [SumSubBlocks block_ids])))) (map s_name l) (ret acc)
    = Some (acc ++ flat_map (fun s => [SumSubName (s_name s); SumSubBlocks (s_blocks s)]) l)).
  { induction l as [|s l IH]; intros acc Hin; cbn [map fold_left flat_map]; [rewrite app_nil_r; reflexivity|].
    rewrite bind_ret. unfold sub_lookup at 2. rewrite (find_by_name (t_subs t) Hnd s (Hin s (or_introl eq_refl))).
    cbn [bind ret]. unfold attr_sub_blocks at 2. rewrite map_id.
    replace (acc ++ [SumSubName (s_name s); SumSubBlocks (s_blocks s)] ++ flat_map (fun s0 => [SumSubName (s_name s0); SumSubBlocks (s_blocks s0)]) l)
      with (((acc ++ [SumSubName (s_name s)]) ++ [SumSubBlocks (s_blocks s)]) ++ flat_map (fun s0 => [SumSubName (s_name s0); SumSubBlocks (s_blocks s0)]) l)
      by (rewrite <- !app_assoc; reflexivity).
    apply IH. intros s' Hs'. apply Hin. right. exact Hs'. }
  unfold attr_subroutine_names. rewrite (F (t_subs t) _ (fun s H => H)). cbn [bind ret].
  unfold summary_model, attr_version, attr_mode, attr_bbs, attr_teal_instructions, attr_subroutines_items.
  rewrite !map_length. reflexivity.
Qed.

(* transported (VersionLemmas.parse_teal_version_mode / Props C19): on a parsed contract the summary shows the DECLARED
   version, the mode detected from the instructions, the number of retained blocks / instructions and every subroutine
   with its blocks *)
Theorem summary_gen_parsed p t : parse_teal p = Ok t ->
  summary_gen t = Some ([SumVersion (N.to_nat (declared_version p)); SumMode (detect_mode p);
                         SumBlocks (length (full_cfg_nodes t)); SumInstructions (length (t_retained_ins t));
                         SumSubroutines (length (t_subs t))]
                        ++ flat_map (fun s => [SumSubName (s_name s); SumSubBlocks (s_blocks s)]) (t_subs t)).
Proof.
  intros H. rewrite (summary_gen_eq t (wf_names t (parse_twf p t H))). unfold summary_model.
  destruct (parse_teal_version_mode p t H) as [Hv [Hm _]]. rewrite Hv, Hm. unfold full_cfg_nodes. rewrite map_length. reflexivity.
Qed.

Print Assumptions to_json_gen_eq.
Print Assumptions to_json_gen_parsed.
Print Assumptions to_json_gen_paths.
Print Assumptions handle_output_gen_eq.
Print Assumptions handle_output_gen_json.
Print Assumptions handle_output_gen_text_error.
Print Assumptions handle_output_gen_text.
Print Assumptions main_filter_gen_eq.
Print Assumptions main_report_gen_eq.
Print Assumptions main_detect_json_filtered.
Print Assumptions main_report_silent_on_empty_error.
Print Assumptions main_report_unbound_contract.
Print Assumptions repr_num_list_gen_eq.
Print Assumptions get_info_gen_eq.
Print Assumptions get_info_gen_spec.
Print Assumptions summary_gen_eq.
Print Assumptions summary_gen_parsed.
