(* The block sequence of every instruction-level execution (Spec/InsExec.v) is a walk in the contract's
   graph: a Run (Spec/Runs.v) of whole_function t.

   Part 1  geometry of the block scan, phrased for program counters;
   Part 2  one instruction-level step seen on the blocks (parts (a)-(c) of the statement);
   Part 3  traces: the abstraction function and the simulation theorem (part (d)), the bz/bnz order
           fact at pc level, the converse direction, examples. *)
From Coq Require Import String List NArith Bool Arith Lia.
From Tealer Require Import Tables Syntax Parse Cfg Analysis Detect Runs InsExec CfgLemmas SubLemmas GraphWf GraphOk.
Import ListNotations.
Open Scope list_scope.

(* ================================================================== Part 1: raw blocks and pcs *)
Section Geometry.
  Variables (p : prog) (rbs : list rawblock).
  Hypothesis Hc : create_bb p = Some rbs.
  Hypothesis Hne : p <> [].

  (* pc is an instruction of raw block n *)
  Definition InBlk (pc n : nat) : Prop := exists rb, nth_error rbs n = Some rb /\ In pc (rb_ins rb).

  Lemma part : concat (map rb_ins rbs) = seq 0 (length p).
  Proof. apply blocks_partition; assumption. Qed.

  Lemma inblk_cover pc : pc < length p -> exists n, InBlk pc n.
  Proof.
    intros H. assert (Hin : In pc (seq 0 (length p))) by (apply in_seq; lia).
    rewrite <- part in Hin. apply in_concat in Hin. destruct Hin as (l & Hl & Hpc).
    apply in_map_iff in Hl. destruct Hl as (rb & E & Hrb). subst l.
    apply In_nth_error in Hrb. destruct Hrb as (n & Hn). exists n, rb. auto.
  Qed.

  Lemma inblk_lt pc n : InBlk pc n -> pc < length p.
  Proof.
    intros (rb & Hn & Hin). assert (H : In pc (concat (map rb_ins rbs))).
    { apply in_concat. exists (rb_ins rb). split; [|assumption]. apply in_map. eapply nth_error_In; eauto. }
    rewrite part in H. apply in_seq in H. lia.
  Qed.

  Lemma inblk_lookup pc n : InBlk pc n -> block_of_pos rbs pc 0 = Some n.
  Proof. intros (rb & Hn & Hin). eapply block_lookup; eauto. Qed.

  Lemma lookup_inblk pc n : block_of_pos rbs pc 0 = Some n -> InBlk pc n.
  Proof.
    intros H. apply block_of_pos_spec in H. destruct H as (_ & rb & Hn & Hin).
    rewrite Nat.sub_0_r in Hn. exists rb. auto.
  Qed.

  Lemma inblk_unique pc n m : InBlk pc n -> InBlk pc m -> n = m.
  Proof. intros H1 H2. apply inblk_lookup in H1. apply inblk_lookup in H2. congruence. Qed.

  (* positions inside a block are consecutive *)
  Lemma block_adjacent n rb X e h Y :
    nth_error rbs n = Some rb -> rb_ins rb = X ++ e :: h :: Y -> h = S e.
  Proof.
    intros Hn E. destruct (nth_error_split rbs n Hn) as (l1 & l2 & El & _).
    pose proof part as Hp. rewrite El, map_app, concat_app in Hp. simpl in Hp. rewrite E in Hp.
    apply (seq_adjacent (concat (map rb_ins l1) ++ X) 0 (length p) e h (Y ++ concat (map rb_ins l2))).
    rewrite <- Hp. rewrite <- !app_assoc. simpl. reflexivity.
  Qed.

  (* a non-final instruction of a block is followed, in the block, by pc+1 and has the scan's Pnl property *)
  Lemma interior pc n rb :
    nth_error rbs n = Some rb -> In pc (rb_ins rb) -> pc <> last (rb_ins rb) 0 ->
    In (S pc) (rb_ins rb) /\ (exists X Y, rb_ins rb = X ++ pc :: S pc :: Y) /\ Pnl p pc /\ S pc <> hd 0 (rb_ins rb).
  Proof.
    intros Hn Hin Hnl. apply in_split in Hin. destruct Hin as (X & Y & E). destruct Y as [|h Y].
    { exfalso. apply Hnl. rewrite E. symmetry. apply last_last. }
    pose proof (block_adjacent n rb X pc h Y Hn E) as Eh. subst h.
    assert (Hin : In pc (rb_ins rb)) by (rewrite E; apply in_or_app; right; left; reflexivity).
    split; [|split; [exists X, Y; exact E|split]].
    - rewrite E. apply in_or_app. right. right. left. reflexivity.
    - destruct (block_interior p rbs Hc rb pc (nth_error_In _ _ Hn) Hin) as [H _]. exact (H Hnl).
    - rewrite E. destruct X as [|x X]; simpl; [lia|].
      (* x :: X ++ pc :: S pc :: Y is increasing: the head is below pc *)
      intro Ex. assert (Hnd : NoDup (rb_ins rb)).
      { apply (NoDup_concat_In (map rb_ins rbs)); [rewrite part; apply seq_NoDup|].
        apply in_map. eapply nth_error_In; eauto. }
      rewrite E in Hnd. simpl in Hnd. apply NoDup_cons_iff in Hnd. destruct Hnd as [Hx _].
      apply Hx. rewrite <- Ex. apply in_or_app. right. right. left. reflexivity.
  Qed.

  (* a label is the first instruction of its block *)
  Lemma label_is_head k l n rb :
    op_at p k = Some (ILabel l) -> nth_error rbs n = Some rb -> In k (rb_ins rb) ->
    hd_error (rb_ins rb) = Some k.
  Proof.
    intros Hop Hn Hin. destruct (Nat.eq_dec k (hd 0 (rb_ins rb))) as [E|E].
    - destruct (rb_ins rb) as [|h r]; [destruct Hin|]. simpl in E. simpl. congruence.
    - destruct (block_interior p rbs Hc rb k (nth_error_In _ _ Hn) Hin) as [_ H].
      destruct (H E) as (i & Hi & Hm). rewrite Hop in Hi. inversion Hi; subst i. destruct Hm.
  Qed.

  (* the instruction after a block's exit instruction is the first instruction of the following block *)
  Lemma next_block_head pc n rb :
    nth_error rbs n = Some rb -> pc = last (rb_ins rb) 0 -> S pc < length p ->
    exists rb', nth_error rbs (S n) = Some rb' /\ hd_error (rb_ins rb') = Some (S pc).
  Proof.
    intros Hn E Hlt. subst pc. destruct (following_block p rbs n rb Hc Hne Hn Hlt) as (rb' & Hn' & _).
    exists rb'. split; [assumption|]. apply (consecutive_spec p rbs n rb rb' Hc Hn Hn').
  Qed.

  Lemma hd_error_In {A} (l : list A) x : hd_error l = Some x -> In x l.
  Proof. destruct l; [discriminate|]. simpl. intros E; inversion E. left; reflexivity. Qed.

  Lemma hd_error_hd (l : list nat) x : hd_error l = Some x -> hd 0 l = x.
  Proof. destruct l; [discriminate|]. simpl. congruence. Qed.

  (* ---------------------------------------------------------------- ins_next at pc level *)
  Lemma ins_next_jump pc i l k nx :
    op_at p pc = Some i -> In l (jump_labels i) -> find_label p l = Some k -> ins_next p pc = Some nx ->
    In k nx /\ (no_fallthrough i = false -> S pc < length p -> 2 <= length nx).
  Proof.
    intros Hop Hl Hk Hn. unfold ins_next in Hn. rewrite Hop in Hn.
    destruct (map_opt (find_label p) (jump_labels i)) as [js|] eqn:Em; [|discriminate].
    inversion Hn; subst nx; clear Hn.
    assert (Hin : In k js) by (apply (map_opt_In _ _ _ Em); eauto). split.
    - apply in_or_app. right. exact Hin.
    - intros Hf Hlt. apply Nat.ltb_lt in Hlt. rewrite Hf, Hlt. simpl.
      destruct js; [destruct Hin | simpl; lia].
  Qed.

  Lemma ins_next_S pc i nx :
    op_at p pc = Some i -> no_fallthrough i = false -> S pc < length p -> ins_next p pc = Some nx ->
    In (S pc) nx.
  Proof.
    intros Hop Hf Hlt Hn. destruct (ins_next_fall p pc i nx Hop Hf Hlt Hn) as (js & _ & E).
    subst nx. left. reflexivity.
  Qed.

  Lemma ins_next_retsub pc nx : op_at p pc = Some IRetsub -> ins_next p pc = Some nx -> nx = [].
  Proof. intros Hop Hn. unfold ins_next in Hn. rewrite Hop in Hn. simpl in Hn. inversion Hn. reflexivity. Qed.

  (* which instructions end their block *)
  Definition block_exit (pc : nat) : Prop :=
    forall n rb, nth_error rbs n = Some rb -> In pc (rb_ins rb) -> pc = last (rb_ins rb) 0.

  Lemma exit_callsub pc l : op_at p pc = Some (ICallsub l) -> block_exit pc.
  Proof.
    intros Hop n rb Hn Hin. destruct (Nat.eq_dec pc (last (rb_ins rb) 0)) as [E|E]; [exact E|].
    destruct (interior pc n rb Hn Hin E) as (_ & _ & (i & nx & Hi & _ & _ & Hm) & _).
    rewrite Hop in Hi. inversion Hi; subst i. destruct Hm.
  Qed.

  Lemma exit_b pc l : op_at p pc = Some (IB l) -> block_exit pc.
  Proof.
    intros Hop n rb Hn Hin. destruct (Nat.eq_dec pc (last (rb_ins rb) 0)) as [E|E]; [exact E|].
    destruct (interior pc n rb Hn Hin E) as (_ & _ & (i & nx & Hi & _ & _ & Hm) & _).
    rewrite Hop in Hi. inversion Hi; subst i. destruct Hm.
  Qed.

  Lemma exit_retsub pc : op_at p pc = Some IRetsub -> block_exit pc.
  Proof.
    intros Hop n rb Hn Hin. destruct (Nat.eq_dec pc (last (rb_ins rb) 0)) as [E|E]; [exact E|].
    destruct (interior pc n rb Hn Hin E) as (_ & _ & (i & nx & Hi & Hnx & Hlen & _) & _).
    rewrite (ins_next_retsub pc nx Hop Hnx) in Hlen. discriminate.
  Qed.

  (* a jump that can be taken ends its block (bz / bnz / switch / match with at least one label) *)
  Lemma exit_jump pc i l k :
    op_at p pc = Some i -> In l (jump_labels i) -> find_label p l = Some k -> no_fallthrough i = false ->
    block_exit pc.
  Proof.
    intros Hop Hl Hk Hf n rb Hn Hin. destruct (Nat.eq_dec pc (last (rb_ins rb) 0)) as [E|E]; [exact E|].
    destruct (interior pc n rb Hn Hin E) as (HS & _ & (i' & nx & Hi & Hnx & Hlen & _) & _).
    assert (Hlt : S pc < length p) by (apply (inblk_lt (S pc) n); exists rb; auto).
    destruct (ins_next_jump pc i l k nx Hop Hl Hk Hnx) as [_ H2]. specialize (H2 Hf Hlt). lia.
  Qed.
End Geometry.

(* ================================================================== abstraction: pcs to blocks *)
(* the retained block holding pc (0 when there is none: never the case for reachable pcs) *)
Definition pc_block (t : teal) (pc : nat) : nat :=
  match bb_of_pos (t_blocks t) pc with Some n => n | None => 0 end.

(* a return pc r = (callsub pc) + 1 stands for the callsub's block *)
Definition abs_stack (t : teal) (st : list nat) : list nat := map (fun r => pc_block t (pred r)) st.
Definition abs_cfg (t : teal) (c : iconfig) : rconfig := (pc_block t (fst c), abs_stack t (snd c)).

(* pc is the first instruction of a retained block *)
Definition is_entry (t : teal) (pc : nat) : bool :=
  existsb (fun b => match b_ins b with h :: _ => Nat.eqb h pc | [] => false end) (t_blocks t).

(* block sequence of an instruction-level trace: keep the configurations that enter a block (consecutive
   pcs of one block visit collapse into the visit's first configuration), then map pcs to blocks *)
Definition abs_trace (t : teal) (cfgs : list iconfig) : list rconfig :=
  map (abs_cfg t) (filter (fun c => is_entry t (fst c)) cfgs).

Lemma is_entry_spec t pc :
  is_entry t pc = true <-> exists b, In b (t_blocks t) /\ hd_error (b_ins b) = Some pc.
Proof.
  unfold is_entry. rewrite existsb_exists. split; intros (b & Hb & H); exists b; (split; [assumption|]).
  - destruct (b_ins b) as [|h r]; [discriminate|]. apply Nat.eqb_eq in H. simpl. congruence.
  - destruct (b_ins b) as [|h r]; [discriminate|]. simpl in H. inversion H. apply Nat.eqb_refl.
Qed.

(* ================================================================== the shape of one step *)
Lemma istep_inv p pc st pc' st' :
  istep p (pc, st) (pc', st') <->
  (exists i l, op_at p pc = Some i /\ In l (jump_labels i) /\ find_label p l = Some pc' /\ st' = st) \/
  (exists l, op_at p pc = Some (ICallsub l) /\ find_label p l = Some pc' /\ st' = st ++ [S pc]) \/
  (op_at p pc = Some IRetsub /\ st = st' ++ [pc'] /\ pc' < length p) \/
  (exists i, op_at p pc = Some i /\ falls_through i = true /\ pc' = S pc /\ S pc < length p /\ st' = st).
Proof.
  split.
  - intros H. inversion H; subst; try rewrite label_at_find_label in *.
    + left. exists (IB l), l. simpl. auto.
    + left. exists (IBZ l), l. simpl. auto.
    + left. exists (IBNZ l), l. simpl. auto.
    + left. exists (ISwitch ls), l. simpl. auto.
    + left. exists (IMatch ls), l. simpl. auto.
    + right. left. exists l. auto.
    + right. right. left. auto.
    + right. right. right. exists i. auto.
  - intros [(i & l & Hop & Hl & Hk & E)|[(l & Hop & Hk & E)|[(Hop & E & Hlt)|(i & Hop & Hf & E1 & Hlt & E2)]]]; subst.
    + apply label_at_find_label in Hk.
      destruct i; simpl in Hl; try contradiction.
      * destruct Hl as [E|[]]. subst. eapply IS_b; eauto.
      * destruct Hl as [E|[]]. subst. eapply IS_bz; eauto.
      * destruct Hl as [E|[]]. subst. eapply IS_bnz; eauto.
      * eapply IS_switch; eauto.
      * eapply IS_match; eauto.
    + apply label_at_find_label in Hk. eapply IS_call; eauto.
    + eapply IS_ret; eauto.
    + eapply IS_next; eauto.
Qed.

Lemma falls_no_fallthrough i : falls_through i = true -> no_fallthrough i = false.
Proof. destruct i; simpl; intros H; try reflexivity; discriminate. Qed.

Lemma jump_not_call i l : In l (jump_labels i) ->
  (match i with ICallsub _ => true | _ => false end) = false /\ (match i with IRetsub => true | _ => false end) = false.
Proof. destruct i; simpl; intros H; try contradiction; auto. Qed.

Lemma falls_not_call i : falls_through i = true ->
  (match i with ICallsub _ => true | _ => false end) = false /\ (match i with IRetsub => true | _ => false end) = false.
Proof. destruct i; simpl; intros H; try discriminate; auto. Qed.

Lemma abs_trace_cons t c l :
  abs_trace t (c :: l) = if is_entry t (fst c) then abs_cfg t c :: abs_trace t l else abs_trace t l.
Proof. unfold abs_trace. simpl. destruct (is_entry t (fst c)); reflexivity. Qed.

Lemma abs_stack_snoc t st r : abs_stack t (st ++ [r]) = abs_stack t st ++ [pc_block t (pred r)].
Proof. unfold abs_stack. rewrite map_app. reflexivity. Qed.

Lemma abs_trace_app t l l' : abs_trace t (l ++ l') = abs_trace t l ++ abs_trace t l'.
Proof. unfold abs_trace. rewrite filter_app, map_app. reflexivity. Qed.

Lemma last_app_cons {A} (X : list A) a Y d : last (X ++ a :: Y) d = last (a :: Y) d.
Proof.
  induction X as [|x X IH]; [reflexivity|]. rewrite <- IH. simpl.
  destruct (X ++ a :: Y) eqn:E; [destruct X; discriminate | reflexivity].
Qed.

Lemma nofall_notcall_falls i :
  no_fallthrough i = false -> (match i with ICallsub _ => true | _ => false end) = false -> falls_through i = true.
Proof. destruct i; simpl; intros H1 H2; try reflexivity; discriminate. Qed.

Lemma Pnl_falls p pc : Pnl p pc -> exists i, op_at p pc = Some i /\ falls_through i = true.
Proof.
  intros (i & nx & Hop & Hnx & Hlen & Hm). exists i. split; [assumption|].
  unfold ins_next in Hnx. rewrite Hop in Hnx.
  destruct i; try reflexivity; try contradiction; simpl in Hnx; inversion Hnx; subst nx; discriminate Hlen.
Qed.

(* ================================================================== Part 2: one step, seen on the blocks *)
Section Walk.
  Variables (p : prog) (t : teal) (bs : list block) (rbs : list rawblock).
  Hypothesis Hparse : parse_teal p = Ok t.
  Hypothesis Hbs : build_blocks p = Some bs.
  Hypothesis Hc : create_bb p = Some rbs.
  Notation f := (whole_function t).

  Lemma p_ne : p <> [].
  Proof. destruct (parse_teal_inv p t Hparse) as (bs0 & subs0 & H & _). exact H. Qed.

  Lemma t_prog_eq : t_prog t = p.
  Proof. destruct (parse_teal_inv p t Hparse) as (bs0 & subs0 & _ & _ & _ & H & _). exact H. Qed.

  Lemma bs_raw n b : nth_error bs n = Some b ->
    exists rb nx, nth_error rbs n = Some rb /\ b_ins b = rb_ins rb /\ b_idx b = n /\ raw_next p rbs n rb = Some nx.
  Proof.
    intros Hn. destruct (build_blocks_spec p bs Hbs) as (rbs0 & nexts & Hc0 & _ & _ & _ & H).
    rewrite Hc in Hc0. inversion Hc0; subst rbs0.
    destruct (H n b Hn) as (rb & nx & Hrb & _ & Hr & E). exists rb, nx. subst b. simpl. auto.
  Qed.

  Lemma tblock_raw n b : tblock t n = Some b ->
    exists b0 rb nx, nth_error bs n = Some b0 /\ nth_error rbs n = Some rb /\
      b_ins b = rb_ins rb /\ b_ins b0 = rb_ins rb /\ b_idx b = n /\ b_next b = b_next b0 /\
      rb_ins rb <> [] /\ ins_next p (last (rb_ins rb) 0) = Some nx.
  Proof.
    intros Hb. destruct (retained_char p t bs Hparse Hbs) as (_ & _ & _ & H & _).
    destruct (H n b Hb) as (b0 & Hn0 & Hi & Hins & Hnx & _).
    destruct (bs_raw n b0 Hn0) as (rb & nx & Hrb & E & _ & Hr).
    destruct (raw_next_spec p rbs n rb nx Hr) as (Hne & inx & tb & Hinx & _).
    exists b0, rb, inx. split; [assumption|]. split; [assumption|]. split; [congruence|].
    split; [assumption|]. split; [assumption|]. split; [assumption|]. split; assumption.
  Qed.

  Lemma raw_tblock n rb b : nth_error rbs n = Some rb -> tblock t n = Some b -> b_ins b = rb_ins rb.
  Proof.
    intros Hn Hb. destruct (tblock_raw n b Hb) as (b0 & rb' & nx & _ & Hn' & Hi & _).
    rewrite Hn in Hn'. inversion Hn'; subst rb'. exact Hi.
  Qed.

  Lemma t_block_inblk b pc : In b (t_blocks t) -> In pc (b_ins b) ->
    InBlk rbs pc (b_idx b) /\ tblock t (b_idx b) = Some b.
  Proof.
    intros Hb Hpc. apply (in_t_blocks p t b Hparse) in Hb. split; [|exact Hb].
    destruct (tblock_raw _ b Hb) as (b0 & rb & nx & _ & Hn & Hi & _).
    exists rb. split; [exact Hn|]. rewrite <- Hi. exact Hpc.
  Qed.

  Lemma pc_block_eq pc n b : InBlk rbs pc n -> tblock t n = Some b ->
    pc_block t pc = n /\ In pc (b_ins b) /\ In b (t_blocks t).
  Proof.
    intros Hin Hb.
    assert (Hbin : In b (t_blocks t)) by (unfold tblock in Hb; apply find_some in Hb; tauto).
    assert (Hpc : In pc (b_ins b)).
    { destruct Hin as (rb & Hn & Hi). rewrite (raw_tblock n rb b Hn Hb). exact Hi. }
    split; [|split; assumption]. unfold pc_block, bb_of_pos.
    destruct (find (fun b0 => nat_mem pc (b_ins b0)) (t_blocks t)) as [b1|] eqn:Ef.
    - simpl. apply find_some in Ef. destruct Ef as [H1 H2]. apply nat_mem_In in H2.
      destruct (t_block_inblk b1 pc H1 H2) as [H3 _].
      exact (inblk_unique p rbs Hc p_ne pc _ _ H3 Hin).
    - exfalso. pose proof (find_none _ _ Ef b Hbin) as Hf. simpl in Hf.
      apply nat_mem_In in Hpc. congruence.
  Qed.

  Lemma ids_block n : In n (wf_ids t) -> exists b, tblock t n = Some b /\ fblock f n = Some b.
  Proof.
    intros H. destruct (wf_ids_tblock p t bs Hparse Hbs n H) as (b & Hb). exists b.
    split; [assumption|]. apply fblock_whole. auto.
  Qed.

  Lemma fexit_at n b rb : tblock t n = Some b -> nth_error rbs n = Some rb ->
    fexit_op f b = op_at p (last (rb_ins rb) 0).
  Proof.
    intros Hb Hn. destruct (tblock_raw n b Hb) as (b0 & rb' & nx & _ & Hn' & Hi & _ & _ & _ & Hne & _).
    rewrite Hn in Hn'. inversion Hn'; subst rb'. unfold fexit_op.
    rewrite (whole_prog p t Hparse), Hi. destruct (rb_ins rb); [congruence | reflexivity].
  Qed.

  (* successors of the exit instruction are successors of the block *)
  Lemma exit_edge n b rb pc' m :
    tblock t n = Some b -> nth_error rbs n = Some rb ->
    (forall nx, ins_next p (last (rb_ins rb) 0) = Some nx -> In pc' nx) -> InBlk rbs pc' m ->
    In m (b_next b) /\ In m (next_of bs n).
  Proof.
    intros Hb Hn Hnx Hm.
    destruct (tblock_raw n b Hb) as (b0 & rb' & nx & Hn0 & Hn' & Hi & Hi0 & _ & Hnext & _ & Hins).
    rewrite Hn in Hn'. inversion Hn'; subst rb'.
    assert (H : In m (b_next b0)).
    { apply (next_meaning p bs rbs b0 m Hbs Hc (nth_error_In _ _ Hn0)).
      exists nx, pc'. rewrite Hi0. split; [assumption|]. split; [apply Hnx; assumption|].
      apply (inblk_lookup p rbs Hc p_ne). assumption. }
    split; [rewrite Hnext; assumption|]. unfold next_of, get_block. rewrite Hn0. assumption.
  Qed.

  (* ---------------------------------------------------------------- invariant of reachable configurations *)
  (* a return pc follows a callsub whose block belongs to the function *)
  Definition ret_ok (r : nat) : Prop :=
    exists k l n, r = S k /\ op_at p k = Some (ICallsub l) /\ InBlk rbs k n /\ In n (wf_ids t).
  Definition cfg_ok (c : iconfig) : Prop :=
    (exists n, InBlk rbs (fst c) n /\ In n (wf_ids t)) /\ Forall ret_ok (snd c).

  (* the step stays inside a block: consecutive positions of its instruction list *)
  Definition inner_step (c c' : iconfig) : Prop :=
    exists b X Y, In b (t_blocks t) /\ b_ins b = X ++ fst c :: fst c' :: Y /\
                  fst c' = S (fst c) /\ snd c' = snd c.
  (* the step leaves block b at its last instruction and enters block b' at its first one; on the
     abstract configurations it is a step of the global graph *)
  Definition cross_step (c c' : iconfig) : Prop :=
    exists b b', In b (t_blocks t) /\ In b' (t_blocks t) /\
                 In (fst c) (b_ins b) /\ fst c = last (b_ins b) 0 /\
                 hd_error (b_ins b') = Some (fst c') /\
                 fst (abs_cfg t c) = b_idx b /\ fst (abs_cfg t c') = b_idx b' /\
                 rstep f (abs_cfg t c) (abs_cfg t c').

  Lemma mk_cross pc st pc' st' n m rb rb' b :
    nth_error rbs n = Some rb -> In pc (rb_ins rb) -> pc = last (rb_ins rb) 0 ->
    tblock t n = Some b ->
    nth_error rbs m = Some rb' -> hd_error (rb_ins rb') = Some pc' -> In m (wf_ids t) ->
    rstep f (n, abs_stack t st) (m, abs_stack t st') ->
    cross_step (pc, st) (pc', st') /\ is_entry t pc' = true.
  Proof.
    intros Hn Hin Hl Hb Hm Hhd Hidm Hr.
    destruct (ids_block m Hidm) as (b' & Hb' & _).
    assert (Hin' : InBlk rbs pc' m) by (exists rb'; split; [assumption | apply hd_error_In; assumption]).
    destruct (pc_block_eq pc n b (ex_intro _ rb (conj Hn Hin)) Hb) as (E1 & Hpcb & Hbt).
    destruct (pc_block_eq pc' m b' Hin' Hb') as (E2 & _ & Hbt').
    pose proof (raw_tblock n rb b Hn Hb) as Ei. pose proof (raw_tblock m rb' b' Hm Hb') as Ei'.
    split.
    - exists b, b'. unfold abs_cfg. simpl. rewrite E1, E2, Ei, Ei', (tblock_idx t n b Hb), (tblock_idx t m b' Hb').
      split; [assumption|]. split; [assumption|]. split; [assumption|]. split; [assumption|].
      split; [assumption|]. split; [reflexivity|]. split; [reflexivity|]. exact Hr.
    - apply is_entry_spec. exists b'. split; [assumption|]. rewrite Ei'. assumption.
  Qed.

  Lemma jump_exit pc i l k :
    op_at p pc = Some i -> In l (jump_labels i) -> find_label p l = Some k -> block_exit rbs pc.
  Proof.
    intros Hop Hl Hk. destruct (no_fallthrough i) eqn:Ef.
    - destruct i; simpl in Hl, Ef; try contradiction; try discriminate.
      eapply exit_b; eauto using p_ne.
    - eapply exit_jump; eauto using p_ne.
  Qed.

  Lemma step_jump pc st i l k n :
    InBlk rbs pc n -> In n (wf_ids t) -> Forall ret_ok st ->
    op_at p pc = Some i -> In l (jump_labels i) -> find_label p l = Some k ->
    cfg_ok (k, st) /\ cross_step (pc, st) (k, st) /\ is_entry t k = true.
  Proof.
    intros (rb & Hn & Hin) Hid Hst Hop Hl Hk.
    destruct (ids_block n Hid) as (b & Hb & Hfb).
    assert (Hex : pc = last (rb_ins rb) 0) by (eapply jump_exit; eauto).
    pose proof (find_label_spec p l k Hk) as Hlab.
    assert (Hklt : k < length p) by (apply (label_at_lt p l k), label_at_find_label; exact Hk).
    destruct (inblk_cover p rbs Hc p_ne k Hklt) as (m & rb' & Hm & Hkin).
    assert (Hhd : hd_error (rb_ins rb') = Some k) by (eapply label_is_head; eauto).
    destruct (exit_edge n b rb k m Hb Hn) as [Hnb Hno].
    { intros nx Hnx. rewrite <- Hex in Hnx. exact (proj1 (ins_next_jump p pc i l k nx Hop Hl Hk Hnx)). }
    { exists rb'. auto. }
    assert (Hidm : In m (wf_ids t)) by (eapply wf_ids_closed; eauto).
    destruct (jump_not_call i l Hl) as [Hnc Hnr].
    assert (Hr : rstep f (n, abs_stack t st) (m, abs_stack t st)).
    { eapply RS_edge; [exact Hfb | | | exact Hnb].
      - unfold f_is_callsub. rewrite (fexit_at n b rb Hb Hn), <- Hex, Hop. exact Hnc.
      - unfold f_is_retsub. rewrite (fexit_at n b rb Hb Hn), <- Hex, Hop. exact Hnr. }
    split; [|exact (mk_cross pc st k st n m rb rb' b Hn Hin Hex Hb Hm Hhd Hidm Hr)].
    split; [|assumption]. exists m. split; [exists rb'; auto | assumption].
  Qed.

  Lemma step_call pc st l k n :
    InBlk rbs pc n -> In n (wf_ids t) -> Forall ret_ok st ->
    op_at p pc = Some (ICallsub l) -> find_label p l = Some k ->
    cfg_ok (k, st ++ [S pc]) /\ cross_step (pc, st) (k, st ++ [S pc]) /\ is_entry t k = true.
  Proof.
    intros (rb & Hn & Hin) Hid Hst Hop Hk.
    destruct (ids_block n Hid) as (b & Hb & Hfb).
    assert (Hex : pc = last (rb_ins rb) 0) by (eapply exit_callsub; eauto using p_ne).
    assert (Hfe : fexit_op f b = Some (ICallsub l)) by (rewrite (fexit_at n b rb Hb Hn), <- Hex; exact Hop).
    destruct (callsub_closure p t Hparse n b l Hfb Hfe) as (s & Hfs & Hws & Hname).
    pose proof (wf_subs_sub t s Hws) as Hs.
    destruct (sub_blocks_are_local_reach p t bs s Hparse Hbs Hs) as (_ & _ & lp & b' & Hfl & Hlab & _ & Hnb' & Hlpin).
    rewrite Hname in Hfl, Hlab. rewrite Hk in Hfl. inversion Hfl; subst lp.
    destruct (bs_raw (s_entry s) b' Hnb') as (rb' & nx' & Hm & Ei' & _ & _).
    rewrite Ei' in Hlpin.
    assert (Hhd : hd_error (rb_ins rb') = Some k) by (eapply label_is_head; eauto).
    assert (Hidm : In (s_entry s) (wf_ids t)).
    { apply (sub_blocks_in_ids t s); [assumption|]. eapply sub_entry_in_blocks; eauto. }
    destruct (pc_block_eq pc n b (ex_intro _ rb (conj Hn Hin)) Hb) as (E1 & _).
    assert (Hr : rstep f (n, abs_stack t st) (s_entry s, abs_stack t (st ++ [S pc]))).
    { rewrite abs_stack_snoc. simpl. rewrite E1. exact (RS_call f n (abs_stack t st) b l s Hfb Hfe Hfs). }
    split; [|exact (mk_cross pc st k (st ++ [S pc]) n (s_entry s) rb rb' b Hn Hin Hex Hb Hm Hhd Hidm Hr)].
    split.
    - exists (s_entry s). split; [exists rb'; auto | assumption].
    - simpl. apply Forall_app. split; [assumption|]. constructor; [|constructor].
      exists pc, l, n. split; [reflexivity|]. split; [assumption|]. split; [exists rb; auto | assumption].
  Qed.

  Lemma step_ret pc st r n :
    InBlk rbs pc n -> In n (wf_ids t) -> Forall ret_ok (st ++ [r]) ->
    op_at p pc = Some IRetsub -> r < length p ->
    cfg_ok (r, st) /\ cross_step (pc, st ++ [r]) (r, st) /\ is_entry t r = true.
  Proof.
    intros (rb & Hn & Hin) Hid Hst Hop Hlt.
    apply Forall_app in Hst. destruct Hst as [Hst Hr]. inversion Hr as [|x y Hrok _]; subst.
    destruct Hrok as (k & l & c & E & Hck & (rbc & Hcn & Hkin) & Hidc). subst r.
    destruct (ids_block n Hid) as (b & Hb & Hfb).
    destruct (ids_block c Hidc) as (cb & Hcb & Hfcb).
    assert (Hex : pc = last (rb_ins rb) 0) by (eapply exit_retsub; eauto using p_ne).
    assert (Hexc : k = last (rb_ins rbc) 0) by (eapply exit_callsub; eauto using p_ne).
    destruct (next_block_head p rbs Hc p_ne k c rbc Hcn Hexc Hlt) as (rb' & Hm & Hhd).
    assert (Hfec : fexit_op f cb = Some (ICallsub l)) by (rewrite (fexit_at c cb rbc Hcb Hcn), <- Hexc; exact Hck).
    assert (Hcs : is_callsub_block t cb = true).
    { unfold is_callsub_block. change (exit_op t cb) with (fexit_op f cb). rewrite Hfec. reflexivity. }
    pose proof (raw_tblock c rbc cb Hcn Hcb) as Eic.
    destruct (return_point p t c cb Hparse Hcb Hcs) as [[_ Hend]|[Hnext _]].
    { exfalso. rewrite Eic, <- Hexc, t_prog_eq in Hend. lia. }
    assert (Hidm : In (S c) (wf_ids t)).
    { apply (wf_ids_closed p t bs Hparse Hbs c (S c) Hidc).
      rewrite <- (tblock_next p t bs c cb Hparse Hbs Hcb), Hnext. left; reflexivity. }
    destruct (pc_block_eq k c cb (ex_intro _ rbc (conj Hcn Hkin)) Hcb) as (E1 & _).
    assert (Hr' : rstep f (n, abs_stack t (st ++ [S k])) (S c, abs_stack t st)).
    { rewrite abs_stack_snoc. simpl. rewrite E1.
      apply (RS_ret f n (abs_stack t st) c b cb (S c) Hfb); [|exact Hfcb|].
      - rewrite (fexit_at n b rb Hb Hn), <- Hex. exact Hop.
      - unfold sub_return_point. rewrite Hnext. reflexivity. }
    split; [|exact (mk_cross pc (st ++ [S k]) (S k) st n (S c) rb rb' b Hn Hin Hex Hb Hm Hhd Hidm Hr')].
    split; [|assumption]. exists (S c). split; [|assumption].
    exists rb'. split; [assumption | apply hd_error_In; assumption].
  Qed.

  Lemma step_fall pc st i n :
    InBlk rbs pc n -> In n (wf_ids t) -> Forall ret_ok st ->
    op_at p pc = Some i -> falls_through i = true -> S pc < length p ->
    cfg_ok (S pc, st) /\
    ((inner_step (pc, st) (S pc, st) /\ is_entry t (S pc) = false /\ abs_cfg t (S pc, st) = abs_cfg t (pc, st)) \/
     (cross_step (pc, st) (S pc, st) /\ is_entry t (S pc) = true)).
  Proof.
    intros (rb & Hn & Hin) Hid Hst Hop Hf Hlt.
    destruct (ids_block n Hid) as (b & Hb & Hfb).
    destruct (Nat.eq_dec pc (last (rb_ins rb) 0)) as [Hex|Hnl].
    - destruct (next_block_head p rbs Hc p_ne pc n rb Hn Hex Hlt) as (rb' & Hm & Hhd).
      assert (Hin' : InBlk rbs (S pc) (S n)) by (exists rb'; split; [assumption | apply hd_error_In; assumption]).
      destruct (exit_edge n b rb (S pc) (S n) Hb Hn) as [Hnb Hno]; [|exact Hin'|].
      { intros nx Hnx. rewrite <- Hex in Hnx. eapply ins_next_S; eauto. apply falls_no_fallthrough; assumption. }
      assert (Hidm : In (S n) (wf_ids t)) by (eapply wf_ids_closed; eauto).
      destruct (falls_not_call i Hf) as [Hnc Hnr].
      assert (Hr : rstep f (n, abs_stack t st) (S n, abs_stack t st)).
      { eapply RS_edge; [exact Hfb | | | exact Hnb].
        - unfold f_is_callsub. rewrite (fexit_at n b rb Hb Hn), <- Hex, Hop. exact Hnc.
        - unfold f_is_retsub. rewrite (fexit_at n b rb Hb Hn), <- Hex, Hop. exact Hnr. }
      split; [split; [exists (S n); auto | assumption]|]. right. exact (mk_cross pc st (S pc) st n (S n) rb rb' b Hn Hin Hex Hb Hm Hhd Hidm Hr).
    - destruct (interior p rbs Hc p_ne pc n rb Hn Hin Hnl) as (HS & (X & Y & EXY) & _ & Hnhd).
      assert (Hin' : InBlk rbs (S pc) n) by (exists rb; auto).
      destruct (pc_block_eq pc n b (ex_intro _ rb (conj Hn Hin)) Hb) as (E1 & _ & Hbt).
      destruct (pc_block_eq (S pc) n b Hin' Hb) as (E2 & _ & _).
      pose proof (raw_tblock n rb b Hn Hb) as Ei.
      split; [split; [exists n; auto | assumption]|]. left. split; [|split].
      + exists b, X, Y. simpl. rewrite Ei. auto.
      + destruct (is_entry t (S pc)) eqn:E; [|reflexivity]. exfalso.
        apply is_entry_spec in E. destruct E as (b1 & Hb1 & Hh1).
        destruct (t_block_inblk b1 (S pc) Hb1 (hd_error_In _ _ Hh1)) as [Hi1 Htb1].
        pose proof (inblk_unique p rbs Hc p_ne (S pc) _ _ Hi1 Hin') as En.
        rewrite En in Htb1. rewrite Hb in Htb1. inversion Htb1; subst b1.
        rewrite Ei in Hh1. apply Hnhd. symmetry. apply hd_error_hd. exact Hh1.
      + unfold abs_cfg. simpl. rewrite E1, E2. reflexivity.
  Qed.

  Definition step_shape (c c' : iconfig) : Prop :=
    (inner_step c c' /\ is_entry t (fst c') = false /\ abs_cfg t c' = abs_cfg t c) \/
    (cross_step c c' /\ is_entry t (fst c') = true).

  Lemma step_ok c c' : cfg_ok c -> istep p c c' -> cfg_ok c' /\ step_shape c c'.
  Proof.
    destruct c as [pc st], c' as [pc' st']. intros [(n & Hin & Hid) Hst] Hs. simpl in Hin, Hst.
    apply istep_inv in Hs.
    destruct Hs as [(i & l & Hop & Hl & Hk & E)|[(l & Hop & Hk & E)|[(Hop & E & Hlt)|(i & Hop & Hf & E1 & Hlt & E2)]]]; subst.
    - destruct (step_jump pc st i l pc' n Hin Hid Hst Hop Hl Hk) as (H1 & H2 & H3).
      split; [assumption|]. right. auto.
    - destruct (step_call pc st l pc' n Hin Hid Hst Hop Hk) as (H1 & H2 & H3).
      split; [assumption|]. right. auto.
    - destruct (step_ret pc st' pc' n Hin Hid Hst Hop Hlt) as (H1 & H2 & H3).
      split; [assumption|]. right. auto.
    - exact (step_fall pc st i n Hin Hid Hst Hop Hf Hlt).
  Qed.

  Lemma block0_head : exists rb0, nth_error rbs 0 = Some rb0 /\ hd_error (rb_ins rb0) = Some 0.
  Proof.
    assert (Hlen : 0 < length p) by (pose proof p_ne; destruct p; [congruence | simpl; lia]).
    destruct (inblk_cover p rbs Hc p_ne 0 Hlen) as (n0 & rbx & Hnx & _).
    assert (Hl0 : 0 < length rbs).
    { assert (n0 < length rbs) by (apply nth_error_Some; congruence). lia. }
    destruct (nth_error rbs 0) as [rb0|] eqn:E0.
    2:{ apply nth_error_None in E0. lia. }
    destruct (nth_error_split rbs 0 E0) as (l1 & l2 & El & Hl1).
    destruct l1; [|discriminate]. simpl in El.
    pose proof (part p rbs Hc p_ne) as Hp. rewrite El in Hp. simpl in Hp.
    assert (Hin : In rb0 rbs) by (rewrite El; left; reflexivity).
    pose proof (blocks_nonempty p rbs Hc p_ne rb0 Hin) as Hne0.
    exists rb0. split; [reflexivity|].
    destruct (rb_ins rb0) as [|h r] eqn:Eh; [congruence|].
    destruct (length p) as [|N]; [lia|]. simpl in Hp. injection Hp as Eh0 _. subst h. reflexivity.
  Qed.

  Lemma init_ok : cfg_ok (0, []) /\ is_entry t 0 = true /\ abs_cfg t (0, []) = (0, []).
  Proof.
    destruct block0_head as (rb0 & E0 & Eh).
    assert (Hin0 : InBlk rbs 0 0) by (exists rb0; split; [assumption | apply hd_error_In; assumption]).
    assert (Hid0 : In 0 (wf_ids t)).
    { apply wf_ids_In. left. apply (main_reach p t bs Hparse Hbs). constructor. }
    destruct (ids_block 0 Hid0) as (b0 & Hb0 & _).
    destruct (pc_block_eq 0 0 b0 Hin0 Hb0) as (E1 & _ & Hbt).
    split; [|split].
    - split; [exists 0; auto | constructor].
    - apply is_entry_spec. exists b0. split; [assumption|].
      rewrite (raw_tblock 0 rb0 b0 E0 Hb0). exact Eh.
    - unfold abs_cfg. simpl. rewrite E1. reflexivity.
  Qed.

  Lemma reach_ok c : IReach p c -> cfg_ok c.
  Proof.
    induction 1 as [|c c' _ IH Hs]; [apply init_ok|]. apply (step_ok c c' IH Hs).
  Qed.

  (* ---------------------------------------------------------------- traces *)
  Lemma irunfrom_hd c cfgs : IRunFrom p c cfgs -> cfgs = c :: tl cfgs.
  Proof. intros H; destruct H; reflexivity. Qed.

  Lemma sim c cfgs : IRunFrom p c cfgs -> cfg_ok c ->
    RunFrom f (abs_cfg t c) (abs_cfg t c :: abs_trace t (tl cfgs)).
  Proof.
    induction 1 as [c|c c' rest Hs Hrest IH]; intros Hok.
    - simpl. constructor.
    - destruct (step_ok c c' Hok Hs) as (Hok' & [(Hin & He & Ha)|(Hcr & He)]); specialize (IH Hok').
      + simpl tl. rewrite (irunfrom_hd c' rest Hrest), abs_trace_cons, He. simpl tl. rewrite <- Ha. exact IH.
      + simpl tl. rewrite (irunfrom_hd c' rest Hrest), abs_trace_cons, He. simpl tl.
        destruct Hcr as (b & b' & _ & _ & _ & _ & _ & _ & _ & Hr).
        eapply RF_step; [exact Hr | exact IH].
  Qed.

  (* ---------------------------------------------------------------- (a): the block of a pc *)
  Lemma unique_block_sec pc n : InBlk rbs pc n -> In n (wf_ids t) ->
    exists b, In b (t_blocks t) /\ In pc (b_ins b) /\ fblock f (b_idx b) = Some b /\ pc_block t pc = b_idx b /\
              forall b', In b' (t_blocks t) -> In pc (b_ins b') -> b' = b.
  Proof.
    intros Hin Hid. destruct (ids_block n Hid) as (b & Hb & Hfb).
    destruct (pc_block_eq pc n b Hin Hb) as (E1 & Hpc & Hbt).
    pose proof (tblock_idx t n b Hb) as Ei.
    exists b. split; [assumption|]. split; [assumption|]. split; [rewrite Ei; assumption|].
    split; [congruence|]. intros b' Hb' Hpc'.
    destruct (t_block_inblk b' pc Hb' Hpc') as [Hi' Htb'].
    rewrite (inblk_unique p rbs Hc p_ne pc _ _ Hi' Hin) in Htb'. congruence.
  Qed.

  (* ---------------------------------------------------------------- bz / bnz: successor order *)
  Lemma cond_order_sec pc st l k n :
    InBlk rbs pc n -> In n (wf_ids t) -> Forall ret_ok st ->
    (op_at p pc = Some (IBZ l) \/ op_at p pc = Some (IBNZ l)) -> find_label p l = Some k -> S pc < length p ->
    exists b, In b (t_blocks t) /\ b_idx b = pc_block t pc /\ pc = last (b_ins b) 0 /\
      b_next b = if pc_block t k =? pc_block t (S pc) then [pc_block t (S pc)]
                 else [pc_block t (S pc); pc_block t k].
  Proof.
    intros Hin Hid Hst Hop Hk Hlt. pose proof Hin as (rb & Hn & Hpcin).
    destruct (ids_block n Hid) as (b & Hb & Hfb).
    destruct (tblock_raw n b Hb) as (b0 & rb' & nx & Hn0 & Hn' & Hi & Hi0 & Hidx & Hnext & _ & _).
    rewrite Hn in Hn'. inversion Hn'; subst rb'.
    assert (Hjl : exists i, op_at p pc = Some i /\ In l (jump_labels i) /\ falls_through i = true).
    { destruct Hop as [Hop|Hop]; eexists; (split; [exact Hop|]); simpl; auto. }
    destruct Hjl as (i & Hopi & Hl & Hf).
    assert (Hex : pc = last (rb_ins rb) 0) by (eapply jump_exit; eauto).
    destruct (step_jump pc st i l k n Hin Hid Hst Hopi Hl Hk) as ([(m & Hkm & Hidm) _] & _ & _).
    simpl in Hkm.
    destruct (step_fall pc st i n Hin Hid Hst Hopi Hf Hlt) as ([(m' & HSm & Hidm') _] & _).
    simpl in HSm.
    destruct (next_block_head p rbs Hc p_ne pc n rb Hn Hex Hlt) as (rbn & Hnn & Hhdn).
    assert (Em' : m' = S n).
    { apply (inblk_unique p rbs Hc p_ne (S pc)); [assumption|]. exists rbn. split; [assumption | apply hd_error_In; assumption]. }
    subst m'.
    destruct (ids_block m Hidm) as (bm & Hbm & _). destruct (ids_block (S n) Hidm') as (bs' & Hbs' & _).
    destruct (pc_block_eq k m bm Hkm Hbm) as (Ek & _). destruct (pc_block_eq (S pc) (S n) bs' HSm Hbs') as (ES & _).
    destruct (pc_block_eq pc n b Hin Hb) as (Epc & _ & Hbt).
    destruct (cond_branch_order p bs rbs b0 l k Hbs Hc (nth_error_In _ _ Hn0)) as (tb & Htb & Hnx).
    { rewrite Hi0, <- Hex. exact Hop. }
    { rewrite Hi0, <- Hex. exact Hlt. }
    { exact Hk. }
    rewrite (inblk_lookup p rbs Hc p_ne k m Hkm) in Htb. inversion Htb; subst tb.
    destruct (bs_raw n b0 Hn0) as (_ & _ & _ & _ & Hidx0 & _).
    exists b. split; [assumption|]. split; [congruence|]. split; [rewrite Hi; assumption|].
    rewrite Hnext, Hnx, Hidx0, Ek, ES. reflexivity.
  Qed.
  (* ---------------------------------------------------------------- converse: every run is induced by an execution *)
  Inductive ipath : iconfig -> list iconfig -> iconfig -> Prop :=
  | ip_nil c : ipath c [] c
  | ip_cons c c1 l c' : istep p c c1 -> ipath c1 l c' -> ipath c (c1 :: l) c'.

  Lemma ipath_app c l c1 l' c2 : ipath c l c1 -> ipath c1 l' c2 -> ipath c (l ++ l') c2.
  Proof. induction 1 as [c|c c1 l c' Hs _ IH]; intros H2; [exact H2|]. simpl. econstructor; eauto. Qed.

  Lemma ipath_run c l c' : ipath c l c' -> IRunFrom p c (c :: l).
  Proof. induction 1 as [c|c c1 l c' Hs _ IH]; [constructor | econstructor; eauto]. Qed.

  Definition head_of (n : nat) : nat := match nth_error rbs n with Some rb => hd 0 (rb_ins rb) | None => 0 end.
  Definition exit_of (n : nat) : nat := match nth_error rbs n with Some rb => last (rb_ins rb) 0 | None => 0 end.
  Definition conc_stack (st : list nat) : list nat := map (fun cs => S (exit_of cs)) st.
  Definition conc (c : rconfig) : iconfig := (head_of (fst c), conc_stack (snd c)).
  Definition conc_exit (c : rconfig) : iconfig := (exit_of (fst c), conc_stack (snd c)).

  Lemma ids_raw n : In n (wf_ids t) ->
    exists b rb, tblock t n = Some b /\ fblock f n = Some b /\ nth_error rbs n = Some rb /\
                 b_ins b = rb_ins rb /\ hd_error (rb_ins rb) = Some (head_of n) /\
                 exit_of n = last (rb_ins rb) 0 /\ In (exit_of n) (rb_ins rb).
  Proof.
    intros Hid. destruct (ids_block n Hid) as (b & Hb & Hfb).
    destruct (tblock_raw n b Hb) as (b0 & rb & nx & _ & Hn & Hi & _ & _ & _ & Hne & _).
    exists b, rb. unfold head_of, exit_of. rewrite Hn.
    split; [assumption|]. split; [assumption|]. split; [reflexivity|]. split; [assumption|].
    split; [destruct (rb_ins rb); [congruence | reflexivity]|]. split; [reflexivity|].
    apply last_In. assumption.
  Qed.

  Lemma head_entry n : In n (wf_ids t) ->
    is_entry t (head_of n) = true /\ pc_block t (head_of n) = n /\ pc_block t (exit_of n) = n /\
    head_of n < length p.
  Proof.
    intros Hid. destruct (ids_raw n Hid) as (b & rb & Hb & _ & Hn & Hi & Hhd & Hex & Hexin).
    assert (Hin : InBlk rbs (head_of n) n) by (exists rb; split; [assumption | apply hd_error_In; assumption]).
    assert (Hin' : InBlk rbs (exit_of n) n) by (exists rb; auto).
    destruct (pc_block_eq _ n b Hin Hb) as (E1 & _ & Hbt). destruct (pc_block_eq _ n b Hin' Hb) as (E2 & _).
    split; [|split; [assumption|split; [assumption|]]].
    - apply is_entry_spec. exists b. split; [assumption|]. rewrite Hi. assumption.
    - apply (inblk_lt p rbs Hc p_ne _ n Hin).
  Qed.

  Lemma interior_not_entry pc n rb : nth_error rbs n = Some rb -> In pc (rb_ins rb) ->
    pc <> last (rb_ins rb) 0 -> is_entry t (S pc) = false.
  Proof.
    intros Hn Hin Hnl.
    destruct (interior p rbs Hc p_ne pc n rb Hn Hin Hnl) as (HS & _ & _ & Hnhd).
    destruct (is_entry t (S pc)) eqn:E; [|reflexivity]. exfalso.
    apply is_entry_spec in E. destruct E as (b1 & Hb1 & Hh1).
    destruct (t_block_inblk b1 (S pc) Hb1 (hd_error_In _ _ Hh1)) as [Hi1 Htb1].
    assert (Hin' : InBlk rbs (S pc) n) by (exists rb; auto).
    pose proof (inblk_unique p rbs Hc p_ne (S pc) _ _ Hi1 Hin') as En.
    rewrite En in Htb1. rewrite (raw_tblock n rb b1 Hn Htb1) in Hh1.
    apply Hnhd. symmetry. apply hd_error_hd. exact Hh1.
  Qed.

  (* inside a block the execution walks from any instruction to the exit instruction *)
  Lemma block_walk n rb st : nth_error rbs n = Some rb ->
    forall Y X pc, rb_ins rb = X ++ pc :: Y ->
    exists l, ipath (pc, st) l (last (rb_ins rb) 0, st) /\ abs_trace t l = [].
  Proof.
    intros Hn. induction Y as [|h Y IH]; intros X pc E.
    - exists []. split; [|reflexivity]. rewrite E, last_last. constructor.
    - pose proof (block_adjacent p rbs Hc p_ne n rb X pc h Y Hn E) as Eh. subst h.
      assert (Hin : In pc (rb_ins rb)) by (rewrite E; apply in_or_app; right; left; reflexivity).
      assert (Hnd : NoDup (rb_ins rb)).
      { apply (NoDup_concat_In (map rb_ins rbs)); [rewrite (part p rbs Hc p_ne); apply seq_NoDup|].
        apply in_map. eapply nth_error_In; eauto. }
      assert (Hnl : pc <> last (rb_ins rb) 0).
      { rewrite E, last_app_cons. rewrite E in Hnd. apply NoDup_remove_2 in Hnd.
        intro Ep. apply Hnd. apply in_or_app. right.
        change (last (pc :: S pc :: Y) 0) with (last (S pc :: Y) 0) in Ep.
        assert (Hl : In (last (S pc :: Y) 0) (S pc :: Y)) by (apply last_In; discriminate).
        rewrite <- Ep in Hl. exact Hl. }
      destruct (interior p rbs Hc p_ne pc n rb Hn Hin Hnl) as (HS & _ & HP & _).
      destruct (Pnl_falls p pc HP) as (i & Hop & Hf).
      assert (Hlt : S pc < length p) by (apply (inblk_lt p rbs Hc p_ne (S pc) n); exists rb; auto).
      destruct (IH (X ++ [pc]) (S pc)) as (l & Hl & Ha).
      { rewrite <- app_assoc. exact E. }
      exists ((S pc, st) :: l). split.
      + econstructor; [|exact Hl]. eapply IS_next; eauto.
      + rewrite abs_trace_cons. simpl fst. rewrite (interior_not_entry pc n rb Hn Hin Hnl). exact Ha.
  Qed.

  Definition cs_ok (cs : nat) : Prop := In cs (wf_ids t) /\ exists l, op_at p (exit_of cs) = Some (ICallsub l).
  Definition rc_ok (c : rconfig) : Prop := In (fst c) (wf_ids t) /\ Forall cs_ok (snd c).

  Lemma abs_conc_stack st : Forall cs_ok st -> abs_stack t (conc_stack st) = st.
  Proof.
    induction 1 as [|cs st [Hid _] _ IH]; [reflexivity|].
    unfold abs_stack, conc_stack in *. simpl. rewrite IH. f_equal.
    apply (head_entry cs Hid).
  Qed.

  Lemma abs_conc c : rc_ok c -> abs_cfg t (conc c) = c /\ is_entry t (fst (conc c)) = true.
  Proof.
    destruct c as [n st]. intros [Hid Hst]. simpl in Hid, Hst.
    destruct (head_entry n Hid) as (He & Hp & _). unfold abs_cfg, conc. simpl.
    rewrite Hp, (abs_conc_stack st Hst). auto.
  Qed.

  (* a step of the graph is a step of the program from the block's exit to the successor's first instruction *)
  Lemma rstep_conc c c' : rc_ok c -> rstep f c c' -> rc_ok c' /\ istep p (conc_exit c) (conc c').
  Proof.
    intros [Hid Hst] Hs. destruct Hs as [b st blk l s Hfb Hfe Hfs | b st cs blk cb rp Hfb Hfe Hfcb Hrp | b st blk b' Hfb Hnc Hnr Hnx];
      simpl in Hid, Hst; unfold conc_exit, conc; simpl.
    - (* call *)
      destruct (ids_raw b Hid) as (blk' & rb & Hb & Hfb' & Hn & Hi & Hhd & Hex & Hexin).
      rewrite Hfb in Hfb'. inversion Hfb'; subst blk'.
      assert (Hop : op_at p (exit_of b) = Some (ICallsub l)) by (rewrite Hex, <- (fexit_at b blk rb Hb Hn); exact Hfe).
      destruct (callsub_closure p t Hparse b blk l Hfb Hfe) as (s' & Hfs' & Hws & Hname).
      change (find_sub t l = Some s) in Hfs. rewrite Hfs in Hfs'. inversion Hfs'; subst s'.
      pose proof (wf_subs_sub t s Hws) as Hs.
      destruct (sub_blocks_are_local_reach p t bs s Hparse Hbs Hs) as (_ & _ & lp & b' & Hfl & Hlab & _ & Hnb' & Hlpin).
      rewrite Hname in Hfl, Hlab.
      destruct (bs_raw (s_entry s) b' Hnb') as (rb' & nx' & Hm & Ei' & _ & _). rewrite Ei' in Hlpin.
      assert (Hhd' : hd_error (rb_ins rb') = Some lp) by (eapply label_is_head; eauto).
      assert (Eh : head_of (s_entry s) = lp) by (unfold head_of; rewrite Hm; apply hd_error_hd; assumption).
      assert (Hidm : In (s_entry s) (wf_ids t)).
      { apply (sub_blocks_in_ids t s); [assumption|]. eapply sub_entry_in_blocks; eauto. }
      split.
      + split; [assumption|]. simpl. apply Forall_app. split; [assumption|].
        constructor; [|constructor]. split; [assumption | eauto].
      + rewrite Eh. unfold conc_stack. rewrite map_app. simpl.
        eapply IS_call; [exact Hop | apply label_at_find_label; exact Hfl].
    - (* ret *)
      apply Forall_app in Hst. destruct Hst as [Hst Hcs]. inversion Hcs as [|x y [Hidc (l & Hck)] _]; subst.
      destruct (ids_raw b Hid) as (blk' & rb & Hb & Hfb' & Hn & Hi & Hhd & Hex & Hexin).
      rewrite Hfb in Hfb'. inversion Hfb'; subst blk'.
      assert (Hop : op_at p (exit_of b) = Some IRetsub) by (rewrite Hex, <- (fexit_at b blk rb Hb Hn); exact Hfe).
      destruct (ids_raw cs Hidc) as (cb' & rbc & Hcb & Hfcb' & Hcn & Hci & _ & Hexc & Hexcin).
      rewrite Hfcb in Hfcb'. inversion Hfcb'; subst cb'.
      assert (Hcsb : is_callsub_block t cb = true).
      { unfold is_callsub_block. change (exit_op t cb) with (fexit_op f cb).
        rewrite (fexit_at cs cb rbc Hcb Hcn), <- Hexc, Hck. reflexivity. }
      unfold sub_return_point in Hrp.
      destruct (return_point p t cs cb Hparse Hcb Hcsb) as [[Hnil _]|[Hnext (rbk & Hrbk & Hhdk)]].
      { rewrite Hnil in Hrp. discriminate. }
      rewrite Hnext in Hrp. inversion Hrp; subst rp.
      assert (Hidm : In (S cs) (wf_ids t)).
      { apply (wf_ids_closed p t bs Hparse Hbs cs (S cs) Hidc).
        rewrite <- (tblock_next p t bs cs cb Hparse Hbs Hcb), Hnext. left; reflexivity. }
      destruct (ids_raw (S cs) Hidm) as (bk & rbn & Hbk & _ & Hnn & Hni & Hnhd & _).
      rewrite Hrbk in Hbk. inversion Hbk; subst bk.
      rewrite Hni, Hci, <- Hexc, Hnhd in Hhdk. inversion Hhdk as [Eh].
      destruct (head_entry (S cs) Hidm) as (_ & _ & _ & Hlt).
      split; [split; assumption|].
      unfold conc_stack. rewrite map_app. simpl. rewrite Eh.
      eapply IS_ret; [exact Hop | rewrite <- Eh; exact Hlt].
    - (* edge *)
      destruct (ids_raw b Hid) as (blk' & rb & Hb & Hfb' & Hn & Hi & Hhd & Hex & Hexin).
      rewrite Hfb in Hfb'. inversion Hfb'; subst blk'.
      destruct (tblock_raw b blk Hb) as (b0 & rb1 & nx0 & Hn0 & Hn1 & _ & Hi0 & _ & Hnext & _ & _).
      rewrite Hn in Hn1. inversion Hn1; subst rb1.
      rewrite Hnext in Hnx.
      assert (Hno : In b' (next_of bs b)) by (unfold next_of, get_block; rewrite Hn0; exact Hnx).
      assert (Hidm : In b' (wf_ids t)) by (eapply wf_ids_closed; eauto).
      apply (next_meaning p bs rbs b0 b' Hbs Hc (nth_error_In _ _ Hn0)) in Hnx.
      destruct Hnx as (nx & k & Hins & Hk & Hlook). rewrite Hi0, <- Hex in Hins.
      apply (lookup_inblk rbs) in Hlook. destruct Hlook as (rb' & Hm & Hkin).
      split; [split; assumption|].
      assert (Hfe : fexit_op f blk = op_at p (exit_of b)) by (rewrite Hex; apply (fexit_at b blk rb Hb Hn)).
      unfold ins_next in Hins. destruct (op_at p (exit_of b)) as [i|] eqn:Hop; [|discriminate].
      destruct (map_opt (find_label p) (jump_labels i)) as [js|] eqn:Em; [|discriminate].
      inversion Hins; subst nx; clear Hins. apply in_app_iff in Hk. destruct Hk as [Hk|Hk].
      + destruct (negb (no_fallthrough i) && (S (exit_of b) <? length p)) eqn:Ed; [|destruct Hk].
        destruct Hk as [Ek|[]]. subst k. apply andb_true_iff in Ed. destruct Ed as [Ed1 Ed2].
        apply negb_true_iff in Ed1. apply Nat.ltb_lt in Ed2.
        assert (Hf : falls_through i = true).
        { apply nofall_notcall_falls; [assumption|]. unfold f_is_callsub in Hnc. rewrite Hfe in Hnc. exact Hnc. }
        destruct (next_block_head p rbs Hc p_ne (exit_of b) b rb Hn Hex Ed2) as (rbn & Hnn & Hhdn).
        assert (Eb : b' = S b).
        { apply (inblk_unique p rbs Hc p_ne (S (exit_of b))); [exists rb'; auto|].
          exists rbn. split; [assumption | apply hd_error_In; assumption]. }
        subst b'. assert (Eh : head_of (S b) = S (exit_of b)) by (unfold head_of; rewrite Hnn; apply hd_error_hd; assumption).
        rewrite Eh. eapply IS_next; eauto.
      + apply (map_opt_In _ _ _ Em) in Hk. destruct Hk as (l & Hl & Hfl).
        pose proof (find_label_spec p l k Hfl) as Hlab.
        assert (Hhd' : hd_error (rb_ins rb') = Some k) by (eapply label_is_head; eauto).
        assert (Eh : head_of b' = k) by (unfold head_of; rewrite Hm; apply hd_error_hd; assumption).
        rewrite Eh. apply istep_inv. left. exists i, l. auto.
  Qed.

  Lemma runfrom_hd c cfgs : RunFrom f c cfgs -> cfgs = c :: tl cfgs.
  Proof. intros H; destruct H; reflexivity. Qed.

  Lemma runfrom_conc c cfgs : RunFrom f c cfgs -> rc_ok c ->
    exists l cend, ipath (conc c) l cend /\ abs_trace t l = tl cfgs.
  Proof.
    induction 1 as [c|c c' rest Hs Hrest IH]; intros Hok.
    - exists [], (conc c). split; [constructor | reflexivity].
    - destruct (rstep_conc c c' Hok Hs) as (Hok' & Hstep).
      destruct (IH Hok') as (l' & cend & Hl' & Ha').
      destruct Hok as [Hid Hst].
      destruct (ids_raw (fst c) Hid) as (b & rb & _ & _ & Hn & _ & Hhd & Hex & _).
      destruct (rb_ins rb) as [|h Y] eqn:Ei; [discriminate|]. simpl in Hhd. inversion Hhd as [Eh].
      destruct (block_walk (fst c) rb (conc_stack (snd c)) Hn Y [] h Ei) as (lw & Hlw & Haw).
      rewrite Ei, <- Hex, Eh in Hlw.
      exists (lw ++ conc c' :: l'), cend. split.
      + eapply ipath_app; [exact Hlw|]. econstructor; [exact Hstep | exact Hl'].
      + rewrite abs_trace_app, Haw, abs_trace_cons. destruct (abs_conc c' Hok') as [Hac He].
        rewrite He, Hac, Ha'. simpl. symmetry. apply (runfrom_hd c' rest Hrest).
  Qed.
  (* the abstraction loses no visit: every configuration of the execution is represented in the block sequence *)
  Lemma sim_cover c0 cfgs : IRunFrom p c0 cfgs -> cfg_ok c0 ->
    forall c, In c cfgs -> abs_cfg t c = abs_cfg t c0 \/ In (abs_cfg t c) (abs_trace t (tl cfgs)).
  Proof.
    induction 1 as [c0|c0 c' rest Hs Hrest IH]; intros Hok c Hin.
    - destruct Hin as [<-|[]]. left; reflexivity.
    - destruct Hin as [<-|Hin]; [left; reflexivity|].
      destruct (step_ok c0 c' Hok Hs) as (Hok' & Hshape). specialize (IH Hok' c Hin).
      simpl tl. rewrite (irunfrom_hd c' rest Hrest), abs_trace_cons.
      destruct Hshape as [(_ & He & Ha)|(_ & He)]; rewrite He.
      + rewrite <- Ha. exact IH.
      + right. destruct IH as [IH|IH]; [left; symmetry; exact IH | right; exact IH].
  Qed.
End Walk.

(* ================================================================== Part 3: the theorems *)
Lemma walk_setup p t : parse_teal p = Ok t ->
  exists bs rbs, build_blocks p = Some bs /\ create_bb p = Some rbs.
Proof.
  intros H. destruct (parse_teal_blocks p t H) as (bs & Hbs).
  destruct (build_blocks_spec p bs Hbs) as (rbs & _ & Hc & _). eauto.
Qed.

(* (a) reachable code is never pruned: every reachable pc lies in exactly one retained block, and that
   block is a block of the whole-contract function *)
Theorem reachable_pc_in_unique_block p t pc st :
  parse_teal p = Ok t -> IReach p (pc, st) ->
  exists b, In b (t_blocks t) /\ In pc (b_ins b) /\
            fblock (whole_function t) (b_idx b) = Some b /\ pc_block t pc = b_idx b /\
            forall b', In b' (t_blocks t) -> In pc (b_ins b') -> b' = b.
Proof.
  intros Hp Hr. destruct (walk_setup p t Hp) as (bs & rbs & Hbs & Hc).
  destruct (reach_ok p t bs rbs Hp Hbs Hc (pc, st) Hr) as [(n & Hin & Hid) _].
  exact (unique_block_sec p t bs rbs Hp Hbs Hc pc n Hin Hid).
Qed.

(* every pending return pc follows a callsub instruction, which is the last instruction of a block of
   the function; abs_stack maps the return pc to that block *)
Theorem reachable_stack_shape p t pc st r :
  parse_teal p = Ok t -> IReach p (pc, st) -> In r st ->
  exists k l b, r = S k /\ op_at p k = Some (ICallsub l) /\ In b (t_blocks t) /\ k = last (b_ins b) 0 /\
                In k (b_ins b) /\ fblock (whole_function t) (b_idx b) = Some b /\ pc_block t (pred r) = b_idx b.
Proof.
  intros Hp Hr Hin. destruct (walk_setup p t Hp) as (bs & rbs & Hbs & Hc).
  destruct (reach_ok p t bs rbs Hp Hbs Hc (pc, st) Hr) as [_ Hst]. simpl in Hst.
  rewrite Forall_forall in Hst. destruct (Hst r Hin) as (k & l & n & E & Hop & Hkn & Hid).
  destruct (unique_block_sec p t bs rbs Hp Hbs Hc k n Hkn Hid) as (b & Hb & Hkb & Hfb & Epc & _).
  exists k, l, b. subst r. simpl.
  destruct (t_block_inblk p t bs rbs Hp Hbs Hc b k Hb Hkb) as [(rb & Hn & Hki) Htb].
  pose proof (raw_tblock p t bs rbs Hp Hbs Hc _ rb b Hn Htb) as Ei.
  assert (Hex : k = last (rb_ins rb) 0) by (eapply exit_callsub; eauto using (p_ne p t Hp)).
  split; [reflexivity|]. split; [assumption|]. split; [assumption|]. split; [rewrite Ei; assumption|].
  split; [assumption|]. split; assumption.
Qed.

(* (b) + (c) a step from a reachable configuration either moves between consecutive positions of one
   block, or leaves a block at its last instruction and enters a block at its first instruction, and
   then it is a step of the global graph (Spec/Runs.v) on the abstract configurations *)
Theorem istep_block_walk p t c c' :
  parse_teal p = Ok t -> IReach p c -> istep p c c' -> step_shape t c c'.
Proof.
  intros Hp Hr Hs. destruct (walk_setup p t Hp) as (bs & rbs & Hbs & Hc).
  apply (step_ok p t bs rbs Hp Hbs Hc c c'); [|assumption].
  apply (reach_ok p t bs rbs Hp Hbs Hc). assumption.
Qed.

(* (d) the block sequence of an instruction-level execution is a run of the contract's graph *)
Theorem irun_is_run p t cfgs :
  parse_teal p = Ok t -> IRun p cfgs -> Run (whole_function t) (abs_trace t cfgs).
Proof.
  intros Hp Hrun. destruct (walk_setup p t Hp) as (bs & rbs & Hbs & Hc).
  destruct (init_ok p t bs rbs Hp Hbs Hc) as (Hok & He & Ha).
  pose proof (sim p t bs rbs Hp Hbs Hc (0, []) cfgs Hrun Hok) as H.
  unfold Run. change (fn_entry (whole_function t)) with 0.
  rewrite (irunfrom_hd p (0, []) cfgs Hrun), abs_trace_cons. simpl fst. rewrite He, Ha. rewrite Ha in H. exact H.
Qed.

(* bz / bnz at pc level: the branch is the last instruction of its block; when the fall-through pc+1
   and the jump target k lie in different blocks the block has exactly these two successors, the
   fall-through one first; both steps exist *)
Theorem cond_branch_order_pc p t pc st l k :
  parse_teal p = Ok t -> IReach p (pc, st) ->
  (op_at p pc = Some (IBZ l) \/ op_at p pc = Some (IBNZ l)) -> label_at p l k -> S pc < length p ->
  istep p (pc, st) (S pc, st) /\ istep p (pc, st) (k, st) /\
  exists b, In b (t_blocks t) /\ b_idx b = pc_block t pc /\ pc = last (b_ins b) 0 /\
    b_next b = if pc_block t k =? pc_block t (S pc) then [pc_block t (S pc)]
               else [pc_block t (S pc); pc_block t k].
Proof.
  intros Hp Hr Hop Hk Hlt. destruct (walk_setup p t Hp) as (bs & rbs & Hbs & Hc).
  destruct (reach_ok p t bs rbs Hp Hbs Hc (pc, st) Hr) as [(n & Hin & Hid) Hst]. simpl in Hin, Hst.
  split; [|split].
  - destruct Hop as [Hop|Hop]; eapply IS_next; eauto.
  - destruct Hop as [Hop|Hop]; [eapply IS_bz | eapply IS_bnz]; eauto.
  - apply label_at_find_label in Hk.
    exact (cond_order_sec p t bs rbs Hp Hbs Hc pc st l k n Hin Hid Hst Hop Hk Hlt).
Qed.


(* converse: every run of the graph is the block sequence of some instruction-level execution (control is
   nondeterministic in data at both levels, so the graph adds no spurious walk) *)
Theorem run_is_irun p t cfgs :
  parse_teal p = Ok t -> Run (whole_function t) cfgs ->
  exists icfgs, IRun p icfgs /\ abs_trace t icfgs = cfgs.
Proof.
  intros Hp Hrun. destruct (walk_setup p t Hp) as (bs & rbs & Hbs & Hc).
  destruct (init_ok p t bs rbs Hp Hbs Hc) as ([(n0 & _ & _) _] & He & Ha).
  destruct (block0_head p t bs rbs Hp Hbs Hc) as (rb0 & E0 & Eh).
  assert (Hok : rc_ok p t rbs (0, [])).
  { split; [|constructor]. simpl. apply wf_ids_In. left. apply (main_reach p t bs Hp Hbs). constructor. }
  unfold Run in Hrun. change (fn_entry (whole_function t)) with 0 in Hrun.
  destruct (runfrom_conc p t bs rbs Hp Hbs Hc (0, []) cfgs Hrun Hok) as (l & cend & Hl & Hal).
  assert (Ec : conc rbs (0, []) = (0, [])).
  { unfold conc, head_of, conc_stack. cbn [fst snd map]. rewrite E0. rewrite (hd_error_hd _ _ Eh). reflexivity. }
  rewrite Ec in Hl. exists ((0, []) :: l). split.
  - exact (ipath_run p (0, []) l cend Hl).
  - rewrite abs_trace_cons. simpl fst. rewrite He, Ha, Hal. symmetry.
    apply (runfrom_hd t (0, []) cfgs Hrun).
Qed.

Print Assumptions reachable_pc_in_unique_block.
Print Assumptions reachable_stack_shape.
Print Assumptions istep_block_walk.
Print Assumptions irun_is_run.
Print Assumptions cond_branch_order_pc.
Print Assumptions run_is_irun.


(* the abstraction function drops no block visit *)
Theorem abs_trace_covers p t cfgs c :
  parse_teal p = Ok t -> IRun p cfgs -> In c cfgs -> In (abs_cfg t c) (abs_trace t cfgs).
Proof.
  intros Hp Hrun Hin. destruct (walk_setup p t Hp) as (bs & rbs & Hbs & Hc).
  destruct (init_ok p t bs rbs Hp Hbs Hc) as (Hok & He & Ha).
  rewrite (irunfrom_hd p (0, []) cfgs Hrun), abs_trace_cons. simpl fst. rewrite He.
  destruct (sim_cover p t bs rbs Hp Hbs Hc (0, []) cfgs Hrun Hok c Hin) as [H|H]; [left; symmetry; exact H | right; exact H].
Qed.
Print Assumptions abs_trace_covers.

(* graph walks and instruction-level executions determine the same block sequences *)
Corollary run_iff_irun p t cfgs :
  parse_teal p = Ok t ->
  (Run (whole_function t) cfgs <-> exists icfgs, IRun p icfgs /\ abs_trace t icfgs = cfgs).
Proof.
  intros Hp. split; [apply run_is_irun; assumption|].
  intros (icfgs & Hi & E). subst cfgs. apply (irun_is_run p t icfgs Hp Hi).
Qed.
Print Assumptions run_iff_irun.

(* ================================================================== examples *)
Open Scope string_scope.
(* a loop around a subroutine call:
     pos 0 int 0 | 1 loop: | 2 callsub f | 3 bnz loop | 4 int 1 | 5 return | 6 f: | 7 int 1 | 8 retsub
   blocks: B0 = [0], B1 = [1;2], B2 = [3], B3 = [4;5], B4 = [6;7;8] *)
Definition walk_ex_lines : list string :=
  ["int 0"; "loop:"; "callsub f"; "bnz loop"; "int 1"; "return"; "f:"; "int 1"; "retsub"].
Close Scope string_scope.

Definition walk_ex_prog : prog :=
  Eval vm_compute in match parse_program (unlines walk_ex_lines) with Ok p => p | Err _ => [] end.
Definition walk_ex_teal : teal :=
  Eval vm_compute in
    match parse_teal walk_ex_prog with
    | Ok t => t
    | Err _ => mkTeal 0%N MAny [] [] [] (mkSub "" 0 [] []) [] None
    end.

Example walk_ex_parses : parse_program (unlines walk_ex_lines) = Ok walk_ex_prog.
Proof. vm_compute. reflexivity. Qed.
Example walk_ex_teal_parses : parse_teal walk_ex_prog = Ok walk_ex_teal.
Proof. vm_compute. reflexivity. Qed.
Example walk_ex_blocks : map b_ins (t_blocks walk_ex_teal) = [[0]; [1; 2]; [3]; [4; 5]; [6; 7; 8]].
Proof. vm_compute. reflexivity. Qed.

(* one execution: the loop body runs twice, the subroutine is called and returns twice *)
Definition walk_ex_trace : list iconfig :=
  [ (0, []); (1, []); (2, []); (6, [3]); (7, [3]); (8, [3]); (3, []);
    (1, []); (2, []); (6, [3]); (7, [3]); (8, [3]); (3, []); (4, []); (5, []) ].

Ltac walk_next := eapply IS_next; [reflexivity | reflexivity | vm_compute; lia].
Ltac walk_lab := apply label_at_find_label; reflexivity.

Example walk_ex_irun : IRun walk_ex_prog walk_ex_trace.
Proof.
  unfold IRun, walk_ex_trace.
  eapply IRF_step; [walk_next|].
  eapply IRF_step; [walk_next|].
  eapply IRF_step; [apply (IS_call walk_ex_prog 2 [] "f"%string 6); [reflexivity | walk_lab]|].
  eapply IRF_step; [walk_next|].
  eapply IRF_step; [walk_next|].
  eapply IRF_step; [apply (IS_ret walk_ex_prog 8 [] 3); [reflexivity | vm_compute; lia]|].
  eapply IRF_step; [apply (IS_bnz walk_ex_prog 3 [] "loop"%string 1); [reflexivity | walk_lab]|].
  eapply IRF_step; [walk_next|].
  eapply IRF_step; [apply (IS_call walk_ex_prog 2 [] "f"%string 6); [reflexivity | walk_lab]|].
  eapply IRF_step; [walk_next|].
  eapply IRF_step; [walk_next|].
  eapply IRF_step; [apply (IS_ret walk_ex_prog 8 [] 3); [reflexivity | vm_compute; lia]|].
  eapply IRF_step; [walk_next|].
  eapply IRF_step; [walk_next|].
  apply IRF_one.
Qed.

(* its block sequence, computed by the abstraction function ... *)
Example walk_ex_abs :
  abs_trace walk_ex_teal walk_ex_trace =
  [ (0, []); (1, []); (4, [1]); (2, []); (1, []); (4, [1]); (2, []); (3, []) ].
Proof. vm_compute. reflexivity. Qed.

(* ... is a run of the contract's graph (instance of irun_is_run) *)
Example walk_ex_run :
  Run (whole_function walk_ex_teal)
      [ (0, []); (1, []); (4, [1]); (2, []); (1, []); (4, [1]); (2, []); (3, []) ].
Proof. rewrite <- walk_ex_abs. exact (irun_is_run walk_ex_prog walk_ex_teal walk_ex_trace walk_ex_teal_parses walk_ex_irun). Qed.

(* the bnz at pc 3: successors of its block B2 are [B3 (fall-through); B1 (jump target)] in this order *)
Example walk_ex_branch_order :
  exists b, In b (t_blocks walk_ex_teal) /\ b_idx b = 2 /\ b_next b = [3; 1].
Proof.
  assert (Hr : IReach walk_ex_prog (3, [])).
  { eapply IReach_step; [|apply (IS_ret walk_ex_prog 8 [] 3); [reflexivity | vm_compute; lia]].
    eapply IReach_step; [|walk_next]. eapply IReach_step; [|walk_next].
    eapply IReach_step; [|apply (IS_call walk_ex_prog 2 [] "f"%string 6); [reflexivity | walk_lab]].
    eapply IReach_step; [|walk_next]. eapply IReach_step; [|walk_next]. constructor. }
  destruct (cond_branch_order_pc walk_ex_prog walk_ex_teal 3 [] "loop"%string 1 walk_ex_teal_parses Hr)
    as (_ & _ & b & Hb & Hi & _ & Hn).
  - right. reflexivity.
  - walk_lab.
  - vm_compute. lia.
  - exists b. split; [assumption|]. split; [rewrite Hi; reflexivity|]. rewrite Hn. reflexivity.
Qed.

(* ------------------------------------------------------------------ boundary shapes *)
(* (1) a callsub as the LAST instruction: the callee's retsub would return to pc = length p.  At the
   instruction level the execution stops there (the AVM ends the program: this can be a successful
   termination); on the graph the callsub block has no return point, the run stops at the retsub block
   with the call still pending, and that block is NOT a leaf_global block: such a terminating execution
   is no AcceptingRun. *)
Open Scope string_scope.
Definition walk_tail_lines : list string := ["b main"; "f:"; "retsub"; "main:"; "callsub f"].
Close Scope string_scope.
Definition walk_tail_prog : prog :=
  Eval vm_compute in match parse_program (unlines walk_tail_lines) with Ok p => p | Err _ => [] end.
Definition walk_tail_teal : teal :=
  Eval vm_compute in
    match parse_teal walk_tail_prog with
    | Ok t => t
    | Err _ => mkTeal 0%N MAny [] [] [] (mkSub "" 0 [] []) [] None
    end.
Example walk_tail_parses : parse_teal walk_tail_prog = Ok walk_tail_teal.
Proof. vm_compute. reflexivity. Qed.

Definition walk_tail_trace : list iconfig := [ (0, []); (3, []); (4, []); (1, [5]); (2, [5]) ].

Example walk_tail_irun : IRun walk_tail_prog walk_tail_trace.
Proof.
  unfold IRun, walk_tail_trace.
  eapply IRF_step; [apply (IS_b walk_tail_prog 0 [] "main"%string 3); [reflexivity | walk_lab]|].
  eapply IRF_step; [walk_next|].
  eapply IRF_step; [apply (IS_call walk_tail_prog 4 [] "f"%string 1); [reflexivity | walk_lab]|].
  eapply IRF_step; [walk_next|].
  apply IRF_one.
Qed.

(* the retsub at pc 2 would return to pc 5 = length p: no further step *)
Example walk_tail_stuck : forall c', ~ istep walk_tail_prog (2, [5]) c'.
Proof.
  intros [pc' st'] H. apply istep_inv in H.
  destruct H as [(i & l & Hop & Hl & _)|[(l & Hop & _)|[(_ & E & Hlt)|(i & Hop & Hf & _)]]].
  - vm_compute in Hop. inversion Hop; subst i. destruct Hl.
  - vm_compute in Hop. discriminate.
  - assert (E' : [5] = st' ++ [pc']) by exact E.
    destruct st' as [|x st']; simpl in E'; [|destruct st'; discriminate].
    inversion E'; subst pc'. vm_compute in Hlt. lia.
  - vm_compute in Hop. inversion Hop; subst i. discriminate.
Qed.

Example walk_tail_not_accepting :
  Run (whole_function walk_tail_teal) (abs_trace walk_tail_teal walk_tail_trace) /\
  abs_trace walk_tail_teal walk_tail_trace = [ (0, []); (2, []); (1, [2]) ] /\
  ~ AcceptingRun (whole_function walk_tail_teal) (abs_trace walk_tail_teal walk_tail_trace).
Proof.
  split; [exact (irun_is_run _ _ _ walk_tail_parses walk_tail_irun)|].
  split; [vm_compute; reflexivity|].
  intros [_ (blk & Hb & Hl)]. vm_compute in Hb. inversion Hb; subst blk. vm_compute in Hl. discriminate.
Qed.

(* (2) retsub with an empty return stack (main falling into a subroutine body): no step at the
   instruction level (the AVM fails), and no step in the graph either *)
Open Scope string_scope.
Definition walk_fallin_lines : list string := ["int 1"; "f:"; "retsub"; "callsub f"].
Close Scope string_scope.
Definition walk_fallin_prog : prog :=
  Eval vm_compute in match parse_program (unlines walk_fallin_lines) with Ok p => p | Err _ => [] end.
Example walk_fallin_stuck : forall c', ~ istep walk_fallin_prog (2, []) c'.
Proof.
  intros [pc' st'] H. apply istep_inv in H.
  destruct H as [(i & l & Hop & Hl & _)|[(l & Hop & _)|[(_ & E & _)|(i & Hop & Hf & _)]]].
  - vm_compute in Hop. inversion Hop; subst i. destruct Hl.
  - vm_compute in Hop. discriminate.
  - destruct st'; discriminate.
  - vm_compute in Hop. inversion Hop; subst i. discriminate.
Qed.

(* (3) shapes outside GraphWf.struct_ok need no hypothesis here: in GraphWf.ex_bad the label "skip" is both
   the return point of "callsub f" and the target of "bz skip"; both executions are runs of the graph *)
Definition walk_shared_prog : prog :=
  Eval vm_compute in match parse_program (unlines ex_bad) with Ok p => p | Err _ => [] end.
Definition walk_shared_teal : teal :=
  Eval vm_compute in
    match parse_teal walk_shared_prog with
    | Ok t => t
    | Err _ => mkTeal 0%N MAny [] [] [] (mkSub "" 0 [] []) [] None
    end.
Example walk_shared_parses : parse_teal walk_shared_prog = Ok walk_shared_teal.
Proof. vm_compute. reflexivity. Qed.
Example walk_shared_not_struct_ok : struct_okb walk_shared_teal = false.
Proof. vm_compute. reflexivity. Qed.

Definition walk_shared_trace : list iconfig :=
  [ (0, []); (1, []); (2, []); (3, []); (4, []); (8, [5]); (9, [5]); (10, [5]); (11, [5]); (5, []); (6, []); (7, []) ].
Example walk_shared_irun : IRun walk_shared_prog walk_shared_trace.
Proof.
  unfold IRun, walk_shared_trace.
  eapply IRF_step; [walk_next|]. eapply IRF_step; [walk_next|]. eapply IRF_step; [walk_next|].
  eapply IRF_step; [walk_next|].
  eapply IRF_step; [apply (IS_call walk_shared_prog 4 [] "f"%string 8); [reflexivity | walk_lab]|].
  eapply IRF_step; [walk_next|]. eapply IRF_step; [walk_next|]. eapply IRF_step; [walk_next|].
  eapply IRF_step; [apply (IS_ret walk_shared_prog 11 [] 5); [reflexivity | vm_compute; lia]|].
  eapply IRF_step; [walk_next|]. eapply IRF_step; [walk_next|].
  apply IRF_one.
Qed.
Example walk_shared_run :
  Run (whole_function walk_shared_teal) (abs_trace walk_shared_teal walk_shared_trace) /\
  abs_trace walk_shared_teal walk_shared_trace = [ (0, []); (1, []); (3, [1]); (2, []) ].
Proof.
  split; [exact (irun_is_run _ _ _ walk_shared_parses walk_shared_irun) | vm_compute; reflexivity].
Qed.
