(* The ORCHESTRATION of the dataflow analysis REGENERATED from tealer's Python source (Gen/RunGen.v: postorder_dfs_gen /
   postorder_gen, update_gtxn_constraints_gen, gtx_keys_gen, postorders_gen, forward_worklist_gen, backward_worklist_gen,
   run_analysis_gen, translated statement by statement from DataflowTransactionContext._postorder,
   _update_gtxn_constraints and run_analysis) against the hand-written model: Keys.all_gtx_fams, Analysis.postorder /
   postorders / forward_worklist / backward_worklist, Domains.init_constraints / solve / run_int / run_family.

   1. THE KEY LIST (gtx_keys_gen_eq, gtx_keys_nodup, key_of_fam_inj, fam_of_key_of_fam, all_gtx_fams_census).  For every
      list ks of KEYS_WITH_GTXN, gtx_keys_gen _ ks = Some (flat_map (fun base => map (key_of_fam base) all_gtx_fams) ks):
      field by field, the keys of Keys.all_gtx_fams in the same order, rendered as strings by the f-strings of
      key_helpers.py (key_of_fam).  The 63 keys of one field (the base key and its 62 gtxn keys: 16 at-index, 16
      absolute, 30 relative) are pairwise distinct, for EVERY base key; so key_of_fam base is injective on
      KSelf :: all_gtx_fams and has the left inverse fam_of_key.  No hypothesis.
   2. THE WORKLISTS (postorder_gen_eq, postorders_gen_eq, forward_worklist_gen_eq, backward_worklist_gen_eq,
      forward_worklist_gen_model, backward_worklist_gen_model).  For every function f whose local successors are
      blocks of f (succ_closed f) and every entry e that is a block of f, with the recursion budget
      S (length (fn_blocks f)) of the model: postorder_gen f _ e = Some (postorder f e).  When moreover the entry of f
      and the entries of the used subroutines are blocks of f and the used subroutines resolve by name to their own entry
      (subs_entries_ok f; implied by: fn_subs f is included in fn_all_subs f, the names of fn_all_subs f are pairwise
      distinct, main_name_fresh f), the list of post-orders is the model's (same order of the subroutines:
      function.subroutines.values() = fn_subs f), and the two worklists of run_analysis are forward_worklist f and
      backward_worklist f.  The hypotheses are needed: postorder_gen_eq_refuted_dangling,
      postorder_gen_recursion_budget.
   3. _update_gtxn_constraints (update_gtxn_constraints_gen_eq, run_family_refine_unfold).  refine_fam / refine_at is the
      refinement step of Domains.run_family (run_family_refine_unfold: by reflexivity).  The loop of run_analysis over
      the blocks, for KEYS_WITH_GTXN = [key], on any dictionary d whose at-index dictionaries have exactly the blocks bl
      as keys, when the group indices and the base key have a value for every block: the dictionary of the at-index key
      of index i becomes refine_at .. (d[key]) i (d[at-index key i]), every other dictionary is unchanged.
      KeyError otherwise: update_gtxn_constraints_gen_keyerror.
   4.-7. run_analysis.  Its structure (run_analysis_gen_unfold); one forward + backward pass for ONE key is
      Domains.solve (pass_gen_single), for NO key it only empties the worklists (pass_gen_nil); step 1 stores, for
      every key, one entry per block in function.blocks order holding the value of the one-key function of
      Gen/ConstraintsGen.v (init_gen_spec), which is the model's init_constraints when neither side raises
      (init_gen_model).  (A) one base key, no gtxn key: run_analysis = step 1 then Domains.solve
      (run_analysis_gen_base_only), in particular Domains.run_int (run_analysis_gen_run_int).  (B) one base key that is
      also the KEYS_WITH_GTXN key: the base key is solved by Domains.solve and the dictionary handed to the joint pass
      over the 62 gtxn keys holds, family by family, the refined constraints Domains.run_family solves
      (run_analysis_gen_family_prefix, run_analysis_gen_family_base_fails).
   8. NOT proved: the joint pass over several keys (GroupIndices: 2 base keys; every other analysis: 62 gtxn keys)
      against the per-key runs of the model.  The iteration counts differ: shared_worklist_iterations.
   Section 10: concrete instances (PROBE), also compiled alone against mutants by tools/test_translate_run.py. *)
From Coq Require Import String List NArith ZArith Bool Arith Lia Ascii.
From Tealer Require Import Tables LeafPrelude Leaves Syntax Parse Cfg StackAst Keys KeysGen Analysis GraphGen SolverGen ConstraintsGen RunGen Domains
  SolverLemmas TotalSolver GraphGenLemmas GraphWf TotalLemmas SolverGenLemmas ConstraintsGenLemmas.
Import ListNotations.
Open Scope string_scope.
Open Scope list_scope.

(* ====================================================================== *)
(* 1. The key list                                                         *)
(* ====================================================================== *)
(* the analysis key of a family of Keys.keyfam for the base key `base`: the f-strings of key_helpers.py *)
Definition key_of_fam (base : string) (fam : keyfam) : string :=
  match fam with
  | KSelf => base
  | KAtIndex i => get_gtxn_at_index_key (Z.of_N i) base
  | KAbs i => get_absolute_index_key (Z.of_N i) base
  | KRel z => get_relative_index_key z base
  end.

Lemma fold_app_gen {A B} (step : py (list B) -> A -> py (list B)) (g : A -> list B) :
  (forall st x, step (Some st) x = Some (st ++ g x)) ->
  forall xs l, fold_left step xs (Some l) = Some (l ++ flat_map g xs).
Proof.
  intros H xs. induction xs as [|x xs IH]; intros l; cbn [fold_left flat_map].
  - rewrite app_nil_r. reflexivity.
  - rewrite H, IH, app_assoc. reflexivity.
Qed.

Lemma one_key_fams (k : string) :
  flat_map (fun ind => [get_gtxn_at_index_key ind k; get_absolute_index_key ind k]) (py_range 0%Z (Z.of_N MAX_GROUP_SIZE)) ++
  flat_map (fun offset => if Z.eqb offset 0%Z then [] else [get_relative_index_key offset k])
    (py_range (Z.opp (Z.sub (Z.of_N MAX_GROUP_SIZE) 1%Z)) (Z.of_N MAX_GROUP_SIZE)) =
  map (key_of_fam k) all_gtx_fams.
Proof. vm_compute. reflexivity. Qed.

Theorem gtx_keys_gen_eq : forall base_keys ks,
  gtx_keys_gen base_keys ks = Some (flat_map (fun base => map (key_of_fam base) all_gtx_fams) ks).
Proof.
  intros base_keys ks. unfold gtx_keys_gen. cbv zeta. unfold ret at 5.
  rewrite (fold_app_gen _ (fun base => map (key_of_fam base) all_gtx_fams)).
  - reflexivity.
  - intros st k. cbn [bind]. unfold ret at 2.
    rewrite (fold_app_gen _ (fun ind => [get_gtxn_at_index_key ind k; get_absolute_index_key ind k])).
    2:{ intros st2 x. cbn [bind ret]. rewrite <- app_assoc. reflexivity. }
    cbn [bind]. unfold ret at 3.
    rewrite (fold_app_gen _ (fun offset => if Z.eqb offset 0%Z then [] else [get_relative_index_key offset k])).
    2:{ intros st2 x. cbn [bind ret]. destruct (Z.eqb x 0); [rewrite app_nil_r|]; reflexivity. }
    cbn [bind ret]. rewrite <- app_assoc, one_key_fams. reflexivity.
Qed.

Lemma sapp_assoc (a b c : string) : ((a ++ b) ++ c)%string = (a ++ (b ++ c))%string.
Proof. induction a as [|x a IH]; cbn; [reflexivity|]. rewrite IH. reflexivity. Qed.

Lemma sapp_length (a b : string) : String.length (a ++ b) = String.length a + String.length b.
Proof. induction a as [|x a IH]; cbn; [reflexivity|]. rewrite IH. reflexivity. Qed.

Lemma sapp_inv_tail : forall a b c : string, (a ++ c)%string = (b ++ c)%string -> a = b.
Proof.
  induction a as [|x a IH]; intros [|y b] c H; cbn in H.
  - reflexivity.
  - exfalso. apply (f_equal String.length) in H. cbn in H. rewrite sapp_length in H. lia.
  - exfalso. apply (f_equal String.length) in H. cbn in H. rewrite sapp_length in H. lia.
  - injection H as -> H. f_equal. exact (IH _ _ H).
Qed.

(* a gtxn key is a prefix that depends on the family only, followed by the base key *)
Lemma key_of_fam_prefix base fam : fam <> KSelf -> key_of_fam base fam = (key_of_fam "" fam ++ base)%string.
Proof.
  intros Hf. destruct fam as [|i|i|z]; [congruence| | |];
    unfold key_of_fam, get_gtxn_at_index_key, get_absolute_index_key, get_relative_index_key;
    rewrite !sapp_assoc; reflexivity.
Qed.

Fixpoint nodupb (l : list string) : bool :=
  match l with [] => true | x :: t => negb (existsb (String.eqb x) t) && nodupb t end.
Lemma nodupb_NoDup l : nodupb l = true -> NoDup l.
Proof.
  induction l as [|x l IH]; cbn; intros H; [constructor|].
  apply andb_true_iff in H. destruct H as [H1 H2]. constructor; [|auto].
  intros Hin. apply negb_true_iff in H1.
  assert (existsb (String.eqb x) l = true) by (apply existsb_exists; exists x; split; [exact Hin|apply String.eqb_refl]).
  congruence.
Qed.

Lemma NoDup_map_tail (base : string) : forall l : list string, NoDup l -> NoDup (map (fun p => (p ++ base)%string) l).
Proof.
  induction l as [|p l IH]; cbn; intros H; [constructor|].
  inversion H as [|? ? Hn Hl]; subst. constructor; [|auto].
  intros Hin. apply in_map_iff in Hin. destruct Hin as [q [E Hq]]. apply sapp_inv_tail in E. subst q. contradiction.
Qed.

Lemma all_gtx_fams_not_self : forall fam, In fam all_gtx_fams -> fam <> KSelf.
Proof.
  assert (H : forallb (fun fam => match fam with KSelf => false | _ => true end) all_gtx_fams = true) by (vm_compute; reflexivity).
  rewrite forallb_forall in H. intros fam Hin E. specialize (H fam Hin). subst fam. discriminate.
Qed.

Lemma prefix_nonempty : forall fam, In fam all_gtx_fams -> 0 < String.length (key_of_fam "" fam).
Proof.
  assert (H : forallb (fun fam => Nat.ltb 0 (String.length (key_of_fam "" fam))) all_gtx_fams = true) by (vm_compute; reflexivity).
  rewrite forallb_forall in H. intros fam Hin. apply Nat.ltb_lt. auto.
Qed.

Theorem gtx_keys_nodup : forall base, NoDup (map (key_of_fam base) (KSelf :: all_gtx_fams)).
Proof.
  intros base. cbn [map]. constructor.
  - cbn [key_of_fam]. intros Hin. apply in_map_iff in Hin. destruct Hin as [fam [E Hin]].
    rewrite (key_of_fam_prefix base fam (all_gtx_fams_not_self fam Hin)) in E.
    apply (f_equal String.length) in E. rewrite sapp_length in E. pose proof (prefix_nonempty fam Hin). lia.
  - rewrite (map_ext_in (key_of_fam base) (fun fam => (key_of_fam "" fam ++ base)%string)).
    2:{ intros fam Hin. apply key_of_fam_prefix. apply all_gtx_fams_not_self. exact Hin. }
    rewrite <- (map_map (key_of_fam "") (fun p => (p ++ base)%string)). apply NoDup_map_tail.
    apply nodupb_NoDup. vm_compute. reflexivity.
Qed.

Theorem key_of_fam_inj : forall base fam1 fam2,
  In fam1 (KSelf :: all_gtx_fams) -> In fam2 (KSelf :: all_gtx_fams) ->
  key_of_fam base fam1 = key_of_fam base fam2 -> fam1 = fam2.
Proof. intros base fam1 fam2 H1 H2 E. exact (NoDup_map_inj_in (key_of_fam base) _ _ _ (gtx_keys_nodup base) H1 H2 E). Qed.

(* the family of a key of the list (the decomposition Gen/KeysGen.v works with) *)
Definition fam_of_key (base k : string) : option keyfam :=
  find (fun fam => String.eqb (key_of_fam base fam) k) (KSelf :: all_gtx_fams).
Theorem fam_of_key_of_fam : forall base fam,
  In fam (KSelf :: all_gtx_fams) -> fam_of_key base (key_of_fam base fam) = Some fam.
Proof.
  intros base fam Hin. unfold fam_of_key. apply find_unique; [exact Hin|apply String.eqb_refl|].
  intros y Hy E. apply String.eqb_eq in E. exact (key_of_fam_inj base y fam Hy Hin E).
Qed.

Theorem all_gtx_fams_census :
  length all_gtx_fams = 62 /\
  map (fun i => KAtIndex (N.of_nat i)) (seq 0 16) = filter (fun fam => match fam with KAtIndex _ => true | _ => false end) all_gtx_fams /\
  map (fun i => KAbs (N.of_nat i)) (seq 0 16) = filter (fun fam => match fam with KAbs _ => true | _ => false end) all_gtx_fams /\
  map (fun o => KRel (Z.of_nat o - 15)%Z) (seq 0 15) ++ map (fun o => KRel (Z.of_nat o + 1)%Z) (seq 0 15)
    = filter (fun fam => match fam with KRel _ => true | _ => false end) all_gtx_fams.
Proof. vm_compute. repeat split. Qed.

(* ====================================================================== *)
(* 2. _postorder and the worklists                                         *)
(* ====================================================================== *)
(* every local successor of a block of f is a block of f (the object graph has no dangling reference) *)
Definition succ_closed (f : func) : Prop := forall n y, In y (fsuccs f n) -> In y (ids f).

Section Post.
  Variable f : func.
  Hypothesis Hcl : succ_closed f.
  Notation U := (ids f).

  (* the step of the generated loop over the successors, let-free *)
  Definition gstep_po (fu : nat) (acc : py (list nat * list nat)) (successor : nat) : py (list nat * list nat) :=
    bind acc (fun st =>
      if negb (set_in successor (fst st))
      then bind (postorder_dfs_gen f fu successor (fst st) (snd st)) (fun tmp2 => ret (fst tmp2, snd tmp2))
      else ret (fst st, snd st)).

  Lemma dfs_gen_S fu n v o :
    postorder_dfs_gen f (S fu) n v o =
    bind (attr_next f n) (fun nx =>
    bind (fold_left (gstep_po fu) nx (ret (set_add v n, o))) (fun r => ret (fst r, snd r ++ [n]))).
  Proof. reflexivity. Qed.

  Lemma dfs_gen_eq : forall fuel n v o,
    In n U -> ~ In n v -> unv U v < fuel ->
    postorder_dfs_gen f fuel n v o = Some (postorder_dfs fuel f n v o).
  Proof.
    induction fuel as [|fu IH]; intros n v o HnU Hnv Hfuel; [lia|].
    rewrite dfs_gen_S, postorder_dfs_S.
    destruct (proj1 (fblock_ids f n) HnU) as [xb Hxb].
    unfold attr_next. rewrite Hxb. cbn [option_map bind].
    assert (Hs : fsuccs f n = b_next xb) by (unfold fsuccs; rewrite Hxb; reflexivity).
    rewrite Hs.
    assert (Hfold : forall l v0 o0, incl l U -> incl (n :: v) v0 ->
              fold_left (gstep_po fu) l (Some (v0, o0)) = Some (fold_left (po_step fu f) l (v0, o0))).
    { induction l as [|s l IHl]; intros v0 o0 HlU Hv0; [reflexivity|].
      cbn [fold_left]. unfold gstep_po at 2, po_step at 2. cbn [bind fst snd].
      change (set_in s v0) with (nat_mem s v0).
      assert (HlU' : incl l U) by (intros x Hx; apply HlU; right; exact Hx).
      destruct (nat_mem s v0) eqn:Es; cbn [negb].
      - unfold ret. apply IHl; assumption.
      - assert (Hsv : ~ In s v0) by (intro H; apply nat_mem_In in H; congruence).
        assert (Hfu : unv U v0 < fu).
        { pose proof (unv_mono U _ _ Hv0). pose proof (unv_lt U v n HnU Hnv). lia. }
        rewrite (IH s v0 o0 (HlU s (or_introl eq_refl)) Hsv Hfu). cbn [bind ret].
        destruct (postorder_dfs fu f s v0 o0) as [v1 o1] eqn:Ecall. cbn [fst snd].
        destruct (po_call f U Hcl fu s v0 o0 (HlU s (or_introl eq_refl)) Hsv Hfu v1 o1 Ecall) as [[HI _] _].
        apply IHl; [exact HlU'|]. eapply incl_tran; [exact Hv0 | exact HI]. }
    unfold ret at 1, set_add. rewrite (Hfold (b_next xb) (n :: v) o).
    - destruct (fold_left (po_step fu f) (b_next xb) (n :: v, o)) as [v2 o2]. reflexivity.
    - intros y Hy. apply (Hcl n). rewrite Hs. exact Hy.
    - apply incl_refl.
  Qed.

  Lemma unv_nil_le : unv U [] <= length (fn_blocks f).
  Proof.
    unfold unv. assert (Hall : forall l : list nat, filter (fun x => negb (nat_mem x [])) l = l).
    { induction l as [|a l IHl]; cbn in *; congruence. }
    rewrite Hall. unfold ids. rewrite map_length. lia.
  Qed.

  Theorem postorder_gen_eq : forall e,
    In e U -> postorder_gen f (S (length (fn_blocks f))) e = Some (postorder f e).
  Proof.
    intros e He. unfold postorder_gen, postorder. cbv zeta. unfold set_empty.
    rewrite (dfs_gen_eq _ e [] [] He (fun H => H)); [|pose proof unv_nil_le; lia].
    cbn [bind]. reflexivity.
  Qed.
End Post.

(* the Subroutine objects of function.subroutines resolve, by name, to their own entry block *)
Definition subs_entries_ok (f : func) : Prop :=
  forall s, In s (fn_subs f) -> sub_entry_of f (s_name s) = Some (s_entry s).

Lemma find_by_name_self (l : list subroutine) s :
  NoDup (map s_name l) -> In s l -> find (fun x => s_name x =? s_name s) l = Some s.
Proof.
  intros Hnd Hin. apply find_unique; [exact Hin|apply String.eqb_refl|].
  intros y Hy E. apply String.eqb_eq in E. exact (NoDup_map_inj_in s_name l y s Hnd Hy Hin E).
Qed.

(* a sufficient condition: the used subroutines are subroutines of the contract, whose names are pairwise distinct and
   different from the name "" the model gives to the function's main *)
Lemma subs_entries_ok_incl f :
  NoDup (map s_name (fn_all_subs f)) -> incl (fn_subs f) (fn_all_subs f) -> main_name_fresh f -> subs_entries_ok f.
Proof.
  intros Hnd Hinc Hm s Hs. unfold sub_entry_of.
  destruct (s_name s =? "") eqn:E.
  - apply String.eqb_eq in E. exfalso. unfold main_name_fresh, f_find_sub in Hm.
    pose proof (find_by_name_self _ s Hnd (Hinc s Hs)) as H. rewrite E in H. congruence.
  - unfold f_find_sub. rewrite (find_by_name_self _ s Hnd (Hinc s Hs)). reflexivity.
Qed.

Section Worklists.
  Variable f : func.
  Hypothesis Hcl : succ_closed f.
  Notation U := (ids f).
  Notation pf := (S (length (fn_blocks f))).

  Lemma postorder_in_U e : In e U -> incl (postorder f e) U.
  Proof.
    intros He. unfold postorder.
    destruct (postorder_dfs pf f e [] []) as [v' o'] eqn:E.
    destruct (po_incl f U Hcl _ _ _ _ _ _ E He (fun x H => match H with end) (fun x H => match H with end)) as [_ H].
    exact H.
  Qed.

  Lemma postorders_fold (l : list subroutine) : forall acc,
    (forall s, In s l -> sub_entry_of f (s_name s) = Some (s_entry s) /\ In (s_entry s) U) ->
    fold_left (fun acc subroutine => (bind acc (fun st =>
        (let postorder := st in
        (bind (bind (bind (attr_entry f subroutine) (fun tmp2 => (postorder_gen f pf tmp2))) (fun tmp3 => (ret (postorder ++ [tmp3])))) (fun postorder =>
        (ret postorder)))))))
      (map s_name l) (Some acc) = Some (acc ++ map (fun s => postorder f (s_entry s)) l).
  Proof.
    induction l as [|s l IH]; intros acc H; cbn [map fold_left].
    - rewrite app_nil_r. reflexivity.
    - destruct (H s (or_introl eq_refl)) as [H1 H2]. cbn [bind]. cbv zeta. unfold attr_entry. rewrite H1. cbn [bind].
      rewrite (postorder_gen_eq f Hcl _ H2). cbn [bind ret].
      rewrite IH; [|intros s' Hs'; apply H; right; exact Hs']. rewrite <- app_assoc. reflexivity.
  Qed.

  Theorem postorders_gen_eq :
    In (fn_entry f) U -> subs_entries_ok f -> (forall s, In s (fn_subs f) -> In (s_entry s) U) ->
    postorders_gen f pf = Some (postorders f).
  Proof.
    intros He Hs Hse. unfold postorders_gen, self_entry_block, meth_subroutines_values.
    rewrite (postorder_gen_eq f Hcl _ He). cbn [bind ret].
    rewrite postorders_fold; [reflexivity|]. intros s Hin. split; [apply Hs|apply Hse]; exact Hin.
  Qed.

  Lemma postorders_in_U :
    In (fn_entry f) U -> (forall s, In s (fn_subs f) -> In (s_entry s) U) ->
    forall l, In l (postorders f) -> incl l U.
  Proof.
    intros He Hse l [<-|Hl]; [apply postorder_in_U; exact He|].
    apply in_map_iff in Hl. destruct Hl as [s [<- Hs]]. apply postorder_in_U. apply Hse. exact Hs.
  Qed.

  (* ---- the two concatenations, for ANY list of post-orders *)
  Theorem forward_worklist_gen_eq : forall po, forward_worklist_gen po = Some (flat_map (fun l => rev l) po).
  Proof.
    intros po. unfold forward_worklist_gen. cbv zeta. unfold ret at 2.
    rewrite (fold_app_gen _ (fun l => rev l)); [reflexivity|]. intros st x. reflexivity.
  Qed.

  Definition nonleaf (n : nat) : bool := match fblock f n with Some b => negb (leaf_global f b) | None => true end.

  Lemma filterE_nonleaf : forall l, incl l U ->
    filterE (fun b => (notE (leaf_block_global_gen f b))) l = Some (filter nonleaf l).
  Proof.
    induction l as [|x l IH]; intros Hl; [reflexivity|]. cbn [filterE filter].
    destruct (proj1 (fblock_ids f x) (Hl x (or_introl eq_refl))) as [xb Hxb].
    rewrite (leaf_block_global_gen_eq f x xb Hxb). cbn [notE option_map bind].
    rewrite IH; [|intros y Hy; apply Hl; right; exact Hy]. cbn [bind ret].
    assert (Hn : nonleaf x = negb (leaf_global f xb)) by (unfold nonleaf; rewrite Hxb; reflexivity).
    rewrite Hn. reflexivity.
  Qed.

  Theorem backward_worklist_gen_eq : forall po, (forall l, In l po -> incl l U) ->
    backward_worklist_gen f po = Some (flat_map (fun l => filter nonleaf l) po).
  Proof.
    intros po Hpo. unfold backward_worklist_gen. cbv zeta. unfold ret at 3.
    assert (H : forall po acc, (forall l, In l po -> incl l U) ->
      fold_left (fun acc l => (bind acc (fun st =>
        (bind (bind (filterE (fun b => (notE (leaf_block_global_gen f b))) l) (fun tmp1 => (ret (st ++ tmp1)))) (fun worklist =>
        (ret worklist)))))) po (Some acc) = Some (acc ++ flat_map (fun l => filter nonleaf l) po)).
    { clear po Hpo. induction po as [|l po IH]; intros acc Hpo; cbn [fold_left flat_map].
      - rewrite app_nil_r. reflexivity.
      - cbn [bind]. cbv zeta. rewrite (filterE_nonleaf l (Hpo l (or_introl eq_refl))). cbn [bind ret].
        rewrite IH; [|intros l' Hl'; apply Hpo; right; exact Hl']. rewrite app_assoc. reflexivity. }
    rewrite (H po [] Hpo). reflexivity.
  Qed.

  (* ---- the worklists of run_analysis = the worklists of the model *)
  Theorem forward_worklist_gen_model :
    In (fn_entry f) U -> subs_entries_ok f -> (forall s, In s (fn_subs f) -> In (s_entry s) U) ->
    bind (postorders_gen f pf) forward_worklist_gen = Some (forward_worklist f).
  Proof.
    intros He Hs Hse. rewrite (postorders_gen_eq He Hs Hse). cbn [bind]. apply forward_worklist_gen_eq.
  Qed.

  Theorem backward_worklist_gen_model :
    In (fn_entry f) U -> subs_entries_ok f -> (forall s, In s (fn_subs f) -> In (s_entry s) U) ->
    bind (postorders_gen f pf) (backward_worklist_gen f) = Some (backward_worklist f).
  Proof.
    intros He Hs Hse. rewrite (postorders_gen_eq He Hs Hse). cbn [bind].
    rewrite (backward_worklist_gen_eq _ (postorders_in_U He Hse)). reflexivity.
  Qed.
End Worklists.

(* ====================================================================== *)
(* 3. _update_gtxn_constraints                                             *)
(* ====================================================================== *)
(* the at-index refinement of Domains.run_family, named *)
Definition refine_at {T : Type} (inter : T -> T -> T) (null : T) (indices : list (nat * list Z)) (base : state T)
    (i : N) (bc : state T) : state T :=
  map (fun '(b, c) =>
         let gi := match Analysis.lookup _ indices b with Some l => l | None => [] end in
         if zmem (Z.of_N i) gi
         then (b, inter c (match Analysis.lookup _ base b with Some v => v | None => null end))
         else (b, null)) bc.

Definition refine_fam {T : Type} (inter : T -> T -> T) (null : T) (indices : list (nat * list Z)) (base : state T)
    (fam : keyfam) (bc : state T) : state T :=
  match fam with KAtIndex i => refine_at inter null indices base i bc | _ => bc end.

(* refine_fam IS the refinement step of the model: Domains.run_family written with it *)
Theorem run_family_refine_unfold :
  forall (f : func) (fuel : nat) (T : Type) (t_eqb : T -> T -> bool) (univ null : T) (union inter : T -> T -> T)
    (single : keyfam -> instr -> nat -> list sval -> T * T) (indices : list (nat * list Z)),
  run_family f fuel t_eqb univ null union inter single indices =
  match init_constraints _ univ null union inter (single KSelf) f with
  | None => Exn "exception in block/path level constraints"
  | Some bc0 =>
      match solve _ t_eqb univ null union inter (single KSelf) f fuel bc0 with
      | Done base =>
          match seq_outcomes all_gtx_fams (fun fam =>
                  match init_constraints _ univ null union inter (single fam) f with
                  | None => Exn "exception in block/path level constraints"
                  | Some bc =>
                      match solve _ t_eqb univ null union inter (single fam) f fuel (refine_fam inter null indices base fam bc) with
                      | Done r => Done (fam, r) | Exn e => Exn e | OutOfFuel => OutOfFuel end
                  end) with
          | Done rest => Done ((KSelf, base) :: rest)
          | Exn e => Exn e | OutOfFuel => OutOfFuel
          end
      | Exn e => Exn e
      | OutOfFuel => OutOfFuel
      end
  end.
Proof. reflexivity. Qed.

Section Dict.
  Variable T : Type.
  Notation state := (Analysis.state T).
  Notation gdict := (SolverGen.gdict T).

  Lemma kdict_get_set_other (d : gdict) k k' v : k <> k' -> kdict_get T (kdict_set T d k v) k' = kdict_get T d k'.
  Proof.
    intros Hne. induction d as [|[k0 w] d IH]; cbn.
    - destruct (String.eqb k k') eqn:E; [apply String.eqb_eq in E; contradiction|reflexivity].
    - destruct (String.eqb k0 k) eqn:E; cbn.
      + apply String.eqb_eq in E. subst k0.
        destruct (String.eqb k k') eqn:E'; [apply String.eqb_eq in E'; contradiction|reflexivity].
      + destruct (String.eqb k0 k'); [reflexivity|exact IH].
  Qed.

  Lemma ddict_get_store_same (d : gdict) k b v : ddict_get T (ctx_store T d k b v) k = dict_set T (ddict_get T d k) b v.
  Proof. unfold ctx_store, ddict_get at 1. rewrite kdict_get_set_same. reflexivity. Qed.

  Lemma ddict_get_store_other (d : gdict) k k' b v : k <> k' -> ddict_get T (ctx_store T d k b v) k' = ddict_get T d k'.
  Proof. intros H. unfold ctx_store, ddict_get at 1. rewrite (kdict_get_set_other _ _ _ _ H). reflexivity. Qed.

  (* two association lists with the same (duplicate-free) keys and the same lookups are equal *)
  Lemma state_ext : forall (s1 s2 : state),
    map fst s1 = map fst s2 -> NoDup (map fst s1) ->
    (forall b, In b (map fst s1) -> lookup T s1 b = lookup T s2 b) -> s1 = s2.
  Proof.
    induction s1 as [|[k v] s1 IH]; intros [|[k' v'] s2] Hk Hnd Hl; cbn in Hk; try discriminate; [reflexivity|].
    injection Hk as -> Hk. cbn in Hnd. inversion Hnd as [|? ? Hn Hnd']; subst.
    pose proof (Hl k' (or_introl eq_refl)) as H0. cbn in H0. rewrite Nat.eqb_refl in H0. injection H0 as ->.
    f_equal. apply IH; [exact Hk|exact Hnd'|]. intros b Hb. specialize (Hl b (or_intror Hb)). cbn in Hl.
    destruct (Nat.eqb k' b) eqn:E; [|exact Hl]. apply Nat.eqb_eq in E. subst b. contradiction.
  Qed.
End Dict.

Section Update.
  Variable T : Type.
  Variable univ null : string -> T.
  Variable union inter : string -> T -> T -> T.
  Variable indices : list (nat * list Z).
  Variable key : string.

  Notation state := (Analysis.state T).
  Notation gdict := (SolverGen.gdict T).
  Notation view := (ddict_get T).
  Notation atk := (fun ind : Z => get_gtxn_at_index_key ind key).
  Notation upd := (update_gtxn_constraints_gen T univ null union inter indices).

  (* the body of the loop over the indices, let-free *)
  Definition upd_step (block : nat) (acc : py gdict) (ind : Z) : py gdict :=
    bind acc (fun d =>
      (ifE (bind (call_group_indices indices block) (fun tmp1 => (ret (int_in ind tmp1))))
          (bind (bind (bind (dict_get T (view d (atk ind)) block) (fun tmp2 => (bind (dict_get T (view d key) block) (fun tmp3 => (ret (inter (atk ind) tmp2 tmp3)))))) (fun tmp4 => (ret (ctx_store T d (atk ind) block tmp4)))) (fun d' =>
          (ret d')))
          (ret (ctx_store T d (atk ind) block (null (atk ind)))))).

  Lemma bind_some_r {A} (m : py A) : bind m (fun x => Some x) = m.
  Proof. destruct m; reflexivity. Qed.

  Lemma upd_unfold block d :
    upd [key] block d = fold_left (upd_step block) (py_range 0%Z (Z.of_N MAX_GROUP_SIZE)) (Some d).
  Proof.
    unfold update_gtxn_constraints_gen. cbv zeta. cbn [fold_left bind ret].
    rewrite !bind_some_r. reflexivity.
  Qed.

  (* the value _update_gtxn_constraints stores for the at-index key of `ind` at `block`, from the values c (at-index key)
     and v (base key) found there and the possible group indices gi of the block *)
  Definition newval (ind : Z) (gi : list Z) (c v : T) : T :=
    if zmem ind gi then inter (atk ind) c v else null (atk ind).

  Lemma upd_step_some block d ind gi c v :
    Analysis.lookup _ indices block = Some gi ->
    lookup T (view d (atk ind)) block = Some c -> lookup T (view d key) block = Some v ->
    upd_step block (Some d) ind = Some (ctx_store T d (atk ind) block (newval ind gi c v)).
  Proof.
    intros Hg Hc Hv. unfold upd_step, call_group_indices, dict_get, newval. cbn [bind]. rewrite Hg. cbn [bind ret ifE].
    change (int_in ind gi) with (zmem ind gi). destruct (zmem ind gi); cbn [ifE]; [|reflexivity].
    rewrite Hc, Hv. reflexivity.
  Qed.

  (* one block, any duplicate-free list of indices whose at-index keys are pairwise distinct and differ from the base key *)
  Lemma upd_fold_block block gi v : forall (l : list Z) (d : gdict),
    Analysis.lookup _ indices block = Some gi ->
    NoDup (map atk l) -> ~ In key (map atk l) ->
    lookup T (view d key) block = Some v ->
    (forall ind, In ind l -> exists c, lookup T (view d (atk ind)) block = Some c) ->
    exists d', fold_left (upd_step block) l (Some d) = Some d' /\
      (forall ind c, In ind l -> lookup T (view d (atk ind)) block = Some c ->
         view d' (atk ind) = update T (view d (atk ind)) block (newval ind gi c v)) /\
      (forall k, ~ In k (map atk l) -> view d' k = view d k).
  Proof.
    induction l as [|i l IH]; intros d Hg Hnd Hk Hv Hc.
    - exists d. split; [reflexivity|]. split; [intros ind c []|reflexivity].
    - cbn [map] in Hnd, Hk. inversion Hnd as [|? ? Hni Hnd']; subst.
      destruct (Hc i (or_introl eq_refl)) as [ci Hci].
      cbn [fold_left]. rewrite (upd_step_some block d i gi ci v Hg Hci Hv).
      set (d1 := ctx_store T d (atk i) block (newval i gi ci v)).
      assert (Hki : atk i <> key) by (intros E; apply Hk; left; exact E).
      assert (Hv1 : lookup T (view d1 key) block = Some v).
      { unfold d1. rewrite (ddict_get_store_other T d _ _ _ _ Hki). exact Hv. }
      assert (Hother : forall k, k <> atk i -> view d1 k = view d k).
      { intros k Hne. unfold d1. apply ddict_get_store_other. intros E. apply Hne. symmetry. exact E. }
      assert (Hc1 : forall ind, In ind l -> exists c, lookup T (view d1 (atk ind)) block = Some c).
      { intros ind Hin. rewrite Hother; [apply Hc; right; exact Hin|].
        intros E. apply Hni. rewrite <- E. apply (in_map atk). exact Hin. }
      destruct (IH d1 Hg Hnd' (fun H => Hk (or_intror H)) Hv1 Hc1) as [d' [Hf [Hin' Hout']]].
      exists d'. split; [exact Hf|]. split.
      + intros ind c [<-|Hin] Hcc.
        * rewrite Hout'; [|exact Hni]. unfold d1. rewrite ddict_get_store_same.
          rewrite Hci in Hcc. injection Hcc as <-. apply (dict_set_update T _ _ _ _ Hci).
        * assert (Hne : atk ind <> atk i) by (intros E; apply Hni; rewrite <- E; apply (in_map atk); exact Hin).
          rewrite (Hin' ind c Hin); rewrite (Hother _ Hne); [reflexivity|exact Hcc].
      + intros k Hnk. rewrite Hout'; [|intros H; apply Hnk; right; exact H]. apply Hother.
        intros E. apply Hnk. left. symmetry. exact E.
  Qed.
End Update.

(* the indices range(MAX_GROUP_SIZE) and their at-index keys *)
Definition group_range : list Z := py_range 0%Z (Z.of_N MAX_GROUP_SIZE).

Lemma atk_prefix ind key : get_gtxn_at_index_key ind key = (get_gtxn_at_index_key ind "" ++ key)%string.
Proof. unfold get_gtxn_at_index_key. rewrite !sapp_assoc. reflexivity. Qed.

Lemma atk_nodup key : NoDup (map (fun ind => get_gtxn_at_index_key ind key) group_range).
Proof.
  rewrite (map_ext _ (fun ind => (get_gtxn_at_index_key ind "" ++ key)%string) (fun ind => atk_prefix ind key)).
  rewrite <- (map_map (fun ind => get_gtxn_at_index_key ind "") (fun p => (p ++ key)%string)).
  apply NoDup_map_tail. apply nodupb_NoDup. vm_compute. reflexivity.
Qed.

Lemma atk_not_base key : ~ In key (map (fun ind => get_gtxn_at_index_key ind key) group_range).
Proof.
  intros Hin. apply in_map_iff in Hin. destruct Hin as [ind [E _]]. rewrite atk_prefix in E.
  apply (f_equal String.length) in E. rewrite sapp_length in E.
  unfold get_gtxn_at_index_key in E. rewrite sapp_length in E. cbn [String.length] in E. lia.
Qed.

Lemma group_range_N : forall i, (i < MAX_GROUP_SIZE)%N -> In (Z.of_N i) group_range.
Proof.
  intros i Hi. unfold group_range, py_range. apply in_map_iff. exists (N.to_nat i).
  split; [lia|]. apply in_seq. change (Z.of_N MAX_GROUP_SIZE) with 16%Z. change MAX_GROUP_SIZE with 16%N in Hi. lia.
Qed.

Section UpdateAll.
  Variable T : Type.
  Variable univ null : string -> T.
  Variable union inter : string -> T -> T -> T.
  Variable indices : list (nat * list Z).
  Variable key : string.

  Notation state := (Analysis.state T).
  Notation gdict := (SolverGen.gdict T).
  Notation view := (ddict_get T).
  Notation atk := (fun ind : Z => get_gtxn_at_index_key ind key).
  Notation upd := (update_gtxn_constraints_gen T univ null union inter indices).

  (* the loop `for block in self._function.blocks: self._update_gtxn_constraints(self.KEYS_WITH_GTXN, block)` of
     run_analysis, for KEYS_WITH_GTXN = [key] *)
  Definition upd_all (bl : list nat) (d : gdict) : py gdict :=
    fold_left (fun acc block => bind acc (fun st => upd [key] block st)) bl (Some d).

  (* what the loop does to the dictionary of ONE at-index key, as a function on association lists *)
  Definition refine_step (ind : Z) (base : state) (st : state) (b : nat) : state :=
    match Analysis.lookup _ indices b, lookup T st b, lookup T base b with
    | Some gi, Some c, Some v => update T st b (newval T null inter key ind gi c v)
    | _, _, _ => st
    end.
  Definition refine_blocks (ind : Z) (base : state) (bl : list nat) (st : state) : state :=
    fold_left (refine_step ind base) bl st.

  Lemma lookup_update_ex (st : state) b0 x b : (exists c, lookup T st b = Some c) -> exists c, lookup T (update T st b0 x) b = Some c.
  Proof.
    intros [c Hc]. destruct (Nat.eq_dec b0 b) as [->|Hne].
    - exists x. apply (lookup_update_same T st b x c Hc).
    - exists c. rewrite (lookup_update_other T st b0 b x Hne). exact Hc.
  Qed.

  Theorem upd_all_spec : forall bl d,
    (forall b, In b bl -> exists gi, Analysis.lookup _ indices b = Some gi) ->
    (forall b, In b bl -> exists v, lookup T (view d key) b = Some v) ->
    (forall ind b, In ind group_range -> In b bl -> exists c, lookup T (view d (atk ind)) b = Some c) ->
    exists d', upd_all bl d = Some d' /\
      (forall ind, In ind group_range -> view d' (atk ind) = refine_blocks ind (view d key) bl (view d (atk ind))) /\
      (forall k, ~ In k (map atk group_range) -> view d' k = view d k).
  Proof.
    induction bl as [|b0 bl IH]; intros d Hidx Hbase Hat.
    - exists d. split; [reflexivity|]. split; [reflexivity|reflexivity].
    - destruct (Hidx b0 (or_introl eq_refl)) as [gi Hgi]. destruct (Hbase b0 (or_introl eq_refl)) as [v Hv].
      destruct (upd_fold_block T null inter indices key b0 gi v group_range d Hgi (atk_nodup key) (atk_not_base key) Hv
                  (fun ind Hin => Hat ind b0 Hin (or_introl eq_refl))) as [d1 [Hf [Hin1 Hout1]]].
      unfold upd_all. cbn [fold_left bind]. rewrite (upd_unfold T univ null union inter indices key b0 d). fold group_range. rewrite Hf.
      pose proof (Hout1 key (atk_not_base key)) as Hk1.
      assert (Hat1 : forall ind, In ind group_range -> view d1 (atk ind) = refine_step ind (view d key) (view d (atk ind)) b0).
      { intros ind Hin. destruct (Hat ind b0 Hin (or_introl eq_refl)) as [c Hc].
        rewrite (Hin1 ind c Hin Hc). unfold refine_step. rewrite Hgi, Hc, Hv. reflexivity. }
      destruct (IH d1) as [d' [Hf' [Hin' Hout']]].
      + intros b Hb. apply Hidx. right. exact Hb.
      + intros b Hb. rewrite Hk1. apply Hbase. right. exact Hb.
      + intros ind b Hin Hb. rewrite (Hat1 ind Hin). unfold refine_step.
        destruct (Hat ind b Hin (or_intror Hb)) as [c Hc].
        destruct (Analysis.lookup _ indices b0); [|eauto]. destruct (lookup T (view d (atk ind)) b0); [|eauto].
        destruct (lookup T (view d key) b0); [|eauto]. apply lookup_update_ex. eauto.
      + exists d'. split; [exact Hf'|]. split.
        * intros ind Hin. rewrite (Hin' ind Hin), Hk1, (Hat1 ind Hin). reflexivity.
        * intros k Hk. rewrite (Hout' k Hk). apply Hout1. exact Hk.
  Qed.

  (* ---- refine_blocks over the keys of the dictionary = the model's refine_at *)
  Lemma refine_blocks_keys ind base : forall bl st, map fst (refine_blocks ind base bl st) = map fst st.
  Proof.
    unfold refine_blocks. induction bl as [|b bl IH]; intros st; [reflexivity|]. cbn [fold_left].
    rewrite IH. unfold refine_step.
    destruct (Analysis.lookup _ indices b); [|reflexivity]. destruct (lookup T st b); [|reflexivity].
    destruct (lookup T base b); [|reflexivity]. apply update_keys.
  Qed.

  Lemma refine_step_lookup_self ind base (s : state) b :
    lookup T (refine_step ind base s b) b =
    match Analysis.lookup _ indices b, lookup T s b, lookup T base b with
    | Some gi, Some c, Some v => Some (newval T null inter key ind gi c v)
    | _, _, _ => lookup T s b
    end.
  Proof.
    unfold refine_step. destruct (Analysis.lookup _ indices b) as [gi|]; [|reflexivity].
    destruct (lookup T s b) as [c|] eqn:Hc; [|exact Hc]. destruct (lookup T base b) as [v|]; [|exact Hc].
    apply (lookup_update_same T s b _ c Hc).
  Qed.

  Lemma refine_step_lookup_other ind base (s : state) b0 x : x <> b0 -> lookup T (refine_step ind base s b0) x = lookup T s x.
  Proof.
    intros Hx. unfold refine_step. destruct (Analysis.lookup _ indices b0); [|reflexivity].
    destruct (lookup T s b0); [|reflexivity]. destruct (lookup T base b0); [|reflexivity].
    apply lookup_update_other. intros E. apply Hx. symmetry. exact E.
  Qed.

  Lemma refine_blocks_lookup ind base : forall bl st b, NoDup bl ->
    lookup T (refine_blocks ind base bl st) b =
    if nat_mem b bl then lookup T (refine_step ind base st b) b else lookup T st b.
  Proof.
    unfold refine_blocks. induction bl as [|b0 bl IH]; intros st b Hnd; [reflexivity|].
    inversion Hnd as [|? ? Hn Hnd']; subst.
    cbn [fold_left]. rewrite (IH _ b Hnd').
    assert (Hmem : nat_mem b (b0 :: bl) = Nat.eqb b b0 || nat_mem b bl) by reflexivity. rewrite Hmem.
    destruct (Nat.eqb b b0) eqn:E; cbn [orb].
    - apply Nat.eqb_eq in E. subst b.
      destruct (nat_mem b0 bl) eqn:Em; [apply nat_mem_In in Em; contradiction|reflexivity].
    - apply Nat.eqb_neq in E. destruct (nat_mem b bl); [|apply refine_step_lookup_other; exact E].
      rewrite !refine_step_lookup_self. rewrite (refine_step_lookup_other ind base st b0 b E). reflexivity.
  Qed.

  Lemma lookup_refine_at (i : N) (base : state) : forall st b,
    lookup T (refine_at (inter (atk (Z.of_N i))) (null (atk (Z.of_N i))) indices base i st) b =
    option_map (fun c => if zmem (Z.of_N i) (match Analysis.lookup _ indices b with Some l => l | None => [] end)
                         then inter (atk (Z.of_N i)) c (match lookup T base b with Some v => v | None => null (atk (Z.of_N i)) end)
                         else null (atk (Z.of_N i))) (lookup T st b).
  Proof.
    induction st as [|[k c] st IH]; intros b; [reflexivity|]. cbn [refine_at map].
    destruct (zmem (Z.of_N i) match Analysis.lookup _ indices k with Some l => l | None => [] end) eqn:Ez;
      cbn [lookup]; destruct (Nat.eqb k b) eqn:E; try apply IH; apply Nat.eqb_eq in E; subst k; cbn [option_map]; rewrite Ez; reflexivity.
  Qed.

  Lemma refine_at_keys (i : N) (base : state) st :
    map fst (refine_at (inter (atk (Z.of_N i))) (null (atk (Z.of_N i))) indices base i st) = map fst st.
  Proof.
    unfold refine_at. induction st as [|[k c] st IH]; [reflexivity|]. cbn [map]. rewrite IH.
    destruct (zmem _ _); reflexivity.
  Qed.

  Theorem refine_blocks_refine_at : forall (i : N) (base st : state),
    NoDup (map fst st) ->
    (forall b, In b (map fst st) -> exists gi, Analysis.lookup _ indices b = Some gi) ->
    (forall b, In b (map fst st) -> exists v, lookup T base b = Some v) ->
    refine_blocks (Z.of_N i) base (map fst st) st =
    refine_at (inter (atk (Z.of_N i))) (null (atk (Z.of_N i))) indices base i st.
  Proof.
    intros i base st Hnd Hidx Hbase. apply state_ext.
    - rewrite refine_blocks_keys, refine_at_keys. reflexivity.
    - rewrite refine_blocks_keys. exact Hnd.
    - rewrite refine_blocks_keys. intros b Hb. rewrite (refine_blocks_lookup _ _ _ _ _ Hnd), lookup_refine_at.
      assert (Hm : nat_mem b (map fst st) = true) by (apply nat_mem_In; exact Hb). rewrite Hm.
      destruct (Hidx b Hb) as [gi Hgi]. destruct (Hbase b Hb) as [v Hv].
      destruct (lookup_in_keys T st b Hb) as [c Hc]. unfold refine_step. rewrite Hgi, Hc, Hv. cbn [option_map].
      rewrite (lookup_update_same T st b _ c Hc). reflexivity.
  Qed.

  (* ---- the loop of run_analysis = the model's at-index refinement, key by key *)
  Theorem update_gtxn_constraints_gen_eq : forall bl d,
    NoDup bl ->
    (forall b, In b bl -> exists gi, Analysis.lookup _ indices b = Some gi) ->
    (forall b, In b bl -> exists v, lookup T (view d key) b = Some v) ->
    (forall i, (i < MAX_GROUP_SIZE)%N -> map fst (view d (atk (Z.of_N i))) = bl) ->
    exists d', upd_all bl d = Some d' /\
      (forall i, (i < MAX_GROUP_SIZE)%N ->
         view d' (key_of_fam key (KAtIndex i)) =
         refine_at (inter (atk (Z.of_N i))) (null (atk (Z.of_N i))) indices (view d key) i (view d (key_of_fam key (KAtIndex i)))) /\
      (forall k, (forall i, (i < MAX_GROUP_SIZE)%N -> k <> key_of_fam key (KAtIndex i)) -> view d' k = view d k).
  Proof.
    intros bl d Hnd Hidx Hbase Hkeys.
    assert (HR : forall ind, In ind group_range -> exists i, (i < MAX_GROUP_SIZE)%N /\ ind = Z.of_N i).
    { intros ind Hin. unfold group_range, py_range in Hin. apply in_map_iff in Hin. destruct Hin as [n [<- Hn]].
      apply in_seq in Hn. change (Z.of_N MAX_GROUP_SIZE) with 16%Z in Hn. exists (N.of_nat n).
      change MAX_GROUP_SIZE with 16%N. split; lia. }
    destruct (upd_all_spec bl d Hidx Hbase) as [d' [Hf [Hin Hout]]].
    { intros ind b Hind Hb. destruct (HR ind Hind) as [i [Hi ->]]. apply lookup_in_keys. rewrite (Hkeys i Hi). exact Hb. }
    exists d'. split; [exact Hf|]. split.
    - intros i Hi. cbn [key_of_fam]. rewrite (Hin _ (group_range_N i Hi)). rewrite <- (Hkeys i Hi) at 1.
      apply refine_blocks_refine_at; rewrite (Hkeys i Hi); assumption.
    - intros k Hk. apply Hout. intros Hin'. apply in_map_iff in Hin'. destruct Hin' as [ind [<- Hind]].
      destruct (HR ind Hind) as [i [Hi ->]]. exact (Hk i Hi eq_refl).
  Qed.
End UpdateAll.

(* ====================================================================== *)
(* 4. run_analysis: its structure                                          *)
(* ====================================================================== *)
Section RunStructure.
  Variable T : Type.
  Variable t_eqb : T -> T -> bool.
  Variable univ null : string -> T.
  Variable union inter : string -> T -> T -> T.
  Variable single : string -> instr -> nat -> list sval -> T * T.
  Variable f : func.
  Variable BASE_KEYS KEYS_WITH_GTXN : list string.
  Variable indices : list (nat * list Z).

  Notation gdict := (SolverGen.gdict T).

  (* step 1: block-level then path-level constraints of every key, block by block *)
  Definition init_gen (afuel : nat) (keys : list string) (d : gdict) : py gdict :=
    fold_left (fun acc block => bind acc (fun st =>
      bind (call_block_level_constraints T univ null union inter single f afuel keys block st) (fun st' =>
      bind (call_path_level_constraints T univ null union inter single f afuel keys block) (fun _ => ret st'))))
      (function_blocks f) (ret d).
  (* forward then backward pass of a list of keys, on the worklists built from the post-orders *)
  Definition pass_gen (fuel : nat) (keys : list string) (po : list (list nat)) (d : gdict) : py (option gdict) :=
    bind (forward_worklist_gen po) (fun wl =>
    bind (call_forward_analyis T t_eqb univ null union inter single f fuel keys wl d) (fun r =>
    match r with
    | None => ret None
    | Some d1 => bind (backward_worklist_gen f po) (fun wl' => call_backward_analysis T t_eqb univ null union inter f fuel keys wl' d1)
    end)).
  (* _update_gtxn_constraints for every block *)
  Definition refine_gen (keys : list string) (d : gdict) : py gdict :=
    fold_left (fun acc block => bind acc (fun st => bind (update_gtxn_constraints_gen T univ null union inter indices keys block st) (fun st' => ret st')))
      (function_blocks f) (ret d).

  Theorem run_analysis_gen_unfold : forall fuel pfuel afuel,
    run_analysis_gen T t_eqb univ null union inter single f BASE_KEYS KEYS_WITH_GTXN indices fuel pfuel afuel =
    bind (gtx_keys_gen BASE_KEYS KEYS_WITH_GTXN) (fun gtx_keys =>
    bind (init_gen afuel (BASE_KEYS ++ gtx_keys) (kdict_empty T)) (fun d0 =>
    bind (postorders_gen f pfuel) (fun po =>
    bind (pass_gen fuel BASE_KEYS po d0) (fun r1 =>
    match r1 with
    | None => ret None
    | Some d1 => bind (refine_gen KEYS_WITH_GTXN d1) (fun d2 => pass_gen fuel gtx_keys po d2)
    end)))).
  Proof.
    intros fuel pfuel afuel. unfold run_analysis_gen, init_gen, pass_gen, refine_gen. cbv zeta.
    destruct (gtx_keys_gen BASE_KEYS KEYS_WITH_GTXN) as [gk|]; [|reflexivity]. cbn [bind].
    match goal with |- bind ?X _ = bind ?Y _ => change X with Y; destruct Y as [d0|]; [|reflexivity] end. cbn [bind].
    destruct (postorders_gen f pfuel) as [po|]; [|reflexivity]. cbn [bind].
    destruct (forward_worklist_gen po) as [wl|]; [|reflexivity]. cbn [bind].
    destruct (call_forward_analyis T t_eqb univ null union inter single f fuel BASE_KEYS wl d0) as [[d1|]|]; [|reflexivity|reflexivity]. cbn [bind].
    destruct (backward_worklist_gen f po) as [wl'|]; [|reflexivity]. cbn [bind].
    destruct (call_backward_analysis T t_eqb univ null union inter f fuel BASE_KEYS wl' d1) as [[d2|]|]; [|reflexivity|reflexivity]. cbn [bind].
    match goal with |- bind ?X _ = bind ?Y _ => change X with Y; destruct Y as [d3|]; [|reflexivity] end. cbn [bind].
    destruct (call_forward_analyis T t_eqb univ null union inter single f fuel gk wl d3) as [[d4|]|]; [|reflexivity|reflexivity]. cbn [bind].
    destruct (call_backward_analysis T t_eqb univ null union inter f fuel gk wl' d4) as [[d5|]|]; reflexivity.
  Qed.
End RunStructure.

(* ====================================================================== *)
(* 5. run_analysis: the passes                                             *)
(* ====================================================================== *)
Lemma append_new_length_ge xs : forall wl, length wl <= length (append_new wl xs).
Proof.
  induction xs as [|x xs IH]; intros wl; cbn [append_new]; [lia|].
  destruct (nat_mem x wl); [apply IH|]. specialize (IH (wl ++ [x])). rewrite app_length in IH. cbn in IH. lia.
Qed.

Section Passes.
  Variable T : Type.
  Variable t_eqb : T -> T -> bool.
  Variable univ null : string -> T.
  Variable union inter : string -> T -> T -> T.
  Variable single : string -> instr -> nat -> list sval -> T * T.
  Variable f : func.

  Notation state := (Analysis.state T).
  Notation gdict := (SolverGen.gdict T).
  Notation view := (ddict_get T).
  Notation U := (ids f).
  Notation pass := (pass_gen T t_eqb univ null union inter single f).
  Notation solve k := (Domains.solve T t_eqb (univ k) (null k) (union k) (inter k) (single k) f).

  (* a pass that returns has consumed more iterations than the length of its initial worklist *)
  Lemma forward_done_fuel k bc : forall fuel wl st st',
    forward T t_eqb (univ k) (null k) (union k) (inter k) (single k) f bc fuel wl st = Done st' -> length wl < fuel.
  Proof.
    induction fuel as [|fu IH]; intros wl st st' H; [discriminate|]. cbn [forward] in H.
    destruct wl as [|b wl]; [cbn; lia|]. cbn [length].
    destruct (fblock f b) as [xb|]; [|discriminate].
    destruct (reachin T (univ k) (null k) (union k) (inter k) (single k) f st xb); [|discriminate].
    destruct (bc b); [|discriminate]. destruct (lookup T st b); [|discriminate].
    destruct (t_eqb _ _).
    - apply IH in H. lia.
    - destruct (next_global f xb); [|discriminate]. apply IH in H.
      pose proof (append_new_length_ge (l ++ (if f_is_callsub f xb then match sub_return_point xb with Some r => [r] | None => [] end else [])) wl). lia.
  Qed.

  Lemma backward_done_fuel k bc : forall fuel wl st st',
    backward T t_eqb (null k) (union k) (inter k) f bc fuel wl st = Done st' -> length wl < fuel.
  Proof.
    induction fuel as [|fu IH]; intros wl st st' H; [discriminate|]. cbn [backward] in H.
    destruct wl as [|b wl]; [cbn; lia|]. cbn [length].
    destruct (fblock f b) as [xb|]; [|discriminate].
    destruct (leaf_global f xb); [apply IH in H; lia|].
    destruct (livein T (null k) (union k) (inter k) f st xb); [|discriminate].
    destruct (bc b); [|discriminate]. destruct (lookup T st b); [|discriminate].
    destruct (t_eqb _ _).
    - apply IH in H. lia.
    - destruct (prev_global f xb); [|discriminate]. apply IH in H.
      pose proof (append_new_length_ge (l ++ (if is_sub_return_point f xb then match callsub_block_of f xb with Some c => [c] | None => [] end else [])) wl). lia.
  Qed.

  Lemma view_kset_same (d : gdict) k s : view (kdict_set T d k s) k = s.
  Proof. unfold ddict_get. rewrite kdict_get_set_same. reflexivity. Qed.

  (* ---- ONE key: the forward + backward pass of run_analysis on the post-orders of the model is Domains.solve on the
     block contexts of that key; the other entries of self._block_contexts are untouched (kdict_set) *)
  Theorem pass_gen_single : forall key fuel (d : gdict),
    main_name_fresh f -> NoDup U -> (forall l, In l (postorders f) -> incl l U) ->
    pass fuel [key] (postorders f) d =
    erase (omap (fun lo => kdict_set T d key lo) (solve key fuel (view d key))).
  Proof.
    intros key fuel d Hm Hnd Hpo. unfold pass_gen, Domains.solve.
    rewrite forward_worklist_gen_eq. cbn [bind]. fold (forward_worklist f).
    unfold call_forward_analyis. rewrite (forward_analyis_gen_eq T t_eqb univ null union inter single f key d fuel _ Hm Hnd).
    fold (fwd_st0 T (null key) f).
    destruct (forward T t_eqb (univ key) (null key) (union key) (inter key) (single key) f (lookup T (view d key)) fuel
                (forward_worklist f) (fwd_st0 T (null key) f)) as [ro| |] eqn:Hf; cbn [omap erase bind]; try reflexivity.
    rewrite (backward_worklist_gen_eq f _ Hpo). cbn [bind].
    change (flat_map (fun l => filter (nonleaf f) l) (postorders f)) with (backward_worklist f).
    unfold call_backward_analysis.
    rewrite (backward_analysis_gen_eq T t_eqb univ null union inter f key _ fuel _ Hm Hnd).
    - rewrite view_kset_same. fold (bwd_st0 T (null key) f ro).
      match goal with |- context [omap _ ?X] => destruct X as [lo| |] end; cbn [omap erase]; try reflexivity.
      rewrite kdict_set_set. reflexivity.
    - rewrite view_kset_same. intros b Hb _. apply lookup_in_keys.
      rewrite (forward_keys _ _ _ _ _ _ _ _ _ _ _ _ _ Hf). unfold fwd_st0. rewrite map_map. cbn [fst].
      apply in_map. exact Hb.
  Qed.

  (* ---- NO key (the second pair of passes of an analysis without gtxn keys): the loops only empty their worklists *)
  Lemma loop_fwd_nil : forall fuel wl (d gr : gdict),
    forward_analyis_loop_gen T t_eqb univ null union inter single f fuel [] wl d gr =
    if Nat.ltb (length wl) fuel then Some (Some ([], gr)) else Some None.
  Proof.
    induction fuel as [|fu IH]; intros wl d gr; [reflexivity|].
    destruct wl as [|b wl]; [reflexivity|]. cbn [forward_analyis_loop_gen list_nonempty list_head list_tail tl bind length].
    unfold merge_information_forward_gen. cbn [fold_left bind ret fst snd]. rewrite IH. reflexivity.
  Qed.

  Lemma loop_bwd_nil : forall fuel wl (d gl : gdict), incl wl U ->
    backward_analysis_loop_gen T t_eqb univ null union inter f fuel [] wl d gl =
    if Nat.ltb (length wl) fuel then Some (Some ([], gl)) else Some None.
  Proof.
    induction fuel as [|fu IH]; intros wl d gl Hwl; [reflexivity|].
    destruct wl as [|b wl]; [reflexivity|]. cbn [backward_analysis_loop_gen list_nonempty list_head list_tail tl bind length].
    destruct (proj1 (fblock_ids f b) (Hwl b (or_introl eq_refl))) as [xb Hxb].
    unfold merge_information_backward_gen. rewrite (leaf_block_global_gen_eq f b xb Hxb).
    destruct (leaf_global f xb); cbn [ifE fold_left bind ret fst snd]; rewrite IH; try reflexivity;
      intros x Hx; apply Hwl; right; exact Hx.
  Qed.

  Theorem pass_gen_nil : forall fuel po (d : gdict), (forall l, In l po -> incl l U) ->
    pass fuel [] po d =
    if Nat.ltb (length (flat_map (fun l => rev l) po)) fuel && Nat.ltb (length (flat_map (fun l => filter (nonleaf f) l) po)) fuel
    then Some (Some d) else Some None.
  Proof.
    intros fuel po d Hpo. unfold pass_gen. rewrite forward_worklist_gen_eq. cbn [bind].
    unfold call_forward_analyis, forward_analyis_gen. cbn [fold_left bind ret]. rewrite loop_fwd_nil.
    destruct (Nat.ltb (length (flat_map (fun l => rev l) po)) fuel); cbn [bind andb fst snd]; [|reflexivity].
    rewrite (backward_worklist_gen_eq f _ Hpo). cbn [bind].
    unfold call_backward_analysis, backward_analysis_gen. cbn [fold_left bind ret]. rewrite loop_bwd_nil.
    - destruct (Nat.ltb _ fuel); reflexivity.
    - intros x Hx. apply in_flat_map in Hx. destruct Hx as [l [Hl Hx]]. apply filter_In in Hx. apply (Hpo l Hl). tauto.
  Qed.
End Passes.

(* ====================================================================== *)
(* 6. run_analysis: step 1                                                 *)
(* ====================================================================== *)
Lemma fold_bind_none {A B} (F : A -> B -> py A) : forall l,
  fold_left (fun acc x => bind acc (fun st => F st x)) l None = None.
Proof. induction l as [|x l IH]; [reflexivity|exact IH]. Qed.

Section Init.
  Variable T : Type.
  Variable univ null : string -> T.
  Variable union inter : string -> T -> T -> T.
  Variable single : string -> instr -> nat -> list sval -> T * T.
  Variable f : func.

  Notation state := (Analysis.state T).
  Notation gdict := (SolverGen.gdict T).
  Notation view := (ddict_get T).
  Notation blockg k := (block_level_constraints_gen T (univ k) (null k) (union k) (inter k) (single k) f).
  Notation cblc := (call_block_level_constraints T univ null union inter single f).
  Notation cplc := (call_path_level_constraints T univ null union inter single f).
  Notation init := (init_gen T univ null union inter single f).

  Lemma lookup_not_in (st : state) b : ~ In b (map fst st) -> lookup T st b = None.
  Proof.
    induction st as [|[k v] st IH]; cbn; intros H; [reflexivity|].
    destruct (Nat.eqb k b) eqn:E; [apply Nat.eqb_eq in E; exfalso; apply H; left; exact E|].
    apply IH. intros Hi. apply H. right. exact Hi.
  Qed.

  Lemma lookup_app_new (st : state) b0 v b :
    lookup T (st ++ [(b0, v)]) b = match lookup T st b with Some x => Some x | None => if Nat.eqb b0 b then Some v else None end.
  Proof.
    induction st as [|[k w] st IH]; cbn; [reflexivity|]. destruct (Nat.eqb k b); [reflexivity|exact IH].
  Qed.

  (* one block, every key: the value of the one-key function is stored under [key][block] *)
  Lemma cblc_spec afuel block : forall keys d d', NoDup keys ->
    cblc afuel keys block d = Some d' ->
    (forall k, In k keys -> exists v, blockg k afuel block = Some v /\ view d' k = dict_set T (view d k) block v) /\
    (forall k, ~ In k keys -> view d' k = view d k).
  Proof.
    unfold call_block_level_constraints.
    induction keys as [|k keys IH]; intros d d' Hnd H.
    - cbn in H. injection H as <-. split; [intros k []|reflexivity].
    - inversion Hnd as [|? ? Hk Hnd']; subst. cbn [fold_left] in H. unfold ret at 1 in H. cbn [bind] in H.
      destruct (blockg k afuel block) as [v|] eqn:Ev; cbn [bind] in H.
      2:{ rewrite (fold_bind_none (fun st key => bind (blockg key afuel block) (fun v => ret (ctx_store T st key block v)))) in H. discriminate. }
      unfold ret at 1 in H. destruct (IH _ _ Hnd' H) as [Hin Hout]. split.
      + intros k' [<-|Hk'].
        * exists v. split; [exact Ev|]. rewrite (Hout k Hk). apply ddict_get_store_same.
        * destruct (Hin k' Hk') as [v' [Hv' Hview]]. exists v'. split; [exact Hv'|]. rewrite Hview.
          rewrite ddict_get_store_other; [reflexivity|]. intros E. subst k'. contradiction.
      + intros k' Hk'. rewrite (Hout k'); [|intros Hi; apply Hk'; right; exact Hi].
        apply ddict_get_store_other. intros E. apply Hk'. left. exact E.
  Qed.

  (* the loop over the blocks: every key gets one entry per block, in block order, holding the value of the one-key
     function *)
  Lemma init_fold_spec afuel keys : NoDup keys -> forall bl d d',
    (forall k, In k keys -> NoDup (map fst (view d k) ++ bl)) ->
    fold_left (fun acc block => bind acc (fun st =>
      bind (cblc afuel keys block st) (fun st' => bind (cplc afuel keys block) (fun _ => ret st')))) bl (Some d) = Some d' ->
    forall k, In k keys ->
      map fst (view d' k) = map fst (view d k) ++ bl /\
      (forall b, In b bl -> lookup T (view d' k) b = blockg k afuel b /\ blockg k afuel b <> None) /\
      (forall b, ~ In b bl -> lookup T (view d' k) b = lookup T (view d k) b).
  Proof.
    intros Hnk. induction bl as [|b0 bl IH]; intros d d' Hnd H k Hk.
    - cbn in H. injection H as <-. rewrite app_nil_r. split; [reflexivity|]. split; [intros b []|reflexivity].
    - cbn [fold_left bind] in H.
      destruct (cblc afuel keys b0 d) as [d1|] eqn:E1; cbn [bind] in H.
      2:{ rewrite (fold_bind_none (fun st block => bind (cblc afuel keys block st) (fun st' => bind (cplc afuel keys block) (fun _ => ret st')))) in H. discriminate. }
      destruct (cplc afuel keys b0) as [u|]; cbn [bind] in H.
      2:{ rewrite (fold_bind_none (fun st block => bind (cblc afuel keys block st) (fun st' => bind (cplc afuel keys block) (fun _ => ret st')))) in H. discriminate. }
      unfold ret at 1 in H.
      destruct (cblc_spec afuel b0 keys d d1 Hnk E1) as [Hin _].
      assert (Hview1 : forall k', In k' keys -> exists v, blockg k' afuel b0 = Some v /\ view d1 k' = view d k' ++ [(b0, v)]).
      { intros k' Hk'. destruct (Hin k' Hk') as [v [Hv Hvw]]. exists v. split; [exact Hv|]. rewrite Hvw.
        apply dict_set_new. apply lookup_not_in. pose proof (Hnd k' Hk') as Hn. apply NoDup_remove_2 in Hn.
        intros Hi. apply Hn. apply in_or_app. left. exact Hi. }
      assert (Hnd1 : forall k', In k' keys -> NoDup (map fst (view d1 k') ++ bl)).
      { intros k' Hk'. destruct (Hview1 k' Hk') as [v [_ ->]]. rewrite map_app. cbn [map fst]. rewrite <- app_assoc. exact (Hnd k' Hk'). }
      destruct (IH d1 d' Hnd1 H k Hk) as [Hkeys [Hlk Hout]].
      destruct (Hview1 k Hk) as [v [Hv Hvw]].
      assert (Hb0 : ~ In b0 bl).
      { pose proof (Hnd k Hk) as Hn. apply NoDup_remove_2 in Hn. intros Hi. apply Hn. apply in_or_app. right. exact Hi. }
      assert (Hl0 : lookup T (view d k) b0 = None).
      { apply lookup_not_in. pose proof (Hnd k Hk) as Hn. apply NoDup_remove_2 in Hn. intros Hi. apply Hn. apply in_or_app. left. exact Hi. }
      split; [|split].
      + rewrite Hkeys, Hvw, map_app. cbn [map fst]. rewrite <- app_assoc. reflexivity.
      + intros b [<-|Hb]; [|apply Hlk; exact Hb].
        rewrite (Hout b0 Hb0), Hvw, lookup_app_new, Hl0, Nat.eqb_refl, Hv. split; [reflexivity|discriminate].
      + intros b Hb. rewrite (Hout b); [|intros Hi; apply Hb; right; exact Hi].
        rewrite Hvw, lookup_app_new. destruct (lookup T (view d k) b); [reflexivity|].
        destruct (Nat.eqb b0 b) eqn:E; [|reflexivity]. apply Nat.eqb_eq in E. exfalso. apply Hb. left. exact E.
  Qed.

  (* step 1 of run_analysis, when it raises no exception: for every key, one entry per block of the function, in
     function.blocks order, holding the value _block_level_constraints computes for that key and block *)
  Theorem init_gen_spec : forall afuel keys d0,
    NoDup keys -> NoDup (ids f) ->
    init afuel keys (kdict_empty T) = Some d0 ->
    forall k, In k keys ->
      map fst (view d0 k) = ids f /\
      forall b, In b (ids f) -> lookup T (view d0 k) b = blockg k afuel b /\ blockg k afuel b <> None.
  Proof.
    intros afuel keys d0 Hnk Hnd H k Hk. unfold init_gen in H.
    destruct (init_fold_spec afuel keys Hnk (function_blocks f) (kdict_empty T) d0) with (k := k) as [H1 [H2 _]]; try assumption.
    - intros k' _. cbn. exact Hnd.
    - split; [exact H1|exact H2].
  Qed.
End Init.

(* ====================================================================== *)
(* 7. run_analysis as a whole                                              *)
(* ====================================================================== *)
(* the hypotheses on the function graph under which the worklists of run_analysis are those of the model *)
Definition run_graph_ok (f : func) : Prop :=
  main_name_fresh f /\ NoDup (ids f) /\ succ_closed f /\ In (fn_entry f) (ids f) /\ subs_entries_ok f /\
  (forall s, In s (fn_subs f) -> In (s_entry s) (ids f)).

Section Whole.
  Variable T : Type.
  Variable t_eqb : T -> T -> bool.
  Variable univ null : string -> T.
  Variable union inter : string -> T -> T -> T.
  Variable single : string -> instr -> nat -> list sval -> T * T.
  Variable f : func.
  Variable indices : list (nat * list Z).
  Hypothesis Hok : run_graph_ok f.

  Notation state := (Analysis.state T).
  Notation gdict := (SolverGen.gdict T).
  Notation view := (ddict_get T).
  Notation U := (ids f).
  Notation pf := (S (length (fn_blocks f))).
  Notation run := (run_analysis_gen T t_eqb univ null union inter single f).
  Notation init := (init_gen T univ null union inter single f).
  Notation pass := (pass_gen T t_eqb univ null union inter single f).
  Notation refine := (refine_gen T univ null union inter f indices).
  Notation solve k := (Domains.solve T t_eqb (univ k) (null k) (union k) (inter k) (single k) f).

  Lemma ok_main : main_name_fresh f. Proof. exact (proj1 Hok). Qed.
  Lemma ok_nodup : NoDup U. Proof. exact (proj1 (proj2 Hok)). Qed.
  Lemma ok_postorders : postorders_gen f pf = Some (postorders f).
  Proof. destruct Hok as (_ & _ & Hcl & He & Hs & Hse). exact (postorders_gen_eq f Hcl He Hs Hse). Qed.
  Lemma ok_po_incl : forall l, In l (postorders f) -> incl l U.
  Proof. destruct Hok as (_ & _ & Hcl & He & Hs & Hse). exact (postorders_in_U f Hcl He Hse). Qed.

  Lemma solve_done_fuel k fuel bc lo :
    solve k fuel bc = Done lo -> length (forward_worklist f) < fuel /\ length (backward_worklist f) < fuel.
  Proof.
    intros H. apply solve_passes in H. destruct H as [ro [H1 H2]]. split.
    - exact (forward_done_fuel T t_eqb univ null union inter single f k _ _ _ _ _ H1).
    - exact (backward_done_fuel T t_eqb null union inter f k _ _ _ _ _ H2).
  Qed.

  Lemma solve_keys k fuel bc lo : solve k fuel bc = Done lo -> map fst lo = U.
  Proof.
    intros H. apply solve_passes in H. destruct H as [ro [_ H2]].
    rewrite (backward_keys _ _ _ _ _ _ _ _ _ _ _ H2). unfold bwd_st0. rewrite map_map. reflexivity.
  Qed.

  Lemma refine_nil (d : gdict) : refine [] d = Some d.
  Proof.
    unfold refine_gen. induction (function_blocks f) as [|b l IH]; [reflexivity|]. cbn [fold_left]. exact IH.
  Qed.

  (* ---- (A) an analysis with ONE base key and no gtxn key (the shape of Domains.run_int): run_analysis is step 1
     followed by Domains.solve on the block contexts of the key *)
  Theorem run_analysis_gen_base_only : forall base fuel afuel,
    run [base] [] indices fuel pf afuel =
    bind (init afuel [base] (kdict_empty T)) (fun d0 =>
      erase (omap (fun lo => kdict_set T d0 base lo) (solve base fuel (view d0 base)))).
  Proof.
    intros base fuel afuel. rewrite run_analysis_gen_unfold, gtx_keys_gen_eq. cbn [flat_map bind app].
    destruct (init afuel [base] (kdict_empty T)) as [d0|]; [|reflexivity]. cbn [bind].
    rewrite ok_postorders. cbn [bind].
    rewrite (pass_gen_single T t_eqb univ null union inter single f base fuel d0 ok_main ok_nodup ok_po_incl).
    destruct (solve base fuel (view d0 base)) as [lo| |] eqn:Hs; cbn [omap erase bind]; try reflexivity.
    rewrite refine_nil. cbn [bind].
    rewrite (pass_gen_nil T t_eqb univ null union inter single f fuel _ _ ok_po_incl).
    destruct (solve_done_fuel _ _ _ _ Hs) as [H1 H2].
    change (flat_map (fun l => rev l) (postorders f)) with (forward_worklist f).
    change (flat_map (fun l => filter (nonleaf f) l) (postorders f)) with (backward_worklist f).
    apply Nat.ltb_lt in H1. apply Nat.ltb_lt in H2. rewrite H1, H2. reflexivity.
  Qed.
End Whole.

Lemma all_some_blocks {T : Type} (g : block -> option T) : forall (l : list block) bc,
  all_some (map (fun b => option_map (fun c => (b_idx b, c)) (g b)) l) = Some bc ->
  map fst bc = map b_idx l /\
  (NoDup (map b_idx l) -> forall b, In b l -> lookup T bc (b_idx b) = g b).
Proof.
  unfold all_some. induction l as [|x l IH]; intros bc H; cbn [map map_opt] in H.
  - injection H as <-. split; [reflexivity|intros _ b []].
  - destruct (g x) as [c|] eqn:Eg; cbn [option_map] in H; [|discriminate].
    destruct (map_opt (fun x => x) (map (fun b => option_map (fun c => (b_idx b, c)) (g b)) l)) as [r|] eqn:Er; [|discriminate].
    injection H as <-. destruct (IH r eq_refl) as [H1 H2]. split; [cbn; rewrite H1; reflexivity|].
    intros Hnd b [<-|Hb]; cbn [lookup map] in *.
    + rewrite Nat.eqb_refl. symmetry. exact Eg.
    + inversion Hnd as [|? ? Hn Hnd']; subst.
      destruct (Nat.eqb (b_idx x) (b_idx b)) eqn:E; [|apply H2; assumption].
      apply Nat.eqb_eq in E. exfalso. apply Hn. rewrite E. apply in_map. exact Hb.
Qed.

Section InitModel.
  Variable T : Type.
  Variable univ null : string -> T.
  Variable union inter : string -> T -> T -> T.
  Variable single : string -> instr -> nat -> list sval -> T * T.
  Variable f : func.
  Notation view := (ddict_get T).

  (* step 1 against Domains.init_constraints: when neither side raises, the block contexts of a key are the model's *)
  Theorem init_gen_model : forall afuel keys d0 k bc,
    NoDup keys -> NoDup (ids f) -> In k keys ->
    (forall b, In b (fn_blocks f) -> NoDup (b_ins b) /\ length (b_ins b) < afuel) ->
    init_gen T univ null union inter single f afuel keys (kdict_empty T) = Some d0 ->
    init_constraints T (univ k) (null k) (union k) (inter k) (single k) f = Some bc ->
    view d0 k = bc.
  Proof.
    intros afuel keys d0 k bc Hnk Hnd Hk Hblocks Hinit Hmodel.
    destruct (init_gen_spec T univ null union inter single f afuel keys d0 Hnk Hnd Hinit k Hk) as [Hkeys Hlk].
    unfold init_constraints in Hmodel.
    destruct (forallb _ (fn_blocks f)); [|discriminate].
    destruct (all_some_blocks _ _ _ Hmodel) as [Hk2 Hl2]. fold (ids f) in Hk2.
    apply state_ext.
    - rewrite Hkeys, Hk2. reflexivity.
    - rewrite Hkeys. exact Hnd.
    - rewrite Hkeys. intros b Hb. destruct (Hlk b Hb) as [-> _].
      unfold ids in Hb. apply in_map_iff in Hb. destruct Hb as [xb [<- Hxb]].
      rewrite (Hl2 Hnd xb Hxb). destruct (Hblocks xb Hxb) as [Hni Hfu].
      destruct (block_constraint T (univ k) (null k) (union k) (inter k) (single k) f xb) as [c|] eqn:Ec.
      + rewrite <- Ec. apply block_level_constraints_gen_eq; [apply fblock_of_In; assumption|exact Hni| |exact Hfu].
        unfold block_constraint in Ec. destruct (emulate (fn_prog f) (b_ins xb) []); [discriminate|discriminate].
      + exfalso. pose proof (Hl2 Hnd xb Hxb) as Hl. rewrite Ec in Hl.
        assert (In (b_idx xb) (map fst bc)) by (rewrite Hk2; apply in_map; exact Hxb).
        destruct (lookup_in_keys T bc _ H) as [v Hv]. congruence.
  Qed.
End InitModel.

(* ---- Domains.run_int: the analysis of one int field (GroupSize: size = true, GroupIndex: size = false), as an
   analysis with that single base key *)
Theorem run_analysis_gen_run_int : forall (f : func) (size : bool) (base : string) indices fuel afuel d0,
  run_graph_ok f ->
  (forall b, In b (fn_blocks f) -> NoDup (b_ins b) /\ length (b_ins b) < afuel) ->
  let U := if size then int_universal_groupsize else int_universal_groupindex in
  let single := fun _ : string => int_single size (fn_intcs f) in
  init_gen (list Z) (fun _ => U) (fun _ => []) (fun _ => zunion) (fun _ => zinter) single f afuel [base] (kdict_empty _) = Some d0 ->
  init_constraints _ U [] zunion zinter (int_single size (fn_intcs f)) f <> None ->
  run_analysis_gen (list Z) zset_eqb (fun _ => U) (fun _ => []) (fun _ => zunion) (fun _ => zinter) single f [base] [] indices
    fuel (S (length (fn_blocks f))) afuel =
  erase (omap (fun lo => kdict_set _ d0 base lo) (run_int f fuel size)).
Proof.
  intros f size base indices fuel afuel d0 Hok Hblocks U single Hinit Hmodel.
  rewrite (run_analysis_gen_base_only _ _ _ _ _ _ _ f indices Hok). rewrite Hinit. cbn [bind].
  unfold run_int. fold U.
  destruct (init_constraints _ U [] zunion zinter (int_single size (fn_intcs f)) f) as [bc|] eqn:Ebc; [|congruence].
  rewrite (init_gen_model (list Z) (fun _ => U) (fun _ => []) (fun _ => zunion) (fun _ => zinter) single f afuel [base] d0 base bc);
    try assumption; try reflexivity.
  - constructor; [intros []|constructor].
  - exact (proj1 (proj2 Hok)).
  - left. reflexivity.
Qed.

Lemma at_index_in_fams : forall i, (i < MAX_GROUP_SIZE)%N -> In (KAtIndex i) all_gtx_fams.
Proof.
  intros i Hi. unfold all_gtx_fams. apply in_or_app. left. apply in_flat_map. exists (N.to_nat i). split.
  - apply in_seq. change max_group_size with 16. change MAX_GROUP_SIZE with 16%N in Hi. lia.
  - left. rewrite N2Nat.id. reflexivity.
Qed.

Lemma fams_at_index_bound : forall i, In (KAtIndex i) all_gtx_fams -> (i < MAX_GROUP_SIZE)%N.
Proof.
  assert (H : forallb (fun fam => match fam with KAtIndex i => N.ltb i MAX_GROUP_SIZE | _ => true end) all_gtx_fams = true)
    by (vm_compute; reflexivity).
  rewrite forallb_forall in H. intros i Hi. apply N.ltb_lt. exact (H _ Hi).
Qed.

Section Family.
  Variable T : Type.
  Variable t_eqb : T -> T -> bool.
  Variable univ null : string -> T.
  Variable union inter : string -> T -> T -> T.
  Variable single : string -> instr -> nat -> list sval -> T * T.
  Variable f : func.
  Variable indices : list (nat * list Z).
  Hypothesis Hok : run_graph_ok f.
  Hypothesis Hidx : forall b, In b (ids f) -> exists gi, Analysis.lookup _ indices b = Some gi.

  Notation state := (Analysis.state T).
  Notation gdict := (SolverGen.gdict T).
  Notation view := (ddict_get T).
  Notation U := (ids f).
  Notation pf := (S (length (fn_blocks f))).
  Notation run := (run_analysis_gen T t_eqb univ null union inter single f).
  Notation init := (init_gen T univ null union inter single f).
  Notation pass := (pass_gen T t_eqb univ null union inter single f).
  Notation solve k := (Domains.solve T t_eqb (univ k) (null k) (union k) (inter k) (single k) f).

  Lemma view_kset_other (d : gdict) k k' s : k <> k' -> view (kdict_set T d k s) k' = view d k'.
  Proof. intros H. unfold ddict_get. rewrite (kdict_get_set_other T d k k' s H). reflexivity. Qed.

  Lemma refine_single key (d : gdict) :
    refine_gen T univ null union inter f indices [key] d = upd_all T univ null union inter indices key (function_blocks f) d.
  Proof.
    unfold refine_gen, upd_all. unfold ret at 2. generalize (Some d). induction (function_blocks f) as [|b l IH]; intros a; [reflexivity|].
    cbn [fold_left]. rewrite <- IH. f_equal. destruct a as [st|]; [|reflexivity]. cbn [bind].
    destruct (update_gtxn_constraints_gen T univ null union inter indices [key] b st); reflexivity.
  Qed.

  (* ---- (B) an analysis with one base key that is also its only KEYS_WITH_GTXN key (FeeField; TxnType and, field by
     field, AddrFields have the same shape): up to the second pair of passes, run_analysis is the model.  The base key
     is solved by Domains.solve; then the dictionary handed to the joint pass over the 62 gtxn keys holds, for every
     family of Keys.all_gtx_fams, exactly the constraints Domains.run_family solves for that family: the at-index
     refinement refine_fam of the block contexts of step 1 *)
  Theorem run_analysis_gen_family_prefix : forall base fuel afuel d0 br,
    init afuel (base :: map (key_of_fam base) all_gtx_fams) (kdict_empty T) = Some d0 ->
    solve base fuel (view d0 base) = Done br ->
    exists d2,
      run [base] [base] indices fuel pf afuel = pass fuel (map (key_of_fam base) all_gtx_fams) (postorders f) d2 /\
      view d2 base = br /\
      forall fam, In fam all_gtx_fams ->
        view d2 (key_of_fam base fam) =
        refine_fam (inter (key_of_fam base fam)) (null (key_of_fam base fam)) indices br fam (view d0 (key_of_fam base fam)).
  Proof.
    intros base fuel afuel d0 br Hinit Hsolve.
    pose proof (gtx_keys_nodup base) as Hnk. cbn [map key_of_fam] in Hnk.
    set (gk := map (key_of_fam base) all_gtx_fams) in *.
    assert (Hspec := init_gen_spec T univ null union inter single f afuel (base :: gk) d0 Hnk (ok_nodup f Hok) Hinit).
    set (d1 := kdict_set T d0 base br).
    assert (Hne : forall fam, In fam all_gtx_fams -> base <> key_of_fam base fam).
    { intros fam Hf E. assert (KSelf = fam) by (apply (key_of_fam_inj base); [left; reflexivity|right; exact Hf|exact E]).
      subst fam. exact (all_gtx_fams_not_self KSelf Hf eq_refl). }
    assert (Hv1 : forall fam, In fam all_gtx_fams -> view d1 (key_of_fam base fam) = view d0 (key_of_fam base fam)).
    { intros fam Hf. apply view_kset_other. exact (Hne fam Hf). }
    assert (Hb1 : view d1 base = br) by apply view_kset_same.
    destruct (update_gtxn_constraints_gen_eq T univ null union inter indices base (function_blocks f) d1) as [d2 [Hupd [Hat Hother]]].
    - exact (ok_nodup f Hok).
    - exact Hidx.
    - intros b Hb. rewrite Hb1. apply lookup_in_keys. rewrite (solve_keys T t_eqb univ null union inter single f _ _ _ _ Hsolve). exact Hb.
    - intros i Hi. change (get_gtxn_at_index_key (Z.of_N i) base) with (key_of_fam base (KAtIndex i)).
      rewrite (Hv1 _ (at_index_in_fams i Hi)).
      apply (Hspec (key_of_fam base (KAtIndex i))). right. apply in_map. exact (at_index_in_fams i Hi).
    - exists d2. split; [|split].
      + rewrite run_analysis_gen_unfold, gtx_keys_gen_eq. cbn [flat_map bind]. rewrite app_nil_r. fold gk.
        change ([base] ++ gk) with (base :: gk). rewrite Hinit. cbn [bind].
        rewrite (ok_postorders f Hok). cbn [bind].
        rewrite (pass_gen_single T t_eqb univ null union inter single f base fuel d0 (ok_main f Hok) (ok_nodup f Hok) (ok_po_incl f Hok)).
        rewrite Hsolve. cbn [omap erase bind]. rewrite refine_single. fold d1. rewrite Hupd. reflexivity.
      + rewrite Hother; [exact Hb1|]. intros i Hi. exact (Hne _ (at_index_in_fams i Hi)).
      + intros fam Hf. destruct fam as [|i|i|z].
        * exfalso. exact (all_gtx_fams_not_self KSelf Hf eq_refl).
        * pose proof (fams_at_index_bound i Hf) as Hi. rewrite (Hat i Hi), Hb1, (Hv1 _ Hf). reflexivity.
        * rewrite Hother; [exact (Hv1 _ Hf)|]. intros j Hj E.
          assert (KAbs i = KAtIndex j) by (apply (key_of_fam_inj base); [right; exact Hf|right; exact (at_index_in_fams j Hj)|exact E]).
          discriminate.
        * rewrite Hother; [exact (Hv1 _ Hf)|]. intros j Hj E.
          assert (KRel z = KAtIndex j) by (apply (key_of_fam_inj base); [right; exact Hf|right; exact (at_index_in_fams j Hj)|exact E]).
          discriminate.
  Qed.

  (* when the base key fails, so does run_analysis: an exception of the passes is an exception, an exhausted iteration
     budget is reported as such *)
  Theorem run_analysis_gen_family_base_fails : forall base fuel afuel d0,
    init afuel (base :: map (key_of_fam base) all_gtx_fams) (kdict_empty T) = Some d0 ->
    (forall e, solve base fuel (view d0 base) = Exn e -> run [base] [base] indices fuel pf afuel = None) /\
    (solve base fuel (view d0 base) = OutOfFuel -> run [base] [base] indices fuel pf afuel = Some None).
  Proof.
    intros base fuel afuel d0 Hinit.
    assert (Hrun : run [base] [base] indices fuel pf afuel =
      bind (erase (omap (fun lo => kdict_set T d0 base lo) (solve base fuel (view d0 base)))) (fun r1 =>
        match r1 with
        | None => ret None
        | Some d1 => bind (refine_gen T univ null union inter f indices [base] d1) (fun d2 =>
                       pass fuel (map (key_of_fam base) all_gtx_fams) (postorders f) d2)
        end)).
    { rewrite run_analysis_gen_unfold, gtx_keys_gen_eq. cbn [flat_map bind]. rewrite app_nil_r.
      change ([base] ++ map (key_of_fam base) all_gtx_fams) with (base :: map (key_of_fam base) all_gtx_fams).
      rewrite Hinit. cbn [bind]. rewrite (ok_postorders f Hok). cbn [bind].
      rewrite (pass_gen_single T t_eqb univ null union inter single f base fuel d0 (ok_main f Hok) (ok_nodup f Hok) (ok_po_incl f Hok)).
      reflexivity. }
    split; [intros e He|intros He]; rewrite Hrun, He; reflexivity.
  Qed.
End Family.

(* ====================================================================== *)
(* 8. The shared worklist                                                  *)
(* ====================================================================== *)
(* forward_analyis / backward_analysis iterate ALL the keys of their list on ONE worklist: a block is re-enqueued when
   the value of ANY key changed.  Domains.run_family / run_all run one instance of the solver per key.  The number of
   iterations of the joint run is not the maximum of the separate runs: two loops 1 <-> 2 and 3 <-> 4 below the entry
   block 0; key "a" is blocked in block 2, key "b" in block 4: each key alone re-enqueues one loop head (6 iterations),
   the two keys together re-enqueue both (7 iterations).  With the iteration budget 7 each separate run returns, the
   joint run does not.  (The results of terminating runs coincide when the iteration is order independent:
   SolverGenLemmas.forward_order_independent_gen; that is NOT proved for the joint run here.) *)
Definition sw_func : func :=
  mkFunc [mkIns 1 (IInt (IANum 1))]
    [mkBlock 0 [0] [1; 3] []; mkBlock 1 [0] [2] [0; 2]; mkBlock 2 [0] [1] [1]; mkBlock 3 [0] [4] [0; 4]; mkBlock 4 [0] [3] [3]]
    0 [0; 1; 2; 3; 4] [] [] None.
Definition sw_ctx : gdict nat :=
  [("a", [(0, 9); (1, 9); (2, 0); (3, 9); (4, 9)]); ("b", [(0, 9); (1, 9); (2, 9); (3, 9); (4, 0)])].
Definition sw_forward (fuel : nat) (keys : list string) : py (option (gdict nat)) :=
  forward_analyis_gen nat Nat.eqb (fun _ => 9) (fun _ => 0) (fun _ => Nat.max) (fun _ => Nat.min) (fun _ _ _ _ => (9, 9))
    sw_func fuel keys (forward_worklist sw_func) sw_ctx.

Theorem shared_worklist_iterations :
  forward_worklist sw_func = [0; 3; 4; 1; 2] /\
  (exists d, sw_forward 7 ["a"] = Some (Some d)) /\ sw_forward 6 ["a"] = Some None /\
  (exists d, sw_forward 7 ["b"] = Some (Some d)) /\ sw_forward 6 ["b"] = Some None /\
  sw_forward 7 ["a"; "b"] = Some None /\ (exists d, sw_forward 8 ["a"; "b"] = Some (Some d)).
Proof. vm_compute. repeat split; eexists; reflexivity. Qed.

(* ====================================================================== *)
(* 9. The hypotheses are needed                                            *)
(* ====================================================================== *)
(* succ_closed: a successor that is not a block of the function.  Python cannot even build such a graph (a reference is
   an object); the model's DFS treats the dangling id as a block without successors, the generated code reads its
   attribute .next: an exception *)
Definition dg_func : func := mkFunc [mkIns 1 (IInt (IANum 1))] [mkBlock 0 [0] [7] []] 0 [0] [] [] None.
Theorem postorder_gen_eq_refuted_dangling :
  exists f e, In e (ids f) /\ postorder_gen f (S (length (fn_blocks f))) e = None /\ postorder f e = [7; 0].
Proof. exists dg_func, 0. vm_compute. repeat split. left. reflexivity. Qed.

(* the recursion budget: _postorder is recursive (one Python frame per block on the current DFS path).  The model gives
   its DFS S (length (fn_blocks f)) levels, which always suffice (postorder_gen_eq); CPython gives about 1000
   (sys.getrecursionlimit(); tealer does not raise it): on a chain of blocks deeper than the budget the generated
   function raises (RecursionError) where the model returns the post-order *)
Definition ch_func : func :=
  mkFunc [mkIns 1 (IInt (IANum 1))] [mkBlock 0 [0] [1] []; mkBlock 1 [0] [2] [0]; mkBlock 2 [0] [] [1]] 0 [0; 1; 2] [] [] None.
Theorem postorder_gen_recursion_budget :
  postorder_gen ch_func 2 0 = None /\ postorder_gen ch_func 3 0 = Some [2; 1; 0] /\ postorder ch_func 0 = [2; 1; 0].
Proof. vm_compute. repeat split. Qed.

(* the group indices of a block the int-fields analysis stored nothing for: KeyError in Python
   (Function._transaction_contexts[block]); Domains.run_family reads "no possible index" and stores the null set *)
Theorem update_gtxn_constraints_gen_keyerror :
  update_gtxn_constraints_gen nat (fun _ => 9) (fun _ => 0) (fun _ => Nat.max) (fun _ => Nat.min) [] ["K"] 0 [("K", [(0, 7)])] = None /\
  refine_at Nat.min 0 [] [(0, 7)] 3 [(0, 5)] = [(0, 0)].
Proof. vm_compute. split; reflexivity. Qed.

(* ====================================================================== *)
(* 10. Concrete instances                                                  *)
(* ====================================================================== *)
(* PROBE-BEGIN *)
(* concrete instances, statements about the generated functions alone (vm_compute, no proof script involved) *)
(* 1. the key list of one field: 62 keys, the first relative one is offset -15 *)
Theorem probe_gtx_keys :
  option_map (fun l => (length l, nth 32 l "")) (gtx_keys_gen [] ["K"]) = Some (62, "GTXN_RELATIVE_-15_K").
Proof. vm_compute. reflexivity. Qed.
(* 2. a two-block function 0 -> 1 (1 a leaf): reverse post-order / post-order without the leaf *)
Definition pr_func : func :=
  mkFunc [mkIns 1 (IInt (IANum 1)); mkIns 2 IReturn] [mkBlock 0 [0] [1] []; mkBlock 1 [1] [] [0]] 0 [0; 1] [] [] None.
Theorem probe_worklists :
  bind (postorders_gen pr_func 3) forward_worklist_gen = Some [0; 1] /\
  bind (postorders_gen pr_func 3) (backward_worklist_gen pr_func) = Some [0].
Proof. vm_compute. split; reflexivity. Qed.
(* 3. _update_gtxn_constraints on a block whose possible group indices are the UNSORTED list [3; 1]: the at-index key
   of index 3 is intersected with the base key (min 9 7), index 1 as well (min 5 7), every other index gets the null
   set; a missing inner dictionary is created by the defaultdict *)
Definition pr_ctx : gdict nat :=
  [("K", [(0, 7)]); (get_gtxn_at_index_key 1 "K", [(0, 5)]); (get_gtxn_at_index_key 3 "K", [(0, 9)])].
Theorem probe_update :
  option_map (fun d => (kdict_get nat d (get_gtxn_at_index_key 3 "K"), kdict_get nat d (get_gtxn_at_index_key 1 "K"),
                        kdict_get nat d (get_gtxn_at_index_key 0 "K"), length d))
    (update_gtxn_constraints_gen nat (fun _ => 9) (fun _ => 0) (fun _ => Nat.max) (fun _ => Nat.min) [(0, [3%Z; 1%Z])] ["K"] 0 pr_ctx)
  = Some (Some [(0, 7)], Some [(0, 5)], Some [(0, 0)], 17).
Proof. vm_compute. reflexivity. Qed.
(* PROBE-END *)

Print Assumptions gtx_keys_gen_eq.
Print Assumptions gtx_keys_nodup.
Print Assumptions key_of_fam_inj.
Print Assumptions fam_of_key_of_fam.
Print Assumptions all_gtx_fams_census.
Print Assumptions postorder_gen_eq.
Print Assumptions subs_entries_ok_incl.
Print Assumptions postorders_gen_eq.
Print Assumptions forward_worklist_gen_eq.
Print Assumptions backward_worklist_gen_eq.
Print Assumptions forward_worklist_gen_model.
Print Assumptions backward_worklist_gen_model.
Print Assumptions run_family_refine_unfold.
Print Assumptions upd_all_spec.
Print Assumptions refine_blocks_refine_at.
Print Assumptions update_gtxn_constraints_gen_eq.
Print Assumptions run_analysis_gen_unfold.
Print Assumptions pass_gen_single.
Print Assumptions pass_gen_nil.
Print Assumptions init_gen_spec.
Print Assumptions init_gen_model.
Print Assumptions run_analysis_gen_base_only.
Print Assumptions run_analysis_gen_run_int.
Print Assumptions run_analysis_gen_family_prefix.
Print Assumptions run_analysis_gen_family_base_fails.
Print Assumptions shared_worklist_iterations.
Print Assumptions postorder_gen_eq_refuted_dangling.
Print Assumptions postorder_gen_recursion_budget.
Print Assumptions update_gtxn_constraints_gen_keyerror.
Print Assumptions probe_gtx_keys.
Print Assumptions probe_worklists.
Print Assumptions probe_update.
