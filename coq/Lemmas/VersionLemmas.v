(* ==========================================================================================
   Lemmas/VersionLemmas.v -- property C19, the ALGORITHMS that use the tables:
     verify_version (flags, mixed), the declared version, detect_mode / t_mode and the contract
     type derived from it, block_cost.
   Lemmas/TableLemmas.v proves the generated TABLES equal to the AVM tables; this file says what the
   model's functions compute from them and composes both.

   Findings (all proved below):
   - a field flag is produced only when the instruction itself is supported (Python `else:` branch):
     "FlagField iff field version > declared" is false (verify_version_FlagField_naive_refuted);
     the true statement is verify_version_FlagField_iff.
   - the mode is that of the FIRST mode-specific instruction: for a mixed program "classified
     Stateful iff it uses a Stateful-only instruction" is false (detect_mode_uses_naive_refuted);
     it holds exactly for unmixed programs (detect_mode_unmixed_iff).
   - a program without mode-specific instruction (mode Any) is analysed as a LogicSig.
   - Method (pseudo-op, analyzer version 6, spec 1) is flagged below v6 although the AVM accepts it
     (C19_flag_iff_avm_version_refuted).
   - ed25519verify is LogicSig-only in v1..v4 in the AVM; the analyzer has one mode per class (Any), so
     a v4 program using it together with an application-only opcode is classified Stateful and not
     flagged as mixed (C19_mode_versioned_refuted).
   ========================================================================================== *)
From Coq Require Import String List NArith ZArith Bool Ascii Arith Lia.
From Tealer Require Import Tables Syntax Parse Cfg AvmTables TableLemmas Driver.
Import ListNotations.
Open Scope string_scope.
Open Scope list_scope.

(* ================================================================== 0. small helpers *)
Definition Nsum (l : list N) : N := fold_right N.add 0%N l.

Lemma lookup_class_in_sound : forall l c ci, lookup_class_in l c = Some ci -> In ci l /\ c_name ci = c.
Proof.
  induction l as [ | x l IH]; intros c ci H; [discriminate | ].
  cbn [lookup_class_in] in H. destruct (c_name x =? c) eqn:E.
  - inversion H; subst x. split; [left; reflexivity | apply String.eqb_eq; exact E].
  - destruct (IH c ci H) as [H1 H2]. split; [right; exact H1 | exact H2].
Qed.

Lemma mem_In : forall s l, mem s l = true <-> In s l.
Proof.
  intros s l. unfold mem. rewrite existsb_exists. split.
  - intros [x [Hx He]]. apply String.eqb_eq in He. subst x. exact Hx.
  - intro H. exists s. split; [exact H | apply String.eqb_refl].
Qed.

Lemma lookup_field_In : forall l f v, lookup_field l f = Some v -> In (f, v) l.
Proof.
  induction l as [ | [n w] l IH]; intros f v H; [discriminate | ].
  cbn [lookup_field] in H. destruct (n =? f) eqn:E.
  - apply String.eqb_eq in E. inversion H; subst. left; reflexivity.
  - right. apply IH. exact H.
Qed.

Lemma assoc_cls_In : forall g c v, assoc_cls c g = Some v -> exists t, In (t, (c, v)) g.
Proof.
  induction g as [ | [t [c' w]] g IH]; intros c v H; [discriminate | ].
  cbn [assoc_cls] in H. destruct (c' =? c) eqn:E.
  - apply String.eqb_eq in E. inversion H; subst. exists t. left; reflexivity.
  - destruct (IH c v H) as [t' Ht]. exists t'. right; exact Ht.
Qed.

(* ================================================================== 1. verify_version *)

(* ---- one instruction *)
Lemma ins_field_kind_checked : forall i kind fv,
  ins_field i = Some (kind, fv) -> existsb (String.eqb kind) version_checked_field_kinds = true.
Proof.
  intros i kind fv H. unfold ins_field in H. cbv zeta in H.
  destruct i; try discriminate;
  repeat match goal with
  | H : match ?x with _ => _ end = Some _ |- _ => destruct x; try discriminate
  | H : option_map _ ?x = Some _ |- _ => destruct x; [cbn [option_map] in H | discriminate]
  | H : Some _ = Some _ |- _ => inversion H; subst; clear H
  end; reflexivity.
Qed.

(* "the instruction is not supported" / "its field is not supported (and the instruction is)" *)
Definition unsupported_ins (v : N) (i : instr) : bool :=
  match ins_version i with Some iv => N.ltb v iv | None => false end.
Definition unsupported_field (v : N) (i : instr) : bool :=
  match ins_version i, ins_field i with
  | Some iv, Some (_, fv) => negb (N.ltb v iv) && N.ltb v fv
  | _, _ => false
  end.

Lemma verify_ins_spec : forall v i,
  verify_ins v i = if unsupported_ins v i then Some FlagIns
                   else if unsupported_field v i then Some FlagField else None.
Proof.
  intros v i. unfold verify_ins, unsupported_ins, unsupported_field.
  destruct (ins_version i) as [iv | ]; [ | reflexivity].
  destruct (N.ltb v iv); [reflexivity | ].
  destruct (ins_field i) as [[kind fv] | ] eqn:E; [ | reflexivity].
  rewrite (ins_field_kind_checked i kind fv E). cbn [andb negb]. reflexivity.
Qed.

Theorem verify_ins_FlagIns_iff : forall v i,
  verify_ins v i = Some FlagIns <-> exists iv, ins_version i = Some iv /\ (v < iv)%N.
Proof.
  intros v i. rewrite verify_ins_spec. unfold unsupported_ins, unsupported_field.
  destruct (ins_version i) as [iv | ].
  - destruct (N.ltb v iv) eqn:E.
    + split; [intros _ | reflexivity]. exists iv. split; [reflexivity | apply N.ltb_lt; exact E].
    + split.
      * intro H. destruct (ins_field i) as [[k fv] | ]; [ | discriminate].
        destruct (negb false && N.ltb v fv); discriminate.
      * intros [iv' [H1 H2]]. inversion H1; subst iv'. apply N.ltb_lt in H2. rewrite H2 in E. discriminate.
  - split; [discriminate | ]. intros [iv [H _]]. discriminate.
Qed.

Theorem verify_ins_FlagField_iff : forall v i,
  verify_ins v i = Some FlagField <->
  exists iv kind fv, ins_version i = Some iv /\ (iv <= v)%N /\ ins_field i = Some (kind, fv) /\ (v < fv)%N.
Proof.
  intros v i. rewrite verify_ins_spec. unfold unsupported_ins, unsupported_field.
  destruct (ins_version i) as [iv | ].
  - destruct (N.ltb v iv) eqn:E.
    + split; [discriminate | ]. intros [iv' [k [fv [H1 [H2 _]]]]]. inversion H1; subst iv'.
      apply N.ltb_lt in E. lia.
    + apply N.ltb_ge in E. destruct (ins_field i) as [[k fv] | ].
      * cbn [negb andb]. destruct (N.ltb v fv) eqn:F.
        -- split; [intros _ | reflexivity]. exists iv, k, fv.
           repeat split; [exact E | apply N.ltb_lt; exact F].
        -- split; [discriminate | ]. intros [iv' [k' [fv' [_ [_ [H3 H4]]]]]]. inversion H3; subst.
           apply N.ltb_ge in F. lia.
      * split; [discriminate | ]. intros [iv' [k' [fv' [_ [_ [H3 _]]]]]]. discriminate.
  - split; [discriminate | ]. intros [iv [k [fv [H _]]]]. discriminate.
Qed.

(* ---- the flag list: in-order, with multiplicity *)
Theorem verify_version_flags_exact : forall p v,
  fst (verify_version p v) =
  flat_map (fun i => if unsupported_ins v (i_op i) then [(i_line i, FlagIns)]
                     else if unsupported_field v (i_op i) then [(i_line i, FlagField)] else []) p.
Proof.
  intros p v. unfold verify_version. cbn [fst].
  induction p as [ | i p IH]; [reflexivity | ].
  cbn [flat_map]. rewrite IH. f_equal. rewrite verify_ins_spec.
  destruct (unsupported_ins v (i_op i)); [reflexivity | ].
  destruct (unsupported_field v (i_op i)); reflexivity.
Qed.

Definition is_FlagIns (f : nat * vflag) : bool := match snd f with FlagIns => true | FlagField => false end.
Definition is_FlagField (f : nat * vflag) : bool := match snd f with FlagIns => false | FlagField => true end.

Lemma unsupported_both : forall v i, unsupported_ins v i = true -> unsupported_field v i = false.
Proof.
  intros v i. unfold unsupported_ins, unsupported_field.
  destruct (ins_version i) as [iv | ]; [ | discriminate].
  intro H. rewrite H. destruct (ins_field i) as [[k fv] | ]; reflexivity.
Qed.

Theorem verify_version_ins_flags_in_order : forall p v,
  map fst (filter is_FlagIns (fst (verify_version p v))) =
  map i_line (filter (fun i => unsupported_ins v (i_op i)) p).
Proof.
  intros p v. rewrite verify_version_flags_exact.
  induction p as [ | i p IH]; [reflexivity | ].
  cbn [flat_map filter]. rewrite filter_app, map_app, IH.
  destruct (unsupported_ins v (i_op i)); [reflexivity | ].
  destruct (unsupported_field v (i_op i)); reflexivity.
Qed.

Theorem verify_version_field_flags_in_order : forall p v,
  map fst (filter is_FlagField (fst (verify_version p v))) =
  map i_line (filter (fun i => unsupported_field v (i_op i)) p).
Proof.
  intros p v. rewrite verify_version_flags_exact.
  induction p as [ | i p IH]; [reflexivity | ].
  cbn [flat_map filter]. rewrite filter_app, map_app, IH.
  destruct (unsupported_ins v (i_op i)) eqn:E.
  - rewrite (unsupported_both _ _ E). reflexivity.
  - destruct (unsupported_field v (i_op i)); reflexivity.
Qed.

Lemma verify_version_In : forall p v ln fl,
  In (ln, fl) (fst (verify_version p v)) <->
  exists i, In i p /\ i_line i = ln /\ verify_ins v (i_op i) = Some fl.
Proof.
  intros p v ln fl. unfold verify_version. cbn [fst]. rewrite in_flat_map. split.
  - intros [i [Hi H]]. exists i. split; [exact Hi | ].
    destruct (verify_ins v (i_op i)) as [fl' | ]; [ | contradiction].
    destruct H as [H | []]. inversion H; subst. split; reflexivity.
  - intros [i [Hi [Hl Hv]]]. exists i. split; [exact Hi | ]. rewrite Hv. left. rewrite Hl. reflexivity.
Qed.

(* (line, FlagIns) is reported iff an instruction of that line was introduced after the declared version *)
Theorem verify_version_FlagIns_iff : forall p v ln,
  In (ln, FlagIns) (fst (verify_version p v)) <->
  exists i iv, In i p /\ i_line i = ln /\ ins_version (i_op i) = Some iv /\ (v < iv)%N.
Proof.
  intros p v ln. rewrite verify_version_In. split.
  - intros [i [Hi [Hl H]]]. apply verify_ins_FlagIns_iff in H. destruct H as [iv [H1 H2]].
    exists i, iv. repeat split; assumption.
  - intros [i [iv [Hi [Hl [H1 H2]]]]]. exists i. split; [exact Hi | ]. split; [exact Hl | ].
    apply verify_ins_FlagIns_iff. exists iv. split; assumption.
Qed.

(* (line, FlagField) is reported iff an instruction of that line is itself supported and carries a
   (transaction / global / asset / app / account) field introduced after the declared version *)
Theorem verify_version_FlagField_iff : forall p v ln,
  In (ln, FlagField) (fst (verify_version p v)) <->
  exists i iv kind fv, In i p /\ i_line i = ln /\ ins_version (i_op i) = Some iv /\ (iv <= v)%N /\
                       ins_field (i_op i) = Some (kind, fv) /\ (v < fv)%N.
Proof.
  intros p v ln. rewrite verify_version_In. split.
  - intros [i [Hi [Hl H]]]. apply verify_ins_FlagField_iff in H.
    destruct H as [iv [k [fv [H1 [H2 [H3 H4]]]]]]. exists i, iv, k, fv. repeat split; assumption.
  - intros [i [iv [k [fv [Hi [Hl [H1 [H2 [H3 H4]]]]]]]]]. exists i. split; [exact Hi | ]. split; [exact Hl | ].
    apply verify_ins_FlagField_iff. exists iv, k, fv. repeat split; assumption.
Qed.

(* a line is reported (with either flag) iff the instruction or its field is too recent *)
Theorem verify_version_line_flagged_iff : forall p v ln,
  (exists fl, In (ln, fl) (fst (verify_version p v))) <->
  exists i iv, In i p /\ i_line i = ln /\ ins_version (i_op i) = Some iv /\
               ((v < iv)%N \/ exists kind fv, ins_field (i_op i) = Some (kind, fv) /\ (v < fv)%N).
Proof.
  intros p v ln. split.
  - intros [[ | ] H].
    + apply verify_version_FlagIns_iff in H. destruct H as [i [iv [Hi [Hl [H1 H2]]]]].
      exists i, iv. repeat split; try assumption. left; exact H2.
    + apply verify_version_FlagField_iff in H. destruct H as [i [iv [k [fv [Hi [Hl [H1 [H2 [H3 H4]]]]]]]]].
      exists i, iv. repeat split; try assumption. right. exists k, fv. split; assumption.
  - intros [i [iv [Hi [Hl [H1 H]]]]].
    destruct (N.ltb v iv) eqn:E.
    + exists FlagIns. apply verify_version_FlagIns_iff. exists i, iv. apply N.ltb_lt in E. repeat split; assumption.
    + apply N.ltb_ge in E. destruct H as [H | [k [fv [H3 H4]]]]; [lia | ].
      exists FlagField. apply verify_version_FlagField_iff. exists i, iv, k, fv. repeat split; assumption.
Qed.

(* the naive reading "a field flag iff the field version exceeds the declared version" is false:
   txna ApplicationArgs 0 in a version-1 program gets only the instruction flag *)
Theorem verify_version_FlagField_naive_refuted :
  exists p v ln,
    (exists i kind fv, In i p /\ i_line i = ln /\ ins_field (i_op i) = Some (kind, fv) /\ (v < fv)%N) /\
    ~ In (ln, FlagField) (fst (verify_version p v)) /\
    fst (verify_version p v) = [(ln, FlagIns)].
Proof.
  exists [mkIns 1 (IOther "Txna" [PField ("ApplicationArgs", Some 0%Z)])], 1%N, 1%nat.
  split; [ | split].
  - eexists; exists "TransactionField", 2%N. split; [left; reflexivity | ].
    split; [reflexivity | ]. split; [vm_compute; reflexivity | reflexivity].
  - vm_compute. intros [H | []]. discriminate H.
  - vm_compute. reflexivity.
Qed.

(* ---- mixed *)
Theorem verify_version_mixed_iff : forall p v,
  snd (verify_version p v) = true <->
  (exists i, In i p /\ ins_mode (i_op i) = Some MStateful) /\
  (exists j, In j p /\ ins_mode (i_op j) = Some MStateless).
Proof.
  intros p v. unfold verify_version. cbn [snd]. rewrite andb_true_iff, !existsb_exists. split.
  - intros [[i [Hi H1]] [j [Hj H2]]]. split.
    + exists i. split; [exact Hi | ]. destruct (ins_mode (i_op i)) as [[ | | ] | ]; try discriminate. reflexivity.
    + exists j. split; [exact Hj | ]. destruct (ins_mode (i_op j)) as [[ | | ] | ]; try discriminate. reflexivity.
  - intros [[i [Hi H1]] [j [Hj H2]]]. split.
    + exists i. rewrite H1. split; [exact Hi | reflexivity].
    + exists j. rewrite H2. split; [exact Hj | reflexivity].
Qed.

Lemma verify_version_mixed_version_independent : forall p v v', snd (verify_version p v) = snd (verify_version p v').
Proof. reflexivity. Qed.

(* ---- the declared version; what parse_teal stores *)
Definition declared_version (p : prog) : N :=
  match p with
  | i0 :: _ => match i_op i0 with IPragma v => v | _ => 1%N end
  | [] => 1%N
  end.

Theorem parse_teal_version_mode : forall p t, parse_teal p = Ok t ->
  t_version t = declared_version p /\ t_mode t = detect_mode p /\ t_prog t = p.
Proof.
  unfold parse_teal. intros p t H. destruct p as [ | i0 p']; [discriminate | ].
  destruct (build_blocks (i0 :: p')) as [bs | ]; [ | discriminate].
  match type of H with (match ?m with Some _ => _ | None => _ end) = _ => destruct m as [subs0 | ] end; [ | discriminate].
  inversion H; subst t; clear H. cbn [t_version t_mode t_prog declared_version].
  repeat split; reflexivity.
Qed.

Corollary declared_version_pragma : forall ln n p, declared_version (mkIns ln (IPragma n) :: p) = n.
Proof. reflexivity. Qed.
Corollary declared_version_absent : forall p,
  (forall i0 p', p = i0 :: p' -> forall n, i_op i0 <> IPragma n) -> declared_version p = 1%N.
Proof.
  intros [ | i0 p'] H; [reflexivity | ]. cbn [declared_version].
  destruct (i_op i0) eqn:E; try reflexivity. exfalso. exact (H i0 p' eq_refl v E).
Qed.

(* from the source text: when the first non-comment line parses as `#pragma version n`
   (ParseLemmas.roundtrip_pragma: parse_line ("#pragma version " ++ string_of_N n) = Ok (Some (IPragma n))) *)
Lemma declared_version_first_line : forall l ls k p n,
  starts_with "//" (strip l) = false -> parse_line l = Ok (Some (IPragma n)) ->
  parse_lines (l :: ls) k = Ok p -> declared_version p = n.
Proof.
  intros l ls k p n Hc Hl H. cbn [parse_lines] in H. rewrite Hc, Hl in H. cbn [bind] in H.
  destruct (parse_lines ls (S k)) as [r | e]; cbn [bind] in H; [ | discriminate].
  inversion H; subst p. reflexivity.
Qed.

(* what the model exports as "flags" / "mixed" of a parsed contract *)
Corollary parsed_flags : forall p t, parse_teal p = Ok t ->
  verify_version (t_prog t) (t_version t) = verify_version p (declared_version p).
Proof. intros p t H. destruct (parse_teal_version_mode p t H) as [H1 [_ H3]]. rewrite H1, H3. reflexivity. Qed.

(* ================================================================== 2. mode classification *)
Definition eff_mode (i : instr) : xmode := match ins_mode i with Some m => m | None => MAny end.
Definition mode_specific (i : instr) : bool :=
  match ins_mode i with Some MAny => false | Some _ => true | None => false end.

Lemma detect_mode_cons : forall i p,
  detect_mode (i :: p) = if mode_specific (i_op i) then eff_mode (i_op i) else detect_mode p.
Proof.
  intros i p. unfold detect_mode, mode_specific, eff_mode. cbn [find].
  destruct (ins_mode (i_op i)) as [[ | | ] | ] eqn:E; cbn beta iota; rewrite ?E; reflexivity.
Qed.

Lemma mode_specific_iff : forall i, mode_specific i = true <-> exists m, ins_mode i = Some m /\ m <> MAny.
Proof.
  intro i. unfold mode_specific. destruct (ins_mode i) as [[ | | ] | ]; split; intro H;
    try discriminate; try reflexivity;
    try (eexists; split; [reflexivity | discriminate]);
    destruct H as [m [H1 H2]]; inversion H1; subst; try discriminate; contradiction.
Qed.

Theorem detect_mode_any_iff : forall p,
  detect_mode p = MAny <-> forall i, In i p -> mode_specific (i_op i) = false.
Proof.
  induction p as [ | i p IH]; [split; [intros _ j [] | reflexivity] | ].
  rewrite detect_mode_cons. destruct (mode_specific (i_op i)) eqn:E.
  - split.
    + intro H. exfalso. apply mode_specific_iff in E. destruct E as [m [H1 H2]].
      unfold eff_mode in H. rewrite H1 in H. contradiction.
    + intro H. rewrite (H i (or_introl eq_refl)) in E. discriminate.
  - rewrite IH. split.
    + intros H j [Hj | Hj]; [subst j; exact E | apply H; exact Hj].
    + intros H j Hj. apply H. right; exact Hj.
Qed.

(* the mode is that of the FIRST instruction that is specific to a mode *)
Theorem detect_mode_first_iff : forall p m, m <> MAny ->
  (detect_mode p = m <->
   exists p1 i p2, p = p1 ++ i :: p2 /\ (forall j, In j p1 -> mode_specific (i_op j) = false) /\
                   ins_mode (i_op i) = Some m).
Proof.
  intros p m Hm. induction p as [ | i p IH].
  - split.
    + intro H. exfalso. apply Hm. rewrite <- H. reflexivity.
    + intros [[ | j0 p1] [i0 [p2 [H _]]]]; discriminate.
  - rewrite detect_mode_cons. destruct (mode_specific (i_op i)) eqn:E.
    + split.
      * intro H. exists [], i, p. split; [reflexivity | ]. split; [intros j [] | ].
        apply mode_specific_iff in E. destruct E as [m' [H1 _]]. unfold eff_mode in H. rewrite H1 in H.
        subst m'. exact H1.
      * intros [p1 [i' [p2 [H1 [H2 H3]]]]]. destruct p1 as [ | j p1].
        -- inversion H1; subst. unfold eff_mode. rewrite H3. reflexivity.
        -- inversion H1; subst. rewrite (H2 j (or_introl eq_refl)) in E. discriminate.
    + rewrite IH. split.
      * intros [p1 [i' [p2 [H1 [H2 H3]]]]]. exists (i :: p1), i', p2. split; [rewrite H1; reflexivity | ].
        split; [ | exact H3]. intros j [Hj | Hj]; [subst j; exact E | apply H2; exact Hj].
      * intros [p1 [i' [p2 [H1 [H2 H3]]]]]. destruct p1 as [ | j p1].
        -- inversion H1; subst. unfold mode_specific in E. rewrite H3 in E. destruct m; try discriminate. contradiction.
        -- inversion H1; subst. exists p1, i', p2. split; [reflexivity | ]. split; [ | exact H3].
           intros k Hk. apply H2. right; exact Hk.
Qed.

(* closed form, the model's definition read as "first mode-specific instruction" *)
Theorem detect_mode_find : forall p,
  detect_mode p = match find (fun i => mode_specific (i_op i)) p with
                  | Some i => eff_mode (i_op i) | None => MAny end.
Proof.
  induction p as [ | i p IH]; [reflexivity | ].
  rewrite detect_mode_cons. cbn [find]. destruct (mode_specific (i_op i)); [reflexivity | exact IH].
Qed.

Corollary detect_mode_uses : forall p m, m <> MAny -> detect_mode p = m ->
  exists i, In i p /\ ins_mode (i_op i) = Some m.
Proof.
  intros p m Hm H. apply (detect_mode_first_iff p m Hm) in H. destruct H as [p1 [i [p2 [H1 [_ H3]]]]].
  exists i. split; [ | exact H3]. rewrite H1. apply in_or_app. right. left. reflexivity.
Qed.

(* for a program that is not flagged as mixed: classified m exactly when it uses an m-only instruction *)
Theorem detect_mode_unmixed_iff : forall p v m, snd (verify_version p v) = false -> m <> MAny ->
  (detect_mode p = m <-> exists i, In i p /\ ins_mode (i_op i) = Some m).
Proof.
  intros p v m Hmix Hm. split; [apply detect_mode_uses; exact Hm | ].
  intros [i [Hi Hmode]].
  destruct (detect_mode p) eqn:D.
  - destruct m; try reflexivity; [ | contradiction].
    exfalso. destruct (detect_mode_uses p MStateless ltac:(discriminate) D) as [j [Hj Hjm]].
    assert (X : snd (verify_version p v) = true).
    { apply verify_version_mixed_iff. split; [exists i | exists j]; split; assumption. }
    rewrite X in Hmix. discriminate.
  - destruct m; try reflexivity; [ | contradiction].
    exfalso. destruct (detect_mode_uses p MStateful ltac:(discriminate) D) as [j [Hj Hjm]].
    assert (X : snd (verify_version p v) = true).
    { apply verify_version_mixed_iff. split; [exists j | exists i]; split; assumption. }
    rewrite X in Hmix. discriminate.
  - exfalso. pose proof (proj1 (detect_mode_any_iff p) D i Hi) as X.
    unfold mode_specific in X. rewrite Hmode in X. destruct m; try discriminate. contradiction.
Qed.

(* without the "unmixed" premise the statement is false: arg 0 ; app_global_get is Stateless *)
Theorem detect_mode_uses_naive_refuted :
  exists p, (exists i, In i p /\ ins_mode (i_op i) = Some MStateful) /\ detect_mode p = MStateless /\
            forall v, snd (verify_version p v) = true.
Proof.
  exists [mkIns 1 (IOther "Arg" [PInt 0%N]); mkIns 2 (IOther "AppGlobalGet" [])].
  split; [ | split].
  - eexists. split; [right; left; reflexivity | vm_compute; reflexivity].
  - vm_compute. reflexivity.
  - intro v. vm_compute. reflexivity.
Qed.

(* ---- on the parsed contract, and the contract type derived from the mode *)
Definition contract_type_of (t : teal) : string :=
  match t_mode t with MStateful => "ApprovalProgram" | _ => "LogicSig" end.
Definition field_value (k : string) (l : list (string * string)) : option string :=
  option_map snd (find (fun kv => fst kv =? k) l).

(* the model's exported record: "contract_type" is exactly this function of t_mode (Teal.__init__) *)
Lemma teal_fields_contract_type : forall t,
  field_value "contract_type" (teal_fields t) = Some (jstr (contract_type_of t)).
Proof. intro t. reflexivity. Qed.
Lemma teal_fields_mode : forall t,
  field_value "mode" (teal_fields t) = Some (jstr (mode_str (t_mode t))).
Proof. intro t. reflexivity. Qed.

Theorem application_iff_stateful : forall t,
  (contract_type_of t = "ApprovalProgram" <-> t_mode t = MStateful) /\
  (contract_type_of t = "LogicSig" <-> t_mode t <> MStateful).
Proof.
  intro t. unfold contract_type_of. destruct (t_mode t); repeat split; intro H;
    try reflexivity; try discriminate; try (exfalso; apply H; reflexivity).
Qed.

Theorem C19_mode_classification : forall p t, parse_teal p = Ok t ->
  (t_mode t = MAny <-> forall i, In i p -> mode_specific (i_op i) = false) /\
  (forall m, m <> MAny ->
     (t_mode t = m <->
      exists p1 i p2, p = p1 ++ i :: p2 /\ (forall j, In j p1 -> mode_specific (i_op j) = false) /\
                      ins_mode (i_op i) = Some m)) /\
  (snd (verify_version (t_prog t) (t_version t)) = false ->
     forall m, m <> MAny -> (t_mode t = m <-> exists i, In i p /\ ins_mode (i_op i) = Some m)) /\
  (contract_type_of t = "ApprovalProgram" <->
     exists p1 i p2, p = p1 ++ i :: p2 /\ (forall j, In j p1 -> mode_specific (i_op j) = false) /\
                     ins_mode (i_op i) = Some MStateful).
Proof.
  intros p t H. destruct (parse_teal_version_mode p t H) as [Hv [Hm Hp]]. rewrite Hm, Hp.
  split; [apply detect_mode_any_iff | ].
  split; [intros m Hne; apply detect_mode_first_iff; exact Hne | ].
  split; [intros Hmix m Hne; apply (detect_mode_unmixed_iff p (t_version t)); assumption | ].
  rewrite (proj1 (application_iff_stateful t)), Hm. apply detect_mode_first_iff. discriminate.
Qed.

(* a contract with no mode-specific instruction is analysed as a logic signature *)
Corollary any_mode_is_logicsig : forall t, t_mode t = MAny -> contract_type_of t = "LogicSig".
Proof. intros t H. unfold contract_type_of. rewrite H. reflexivity. Qed.

(* ================================================================== 3. block cost *)
Definition cost_at (t : teal) (k : nat) : N :=
  match op_at (t_prog t) k with
  | Some i => match ins_cost (t_version t) i with Some c => c | None => 0%N end
  | None => 0%N
  end.

Lemma block_cost_acc : forall t l acc,
  fold_left (fun acc k => match op_at (t_prog t) k with
                          | Some i => match ins_cost (t_version t) i with Some c => (acc + c)%N | None => acc end
                          | None => acc end) l acc
  = (acc + Nsum (map (cost_at t) l))%N.
Proof.
  intros t l. induction l as [ | k l IH]; intro acc.
  - cbn [fold_left map Nsum fold_right]. lia.
  - cbn [fold_left map Nsum fold_right]. rewrite IH. fold (Nsum (map (cost_at t) l)). unfold cost_at at 2.
    destruct (op_at (t_prog t) k) as [i | ]; [ | lia].
    destruct (ins_cost (t_version t) i) as [c | ]; lia.
Qed.

(* BasicBlock.cost = sum(ins.cost for ins in self.instructions), at the declared version *)
Theorem block_cost_sum : forall t b, block_cost t b = Nsum (map (cost_at t) (b_ins b)).
Proof. intros t b. unfold block_cost. rewrite block_cost_acc. lia. Qed.

(* when every position is an instruction with a known class: the plain sum of ins_cost *)
Corollary block_cost_sum_ins : forall t b is cs,
  map_opt (op_at (t_prog t)) (b_ins b) = Some is ->
  map_opt (ins_cost (t_version t)) is = Some cs ->
  block_cost t b = Nsum cs.
Proof.
  intros t b is cs. rewrite block_cost_sum. generalize (b_ins b). intro l. revert is cs.
  induction l as [ | k l IH]; intros is cs H1 H2.
  - inversion H1; subst. inversion H2; subst. reflexivity.
  - cbn [map_opt] in H1. destruct (op_at (t_prog t) k) as [i | ] eqn:E; [ | discriminate].
    destruct (map_opt (op_at (t_prog t)) l) as [is' | ] eqn:M1; [ | discriminate]. inversion H1; subst is; clear H1.
    cbn [map_opt] in H2. destruct (ins_cost (t_version t) i) as [c | ] eqn:F; [ | discriminate].
    destruct (map_opt (ins_cost (t_version t)) is') as [cs' | ] eqn:M2; [ | discriminate]. inversion H2; subst cs; clear H2.
    cbn [map Nsum fold_right]. fold (Nsum (map (cost_at t) l)). fold (Nsum cs').
    rewrite (IH is' cs' eq_refl M2). unfold cost_at. rewrite E, F. reflexivity.
Qed.

(* ================================================================== 4. against the AVM tables *)

(* the AVM opcode (spec entry) of an instruction: through its class's mnemonic, as in TableLemmas *)
Definition ins_spec (i : instr) : option avm_op :=
  match lookup_class (cls_of i) with Some ci => spec_of ci | None => None end.

Lemma pseudo_classes_check :
  forallb (fun ci => negb (mem (c_name ci) pseudo_classes) ||
                     (match spec_of ci with None => true | Some _ => false end &&
                      N.eqb (c_version ci) 1 && xmode_eqb (c_mode ci) MAny)) classes = true.
Proof. vm_compute. reflexivity. Qed.

Lemma pseudo_class_data : forall ci, In ci classes -> mem (c_name ci) pseudo_classes = true ->
  spec_of ci = None /\ c_version ci = 1%N /\ c_mode ci = MAny.
Proof.
  intros ci Hin Hp. pose proof pseudo_classes_check as H. rewrite forallb_forall in H.
  specialize (H ci Hin). rewrite Hp in H. cbn [negb orb] in H.
  apply andb_true_iff in H. destruct H as [H H3]. apply andb_true_iff in H. destruct H as [H1 H2].
  split; [destruct (spec_of ci); [discriminate | reflexivity] | ].
  split; [apply N.eqb_eq; exact H2 | apply xmode_eqb_eq; exact H3].
Qed.

Lemma opcode_classes_iff : forall ci, In ci opcode_classes <-> In ci classes /\ mem (c_name ci) pseudo_classes = false.
Proof.
  intro ci. unfold opcode_classes. rewrite filter_In. split; intros [H1 H2]; split; try exact H1.
  - destruct (mem (c_name ci) pseudo_classes); [discriminate | reflexivity].
  - rewrite H2. reflexivity.
Qed.

Lemma ins_spec_class : forall i o, ins_spec i = Some o ->
  exists ci, lookup_class (cls_of i) = Some ci /\ c_name ci = cls_of i /\ In ci opcode_classes /\ spec_of ci = Some o.
Proof.
  intros i o H. unfold ins_spec in H. destruct (lookup_class (cls_of i)) as [ci | ] eqn:E; [ | discriminate].
  destruct (lookup_class_in_sound _ _ _ E) as [Hin Hn]. exists ci.
  split; [reflexivity | ]. split; [exact Hn | ]. split; [ | exact H].
  apply opcode_classes_iff. split; [exact Hin | ].
  destruct (mem (c_name ci) pseudo_classes) eqn:P; [ | reflexivity].
  destruct (pseudo_class_data ci Hin P) as [X _]. rewrite X in H. discriminate.
Qed.

(* ---- introduction versions *)
Theorem ins_version_avm_partial : forall i o, ins_spec i = Some o -> ~ In (cls_of i) version_mismatch_names ->
  ins_version i = Some (a_version o).
Proof.
  intros i o H Hn. destruct (ins_spec_class i o H) as [ci [Hl [Hname [Hin Hs]]]].
  rewrite <- Hname in Hn. destruct (C19_versions_match_partial ci Hin Hn) as [o' [Ho' Hv]].
  rewrite Hs in Ho'. inversion Ho'; subst o'. unfold ins_version. rewrite Hl. cbn [option_map]. rewrite Hv. reflexivity.
Qed.

(* property C19, first sentence, one instruction: flagged iff its AVM introduction version exceeds the
   declared version -- for every instruction of the spec table except the exclusion list (Method) *)
Theorem C19_ins_flag_iff_avm_version_partial : forall v i o,
  ins_spec i = Some o -> ~ In (cls_of i) version_mismatch_names ->
  (verify_ins v i = Some FlagIns <-> (v < a_version o)%N).
Proof.
  intros v i o H Hn. rewrite verify_ins_FlagIns_iff, (ins_version_avm_partial i o H Hn). split.
  - intros [iv [H1 H2]]. inversion H1; subst. exact H2.
  - intro H2. exists (a_version o). split; [reflexivity | exact H2].
Qed.

Theorem C19_flag_iff_avm_version_partial : forall p v ln,
  (forall i, In i p -> i_line i = ln ->
     ins_spec (i_op i) <> None /\ ~ In (cls_of (i_op i)) version_mismatch_names) ->
  (In (ln, FlagIns) (fst (verify_version p v)) <->
   exists i o, In i p /\ i_line i = ln /\ ins_spec (i_op i) = Some o /\ (v < a_version o)%N).
Proof.
  intros p v ln Hk. rewrite verify_version_In. split.
  - intros [i [Hi [Hl H]]]. destruct (Hk i Hi Hl) as [Hs Hn].
    destruct (ins_spec (i_op i)) as [o | ] eqn:E; [ | contradiction].
    exists i, o. repeat split; try assumption.
    apply (C19_ins_flag_iff_avm_version_partial v (i_op i) o E Hn). exact H.
  - intros [i [o [Hi [Hl [Hs Hlt]]]]]. destruct (Hk i Hi Hl) as [_ Hn].
    exists i. split; [exact Hi | ]. split; [exact Hl | ].
    apply (C19_ins_flag_iff_avm_version_partial v (i_op i) o Hs Hn). exact Hlt.
Qed.

(* whole flag list, in order, for any declared version >= 1 and any program not using a class of the
   exclusion list: pseudo-instructions (labels, pragma, unparsable lines) are never flagged and have no
   AVM entry; instructions of an unknown class are not flagged either *)
Definition avm_unsupported_ins (v : N) (i : instr) : bool :=
  match ins_spec i with Some o => N.ltb v (a_version o) | None => false end.

Lemma unsupported_ins_avm_partial : forall v i, (1 <= v)%N -> ~ In (cls_of i) version_mismatch_names ->
  unsupported_ins v i = avm_unsupported_ins v i.
Proof.
  intros v i Hv Hn. unfold avm_unsupported_ins. destruct (ins_spec i) as [o | ] eqn:E.
  - unfold unsupported_ins. rewrite (ins_version_avm_partial i o E Hn). reflexivity.
  - unfold unsupported_ins, ins_version. unfold ins_spec in E.
    destruct (lookup_class (cls_of i)) as [ci | ] eqn:L; [ | reflexivity].
    destruct (lookup_class_in_sound _ _ _ L) as [Hin Hname]. cbn [option_map].
    destruct (mem (c_name ci) pseudo_classes) eqn:P.
    + destruct (pseudo_class_data ci Hin P) as [_ [X _]]. rewrite X. apply N.ltb_ge. exact Hv.
    + exfalso. assert (Hop : In ci opcode_classes) by (apply opcode_classes_iff; split; assumption).
      rewrite <- Hname in Hn. destruct (C19_versions_match_partial ci Hop Hn) as [o [Ho _]].
      rewrite Ho in E. discriminate.
Qed.

Theorem C19_ins_flags_avm_in_order_partial : forall p v, (1 <= v)%N ->
  (forall i, In i p -> ~ In (cls_of (i_op i)) version_mismatch_names) ->
  map fst (filter is_FlagIns (fst (verify_version p v))) =
  map i_line (filter (fun i => avm_unsupported_ins v (i_op i)) p).
Proof.
  intros p v Hv Hn. rewrite verify_version_ins_flags_in_order. f_equal.
  apply filter_ext_in. intros i Hi. apply unsupported_ins_avm_partial; [exact Hv | apply Hn; exact Hi].
Qed.

(* the excluded class: method "..." is flagged below version 6 although its spec entry says 1 *)
Theorem C19_flag_iff_avm_version_refuted :
  exists v i o, ins_spec i = Some o /\ verify_ins v i = Some FlagIns /\ (a_version o <= v)%N /\
                In (cls_of i) version_mismatch_names.
Proof.
  exists 5%N, (IOther "Method" [PStr """foo()void"""]). eexists.
  split; [vm_compute; reflexivity | ]. split; [vm_compute; reflexivity | ].
  split; [vm_compute; discriminate | left; reflexivity].
Qed.

(* ---- fields *)
(* ins_field is this skeleton instantiated with the generated tables ... *)
Definition field_lookup (tx gl ah ap app acct : string -> option N) (i : instr) : option (string * N) :=
  let txf (f : field) := option_map (fun v => ("TransactionField", v)) (tx (fst f)) in
  match i with
  | ITxn f | IGtxn _ f | IGtxns f => txf f
  | IGlobal g => option_map (fun v => ("GlobalField", v)) (gl g)
  | IOther c ps =>
      let fld := match ps with [PField f] => Some f | [PInt _; PField f] => Some f | _ => None end in
      match fld with
      | None => None
      | Some f =>
          if c =? "AssetHoldingGet" then option_map (fun v => ("AssetHoldingField", v)) (ah (fst f))
          else if c =? "AssetParamsGet" then option_map (fun v => ("AssetParamsField", v)) (ap (fst f))
          else if c =? "AppParamsGet" then option_map (fun v => ("AppParamsField", v)) (app (fst f))
          else if c =? "AcctParamsGet" then option_map (fun v => ("AcctParamsField", v)) (acct (fst f))
          else txf f
      end
  | _ => None
  end.

Definition gen_txn_field_version (c : string) : option N :=
  match assoc_cls c tx_fields with Some v => Some v | None => assoc_cls c tx_array_fields end.

Lemma ins_field_skeleton : forall i,
  ins_field i = field_lookup gen_txn_field_version
                             (fun c => assoc_cls c global_fields) (fun c => assoc_cls c asset_holding_fields)
                             (fun c => assoc_cls c asset_params_fields) (fun c => assoc_cls c app_params_fields)
                             (fun c => assoc_cls c acct_params_fields) i.
Proof.
  intro i. unfold ins_field, field_lookup, gen_txn_field_version. cbv zeta.
  destruct i; try reflexivity;
    try (match goal with |- context [assoc_cls (fst ?f) tx_fields] => destruct (assoc_cls (fst f) tx_fields) end; reflexivity).
  match goal with |- match ?x with _ => _ end = match ?y with _ => _ end => change y with x; destruct x as [f | ] end;
    [ | reflexivity].
  repeat match goal with |- context [if ?b then _ else _] => destruct b; [reflexivity | ] end.
  destruct (assoc_cls (fst f) tx_fields); reflexivity.
Qed.

(* ... and the AVM field of an instruction is the same skeleton instantiated with the AVM field tables *)
Definition avm_field (i : instr) : option (string * N) :=
  field_lookup (lookup_field avm_txn_fields) (lookup_field avm_global_fields)
               (lookup_field avm_asset_holding_fields) (lookup_field avm_asset_params_fields)
               (lookup_field avm_app_params_fields) (lookup_field avm_acct_params_fields) i.
Definition avm_field_version (i : instr) : option N := option_map snd (avm_field i).

Lemma field_lookup_mono : forall tx gl ah ap app acct tx' gl' ah' ap' app' acct' (R : N -> N -> Prop),
  (forall c v, tx c = Some v -> exists w, tx' c = Some w /\ R v w) ->
  (forall c v, gl c = Some v -> exists w, gl' c = Some w /\ R v w) ->
  (forall c v, ah c = Some v -> exists w, ah' c = Some w /\ R v w) ->
  (forall c v, ap c = Some v -> exists w, ap' c = Some w /\ R v w) ->
  (forall c v, app c = Some v -> exists w, app' c = Some w /\ R v w) ->
  (forall c v, acct c = Some v -> exists w, acct' c = Some w /\ R v w) ->
  forall i k v, field_lookup tx gl ah ap app acct i = Some (k, v) ->
  exists w, field_lookup tx' gl' ah' ap' app' acct' i = Some (k, w) /\ R v w.
Proof.
  intros tx gl ah ap app acct tx' gl' ah' ap' app' acct' R H1 H2 H3 H4 H5 H6 i k v H.
  assert (G : forall (g g' : string -> option N) (kind : string) (c : string),
            (forall c v, g c = Some v -> exists w, g' c = Some w /\ R v w) ->
            option_map (fun v => (kind, v)) (g c) = Some (k, v) ->
            exists w, option_map (fun v => (kind, v)) (g' c) = Some (k, w) /\ R v w).
  { intros g g' kind c Hg Hm. destruct (g c) as [x | ] eqn:E; [ | discriminate].
    cbn [option_map] in Hm. inversion Hm; subst. destruct (Hg c v E) as [w [Hw Hr]].
    exists w. rewrite Hw. split; [reflexivity | exact Hr]. }
  unfold field_lookup in *. cbv zeta in *.
  destruct i; try discriminate; try (eapply G; eassumption).
  match type of H with match ?x with _ => _ end = _ => destruct x as [f | ] end; [ | discriminate].
  repeat match type of H with (if ?b then _ else _) = _ => destruct b; [eapply G; eassumption | ] end.
  eapply G; eassumption.
Qed.

(* soundness, through TableLemmas.C19_field_versions_match: a field known on both sides has the same version *)
Lemma field_tables_text_is_class : forall n g s, In (n, g, s) field_tables ->
  forall t c v, In (t, (c, v)) g -> t = c.
Proof.
  intros n g s Hin t c v Hf. pose proof field_text_is_class_name as H. rewrite forallb_forall in H.
  specialize (H _ Hin). cbn beta iota in H. rewrite forallb_forall in H. specialize (H _ Hf).
  cbn [fst snd] in H. apply String.eqb_eq. exact H.
Qed.

Lemma gen_field_sound : forall n g s, In (n, g, s) field_tables ->
  forall c v sv, assoc_cls c g = Some v -> lookup_field s c = Some sv -> v = sv.
Proof.
  intros n g s Hin c v sv Hg Hs. destruct (assoc_cls_In g c v Hg) as [t Ht].
  pose proof (field_tables_text_is_class n g s Hin t c v Ht) as X. subst t.
  exact (C19_field_versions_match n g s Hin c c v sv Ht Hs).
Qed.

Lemma assoc_cls_app : forall c g1 g2,
  assoc_cls c (g1 ++ g2) = match assoc_cls c g1 with Some v => Some v | None => assoc_cls c g2 end.
Proof.
  intros c g1 g2. induction g1 as [ | [t [c' v]] g1 IH]; [reflexivity | ].
  cbn [app assoc_cls]. destruct (c' =? c); [reflexivity | exact IH].
Qed.

Lemma field_lookup_agree : forall tx gl ah ap app acct tx' gl' ah' ap' app' acct',
  (forall c v w, tx c = Some v -> tx' c = Some w -> v = w) ->
  (forall c v w, gl c = Some v -> gl' c = Some w -> v = w) ->
  (forall c v w, ah c = Some v -> ah' c = Some w -> v = w) ->
  (forall c v w, ap c = Some v -> ap' c = Some w -> v = w) ->
  (forall c v w, app c = Some v -> app' c = Some w -> v = w) ->
  (forall c v w, acct c = Some v -> acct' c = Some w -> v = w) ->
  forall i k v k' w, field_lookup tx gl ah ap app acct i = Some (k, v) ->
                     field_lookup tx' gl' ah' ap' app' acct' i = Some (k', w) -> v = w.
Proof.
  intros tx gl ah ap app acct tx' gl' ah' ap' app' acct' H1 H2 H3 H4 H5 H6 i k v k' w Hf Hs.
  assert (G : forall (g s : string -> option N) (kind : string) (c : string),
            (forall c v w, g c = Some v -> s c = Some w -> v = w) ->
            option_map (fun x => (kind, x)) (g c) = Some (k, v) ->
            option_map (fun x => (kind, x)) (s c) = Some (k', w) -> v = w).
  { intros g s kind c Hgs X1 X2. destruct (g c) as [x | ] eqn:E1; [ | discriminate].
    destruct (s c) as [y | ] eqn:E2; [ | discriminate]. cbn [option_map] in X1, X2.
    inversion X1; subst. inversion X2; subst. exact (Hgs c v w E1 E2). }
  unfold field_lookup in Hf, Hs. cbv zeta in Hf, Hs.
  destruct i; try discriminate; try (eapply G; [ | exact Hf | exact Hs]; assumption).
  match type of Hf with match ?x with _ => _ end = _ => destruct x as [f | ] end; [ | discriminate].
  repeat match type of Hf with (if ?b then _ else _) = _ =>
           destruct b; [eapply G; [ | exact Hf | exact Hs]; assumption | ] end.
  eapply G; [ | exact Hf | exact Hs]; assumption.
Qed.

Theorem C19_ins_field_version_sound : forall i k fv k' sv,
  ins_field i = Some (k, fv) -> avm_field i = Some (k', sv) -> fv = sv.
Proof.
  intros i k fv k' sv Hf Hs. rewrite ins_field_skeleton in Hf. unfold avm_field in Hs.
  refine (field_lookup_agree _ _ _ _ _ _ _ _ _ _ _ _ _ _ _ _ _ _ i k fv k' sv Hf Hs).
  - intros c v w Hg Hw.
    apply (gen_field_sound "txn" (tx_fields ++ tx_array_fields) avm_txn_fields (or_introl eq_refl) c v w); [ | exact Hw].
    rewrite assoc_cls_app. exact Hg.
  - apply (gen_field_sound "global"). do 2 right. left. reflexivity.
  - apply (gen_field_sound "asset_holding"). do 3 right. left. reflexivity.
  - apply (gen_field_sound "asset_params"). do 4 right. left. reflexivity.
  - apply (gen_field_sound "app_params"). do 5 right. left. reflexivity.
  - apply (gen_field_sound "acct_params"). do 6 right. left. reflexivity.
Qed.

(* completeness, by computation on the six table pairs: every AVM field is found by the model's lookup
   with the AVM version *)
Definition covers (g : string -> option N) (s : list (string * N)) : bool :=
  forallb (fun e => match g (fst e) with Some v => N.eqb v (snd e) | None => false end) s.
Lemma covers_sound : forall g s, covers g s = true ->
  forall c v, lookup_field s c = Some v -> exists w, g c = Some w /\ v = w.
Proof.
  intros g s H c v Hl. apply lookup_field_In in Hl. unfold covers in H. rewrite forallb_forall in H.
  specialize (H _ Hl). cbn [fst snd] in H. destruct (g c) as [w | ]; [ | discriminate].
  apply N.eqb_eq in H. exists w. split; [reflexivity | symmetry; exact H].
Qed.
Lemma field_tables_cover :
  covers gen_txn_field_version avm_txn_fields = true /\
  covers (fun c => assoc_cls c global_fields) avm_global_fields = true /\
  covers (fun c => assoc_cls c asset_holding_fields) avm_asset_holding_fields = true /\
  covers (fun c => assoc_cls c asset_params_fields) avm_asset_params_fields = true /\
  covers (fun c => assoc_cls c app_params_fields) avm_app_params_fields = true /\
  covers (fun c => assoc_cls c acct_params_fields) avm_acct_params_fields = true.
Proof. repeat split; vm_compute; reflexivity. Qed.

Theorem C19_ins_field_version_complete : forall i k sv,
  avm_field i = Some (k, sv) -> ins_field i = Some (k, sv).
Proof.
  intros i k sv H. rewrite ins_field_skeleton.
  destruct field_tables_cover as [C1 [C2 [C3 [C4 [C5 C6]]]]].
  destruct (field_lookup_mono _ _ _ _ _ _ _ _ _ _ _ _ (fun v w => v = w)
              (covers_sound _ _ C1) (covers_sound _ _ C2) (covers_sound _ _ C3) (covers_sound _ _ C4)
              (covers_sound _ _ C5) (covers_sound _ _ C6) i k sv H) as [w [Hw Heq]].
  subst w. exact Hw.
Qed.

(* property C19, first sentence, fields: for an instruction of the spec table (not Method) whose field
   the AVM knows, the field flag is produced iff the instruction exists in the declared version and the
   field's AVM introduction version exceeds it *)
Theorem C19_field_flag_iff_avm_version_partial : forall v i o k sv,
  ins_spec i = Some o -> ~ In (cls_of i) version_mismatch_names -> avm_field i = Some (k, sv) ->
  (verify_ins v i = Some FlagField <-> (a_version o <= v)%N /\ (v < sv)%N).
Proof.
  intros v i o k sv Hs Hn Hf. rewrite verify_ins_FlagField_iff.
  rewrite (ins_version_avm_partial i o Hs Hn), (C19_ins_field_version_complete i k sv Hf). split.
  - intros [iv [k' [fv [H1 [H2 [H3 H4]]]]]]. inversion H1; subst. inversion H3; subst. split; assumption.
  - intros [H1 H2]. exists (a_version o), k, sv. repeat split; assumption.
Qed.

(* a field the analyzer knows but the AVM does not (the bogus "AppParamsField" table entry) *)
Theorem ins_field_without_avm_field :
  exists i k fv, ins_field i = Some (k, fv) /\ avm_field i = None.
Proof.
  exists (IOther "AppParamsGet" [PField ("AppParamsField", None)]). eexists. eexists.
  split; vm_compute; reflexivity.
Qed.

(* ---- modes *)
Theorem ins_mode_avm : forall i o, ins_spec i = Some o -> ins_mode i = Some (a_mode o).
Proof.
  intros i o H. destruct (ins_spec_class i o H) as [ci [Hl [_ [Hin Hs]]]].
  destruct (C19_modes_match ci Hin) as [o' [Ho' Hm]]. rewrite Hs in Ho'. inversion Ho'; subst o'.
  unfold ins_mode. rewrite Hl. cbn [option_map]. rewrite Hm. reflexivity.
Qed.

Definition avm_mode_of (i : instr) : xmode := match ins_spec i with Some o => a_mode o | None => MAny end.

Lemma eff_mode_avm : forall i, eff_mode i = avm_mode_of i.
Proof.
  intro i. unfold avm_mode_of. destruct (ins_spec i) as [o | ] eqn:E.
  - unfold eff_mode. rewrite (ins_mode_avm i o E). reflexivity.
  - unfold eff_mode, ins_mode. unfold ins_spec in E.
    destruct (lookup_class (cls_of i)) as [ci | ] eqn:L; [ | reflexivity].
    destruct (lookup_class_in_sound _ _ _ L) as [Hin _]. cbn [option_map].
    destruct (mem (c_name ci) pseudo_classes) eqn:P.
    + destruct (pseudo_class_data ci Hin P) as [_ [_ X]]. exact X.
    + exfalso. assert (Hop : In ci opcode_classes) by (apply opcode_classes_iff; split; assumption).
      destruct (C19_modes_match ci Hop) as [o [Ho _]]. rewrite Ho in E. discriminate.
Qed.

Lemma mode_specific_avm : forall i, mode_specific i = negb (xmode_eqb (avm_mode_of i) MAny).
Proof.
  intro i. rewrite <- eff_mode_avm. unfold mode_specific, eff_mode.
  destruct (ins_mode i) as [[ | | ] | ]; reflexivity.
Qed.

(* the classification in AVM terms: the (v8) AVM mode of the first instruction whose AVM mode is not Any *)
Theorem C19_detect_mode_avm : forall p,
  detect_mode p = match find (fun i => negb (xmode_eqb (avm_mode_of (i_op i)) MAny)) p with
                  | Some i => avm_mode_of (i_op i) | None => MAny end.
Proof.
  intro p. rewrite detect_mode_find. induction p as [ | i p IH]; [reflexivity | ].
  cbn [find]. rewrite <- mode_specific_avm. destruct (mode_specific (i_op i)); [apply eff_mode_avm | exact IH].
Qed.

(* the version-dependent AVM mode is not modelled by the tool: ed25519verify (LogicSig-only up to v4)
   together with an application-only opcode in a v4 program: classified Stateful, not flagged as mixed *)
Theorem C19_mode_versioned_refuted :
  exists p t, parse_teal p = Ok t /\ t_version t = 4%N /\ t_mode t = MStateful /\
              verify_version (t_prog t) (t_version t) = ([], false) /\
              exists i o, In i p /\ ins_spec (i_op i) = Some o /\ avm_mode_at o (t_version t) = MStateless.
Proof.
  exists [mkIns 1 (IPragma 4); mkIns 2 (IOther "Ed25519verify" []); mkIns 3 (IOther "AppGlobalGet" []); mkIns 4 IReturn].
  eexists. split; [vm_compute; reflexivity | ].
  split; [reflexivity | ]. split; [reflexivity | ]. split; [vm_compute; reflexivity | ].
  eexists; eexists. split; [right; left; reflexivity | ]. split; vm_compute; reflexivity.
Qed.

(* ---- costs *)
Lemma cost_mismatch_names_empty : forall v, cost_mismatch_names v = [].
Proof. intro v. unfold cost_mismatch_names. destruct (N.leb 7 v); reflexivity. Qed.

(* assembler directives: not opcodes, no cost *)
Definition is_directive (i : instr) : bool := match i with IPragma _ | ILabel _ => true | _ => false end.

(* the AVM cost of an instruction in a version-v program; None when the specification gives none
   (unknown opcode, opcode or curve not existing in version v, unparsable line) *)
Definition avm_ins_cost (v : N) (i : instr) : option N :=
  if is_directive i then Some 0%N
  else match ins_spec i with
       | Some o =>
           if N.ltb v (a_version o) then None
           else if is_curve_op o then
                  match params_of i with
                  | PStr c :: _ => if mem c (curves_at v) then Some (avm_cost_curve o c v) else None
                  | _ => None
                  end
                else Some (a_cost o v)
       | None => None
       end.

Theorem C19_ins_cost_avm : forall v i c, In v prog_versions -> avm_ins_cost v i = Some c -> ins_cost v i = Some c.
Proof.
  intros v i c Hv H. unfold avm_ins_cost in H. destruct (is_directive i) eqn:D.
  - inversion H; subst c. destruct i; try discriminate; vm_compute; reflexivity.
  - destruct (ins_spec i) as [o | ] eqn:E; [ | discriminate].
    destruct (ins_spec_class i o E) as [ci [Hl [Hname [Hin Hs]]]].
    assert (Hn : ~ In (c_name ci) (cost_mismatch_names v)) by (rewrite cost_mismatch_names_empty; intros []).
    destruct (C19_costs_match_partial ci v Hin Hv Hn) as [o' [Ho' Hc]]. rewrite Hs in Ho'. inversion Ho'; subst o'.
    destruct (N.ltb v (a_version o)) eqn:Lt; [discriminate | ]. apply N.ltb_ge in Lt.
    destruct (Hc Lt) as [Hplain Hcurve].
    assert (Hcost : ins_cost v i = Some (gen_cost ci (params_of i) v)).
    { unfold ins_cost. rewrite Hl. reflexivity. }
    rewrite Hcost. f_equal. destruct (is_curve_op o) eqn:Cu.
    + destruct (params_of i) as [ | [ | | s | | | | | ] ps] eqn:P; try discriminate.
      destruct (mem s (curves_at v)) eqn:M; [ | discriminate]. inversion H; subst c.
      apply (Hcurve eq_refl s); [apply mem_In; exact M | reflexivity].
    + inversion H; subst c. apply (Hplain eq_refl).
Qed.

Definition avm_cost_at (t : teal) (k : nat) : option N :=
  match op_at (t_prog t) k with Some i => avm_ins_cost (t_version t) i | None => None end.

(* property C19, last sentence: for a declared version 1..8, the cost of every block all of whose
   instructions have an AVM cost in that version is the sum of these AVM costs *)
Theorem C19_block_cost_avm : forall t b cs, In (t_version t) prog_versions ->
  map_opt (avm_cost_at t) (b_ins b) = Some cs -> block_cost t b = Nsum cs.
Proof.
  intros t b cs Hv. rewrite block_cost_sum. generalize (b_ins b). intro l. revert cs.
  induction l as [ | k l IH]; intros cs H.
  - inversion H; subst. reflexivity.
  - cbn [map_opt] in H. destruct (avm_cost_at t k) as [c | ] eqn:E; [ | discriminate].
    destruct (map_opt (avm_cost_at t) l) as [cs' | ] eqn:M; [ | discriminate]. inversion H; subst cs; clear H.
    cbn [map Nsum fold_right]. fold (Nsum (map (cost_at t) l)). fold (Nsum cs').
    rewrite (IH cs' eq_refl). f_equal.
    unfold avm_cost_at in E. unfold cost_at. destruct (op_at (t_prog t) k) as [i | ]; [ | discriminate].
    rewrite (C19_ins_cost_avm _ i c Hv E). reflexivity.
Qed.

(* what is outside the theorem: an unparsable line is an instruction of cost 1 for the tool *)
Theorem unsupported_instruction_cost :
  forall v s, ins_cost v (IOther "UnsupportedInstruction" [PStr s]) = Some 1%N /\
              avm_ins_cost v (IOther "UnsupportedInstruction" [PStr s]) = None.
Proof. intros v s. split; vm_compute; reflexivity. Qed.

(* ================================================================== 5. examples *)
Definition nl : string := String "010"%char "".
Definition ex_src : string :=
  "#pragma version 2" ++ nl ++ "int 1" ++ nl ++ "pushint 2" ++ nl ++ "global OpcodeBudget" ++ nl ++ "return" ++ nl.
Definition ex_prog : prog :=
  [mkIns 1 (IPragma 2); mkIns 2 (IInt (IANum 1)); mkIns 3 (IPushInt (IANum 2));
   mkIns 4 (IGlobal "OpcodeBudget"); mkIns 5 IReturn].

Example ex_parse : parse_program ex_src = Ok ex_prog.
Proof. vm_compute. reflexivity. Qed.

Example ex_teal :
  match parse_teal ex_prog with
  | Ok t => (t_version t, t_mode t, contract_type_of t, verify_version (t_prog t) (t_version t),
             map (fun b => (b_idx b, b_ins b, block_cost t b)) (t_blocks t))
            = (2%N, MAny, "LogicSig", ([(3%nat, FlagIns); (4%nat, FlagField)], false), [(0%nat, [0; 1; 2; 3; 4]%nat, 4%N)])
  | Err _ => False
  end.
Proof. vm_compute. reflexivity. Qed.

(* the same through the AVM tables: pushint is v3, OpcodeBudget is v6; costs 0+1+1+1+1 *)
Example ex_avm :
  map (fun i => (avm_unsupported_ins 2 (i_op i), avm_field_version (i_op i), avm_ins_cost 2 (i_op i))) ex_prog
  = [(false, None, Some 0%N); (false, None, Some 1%N); (true, None, None);
     (false, Some 6%N, Some 1%N); (false, None, Some 1%N)].
Proof. vm_compute. reflexivity. Qed.

(* version-dependent cost: sha256 is 7 in v1 and 35 from v2; a mixed program; a Stateful program *)
Definition ex_prog2 (v : N) : prog :=
  [mkIns 1 (IPragma v); mkIns 2 (IOther "Arg" [PInt 0%N]); mkIns 3 (IOther "Sha256" []);
   mkIns 4 (IOther "AppGlobalGet" []); mkIns 5 IReturn].
Example ex_teal2 :
  map (fun v => match parse_teal (ex_prog2 v) with
                | Ok t => Some (t_version t, t_mode t, contract_type_of t, verify_version (t_prog t) (t_version t),
                                map (block_cost t) (t_blocks t))
                | Err _ => None end) [1; 2]%N
  = [Some (1%N, MStateless, "LogicSig", ([(4%nat, FlagIns); (5%nat, FlagIns)], true), [10%N]);
     Some (2%N, MStateless, "LogicSig", ([], true), [38%N])].
Proof. vm_compute. reflexivity. Qed.

Example ex_teal3 :
  match parse_teal [mkIns 1 (IInt (IANum 1)); mkIns 2 (IOther "AppGlobalGet" []); mkIns 3 (IOther "Arg" [PInt 0%N])] with
  | Ok t => (t_version t, t_mode t, contract_type_of t, verify_version (t_prog t) (t_version t))
            = (1%N, MStateful, "ApprovalProgram", ([(2%nat, FlagIns)], true))
  | Err _ => False
  end.
Proof. vm_compute. reflexivity. Qed.

Print Assumptions verify_version_flags_exact.
Print Assumptions verify_version_ins_flags_in_order.
Print Assumptions verify_version_field_flags_in_order.
Print Assumptions verify_version_FlagIns_iff.
Print Assumptions verify_version_FlagField_iff.
Print Assumptions verify_version_line_flagged_iff.
Print Assumptions verify_version_FlagField_naive_refuted.
Print Assumptions verify_version_mixed_iff.
Print Assumptions parse_teal_version_mode.
Print Assumptions declared_version_first_line.
Print Assumptions detect_mode_any_iff.
Print Assumptions detect_mode_first_iff.
Print Assumptions detect_mode_find.
Print Assumptions detect_mode_unmixed_iff.
Print Assumptions detect_mode_uses_naive_refuted.
Print Assumptions teal_fields_contract_type.
Print Assumptions application_iff_stateful.
Print Assumptions C19_mode_classification.
Print Assumptions block_cost_sum.
Print Assumptions block_cost_sum_ins.
Print Assumptions ins_version_avm_partial.
Print Assumptions C19_ins_flag_iff_avm_version_partial.
Print Assumptions C19_flag_iff_avm_version_partial.
Print Assumptions C19_ins_flags_avm_in_order_partial.
Print Assumptions C19_flag_iff_avm_version_refuted.
Print Assumptions C19_ins_field_version_sound.
Print Assumptions C19_ins_field_version_complete.
Print Assumptions C19_field_flag_iff_avm_version_partial.
Print Assumptions ins_field_without_avm_field.
Print Assumptions ins_mode_avm.
Print Assumptions C19_detect_mode_avm.
Print Assumptions C19_mode_versioned_refuted.
Print Assumptions C19_ins_cost_avm.
Print Assumptions C19_block_cost_avm.
Print Assumptions unsupported_instruction_cost.
