(* Lemmas/GroupCfgOk.v -- WHEN does the regenerated reading of one group of a configuration (Gen/GroupInitGen.v
   init_group_gen = the body of `for txn_config in config.groups:` of init_tealer_from_config) return, and WHICH exception
   does it raise otherwise.  Everything is for ALL contracts tables cs and ALL entry lists es.

   1. entry_err / scan1 / scan2 / group_cfg_err : a flat "first error" scan (no heap, no objects, no monad):
        init_group_gen_err      init_group_gen cs grp = Raise x  when group_cfg_err = Some x, returns when = None
        init_group_raises_iff   init_group_gen cs grp = Raise x <-> group_cfg_err cs es = Some x
   2. group_cfg_ok : a flat BOOLEAN (every entry names a known type, listed contracts / functions of the right kind; ids
      pairwise distinct; every relative index names an id of the group; absolute indexes pairwise distinct):
        init_group_returns_iff  (exists r, init_group_gen cs grp = Ok r) <-> group_cfg_ok cs es = true
        group_cfg_ok_spec       the boolean read as propositions (NoDup, In)
   3. fill_cannot_raise : once the two loops have succeeded, fill_group_relative_indexes(group_obj) returns (no KeyError)
   4. per-exception "iff" theorems, each in the form "the FIRST offending entry offends in this way":
        init_raises_unknown_type / _unknown_contract / _unknown_function / _app_is_lsig / _lsig_is_app /
        _repeated / _foreign / _same_abs, with entry_err_spec / call_fault_* saying what the entry-level
        conditions mean in terms of the tables; init_raises_nothing_else: no other exception is possible.
   5. Examples (vm_compute) on the three-transaction configuration of GroupInitGenLemmas. *)
From Coq Require Import String List NArith ZArith Bool Arith Lia.
From Tealer Require Import Tables LeafPrelude Syntax Parse Cfg StackAst Keys KeysGen Analysis Domains Detect SearchGen Group GroupGen GroupInitGen.
From Tealer Require Import SearchGenLemmas GroupLemmas GroupGenLemmas GroupInitGenLemmas.
Import ListNotations.
Open Scope string_scope.
Open Scope list_scope.

(* ====================================================================== *)
(* 0. small facts                                                           *)
(* ====================================================================== *)
Ltac exn_neq :=
  unfold E_contract, E_function, E_app_is_lsig, E_lsig_is_app, E_repeated, E_foreign, E_same_abs in *; try discriminate; try congruence.

Lemma sdict_get_mem {V} k (d : list (string * V)) : sdict_mem k d = true -> exists v, sdict_get k d = Ok v.
Proof.
  rewrite sdict_mem_find, sdict_get_find. destruct (find _ d) as [kv|]; intros H; [exists (snd kv); reflexivity | discriminate].
Qed.

Lemma sdict_mem_key {V} k (d : list (string * V)) : In k (map fst d) -> sdict_mem k d = true.
Proof. intros H. rewrite sdict_mem_keys. apply smem_In. exact H. Qed.

Lemma id_table_keys es : map fst (id_table es) = map ct_txn_id es.
Proof. unfold id_table. rewrite <- (map_length ct_txn_id es). apply map_fst_combine_seq. Qed.

Lemma forallb_ext' {A} (f g : A -> bool) l : (forall x, f x = g x) -> forallb f l = forallb g l.
Proof. intros H. induction l as [|a l IH]; [reflexivity|]. cbn [forallb]. rewrite H, IH. reflexivity. Qed.

Definition zmem (a : Z) (l : list Z) : bool := existsb (fun k => Z.eqb k a) l.

Lemma zdict_mem_keys {V} a (d : list (Z * V)) : zdict_mem a d = zmem a (map fst d).
Proof. unfold zdict_mem, zmem. rewrite existsb_map. reflexivity. Qed.

Lemma zmem_In a l : zmem a l = true <-> In a l.
Proof.
  unfold zmem. rewrite existsb_exists. split.
  - intros (x & Hx & E). apply Z.eqb_eq in E. subst x. exact Hx.
  - intros H. exists a. split; [exact H | apply Z.eqb_refl].
Qed.

Lemma zmem_false a l : zmem a l = false <-> ~ In a l.
Proof. rewrite <- zmem_In. destruct (zmem a l); split; intros H; [discriminate | exfalso; apply H; reflexivity | intros X; discriminate | reflexivity]. Qed.

(* "every element is new w.r.t. the ones before it" -- the form in which the loops test distinctness *)
Fixpoint fresh_sb (seen l : list string) : bool :=
  match l with [] => true | a :: t => negb (smem a seen) && fresh_sb (seen ++ [a]) t end.
Fixpoint fresh_zb (seen l : list Z) : bool :=
  match l with [] => true | a :: t => negb (zmem a seen) && fresh_zb (seen ++ [a]) t end.

Lemma fresh_sb_spec : forall l seen, fresh_sb seen l = true <-> NoDup l /\ forall x, In x l -> ~ In x seen.
Proof.
  induction l as [|a l IH]; intros seen; cbn [fresh_sb].
  - split; [intros _; split; [constructor | intros x []] | reflexivity].
  - rewrite andb_true_iff, negb_true_iff, smem_false, IH. split.
    + intros (Ha & Hn & Hd). split.
      * constructor; [|exact Hn]. intros Hin. apply (Hd a Hin). apply in_or_app. right. left. reflexivity.
      * intros x [<-|Hx]; [exact Ha|]. intros Hs. apply (Hd x Hx). apply in_or_app. left. exact Hs.
    + intros (Hn & Hd). inversion Hn as [|a' l' Hna Hnl]; subst. split; [apply Hd; left; reflexivity|]. split; [exact Hnl|].
      intros x Hx Hs. apply in_app_or in Hs. destruct Hs as [Hs|[<-|[]]]; [exact (Hd x (or_intror Hx) Hs) | exact (Hna Hx)].
Qed.

Lemma fresh_zb_spec : forall l seen, fresh_zb seen l = true <-> NoDup l /\ forall x, In x l -> ~ In x seen.
Proof.
  induction l as [|a l IH]; intros seen; cbn [fresh_zb].
  - split; [intros _; split; [constructor | intros x []] | reflexivity].
  - rewrite andb_true_iff, negb_true_iff, zmem_false, IH. split.
    + intros (Ha & Hn & Hd). split.
      * constructor; [|exact Hn]. intros Hin. apply (Hd a Hin). apply in_or_app. right. left. reflexivity.
      * intros x [<-|Hx]; [exact Ha|]. intros Hs. apply (Hd x Hx). apply in_or_app. left. exact Hs.
    + intros (Hn & Hd). inversion Hn as [|a' l' Hna Hnl]; subst. split; [apply Hd; left; reflexivity|]. split; [exact Hnl|].
      intros x Hx Hs. apply in_app_or in Hs. destruct Hs as [Hs|[<-|[]]]; [exact (Hd x (or_intror Hx) Hs) | exact (Hna Hx)].
Qed.

(* ====================================================================== *)
(* 1. The first error of one entry in the first loop                        *)
(* ====================================================================== *)
Definition type_okb (e : GroupConfigTransaction) : bool := sdict_mem (ct_txn_type e) USER_CONFIG_TRANSACTION_TYPES.

Definition find_contract (cs : list (string * tcontract)) (fc : GroupConfigFunctionCall) : option tcontract :=
  option_map snd (find (fun kv : string * tcontract => String.eqb (fst kv) (fc_contract fc)) cs).

(* application (want_lsig = false) / logic_sig (want_lsig = true) of an entry: the first complaint about it *)
Definition call_fault (cs : list (string * tcontract)) (want_lsig : bool) (o : option GroupConfigFunctionCall) : option exn :=
  match o with
  | None => None
  | Some fc =>
      match find_contract cs fc with
      | None => Some E_contract
      | Some c =>
          if sdict_mem (fc_function fc) (c_functions c)
          then if Bool.eqb (String.eqb (c_contract_type c) "LogicSig") want_lsig then None
               else Some (if want_lsig then E_lsig_is_app else E_app_is_lsig)
          else Some E_function
      end
  end.

Definition entry_err (cs : list (string * tcontract)) (e : GroupConfigTransaction) : option exn :=
  if type_okb e
  then match call_fault cs false (ct_application e) with
       | Some x => Some x
       | None => call_fault cs true (ct_logic_sig e)
       end
  else Some EKeyError.

Lemma resolve_app_fault cs o :
  match call_fault cs false o with Some x => resolve_app cs o = Raise x | None => exists a, resolve_app cs o = Ok a end.
Proof.
  destruct o as [fc|]; cbn [call_fault resolve_app]; [|exists None; reflexivity].
  unfold find_contract, lookup_fn. destruct (find _ cs) as [[n c]|]; cbn [option_map snd]; [|reflexivity].
  rewrite sdict_mem_find. destruct (find _ (c_functions c)) as [[fnm k]|]; [|reflexivity]. cbn [rbind snd].
  destruct (String.eqb (c_contract_type c) "LogicSig"); cbn [Bool.eqb]; [reflexivity | eexists; reflexivity].
Qed.

Lemma resolve_lsig_fault cs o :
  match call_fault cs true o with Some x => resolve_lsig cs o = Raise x | None => exists a, resolve_lsig cs o = Ok a end.
Proof.
  destruct o as [fc|]; cbn [call_fault resolve_lsig]; [|exists None; reflexivity].
  unfold find_contract, lookup_fn. destruct (find _ cs) as [[n c]|]; cbn [option_map snd]; [|reflexivity].
  rewrite sdict_mem_find. destruct (find _ (c_functions c)) as [[fnm k]|]; [|reflexivity]. cbn [rbind snd].
  destruct (String.eqb (c_contract_type c) "LogicSig"); cbn [Bool.eqb]; [eexists; reflexivity | reflexivity].
Qed.

Lemma entry_obj_err cs e :
  match entry_err cs e with Some x => entry_obj cs e = Raise x | None => exists o, entry_obj cs e = Ok o end.
Proof.
  unfold entry_err, entry_obj, type_okb. rewrite sdict_mem_find, sdict_get_find.
  destruct (find _ USER_CONFIG_TRANSACTION_TYPES) as [kv|]; [|reflexivity]. cbn [rbind].
  pose proof (resolve_app_fault cs (ct_application e)) as Ha. destruct (call_fault cs false (ct_application e)) as [x|].
  - rewrite Ha. reflexivity.
  - destruct Ha as [a Ha]. rewrite Ha. cbn [rbind].
    pose proof (resolve_lsig_fault cs (ct_logic_sig e)) as Hl. destruct (call_fault cs true (ct_logic_sig e)) as [x|].
    + rewrite Hl. reflexivity.
    + destruct Hl as [l Hl]. rewrite Hl. cbn [rbind]. eexists. reflexivity.
Qed.

(* ====================================================================== *)
(* 2. The first loop: scan1                                                 *)
(* ====================================================================== *)
Fixpoint scan1 (cs : list (string * tcontract)) (es : list GroupConfigTransaction) (seen : list string) : option exn :=
  match es with
  | [] => None
  | e :: t =>
      match entry_err cs e with
      | Some x => Some x
      | None => if smem (ct_txn_id e) seen then Some E_repeated else scan1 cs t (seen ++ [ct_txn_id e])
      end
  end.

Lemma phase1_scan cs : forall es seen,
  match scan1 cs es seen with Some x => phase1 cs es seen = Raise x | None => exists os, phase1 cs es seen = Ok os end.
Proof.
  induction es as [|e es IH]; intros seen; cbn [scan1 phase1]; [exists []; reflexivity|].
  pose proof (entry_obj_err cs e) as He. destruct (entry_err cs e) as [x|]; [rewrite He; reflexivity|].
  destruct He as [o He]. rewrite He. cbn [rbind]. destruct (smem (ct_txn_id e) seen); [reflexivity|].
  specialize (IH (seen ++ [ct_txn_id e])). destruct (scan1 cs es (seen ++ [ct_txn_id e])) as [x|].
  - rewrite IH. reflexivity.
  - destruct IH as [os IH]. rewrite IH. cbn [rbind]. eexists. reflexivity.
Qed.

(* ====================================================================== *)
(* 3. The second loop: scan2                                                *)
(* ====================================================================== *)
Definition rel_okb (ids : list string) (e : GroupConfigTransaction) : bool :=
  match ct_relative_indexes e with
  | None => true
  | Some r => forallb (fun oid => smem oid ids) (dict_keys r)
  end.

Fixpoint scan2 (ids : list string) (es : list GroupConfigTransaction) (absseen : list Z) : option exn :=
  match es with
  | [] => None
  | e :: t =>
      if rel_okb ids e
      then match ct_absolute_index e with
           | Some a => if zmem a absseen then Some E_same_abs else scan2 ids t (absseen ++ [a])
           | None => scan2 ids t absseen
           end
      else Some E_foreign
  end.

Lemma rel_fold_scan D r : forall keys acc,
  (forall k, In k keys -> sdict_mem k r = true) ->
  if forallb (fun oid => sdict_mem oid D) keys
  then exists rel, foldE (rel_step D r) keys acc = Ok rel
  else foldE (rel_step D r) keys acc = Raise E_foreign.
Proof.
  induction keys as [|k keys IH]; intros acc Hk; cbn [forallb foldE]; [exists acc; reflexivity|].
  unfold rel_step at 1 3. destruct (sdict_mem k D) eqn:Em; cbn [andb]; [|reflexivity].
  destruct (sdict_get_mem k r (Hk k (or_introl eq_refl))) as [off Ho]. destruct (sdict_get_mem k D Em) as [j Hj].
  rewrite Ho. cbn [rbind]. rewrite Hj. cbn [rbind].
  apply IH. intros k' Hk'. apply Hk. right. exact Hk'.
Qed.

Lemma rel_of_scan all e acc :
  if rel_okb (map ct_txn_id all) e
  then exists rel, rel_of (id_table all) (ct_relative_indexes e) acc = Ok rel
  else rel_of (id_table all) (ct_relative_indexes e) acc = Raise E_foreign.
Proof.
  unfold rel_okb, rel_of. destruct (ct_relative_indexes e) as [r|]; [|exists acc; reflexivity].
  pose proof (rel_fold_scan (id_table all) r (dict_keys r) acc (fun k Hk => sdict_mem_key k r Hk)) as H.
  rewrite (forallb_ext' (fun oid => sdict_mem oid (id_table all)) (fun oid => smem oid (map ct_txn_id all)) (dict_keys r)) in H
    by (intros oid; rewrite sdict_mem_keys, id_table_keys; reflexivity).
  exact H.
Qed.

Lemma phase2_scan all : forall es todo i g,
  Forall2 (fun e o => o_absoulte_index o = ct_absolute_index e) es todo ->
  match scan2 (map ct_txn_id all) es (map fst (gr_absolute_indexes g)) with
  | Some x => phase2 (id_table all) i es todo g = Raise x
  | None => exists r, phase2 (id_table all) i es todo g = Ok r
  end.
Proof.
  induction es as [|e es IH]; intros todo i g HF; inversion HF as [|e0 o es0 todo' Ha HF']; subst; cbn [scan2 phase2].
  - eexists; reflexivity.
  - pose proof (rel_of_scan all e (o_relative_indexes o)) as Hr. destruct (rel_okb (map ct_txn_id all) e); [|rewrite Hr; reflexivity].
    destruct Hr as [rel Hr]. rewrite Hr. cbn [rbind]. rewrite Ha. unfold abs_step.
    destruct (ct_absolute_index e) as [a|].
    + rewrite zdict_mem_keys. destruct (zmem a (map fst (gr_absolute_indexes g))) eqn:Em; [reflexivity|]. cbn [rbind].
      specialize (IH todo' (S i) (set_gr_absolute_indexes (zdict_set a i (gr_absolute_indexes g)) g) HF').
      cbn [set_gr_absolute_indexes gr_absolute_indexes] in IH.
      rewrite zdict_set_new in IH by (rewrite zdict_mem_keys; exact Em). rewrite map_app in IH. cbn [map fst] in IH.
      rewrite zdict_set_new by (rewrite zdict_mem_keys; exact Em).
      destruct (scan2 (map ct_txn_id all) es (map fst (gr_absolute_indexes g) ++ [a])) as [x|].
      * rewrite IH. reflexivity.
      * destruct IH as [r IH]. rewrite IH. cbn [rbind]. eexists. reflexivity.
    + cbn [rbind]. specialize (IH todo' (S i) g HF').
      destruct (scan2 (map ct_txn_id all) es (map fst (gr_absolute_indexes g))) as [x|].
      * rewrite IH. reflexivity.
      * destruct IH as [r IH]. rewrite IH. cbn [rbind]. eexists. reflexivity.
Qed.

Lemma scan2_none_rel ids : forall es seen, scan2 ids es seen = None -> forall e, In e es -> rel_okb ids e = true.
Proof.
  induction es as [|e es IH]; intros seen H e' Hin; [destruct Hin|]. cbn [scan2] in H.
  destruct (rel_okb ids e) eqn:Er; [|discriminate]. destruct Hin as [<-|Hin]; [exact Er|].
  destruct (ct_absolute_index e) as [a|]; [destruct (zmem a seen); [discriminate|]|]; exact (IH _ H e' Hin).
Qed.

(* ====================================================================== *)
(* 4. fill_group_relative_indexes cannot raise after the two loops          *)
(* ====================================================================== *)
Lemma phase1_abs cs : forall es seen os, phase1 cs es seen = Ok os ->
  Forall2 (fun e o => o_absoulte_index o = ct_absolute_index e) es os.
Proof.
  intros es seen os H. pose proof (phase1_objs cs es seen os H) as HF. clear H.
  induction HF as [|e o es' os' Ho HF IH]; [constructor|]. constructor; [|exact IH].
  destruct (entry_obj_view cs [] e o [] Ho) as (_ & _ & Ha & _). exact Ha.
Qed.

Lemma cfg_rel_resolvable cs es e :
  rel_okb (map ct_txn_id es) e = true -> rel_resolvable (map (cfg_gtxn cs) es) (cfg_gtxn cs e).
Proof.
  intros Hok off id Hin. apply rel_dict_In_g_rel in Hin. unfold cfg_gtxn, normalize in Hin. cbn [g_rel] in Hin.
  apply rel_dict_In_g_rel in Hin. unfold raw_gtxn, cfg_rel_pairs in Hin. cbn [g_rel] in Hin.
  rewrite map_map. change (map (fun x => g_id (cfg_gtxn cs x)) es) with (map ct_txn_id es).
  unfold rel_okb in Hok. destruct (ct_relative_indexes e) as [r|]; [|destruct Hin].
  apply in_map_iff in Hin. destruct Hin as (oid & E & Hoid). inversion E; subst id.
  rewrite forallb_forall in Hok. apply smem_In. exact (Hok oid Hoid).
Qed.

Theorem fill_cannot_raise cs grp os r :
  let es := cg_transactions grp in
  phase1 cs es [] = Ok os ->
  phase2 (id_table es) 0 es os (group0 grp) = Ok r ->
  exists g, call_fill_group_relative_indexes (fst r) (snd r) = Ok g.
Proof.
  cbv zeta. set (es := cg_transactions grp). intros H1 H3. destruct r as [os' g1]. cbn [fst snd].
  destruct (phase2_view cs es es os 0 (group0 grp) os' g1 H3 (phase1_objs _ _ _ _ H1)) as (V & I & _ & T & _ & R & _).
  cbn [group0 gr_transactions gr_group_relative_indexes] in T, R.
  assert (Hl : length os' = length es) by (rewrite <- (map_length o_transacton_id os'), I, map_length; reflexivity).
  assert (Hv : view_group os' g1 = map (cfg_gtxn cs) es).
  { unfold view_group. rewrite T. fold es. rewrite <- Hl.
    rewrite (map_ext _ (fun i => view_with (map o_transacton_id os') (nth i os' tobj_dangling)) (view_txn_with os')).
    rewrite map_nth_seq, I. exact V. }
  unfold call_fill_group_relative_indexes. rewrite R, Hv.
  pose proof (phase2_scan es es os 0 (group0 grp) (phase1_abs _ _ _ _ H1)) as Hs. cbn [group0 gr_absolute_indexes map] in Hs.
  destruct (scan2 (map ct_txn_id es) es []) as [x|] eqn:Es; [fold es in Hs; rewrite H3 in Hs; discriminate|].
  destruct (fill_group_relative_indexes_gen_spec (map (cfg_gtxn cs) es)) as (L & Hf & _).
  - rewrite map_map. change (map (fun x => g_id (cfg_gtxn cs x)) es) with (map ct_txn_id es). exact (proj1 (phase1_nodup _ _ _ _ H1)).
  - intros t Ht. apply in_map_iff in Ht. destruct Ht as (e & <- & He). apply cfg_rel_resolvable. exact (scan2_none_rel _ _ _ Es e He).
  - rewrite Hf. cbn [of_py rbind]. eexists. reflexivity.
Qed.
Print Assumptions fill_cannot_raise.

(* ====================================================================== *)
(* 5. raises / returns, for every configuration                             *)
(* ====================================================================== *)
Definition group_cfg_err (cs : list (string * tcontract)) (es : list GroupConfigTransaction) : option exn :=
  match scan1 cs es [] with
  | Some x => Some x
  | None => scan2 (map ct_txn_id es) es []
  end.

Theorem init_group_gen_err cs grp :
  match group_cfg_err cs (cg_transactions grp) with
  | Some x => init_group_gen cs grp = Raise x
  | None => exists r, init_group_gen cs grp = Ok r
  end.
Proof.
  rewrite init_group_gen_spec. unfold init_group_spec, group_cfg_err. set (es := cg_transactions grp).
  pose proof (phase1_scan cs es []) as H1. destruct (scan1 cs es []) as [x|]; [rewrite H1; reflexivity|].
  destruct H1 as [os H1]. rewrite H1. cbn [rbind].
  pose proof (phase2_scan es es os 0 (group0 grp) (phase1_abs _ _ _ _ H1)) as H2. cbn [group0 gr_absolute_indexes map] in H2.
  destruct (scan2 (map ct_txn_id es) es []) as [x|]; [rewrite H2; reflexivity|].
  destruct H2 as [r H2]. rewrite H2. cbn [rbind].
  destruct (fill_cannot_raise cs grp os r H1 H2) as [g Hg]. rewrite Hg. cbn [rbind]. eexists. reflexivity.
Qed.

Theorem init_group_raises_iff cs grp x :
  init_group_gen cs grp = Raise x <-> group_cfg_err cs (cg_transactions grp) = Some x.
Proof.
  pose proof (init_group_gen_err cs grp) as H. destruct (group_cfg_err cs (cg_transactions grp)) as [y|].
  - rewrite H. split; intros E; inversion E; reflexivity.
  - destruct H as [r H]. rewrite H. split; intros E; discriminate.
Qed.

Theorem init_group_returns_iff_err cs grp :
  (exists r, init_group_gen cs grp = Ok r) <-> group_cfg_err cs (cg_transactions grp) = None.
Proof.
  pose proof (init_group_gen_err cs grp) as H. destruct (group_cfg_err cs (cg_transactions grp)) as [y|].
  - rewrite H. split; [intros [r E]; discriminate | intros E; discriminate].
  - split; [reflexivity | intros _; exact H].
Qed.

(* ---- the flat boolean *)
Definition call_okb (cs : list (string * tcontract)) (want_lsig : bool) (o : option GroupConfigFunctionCall) : bool :=
  match o with
  | None => true
  | Some fc =>
      match find_contract cs fc with
      | None => false
      | Some c => sdict_mem (fc_function fc) (c_functions c) && Bool.eqb (String.eqb (c_contract_type c) "LogicSig") want_lsig
      end
  end.
Definition entry_okb (cs : list (string * tcontract)) (e : GroupConfigTransaction) : bool :=
  type_okb e && call_okb cs false (ct_application e) && call_okb cs true (ct_logic_sig e).
Definition abs_list (es : list GroupConfigTransaction) : list Z :=
  flat_map (fun e => match ct_absolute_index e with Some a => [a] | None => [] end) es.

Definition phase1_okb (cs : list (string * tcontract)) (es : list GroupConfigTransaction) : bool :=
  forallb (entry_okb cs) es && fresh_sb [] (map ct_txn_id es).
Definition phase2_okb (ids : list string) (es : list GroupConfigTransaction) : bool :=
  forallb (rel_okb ids) es && fresh_zb [] (abs_list es).
Definition group_cfg_ok (cs : list (string * tcontract)) (es : list GroupConfigTransaction) : bool :=
  phase1_okb cs es && phase2_okb (map ct_txn_id es) es.

Lemma call_okb_fault cs w o : call_okb cs w o = true <-> call_fault cs w o = None.
Proof.
  destruct o as [fc|]; cbn [call_okb call_fault]; [|split; reflexivity].
  destruct (find_contract cs fc) as [c|]; [|split; discriminate].
  destruct (sdict_mem (fc_function fc) (c_functions c)); cbn [andb]; [|split; discriminate].
  destruct (Bool.eqb (String.eqb (c_contract_type c) "LogicSig") w); split; try reflexivity; discriminate.
Qed.

Lemma entry_okb_err cs e : entry_okb cs e = true <-> entry_err cs e = None.
Proof.
  unfold entry_okb, entry_err. destruct (type_okb e); cbn [andb]; [|split; discriminate].
  rewrite andb_true_iff, !call_okb_fault. destruct (call_fault cs false (ct_application e)) as [x|].
  - split; [intros [X _]; discriminate | discriminate].
  - split; [intros [_ X]; exact X | intros X; split; [reflexivity | exact X]].
Qed.

Lemma scan1_none cs : forall es seen,
  scan1 cs es seen = None <-> forallb (entry_okb cs) es = true /\ fresh_sb seen (map ct_txn_id es) = true.
Proof.
  induction es as [|e es IH]; intros seen; cbn [scan1 forallb map fresh_sb]; [split; [split; reflexivity | reflexivity]|].
  rewrite !andb_true_iff, entry_okb_err, negb_true_iff. destruct (entry_err cs e) as [x|].
  - split; [discriminate | intros [[X _] _]; discriminate].
  - destruct (smem (ct_txn_id e) seen).
    + split; [discriminate | intros [_ [X _]]; discriminate].
    + rewrite IH. tauto.
Qed.

Lemma scan2_none ids : forall es seen,
  scan2 ids es seen = None <-> forallb (rel_okb ids) es = true /\ fresh_zb seen (abs_list es) = true.
Proof.
  induction es as [|e es IH]; intros seen; cbn [scan2 forallb abs_list flat_map]; [split; [split; reflexivity | reflexivity]|].
  fold (abs_list es). rewrite andb_true_iff. destruct (rel_okb ids e).
  - destruct (ct_absolute_index e) as [a|]; cbn [app fresh_zb].
    + rewrite andb_true_iff, negb_true_iff. destruct (zmem a seen).
      * split; [discriminate | intros [_ [X _]]; discriminate].
      * rewrite IH. tauto.
    + rewrite IH. tauto.
  - split; [discriminate | intros [[X _] _]; discriminate].
Qed.

Lemma group_cfg_ok_err cs es : group_cfg_ok cs es = true <-> group_cfg_err cs es = None.
Proof.
  unfold group_cfg_ok, group_cfg_err, phase1_okb, phase2_okb. rewrite !andb_true_iff, <- scan1_none, <- scan2_none.
  destruct (scan1 cs es []) as [x|]; [split; [intros [X _]; discriminate | discriminate] | tauto].
Qed.

(* MAIN: the reading of a group returns iff the flat boolean holds *)
Theorem init_group_returns_iff cs grp :
  (exists r, init_group_gen cs grp = Ok r) <-> group_cfg_ok cs (cg_transactions grp) = true.
Proof. rewrite init_group_returns_iff_err, group_cfg_ok_err. reflexivity. Qed.
Print Assumptions init_group_returns_iff.

(* the boolean read as propositions *)
Theorem group_cfg_ok_spec cs es :
  group_cfg_ok cs es = true <->
  (forall e, In e es ->
     (exists ty, In (ct_txn_type e, ty) USER_CONFIG_TRANSACTION_TYPES) /\
     call_okb cs false (ct_application e) = true /\ call_okb cs true (ct_logic_sig e) = true) /\
  NoDup (map ct_txn_id es) /\
  (forall e r oid, In e es -> ct_relative_indexes e = Some r -> In oid (map fst r) -> In oid (map ct_txn_id es)) /\
  NoDup (abs_list es).
Proof.
  unfold group_cfg_ok, phase1_okb, phase2_okb. rewrite !andb_true_iff, !forallb_forall, fresh_sb_spec, fresh_zb_spec.
  assert (Ht : forall e, type_okb e = true <-> exists ty, In (ct_txn_type e, ty) USER_CONFIG_TRANSACTION_TYPES).
  { intros e. unfold type_okb. rewrite sdict_mem_keys, smem_In, in_map_iff. split.
    - intros ([k ty] & E & Hin). cbn [fst] in E. subst k. exists ty. exact Hin.
    - intros [ty Hin]. exists (ct_txn_type e, ty). split; [reflexivity | exact Hin]. }
  split.
  - intros [[He [Hn _]] [Hr [Ha _]]]. split; [|split; [exact Hn | split; [|exact Ha]]].
    + intros e Hin. specialize (He e Hin). unfold entry_okb in He. rewrite !andb_true_iff in He. destruct He as [[X Y] Z].
      split; [apply Ht; exact X | split; assumption].
    + intros e r oid Hin Er Ho. specialize (Hr e Hin). unfold rel_okb in Hr. rewrite Er, forallb_forall in Hr.
      apply smem_In. exact (Hr oid Ho).
  - intros (He & Hn & Hr & Ha). split; split.
    + intros e Hin. destruct (He e Hin) as (X & Y & Z). unfold entry_okb. rewrite !andb_true_iff. split; [split; [apply Ht; exact X | exact Y] | exact Z].
    + split; [exact Hn | intros x _ []].
    + intros e Hin. unfold rel_okb. destruct (ct_relative_indexes e) as [r|] eqn:Er; [|reflexivity].
      rewrite forallb_forall. intros oid Ho. apply smem_In. exact (Hr e r oid Hin Er Ho).
    + split; [exact Ha | intros x _ []].
Qed.

(* ====================================================================== *)
(* 6. WHICH exception: the first offending entry                            *)
(* ====================================================================== *)
Lemma call_fault_range cs w o x :
  call_fault cs w o = Some x -> x = E_contract \/ x = E_function \/ x = (if w then E_lsig_is_app else E_app_is_lsig).
Proof.
  destruct o as [fc|]; cbn [call_fault]; [|discriminate]. destruct (find_contract cs fc) as [c|]; [|intros H; inversion H; auto].
  destruct (sdict_mem (fc_function fc) (c_functions c)); [|intros H; inversion H; auto].
  destruct (Bool.eqb _ w); [discriminate | intros H; inversion H; auto].
Qed.

Lemma entry_err_range cs e x :
  entry_err cs e = Some x -> x = EKeyError \/ x = E_contract \/ x = E_function \/ x = E_app_is_lsig \/ x = E_lsig_is_app.
Proof.
  unfold entry_err. destruct (type_okb e); [|intros H; inversion H; auto].
  destruct (call_fault cs false (ct_application e)) as [y|] eqn:Ea.
  - intros H; inversion H; subst y. apply call_fault_range in Ea. cbn iota in Ea. tauto.
  - intros H. apply call_fault_range in H. cbn iota in H. tauto.
Qed.

Lemma abs_list_cons e es :
  abs_list (e :: es) = match ct_absolute_index e with Some a => [a] | None => [] end ++ abs_list es.
Proof. reflexivity. Qed.

Lemma scan1_some cs x : forall es seen,
  scan1 cs es seen = Some x <->
  exists pre e post, es = pre ++ e :: post /\ scan1 cs pre seen = None /\
    (entry_err cs e = Some x \/
     (entry_err cs e = None /\ x = E_repeated /\ smem (ct_txn_id e) (seen ++ map ct_txn_id pre) = true)).
Proof.
  induction es as [|e es IH]; intros seen; split.
  - cbn [scan1]. discriminate.
  - intros (pre & e & post & E & _). destruct pre; discriminate.
  - cbn [scan1]. destruct (entry_err cs e) as [y|] eqn:Ee.
    + intros H. inversion H; subst y. exists [], e, es. split; [reflexivity|]. split; [reflexivity|]. left. exact Ee.
    + destruct (smem (ct_txn_id e) seen) eqn:Em.
      * intros H. inversion H. exists [], e, es. split; [reflexivity|]. split; [reflexivity|]. right.
        cbn [map]. rewrite app_nil_r. auto.
      * intros H. apply IH in H. destruct H as (pre & e' & post & E & Hp & Hc). exists (e :: pre), e', post.
        split; [rewrite E; reflexivity|]. split; [cbn [scan1]; rewrite Ee, Em; exact Hp|].
        cbn [map]. rewrite <- app_assoc in Hc. exact Hc.
  - intros (pre & e' & post & E & Hp & Hc). destruct pre as [|p pre]; cbn [app] in E; inversion E; subst.
    + cbn [scan1]. destruct Hc as [Hc|(Hn & Hx & Hm)]; [rewrite Hc; reflexivity|].
      rewrite Hn. cbn [map] in Hm. rewrite app_nil_r in Hm. rewrite Hm, Hx. reflexivity.
    + cbn [scan1] in Hp |- *. destruct (entry_err cs p); [discriminate|]. destruct (smem (ct_txn_id p) seen); [discriminate|].
      apply IH. exists pre, e', post. split; [reflexivity|]. split; [exact Hp|]. cbn [map] in Hc. rewrite <- app_assoc. exact Hc.
Qed.

Lemma scan2_some ids x : forall es seen,
  scan2 ids es seen = Some x <->
  exists pre e post, es = pre ++ e :: post /\ scan2 ids pre seen = None /\
    ((rel_okb ids e = false /\ x = E_foreign) \/
     (rel_okb ids e = true /\ x = E_same_abs /\ exists a, ct_absolute_index e = Some a /\ zmem a (seen ++ abs_list pre) = true)).
Proof.
  induction es as [|e es IH]; intros seen; split.
  - cbn [scan2]. discriminate.
  - intros (pre & e & post & E & _). destruct pre; discriminate.
  - cbn [scan2]. destruct (rel_okb ids e) eqn:Er.
    + destruct (ct_absolute_index e) as [a|] eqn:Ea.
      * destruct (zmem a seen) eqn:Em.
        -- intros H. inversion H. exists [], e, es. split; [reflexivity|]. split; [reflexivity|]. right.
           split; [exact Er|]. split; [reflexivity|]. exists a. split; [exact Ea|]. cbn [abs_list flat_map]. rewrite app_nil_r. exact Em.
        -- intros H. apply IH in H. destruct H as (pre & e' & post & E & Hp & Hc). exists (e :: pre), e', post.
           split; [rewrite E; reflexivity|]. split; [cbn [scan2]; rewrite Er, Ea, Em; exact Hp|].
           destruct Hc as [Hc|(R & X & a' & Ea' & Hm)]; [left; exact Hc|]. right. split; [exact R|]. split; [exact X|].
           exists a'. split; [exact Ea'|]. rewrite abs_list_cons, Ea. rewrite <- app_assoc in Hm. exact Hm.
      * intros H. apply IH in H. destruct H as (pre & e' & post & E & Hp & Hc). exists (e :: pre), e', post.
        split; [rewrite E; reflexivity|]. split; [cbn [scan2]; rewrite Er, Ea; exact Hp|].
        destruct Hc as [Hc|(R & X & a' & Ea' & Hm)]; [left; exact Hc|]. right. split; [exact R|]. split; [exact X|].
        exists a'. split; [exact Ea'|]. rewrite abs_list_cons, Ea. exact Hm.
    + intros H. inversion H. exists [], e, es. split; [reflexivity|]. split; [reflexivity|]. left. split; [exact Er | reflexivity].
  - intros (pre & e' & post & E & Hp & Hc). destruct pre as [|p pre]; cbn [app] in E; inversion E; subst.
    + cbn [scan2]. destruct Hc as [(R & X)|(R & X & a & Ea & Hm)]; [rewrite R, X; reflexivity|].
      rewrite R, Ea. cbn [abs_list flat_map] in Hm. rewrite app_nil_r in Hm. rewrite Hm, X. reflexivity.
    + cbn [scan2] in Hp |- *. destruct (rel_okb ids p); [|discriminate]. destruct (ct_absolute_index p) as [a|] eqn:Ea.
      * destruct (zmem a seen); [discriminate|]. apply IH. exists pre, e', post. split; [reflexivity|]. split; [exact Hp|].
        destruct Hc as [Hc|(R & X & a' & Ea' & Hm)]; [left; exact Hc|]. right. split; [exact R|]. split; [exact X|].
        exists a'. split; [exact Ea'|]. rewrite abs_list_cons, Ea in Hm. rewrite <- app_assoc. exact Hm.
      * apply IH. exists pre, e', post. split; [reflexivity|]. split; [exact Hp|].
        destruct Hc as [Hc|(R & X & a' & Ea' & Hm)]; [left; exact Hc|]. right. split; [exact R|]. split; [exact X|].
        exists a'. split; [exact Ea'|]. rewrite abs_list_cons, Ea in Hm. exact Hm.
Qed.

Lemma phase1_okb_scan cs l : phase1_okb cs l = true <-> scan1 cs l [] = None.
Proof. unfold phase1_okb. rewrite andb_true_iff, scan1_none. reflexivity. Qed.
Lemma phase2_okb_scan ids l : phase2_okb ids l = true <-> scan2 ids l [] = None.
Proof. unfold phase2_okb. rewrite andb_true_iff, scan2_none. reflexivity. Qed.

(* the general form: which exception, decided by the FIRST offending entry (first loop before second loop; inside an
   entry: type, application, logic-sig, repeated id / relative indexes, absolute index) *)
Theorem init_raises_first_offender cs grp x :
  let es := cg_transactions grp in
  init_group_gen cs grp = Raise x <->
  (exists pre e post, es = pre ++ e :: post /\ phase1_okb cs pre = true /\
     (entry_err cs e = Some x \/ (entry_err cs e = None /\ x = E_repeated /\ In (ct_txn_id e) (map ct_txn_id pre)))) \/
  (phase1_okb cs es = true /\
   exists pre e post, es = pre ++ e :: post /\ phase2_okb (map ct_txn_id es) pre = true /\
     ((rel_okb (map ct_txn_id es) e = false /\ x = E_foreign) \/
      (rel_okb (map ct_txn_id es) e = true /\ x = E_same_abs /\ exists a, ct_absolute_index e = Some a /\ In a (abs_list pre)))).
Proof.
  cbv zeta. set (es := cg_transactions grp). rewrite init_group_raises_iff. fold es. unfold group_cfg_err. split.
  - intros H. destruct (scan1 cs es []) as [y|] eqn:E1.
    + inversion H; subst y. left. apply scan1_some in E1. destruct E1 as (pre & e & post & E & Hp & Hc).
      exists pre, e, post. split; [exact E|]. split; [apply phase1_okb_scan; exact Hp|].
      destruct Hc as [Hc|(A & B & C)]; [left; exact Hc|]. right. split; [exact A|]. split; [exact B|]. apply smem_In. exact C.
    + right. split; [apply phase1_okb_scan; exact E1|]. apply scan2_some in H. destruct H as (pre & e & post & E & Hp & Hc).
      exists pre, e, post. split; [exact E|]. split; [apply phase2_okb_scan; exact Hp|].
      destruct Hc as [Hc|(R & X & a & Ea & Hm)]; [left; exact Hc|]. right. split; [exact R|]. split; [exact X|].
      exists a. split; [exact Ea|]. apply zmem_In. exact Hm.
  - intros [(pre & e & post & E & Hp & Hc)|(H1 & pre & e & post & E & Hp & Hc)].
    + assert (Hs : scan1 cs es [] = Some x).
      { apply scan1_some. exists pre, e, post. split; [exact E|]. split; [apply phase1_okb_scan; exact Hp|].
        destruct Hc as [Hc|(A & B & C)]; [left; exact Hc|]. right. split; [exact A|]. split; [exact B|]. apply smem_In. exact C. }
      rewrite Hs. reflexivity.
    + apply phase1_okb_scan in H1. rewrite H1. apply scan2_some. exists pre, e, post. split; [exact E|].
      split; [apply phase2_okb_scan; exact Hp|].
      destruct Hc as [Hc|(R & X & a & Ea & Hm)]; [left; exact Hc|]. right. split; [exact R|]. split; [exact X|].
      exists a. split; [exact Ea|]. apply zmem_In. exact Hm.
Qed.
Print Assumptions init_raises_first_offender.

(* no other exception is possible *)
Theorem init_raises_nothing_else cs grp x :
  init_group_gen cs grp = Raise x ->
  In x [EKeyError; E_contract; E_function; E_app_is_lsig; E_lsig_is_app; E_repeated; E_foreign; E_same_abs].
Proof.
  intros H. apply init_raises_first_offender in H. cbv zeta in H. cbn [In].
  destruct H as [(pre & e & post & _ & _ & [Hc|(_ & X & _)])|(_ & pre & e & post & _ & _ & [(_ & X)|(_ & X & _)])].
  - apply entry_err_range in Hc. intuition auto.
  - auto 10.
  - auto 10.
  - auto 10.
Qed.

(* ---- the entry-level exceptions (unknown type; unknown contract; unknown function; wrong kind) *)
Theorem init_raises_entry cs grp x :
  x = EKeyError \/ x = E_contract \/ x = E_function \/ x = E_app_is_lsig \/ x = E_lsig_is_app ->
  (init_group_gen cs grp = Raise x <->
   exists pre e post, cg_transactions grp = pre ++ e :: post /\ phase1_okb cs pre = true /\ entry_err cs e = Some x).
Proof.
  intros Hx. rewrite init_raises_first_offender. cbv zeta. split.
  - intros [(pre & e & post & E & Hp & [Hc|(_ & X & _)])|(_ & pre & e & post & _ & _ & [(_ & X)|(_ & X & _)])].
    + exists pre, e, post. auto.
    + exfalso. subst x. destruct Hx as [X|[X|[X|[X|X]]]]; exn_neq.
    + exfalso. subst x. destruct Hx as [X|[X|[X|[X|X]]]]; exn_neq.
    + exfalso. subst x. destruct Hx as [X|[X|[X|[X|X]]]]; exn_neq.
  - intros (pre & e & post & E & Hp & Hc). left. exists pre, e, post. auto.
Qed.

(* what the entry-level conditions mean *)
Lemma entry_err_unknown_type cs e : entry_err cs e = Some EKeyError <-> type_okb e = false.
Proof.
  unfold entry_err. destruct (type_okb e); [|split; reflexivity]. split; [|discriminate].
  destruct (call_fault cs false (ct_application e)) as [y|] eqn:Ea.
  - intros H. inversion H; subst y. apply call_fault_range in Ea. cbn iota in Ea. destruct Ea as [X|[X|X]]; exn_neq.
  - intros H. apply call_fault_range in H. cbn iota in H. destruct H as [X|[X|X]]; exn_neq.
Qed.

Lemma entry_err_spec cs e x :
  x <> EKeyError ->
  (entry_err cs e = Some x <->
   type_okb e = true /\
   (call_fault cs false (ct_application e) = Some x \/
    (call_fault cs false (ct_application e) = None /\ call_fault cs true (ct_logic_sig e) = Some x))).
Proof.
  intros Hx. unfold entry_err. destruct (type_okb e).
  - destruct (call_fault cs false (ct_application e)) as [y|].
    + split; [intros H; split; [reflexivity | left; exact H] | intros [_ [H|[H _]]]; [exact H | discriminate]].
    + split; [intros H; split; [reflexivity | right; split; [reflexivity | exact H]] | intros [_ [H|[_ H]]]; [discriminate | exact H]].
  - split; [intros H; inversion H; subst x; contradiction | intros [H _]; discriminate].
Qed.

Lemma call_fault_contract cs w o :
  call_fault cs w o = Some E_contract <-> exists fc, o = Some fc /\ find_contract cs fc = None.
Proof.
  destruct o as [fc|]; cbn [call_fault].
  - destruct (find_contract cs fc) as [c|] eqn:Ef.
    + split; [|intros (fc' & E & H); inversion E; subst fc'; rewrite Ef in H; discriminate H].
      destruct (sdict_mem (fc_function fc) (c_functions c)); [destruct (Bool.eqb _ w); [discriminate|destruct w]|]; intros H; exn_neq.
    + split; [intros _; exists fc; auto | reflexivity].
  - split; [discriminate | intros (fc & E & _); discriminate E].
Qed.

Lemma call_fault_function cs w o :
  call_fault cs w o = Some E_function <->
  exists fc c, o = Some fc /\ find_contract cs fc = Some c /\ sdict_mem (fc_function fc) (c_functions c) = false.
Proof.
  destruct o as [fc|]; cbn [call_fault].
  - destruct (find_contract cs fc) as [c|] eqn:Ef.
    + destruct (sdict_mem (fc_function fc) (c_functions c)) eqn:Em.
      * split; [destruct (Bool.eqb _ w); [discriminate|destruct w]; intros H; exn_neq|].
        intros (fc' & c' & E & F & G). inversion E; subst fc'. rewrite Ef in F. inversion F; subst c'. rewrite Em in G. discriminate G.
      * split; [intros _; exists fc, c; auto | reflexivity].
    + split; [intros H; exn_neq | intros (fc' & c & E & F & _); inversion E; subst fc'; rewrite Ef in F; discriminate F].
  - split; [discriminate | intros (fc & c & E & _); discriminate E].
Qed.

(* wrong kind: an application naming a logic-sig (w = false), a logic_sig naming an application (w = true) *)
Lemma call_fault_kind cs w o :
  call_fault cs w o = Some (if w then E_lsig_is_app else E_app_is_lsig) <->
  exists fc c, o = Some fc /\ find_contract cs fc = Some c /\ sdict_mem (fc_function fc) (c_functions c) = true /\
               String.eqb (c_contract_type c) "LogicSig" = negb w.
Proof.
  destruct o as [fc|]; cbn [call_fault].
  - destruct (find_contract cs fc) as [c|] eqn:Ef.
    + destruct (sdict_mem (fc_function fc) (c_functions c)) eqn:Em.
      * destruct (String.eqb (c_contract_type c) "LogicSig") eqn:Ek; destruct w; cbn [Bool.eqb negb].
        -- split; [discriminate | intros (fc' & c' & E & F & _ & G); inversion E; subst fc'; rewrite Ef in F; inversion F; subst c'; rewrite Ek in G; discriminate G].
        -- split; [intros _; exists fc, c; auto | reflexivity].
        -- split; [intros _; exists fc, c; auto | reflexivity].
        -- split; [discriminate | intros (fc' & c' & E & F & _ & G); inversion E; subst fc'; rewrite Ef in F; inversion F; subst c'; rewrite Ek in G; discriminate G].
      * split; [destruct w; intros H; exn_neq|].
        intros (fc' & c' & E & F & G & _). inversion E; subst fc'. rewrite Ef in F. inversion F; subst c'. rewrite Em in G. discriminate G.
    + split; [destruct w; intros H; exn_neq | intros (fc' & c & E & F & _); inversion E; subst fc'; rewrite Ef in F; discriminate F].
  - split; [discriminate | intros (fc & c & E & _); discriminate E].
Qed.

Lemma forallb_false {A} (f : A -> bool) l : forallb f l = false <-> exists x, In x l /\ f x = false.
Proof.
  induction l as [|a l IH]; cbn [forallb]; [split; [discriminate | intros (x & [] & _)]|].
  rewrite andb_false_iff, IH. split.
  - intros [H|(x & Hx & Hf)]; [exists a; split; [left; reflexivity | exact H] | exists x; split; [right; exact Hx | exact Hf]].
  - intros (x & [<-|Hx] & Hf); [left; exact Hf | right; exists x; split; assumption].
Qed.

Lemma rel_okb_false ids e :
  rel_okb ids e = false <-> exists r oid, ct_relative_indexes e = Some r /\ In oid (map fst r) /\ ~ In oid ids.
Proof.
  unfold rel_okb. destruct (ct_relative_indexes e) as [r|].
  - rewrite forallb_false. split.
    + intros (oid & Ho & Hf). exists r, oid. split; [reflexivity|]. split; [exact Ho | apply smem_false; exact Hf].
    + intros (r' & oid & E & Ho & Hf). inversion E; subst r'. exists oid. split; [exact Ho | apply smem_false; exact Hf].
  - split; [discriminate | intros (r & oid & E & _); discriminate].
Qed.

(* ---- the eight named cases *)
Theorem init_raises_unknown_type cs grp :
  init_group_gen cs grp = Raise EKeyError <->
  exists pre e post, cg_transactions grp = pre ++ e :: post /\ phase1_okb cs pre = true /\
                     sdict_mem (ct_txn_type e) USER_CONFIG_TRANSACTION_TYPES = false.
Proof.
  rewrite (init_raises_entry cs grp EKeyError) by auto.
  split; intros (pre & e & post & E & Hp & Hc); exists pre, e, post; (split; [exact E|]); (split; [exact Hp|]);
    apply (entry_err_unknown_type cs e); exact Hc.
Qed.

Theorem init_raises_unknown_contract cs grp :
  init_group_gen cs grp = Raise E_contract <->
  exists pre e post, cg_transactions grp = pre ++ e :: post /\ phase1_okb cs pre = true /\ type_okb e = true /\
    ((exists fc, ct_application e = Some fc /\ find_contract cs fc = None) \/
     (call_fault cs false (ct_application e) = None /\ exists fc, ct_logic_sig e = Some fc /\ find_contract cs fc = None)).
Proof.
  rewrite (init_raises_entry cs grp E_contract) by auto.
  split; intros (pre & e & post & E & Hp & Hc); exists pre, e, post; (split; [exact E|]); (split; [exact Hp|]).
  - apply entry_err_spec in Hc; [|exn_neq]. rewrite !call_fault_contract in Hc. exact Hc.
  - apply entry_err_spec; [exn_neq|]. rewrite !call_fault_contract. exact Hc.
Qed.

Theorem init_raises_unknown_function cs grp :
  init_group_gen cs grp = Raise E_function <->
  exists pre e post, cg_transactions grp = pre ++ e :: post /\ phase1_okb cs pre = true /\ type_okb e = true /\
    ((exists fc c, ct_application e = Some fc /\ find_contract cs fc = Some c /\ sdict_mem (fc_function fc) (c_functions c) = false) \/
     (call_fault cs false (ct_application e) = None /\
      exists fc c, ct_logic_sig e = Some fc /\ find_contract cs fc = Some c /\ sdict_mem (fc_function fc) (c_functions c) = false)).
Proof.
  rewrite (init_raises_entry cs grp E_function) by auto.
  split; intros (pre & e & post & E & Hp & Hc); exists pre, e, post; (split; [exact E|]); (split; [exact Hp|]).
  - apply entry_err_spec in Hc; [|exn_neq]. rewrite !call_fault_function in Hc. exact Hc.
  - apply entry_err_spec; [exn_neq|]. rewrite !call_fault_function. exact Hc.
Qed.

(* an application that names a function of a logic-sig contract *)
Theorem init_raises_app_is_lsig cs grp :
  init_group_gen cs grp = Raise E_app_is_lsig <->
  exists pre e post, cg_transactions grp = pre ++ e :: post /\ phase1_okb cs pre = true /\ type_okb e = true /\
    exists fc c, ct_application e = Some fc /\ find_contract cs fc = Some c /\
                 sdict_mem (fc_function fc) (c_functions c) = true /\ String.eqb (c_contract_type c) "LogicSig" = true.
Proof.
  rewrite (init_raises_entry cs grp E_app_is_lsig) by auto.
  split; intros (pre & e & post & E & Hp & Hc); exists pre, e, post; (split; [exact E|]); (split; [exact Hp|]).
  - apply entry_err_spec in Hc; [|exn_neq]. destruct Hc as [Ht [Hc|[_ Hc]]].
    + split; [exact Ht|]. apply (call_fault_kind cs false) in Hc. exact Hc.
    + exfalso. apply call_fault_range in Hc. cbn iota in Hc. destruct Hc as [X|[X|X]]; exn_neq.
  - destruct Hc as [Ht Hc]. apply entry_err_spec; [exn_neq|]. split; [exact Ht|]. left. apply (call_fault_kind cs false). exact Hc.
Qed.

(* a logic_sig that names a function of an application (approval / clear-state) contract *)
Theorem init_raises_lsig_is_app cs grp :
  init_group_gen cs grp = Raise E_lsig_is_app <->
  exists pre e post, cg_transactions grp = pre ++ e :: post /\ phase1_okb cs pre = true /\ type_okb e = true /\
    call_fault cs false (ct_application e) = None /\
    exists fc c, ct_logic_sig e = Some fc /\ find_contract cs fc = Some c /\
                 sdict_mem (fc_function fc) (c_functions c) = true /\ String.eqb (c_contract_type c) "LogicSig" = false.
Proof.
  rewrite (init_raises_entry cs grp E_lsig_is_app) by auto 10.
  split; intros (pre & e & post & E & Hp & Hc); exists pre, e, post; (split; [exact E|]); (split; [exact Hp|]).
  - apply entry_err_spec in Hc; [|exn_neq]. destruct Hc as [Ht [Hc|[Ha Hc]]].
    + exfalso. apply call_fault_range in Hc. cbn iota in Hc. destruct Hc as [X|[X|X]]; exn_neq.
    + split; [exact Ht|]. split; [exact Ha|]. apply (call_fault_kind cs true) in Hc. exact Hc.
  - destruct Hc as (Ht & Ha & Hc). apply entry_err_spec; [exn_neq|]. split; [exact Ht|]. right. split; [exact Ha|].
    apply (call_fault_kind cs true). exact Hc.
Qed.

Theorem init_raises_repeated cs grp :
  init_group_gen cs grp = Raise E_repeated <->
  exists pre e post, cg_transactions grp = pre ++ e :: post /\ phase1_okb cs pre = true /\ entry_okb cs e = true /\
                     In (ct_txn_id e) (map ct_txn_id pre).
Proof.
  rewrite init_raises_first_offender. cbv zeta. split.
  - intros [(pre & e & post & E & Hp & [Hc|(A & _ & C)])|(_ & pre & e & post & _ & _ & [(_ & X)|(_ & X & _)])].
    + exfalso. apply entry_err_range in Hc. destruct Hc as [X|[X|[X|[X|X]]]]; exn_neq.
    + exists pre, e, post. rewrite entry_okb_err. auto.
    + exfalso. exn_neq.
    + exfalso. exn_neq.
  - intros (pre & e & post & E & Hp & Ho & Hi). left. exists pre, e, post. split; [exact E|]. split; [exact Hp|]. right.
    rewrite <- entry_okb_err. auto.
Qed.

Theorem init_raises_foreign cs grp :
  let es := cg_transactions grp in
  init_group_gen cs grp = Raise E_foreign <->
  phase1_okb cs es = true /\
  exists pre e post, es = pre ++ e :: post /\ phase2_okb (map ct_txn_id es) pre = true /\
    exists r oid, ct_relative_indexes e = Some r /\ In oid (map fst r) /\ ~ In oid (map ct_txn_id es).
Proof.
  cbv zeta. rewrite init_raises_first_offender. cbv zeta. split.
  - intros [(pre & e & post & E & Hp & [Hc|(_ & X & _)])|(H1 & pre & e & post & E & Hp & [(R & _)|(_ & X & _)])].
    + exfalso. apply entry_err_range in Hc. destruct Hc as [X|[X|[X|[X|X]]]]; exn_neq.
    + exfalso. exn_neq.
    + split; [exact H1|]. exists pre, e, post. split; [exact E|]. split; [exact Hp|]. apply rel_okb_false. exact R.
    + exfalso. exn_neq.
  - intros (H1 & pre & e & post & E & Hp & R). right. split; [exact H1|]. exists pre, e, post. split; [exact E|]. split; [exact Hp|].
    left. split; [apply rel_okb_false; exact R | reflexivity].
Qed.

Theorem init_raises_same_abs cs grp :
  let es := cg_transactions grp in
  init_group_gen cs grp = Raise E_same_abs <->
  phase1_okb cs es = true /\
  exists pre e post a, es = pre ++ e :: post /\ phase2_okb (map ct_txn_id es) pre = true /\
    rel_okb (map ct_txn_id es) e = true /\ ct_absolute_index e = Some a /\ In a (abs_list pre).
Proof.
  cbv zeta. rewrite init_raises_first_offender. cbv zeta. split.
  - intros [(pre & e & post & E & Hp & [Hc|(_ & X & _)])|(H1 & pre & e & post & E & Hp & [(_ & X)|(R & _ & a & Ea & Hm)])].
    + exfalso. apply entry_err_range in Hc. destruct Hc as [X|[X|[X|[X|X]]]]; exn_neq.
    + exfalso. exn_neq.
    + exfalso. exn_neq.
    + split; [exact H1|]. exists pre, e, post, a. auto.
  - intros (H1 & pre & e & post & a & E & Hp & R & Ea & Hm). right. split; [exact H1|]. exists pre, e, post. split; [exact E|].
    split; [exact Hp|]. right. split; [exact R|]. split; [reflexivity|]. exists a. auto.
Qed.
Print Assumptions init_raises_same_abs.

(* ====================================================================== *)
(* 7. Non-vacuity                                                           *)
(* ====================================================================== *)
Example group_cfg_ok_example :
  group_cfg_ok ex_contracts (cg_transactions ex_group) = true /\
  group_cfg_err ex_contracts (cg_transactions ex_group) = None /\
  (exists r, init_group_gen ex_contracts ex_group = Ok r).
Proof. split; [vm_compute; reflexivity|]. split; [vm_compute; reflexivity|]. apply init_group_returns_iff. vm_compute. reflexivity. Qed.

Example group_cfg_err_examples :
  group_cfg_err ex_contracts [ex_a; ex_a] = Some E_repeated /\
  group_cfg_err ex_contracts [ex_a; ex_b] = Some E_foreign /\
  group_cfg_err ex_contracts [ex_c; mkGroupConfigTransaction "d" "txn" None None None (Some 3%Z) None] = Some E_same_abs /\
  group_cfg_err ex_contracts [mkGroupConfigTransaction "d" "txn" (Some (mkGroupConfigFunctionCall "ls" "f")) None None None None] = Some E_app_is_lsig /\
  group_cfg_err ex_contracts [mkGroupConfigTransaction "d" "txn" None None (Some (mkGroupConfigFunctionCall "app" "g")) None None] = Some E_lsig_is_app /\
  group_cfg_err ex_contracts [mkGroupConfigTransaction "d" "txn" None None (Some (mkGroupConfigFunctionCall "zz" "g")) None None] = Some E_contract /\
  group_cfg_err ex_contracts [mkGroupConfigTransaction "d" "txn" None None (Some (mkGroupConfigFunctionCall "ls" "g")) None None] = Some E_function /\
  group_cfg_err ex_contracts [mkGroupConfigTransaction "d" "Pay" None None None None None] = Some EKeyError /\
  group_cfg_ok ex_contracts [ex_a; ex_a] = false.
Proof. repeat split; vm_compute; reflexivity. Qed.

(* ordering: an entry with an unknown contract AFTER a repeated id: the repeated id is reported; the same two faults in
   one entry: the contract is reported (it is looked up before the id is registered) *)
Example group_cfg_err_order :
  group_cfg_err ex_contracts [ex_c; ex_c; mkGroupConfigTransaction "d" "txn" None None (Some (mkGroupConfigFunctionCall "zz" "g")) None None] = Some E_repeated /\
  group_cfg_err ex_contracts [ex_c; mkGroupConfigTransaction "c" "txn" None None (Some (mkGroupConfigFunctionCall "zz" "g")) None None] = Some E_contract.
Proof. split; vm_compute; reflexivity. Qed.
