(* The CFG construction REGENERATED from tealer's Python source (Gen/CfgGen.v: first_pass_gen, second_pass_gen,
   create_bb_gen, fourth_pass_gen, identify_subroutine_blocks_loop_gen / identify_subroutine_blocks_gen,
   prune_unreachable_gen, translated statement by statement from teal/parse_teal.py by tools/translate_cfg.py) against
   the hand-written functional construction of Model/Cfg.v (ins_next, scan_step / create_bb, build_blocks,
   dfs_blocks / identify_subroutine_blocks, the pruning of parse_teal, find_label, callsub_table).

   Representation (prelude of Gen/CfgGen.v): an Instruction object is its position in p : prog, its mutable attributes
   the cell of an instruction heap (io_next, io_prev, io_bb); a BasicBlock object is its address in a block heap of
   Cfg.block cells.  Results, for EVERY instruction list p unless a hypothesis is stated:

   1. create_bb (create_bb_gen_eq): for every instruction heap ih whose next lists are ins_next p (pointwise, also
      where both are undefined), create_bb_gen p (0..|p|-1) [] [] ih = the model's create_bb p, read as
      (all_bbs = 0..n-1, block heap = raw_heap bs, ins.bb = the block of the position); exceptions = None.
      raw_heap is characterised against the model (raw_heap_nth: rb_ins, the default edge [n+1], the default
      predecessor [n-1] = the `dflt` parts of Cfg.raw_next / Cfg.prev_of).
      Transported: create_bb_gen_partition (CfgLemmas.blocks_partition, blocks_nonempty).
   2. identify_subroutine_blocks: identify_loop_gen_sound (no hypothesis: whenever the generated loop ends within
      its budget it returns dfs_blocks with the same fuel), identify_subroutine_blocks_gen_eq (successors in range:
      = Cfg.identify_subroutine_blocks with the model's budget S (length bs)).  Transported: .._gen_reach
      (SubLemmas.dfs_reach).
   3. the pruning loop: prune_unreachable_gen_eq (on a well-formed block list -- build_blocks_wf: every build_blocks p
      is -- and an instruction heap whose edge lists mirror each other, the loop raises no exception and leaves
      prune_spec: every block without its unreachable predecessors, unreachable blocks without successors, and the
      instructions of the reachable blocks); prune_spec_model / prune_unreachable_gen_parse_teal: the reachable blocks
      of that heap are t_blocks, the instruction list is t_retained_ins of the model's parse_teal.
      New facts about the model needed on the way: NoDup (b_prev b) and b_prev in range (build_blocks_wf).
   4. first_pass / second_pass: first_pass_gen_spec (never raises; labels = find_label, subroutines = callsub_table,
      only the fall-through edges), passes_gen_spec (after both passes Instruction.next = ins_next at every position,
      the edge lists are symmetric with multiplicities; KeyError exactly when some ins_next is None),
      passes_create_bb_gen_eq (1 and 4 composed, no hypothesis).
   5. fourth_pass: fourth_pass_gen_eq, and build_gen_eq: first_pass; second_pass; create_bb; fourth_pass from fresh
      objects = build_blocks p for EVERY p (same blocks, same order of every next / prev list, None = exception).
      New fact about the model: build_blocks_total (create_bb p = Some _, p <> [] -> build_blocks p <> None).
      Transported: build_gen_wf, build_gen_identify, build_gen_prune_parse_teal.

   Discrepancies between the Python text and the hand-written model found while proving (none changes a result):
   - create_bb tests `len(ins.next) > 1 or Callsub` and then, in the same iteration, `len(ins.next) == 0 or B`
     (two sequential ifs); Cfg.scan_step is an if / else-if.  They agree only because after a split of the first kind
     on a non-last instruction the second test is false (next_len_facts: a Callsub that is not last has exactly one
     successor, B has exactly one): proved, not syntactic.
   - the pruning loop empties the next list of every unreachable block and removes unreachable predecessors from
     EVERY block (also from unreachable ones); the model only describes the retained blocks (prune).  The model's
     "filter" reading of `bnext.prev.remove(bi)` (one occurrence removed) is justified by NoDup (b_prev b), which was
     not proved before.
   - Python's pruning also edits Instruction.next / prev of the exit instructions of unreachable blocks (not in the
     model) and would raise ValueError if the instruction edge lists did not mirror each other with multiplicities;
     they do (ih_sym after the two passes; a jump edge equal to the fall-through edge is recorded twice on both
     sides). *)
From Coq Require Import String List NArith ZArith Bool Arith Lia.
From Tealer Require Import Tables Syntax Parse Cfg KeysGen CfgGen CfgLemmas SubLemmas.
Import ListNotations.
Open Scope string_scope.
Open Scope list_scope.

(* ====================================================================== *)
(* 0. Small facts: the monad, lists, in-place updates                      *)
(* ====================================================================== *)
Lemma fold_bind_none {S X : Type} (g : py S -> X -> py S) (l : list X) :
  (forall x, g None x = None) -> fold_left g l None = None.
Proof. intros H. induction l as [|x l IH]; cbn; [reflexivity|]. rewrite H. exact IH. Qed.

Lemma lst_last_snoc {A} (l : list A) x : lst_last (l ++ [x]) = Some x.
Proof.
  induction l as [|a l IH]; [reflexivity|]. cbn [app lst_last].
  destruct (l ++ [x]) eqn:E; [destruct l; discriminate|]. exact IH.
Qed.

Lemma lst_last_seq n : lst_last (seq 0 (S n)) = Some n.
Proof. rewrite seq_S. apply lst_last_snoc. Qed.

Lemma lst_last_last (l : list nat) : l <> [] -> lst_last l = Some (last l 0).
Proof.
  intros H. destruct (exists_last H) as (l' & a & ->). rewrite lst_last_snoc, last_last. reflexivity.
Qed.

Lemma upd_nth_app {A} (l1 : list A) x l2 g :
  upd_nth (l1 ++ x :: l2) (length l1) g = bind (g x) (fun y => ret (l1 ++ y :: l2)).
Proof.
  induction l1 as [|a l1 IH]; cbn [app length upd_nth].
  - destruct (g x); reflexivity.
  - rewrite IH. destruct (g x); reflexivity.
Qed.

Lemma nth_error_app_mid {A} (l1 : list A) x l2 : nth_error (l1 ++ x :: l2) (length l1) = Some x.
Proof. rewrite nth_error_app2, Nat.sub_diag by lia. reflexivity. Qed.

Lemma nth_error_app_len {A} (l1 : list A) x l2 n : n = length l1 -> nth_error (l1 ++ x :: l2) n = Some x.
Proof. intros ->. apply nth_error_app_mid. Qed.

Lemma upd_nth_app_len {A} (l1 : list A) x l2 g n :
  n = length l1 -> upd_nth (l1 ++ x :: l2) n g = bind (g x) (fun y => ret (l1 ++ y :: l2)).
Proof. intros ->. apply upd_nth_app. Qed.

(* ====================================================================== *)
(* 1. create_bb (third pass)                                               *)
(* ====================================================================== *)
(* The block heap create_bb leaves behind, as a function of the model's raw blocks: block n holds the positions of
   raw block n, its next list is the default edge [n+1] iff the raw block has one, its prev list is [n-1] iff the
   preceding raw block has a default edge (these are the `dflt` parts of Cfg.raw_next and Cfg.prev_of). *)
Fixpoint raw_heap_from (pd : bool) (n : nat) (bs : list rawblock) : list block :=
  match bs with
  | [] => []
  | rb :: t => mkBlock n (rb_ins rb) (if rb_dflt rb then [S n] else []) (if pd then [pred n] else [])
               :: raw_heap_from (rb_dflt rb) (S n) t
  end.
Definition raw_heap (bs : list rawblock) : list block := raw_heap_from false 0 bs.

(* the instruction heap create_bb leaves behind: ins.bb is the block that contains the position *)
Fixpoint bb_assign_from (bs : list rawblock) (k : nat) (ih : ins_heap) : ins_heap :=
  match ih with
  | [] => []
  | o :: t => mkInsObj (io_next o) (io_prev o) (match block_of_pos bs k 0 with Some b => Some b | None => io_bb o end)
              :: bb_assign_from bs (S k) t
  end.
Definition bb_assign (bs : list rawblock) (ih : ins_heap) : ins_heap := bb_assign_from bs 0 ih.

Definition last_dflt (pd : bool) (bs : list rawblock) : bool := fold_left (fun _ rb => rb_dflt rb) bs pd.

Lemma raw_heap_from_length pd n bs : length (raw_heap_from pd n bs) = length bs.
Proof. revert pd n. induction bs as [|rb t IH]; intros pd n; cbn; [reflexivity|]. rewrite IH. reflexivity. Qed.

Lemma raw_heap_from_app pd n A B :
  raw_heap_from pd n (A ++ B) = raw_heap_from pd n A ++ raw_heap_from (last_dflt pd A) (n + length A) B.
Proof.
  revert pd n. induction A as [|a A IH]; intros pd n; cbn [app raw_heap_from length last_dflt fold_left].
  - rewrite Nat.add_0_r. reflexivity.
  - rewrite IH. replace (S n + length A) with (n + S (length A)) by lia. reflexivity.
Qed.

(* characterisation of raw_heap against the model *)
Lemma raw_heap_from_nth pd n0 bs n rb :
  nth_error bs n = Some rb ->
  nth_error (raw_heap_from pd n0 bs) n =
    Some (mkBlock (n0 + n) (rb_ins rb) (if rb_dflt rb then [S (n0 + n)] else [])
            (match n with
             | O => if pd then [pred n0] else []
             | S m => match nth_error bs m with Some b => if rb_dflt b then [n0 + m] else [] | None => [] end
             end)).
Proof.
  revert pd n0 n. induction bs as [|a bs IH]; intros pd n0 n H; [destruct n; discriminate|].
  destruct n as [|n]; cbn in H |- *.
  - injection H as <-. rewrite Nat.add_0_r. reflexivity.
  - rewrite (IH _ _ _ H). replace (S n0 + n) with (n0 + S n) by lia. f_equal. f_equal.
    destruct n as [|m]; cbn.
    + rewrite Nat.add_0_r. reflexivity.
    + replace (n0 + S m) with (S (n0 + m)) by lia. reflexivity.
Qed.

Theorem raw_heap_nth bs n rb :
  nth_error bs n = Some rb ->
  nth_error (raw_heap bs) n =
    Some (mkBlock n (rb_ins rb) (if rb_dflt rb then [S n] else [])
            (match n with
             | O => []
             | S m => match nth_error bs m with Some b => if rb_dflt b then [m] else [] | None => [] end
             end)).
Proof. intros H. unfold raw_heap. rewrite (raw_heap_from_nth _ _ _ _ _ H). destruct n; reflexivity. Qed.

Lemma raw_heap_length bs : length (raw_heap bs) = length bs.
Proof. apply raw_heap_from_length. Qed.

(* the heap with an open last block *)
Lemma raw_heap_snoc D c :
  raw_heap (D ++ [c]) =
  raw_heap D ++ [mkBlock (length D) (rb_ins c) (if rb_dflt c then [S (length D)] else [])
                         (if last_dflt false D then [pred (length D)] else [])].
Proof. unfold raw_heap. rewrite raw_heap_from_app. reflexivity. Qed.

Lemma last_dflt_snoc pd D c : last_dflt pd (D ++ [c]) = rb_dflt c.
Proof. unfold last_dflt. rewrite fold_left_app. reflexivity. Qed.

Lemma heap_instructions D c : bb_instructions (raw_heap (D ++ [c])) (length D) = Some (rb_ins c).
Proof.
  unfold bb_instructions. rewrite raw_heap_snoc.
  rewrite nth_error_app_len by (rewrite raw_heap_length; reflexivity). reflexivity.
Qed.

Lemma heap_add_instruction D l f k :
  bb_add_instruction (raw_heap (D ++ [mkRaw l f])) (length D) k = Some (raw_heap (D ++ [mkRaw (l ++ [k]) f])).
Proof.
  unfold bb_add_instruction. rewrite !raw_heap_snoc.
  rewrite upd_nth_app_len by (rewrite raw_heap_length; reflexivity). reflexivity.
Qed.

Lemma heap_new_fst X : fst (new_BasicBlock (raw_heap X)) = length X.
Proof. cbn. apply raw_heap_length. Qed.

(* closing the open block without an edge: `next_bb = BasicBlock()` *)
Lemma heap_close_plain D l :
  snd (new_BasicBlock (raw_heap (D ++ [mkRaw l false]))) = raw_heap (D ++ [mkRaw l false; mkRaw [] false]).
Proof.
  cbn [new_BasicBlock snd]. rewrite raw_heap_length.
  change (D ++ [mkRaw l false; mkRaw [] false]) with (D ++ [mkRaw l false] ++ [mkRaw [] false]).
  rewrite app_assoc, (raw_heap_snoc (D ++ [mkRaw l false])), last_dflt_snoc. reflexivity.
Qed.

(* closing it with the default edge: `next_bb = BasicBlock(); bb.add_next(next_bb); next_bb.add_prev(bb)` *)
Lemma heap_close_dflt D l :
  bind (bb_add_next (snd (new_BasicBlock (raw_heap (D ++ [mkRaw l false])))) (length D) (S (length D)))
       (fun h => bb_add_prev h (S (length D)) (length D))
  = Some (raw_heap (D ++ [mkRaw l true; mkRaw [] false])).
Proof.
  cbn [new_BasicBlock snd]. rewrite raw_heap_length.
  change (D ++ [mkRaw l true; mkRaw [] false]) with (D ++ [mkRaw l true] ++ [mkRaw [] false]).
  rewrite (app_assoc D), (raw_heap_snoc (D ++ [mkRaw l true])), last_dflt_snoc, !raw_heap_snoc.
  rewrite !app_length. cbn [length rb_ins rb_dflt]. rewrite Nat.add_1_r. cbn [pred].
  unfold bb_add_next. rewrite <- app_assoc. cbn [app].
  rewrite upd_nth_app_len by (rewrite raw_heap_length; reflexivity). cbn [bind ret b_idx b_ins b_next b_prev app].
  unfold bb_add_prev.
  match goal with |- upd_nth (?A ++ ?x :: ?y :: []) _ _ = _ =>
    change (A ++ x :: y :: []) with (A ++ [x] ++ y :: []); rewrite (app_assoc A [x]) end.
  rewrite upd_nth_app_len by (rewrite app_length, raw_heap_length; cbn; lia).
  cbn [bind ret b_idx b_ins b_next b_prev app]. rewrite <- app_assoc. reflexivity.
Qed.

(* ---------------------------------------------------------------- ins.bb *)
Lemma block_of_pos_app A B k n :
  block_of_pos (A ++ B) k n =
  match block_of_pos A k n with Some x => Some x | None => block_of_pos B k (n + length A) end.
Proof.
  revert n. induction A as [|a A IH]; intros n; cbn [app block_of_pos length].
  - rewrite Nat.add_0_r. reflexivity.
  - destruct (existsb (Nat.eqb k) (rb_ins a)); [reflexivity|]. rewrite IH.
    replace (S n + length A) with (n + S (length A)) by lia. reflexivity.
Qed.

Definition bounded (k : nat) (bs : list rawblock) : Prop :=
  forall rb j, In rb bs -> In j (rb_ins rb) -> j < k.

Lemma block_of_pos_fresh bs k n : bounded k bs -> block_of_pos bs k n = None.
Proof.
  revert n. induction bs as [|a bs IH]; intros n Hb; [reflexivity|]. cbn [block_of_pos].
  destruct (existsb (Nat.eqb k) (rb_ins a)) eqn:E.
  - apply existsb_exists in E. destruct E as (j & Hj & He). apply Nat.eqb_eq in He. subst j.
    specialize (Hb a k (or_introl eq_refl) Hj). lia.
  - apply IH. intros rb j Hrb Hj. apply (Hb rb j); [right; exact Hrb | exact Hj].
Qed.

Lemma bb_assign_from_ext bs1 bs2 :
  (forall k, block_of_pos bs1 k 0 = block_of_pos bs2 k 0) ->
  forall ih k0, bb_assign_from bs1 k0 ih = bb_assign_from bs2 k0 ih.
Proof. intros H. induction ih as [|o t IH]; intros k0; cbn; [reflexivity|]. rewrite H, IH. reflexivity. Qed.

Lemma bb_assign_from_next bs : forall ih k0 j,
  ins_attr_next (bb_assign_from bs k0 ih) j = ins_attr_next ih j.
Proof.
  unfold ins_attr_next. induction ih as [|o t IH]; intros k0 j; [destruct j; reflexivity|].
  destruct j as [|j]; cbn; [reflexivity|]. apply IH.
Qed.

Lemma bb_assign_from_agree bs1 bs2 : forall ih k1,
  (forall k, k1 <= k -> block_of_pos bs2 k 0 = block_of_pos bs1 k 0) ->
  bb_assign_from bs1 k1 ih = bb_assign_from bs2 k1 ih.
Proof.
  induction ih as [|o t IH]; intros k1 H; cbn; [reflexivity|].
  rewrite (H k1 (le_n _)). f_equal. apply IH. intros k Hk. apply H. lia.
Qed.

Lemma bb_assign_from_set bs1 bs2 b : forall ih k0 j,
  nth_error ih j <> None ->
  block_of_pos bs2 (k0 + j) 0 = Some b ->
  (forall j', j' <> j -> block_of_pos bs2 (k0 + j') 0 = block_of_pos bs1 (k0 + j') 0) ->
  set_ins_bb (bb_assign_from bs1 k0 ih) j b = Some (bb_assign_from bs2 k0 ih).
Proof.
  unfold set_ins_bb. induction ih as [|o t IH]; intros k0 j Hn Hb Ho; [destruct j; contradiction|].
  destruct j as [|j]; cbn [bb_assign_from upd_nth bind ret io_next io_prev].
  - rewrite Nat.add_0_r in Hb. rewrite Hb. unfold ret. apply f_equal. apply f_equal.
    apply bb_assign_from_agree. intros k Hk.
    specialize (Ho (k - k0) ltac:(lia)). replace (k0 + (k - k0)) with k in Ho by lia. exact Ho.
  - rewrite (IH (S k0) j).
    + cbn [bind ret]. specialize (Ho 0 ltac:(lia)) as H0. rewrite Nat.add_0_r in H0. rewrite H0. reflexivity.
    + exact Hn.
    + replace (S k0 + j) with (k0 + S j) by lia. exact Hb.
    + intros j' Hj. replace (S k0 + j') with (k0 + S j') by lia. apply Ho. lia.
Qed.

Lemma existsb_snoc_ne j k l : j <> k -> existsb (Nat.eqb j) (l ++ [k]) = existsb (Nat.eqb j) l.
Proof.
  intros H. rewrite existsb_app. cbn. apply Nat.eqb_neq in H. rewrite H. rewrite !orb_false_r. reflexivity.
Qed.

(* adding the instruction k to the open block *)
Lemma assign_add D l f k ih :
  bounded k (D ++ [mkRaw l f]) -> nth_error ih k <> None ->
  set_ins_bb (bb_assign (D ++ [mkRaw l f]) ih) k (length D) = Some (bb_assign (D ++ [mkRaw (l ++ [k]) f]) ih).
Proof.
  intros Hb Hn. unfold bb_assign. apply bb_assign_from_set; [exact Hn | |].
  - cbn [plus]. rewrite block_of_pos_app.
    rewrite block_of_pos_fresh by (intros rb j Hrb; apply Hb; apply in_or_app; left; exact Hrb).
    cbn [block_of_pos rb_ins plus]. rewrite existsb_app. cbn. rewrite Nat.eqb_refl, orb_true_r. reflexivity.
  - intros j' Hj. cbn [plus]. rewrite !block_of_pos_app. destruct (block_of_pos D j' 0); [reflexivity|].
    cbn [block_of_pos rb_ins]. rewrite existsb_snoc_ne by exact Hj. reflexivity.
Qed.

(* closing the open block does not change ins.bb *)
Lemma assign_close D l f f' ih :
  bb_assign (D ++ [mkRaw l f]) ih = bb_assign (D ++ [mkRaw l f'; mkRaw [] false]) ih.
Proof.
  unfold bb_assign. apply bb_assign_from_ext. intros k. rewrite !block_of_pos_app.
  destruct (block_of_pos D k 0); [reflexivity|]. cbn [block_of_pos rb_ins existsb].
  destruct (existsb (Nat.eqb k) l); reflexivity.
Qed.

Lemma bounded_add D l f k : bounded k (D ++ [mkRaw l f]) -> bounded (S k) (D ++ [mkRaw (l ++ [k]) f]).
Proof.
  intros H rb j Hrb Hj. apply in_app_or in Hrb. destruct Hrb as [Hrb|[<-|[]]].
  - specialize (H rb j (in_or_app _ _ _ (or_introl Hrb)) Hj). lia.
  - cbn in Hj. apply in_app_or in Hj. destruct Hj as [Hj|[<-|[]]]; [|lia].
    specialize (H (mkRaw l f) j ltac:(apply in_or_app; right; left; reflexivity) Hj). lia.
Qed.

Lemma bounded_close D l f f' k : bounded k (D ++ [mkRaw l f]) -> bounded k (D ++ [mkRaw l f'; mkRaw [] false]).
Proof.
  intros H rb j Hrb Hj. apply in_app_or in Hrb. destruct Hrb as [Hrb|[<-|[<-|[]]]].
  - exact (H rb j (in_or_app _ _ _ (or_introl Hrb)) Hj).
  - exact (H (mkRaw l f) j ltac:(apply in_or_app; right; left; reflexivity) Hj).
  - destruct Hj.
Qed.

Lemma heap_close_dflt_k {B} D l (K : block_heap -> py B) :
  bind (bb_add_next (snd (new_BasicBlock (raw_heap (D ++ [mkRaw l false])))) (length D) (S (length D)))
       (fun h => bind (bb_add_prev h (S (length D)) (length D)) K)
  = K (raw_heap (D ++ [mkRaw l true; mkRaw [] false])).
Proof.
  pose proof (heap_close_dflt D l) as H.
  destruct (bb_add_next (snd (new_BasicBlock (raw_heap (D ++ [mkRaw l false])))) (length D) (S (length D)));
    cbn [bind] in *; [rewrite H; reflexivity | discriminate].
Qed.

(* ---------------------------------------------------------------- the loop of create_bb *)
Definition cbb_body (p : prog) (instructions : list nat) :
  py (list nat * block_heap * ins_heap * nat) -> nat -> py (list nat * block_heap * ins_heap * nat) :=
  ltac:(let t := eval cbv beta delta [create_bb_gen] in (create_bb_gen p instructions [] [] []) in
        match t with context [fold_left ?F _ _] => exact F end).

Lemma create_bb_gen_unfold p instrs abs bh ih :
  create_bb_gen p instrs abs bh ih =
  bind (fold_left (cbb_body p instrs) instrs
          (ret (abs ++ [fst (new_BasicBlock bh)], snd (new_BasicBlock bh), ih, fst (new_BasicBlock bh))))
       (fun r => ret (fst (fst (fst r)), snd (fst (fst r)), snd (fst r))).
Proof. reflexivity. Qed.

(* the state of the loop of create_bb as a function of the model's scan state, in forward order:
   D = the closed raw blocks, l = the positions of the open block *)
Definition cbb_viewD (ih : ins_heap) (st : list rawblock * list nat) : list nat * block_heap * ins_heap * nat :=
  let bs := fst st ++ [mkRaw (snd st) false] in
  (seq 0 (S (length (fst st))), raw_heap bs, bb_assign bs ih, length (fst st)).
Definition cbb_view (ih : ins_heap) (st : list rawblock * list nat) : list nat * block_heap * ins_heap * nat :=
  cbb_viewD ih (rev (fst st), rev (snd st)).

Definition is_lbl (i : instr) : bool := match i with ILabel _ => true | _ => false end.
Definition is_cs (i : instr) : bool := match i with ICallsub _ => true | _ => false end.

(* scan_step in forward order *)
Definition phase1D (i : instr) (D : list rawblock) (l : list nat) : list rawblock * list nat :=
  if (is_lbl i && negb (Nat.eqb (length l) 0))%bool then (D ++ [mkRaw l true], []) else (D, l).
Definition restD (lastk k : nat) (i : instr) (nnext : nat) (D : list rawblock) (l : list nat) : list rawblock * list nat :=
  let l2 := l ++ [k] in
  if (Nat.ltb 1 nnext || is_cs i)%bool then
    if Nat.eqb k lastk then (D, l2) else (D ++ [mkRaw l2 true], [])
  else if (Nat.eqb nnext 0 || is_b i)%bool then
    if Nat.eqb k lastk then (D, l2) else (D ++ [mkRaw l2 false], [])
  else (D, l2).

Lemma scan_step_D p lastk done cur k i n :
  (rev (fst (scan_step p lastk (done, cur) k i n)), rev (snd (scan_step p lastk (done, cur) k i n))) =
  restD lastk k i n (fst (phase1D i (rev done) (rev cur))) (snd (phase1D i (rev done) (rev cur))).
Proof.
  rewrite scan_step_eq. unfold phase1D, restD.
  assert (E : phase1 done cur i = if (is_lbl i && negb (Nat.eqb (length (rev cur)) 0))%bool
                                  then (mkRaw (rev cur) true :: done, []) else (done, cur)).
  { rewrite rev_length. destruct i; destruct cur; reflexivity. }
  rewrite E. change (match i with ICallsub _ => true | _ => false end) with (is_cs i).
  destruct (is_lbl i && negb (Nat.eqb (length (rev cur)) 0))%bool; cbn [fst snd];
    destruct (Nat.ltb 1 n || is_cs i)%bool; destruct (Nat.eqb n 0 || is_b i)%bool; destruct (Nat.eqb k lastk);
    reflexivity.
Qed.

(* the facts about Instruction.next the two tests of create_bb rely on *)
Lemma next_len_facts p k i nx :
  op_at p k = Some i -> ins_next p k = Some nx -> k <> pred (length p) -> k < length p ->
  (Nat.ltb 1 (length nx) || is_cs i)%bool = true -> (Nat.eqb (length nx) 0 || is_b i)%bool = false.
Proof.
  intros Hop Hn Hl Hk. unfold ins_next in Hn. rewrite Hop in Hn.
  destruct (map_opt (find_label p) (jump_labels i)) as [js|] eqn:Ej; [|discriminate].
  injection Hn as <-. apply map_opt_spec in Ej. destruct Ej as [Hlen _].
  assert (Hlt : Nat.ltb (S k) (length p) = true) by (apply Nat.ltb_lt; lia).
  rewrite Hlt, app_length, Hlen. rewrite andb_true_r.
  destruct i; cbn; try discriminate; intros _; reflexivity || (destruct (length ls); reflexivity).
Qed.

Lemma bind_some {A B} (a : A) (f : A -> py B) : bind (Some a) f = f a.
Proof. reflexivity. Qed.

Ltac zeta_let :=
  lazymatch goal with |- (let x := ?v in @?B x) = ?R =>
    let v' := eval cbn [fst snd] in v in let t := eval cbv beta in (B v') in change (t = R) end.
Ltac name_let k :=
  lazymatch goal with |- (let x := ?v in @?B x) = ?R =>
    pose (k := v); let t := eval cbv beta in (B k) in change (t = R) end.

Lemma cbb_step p ih done cur k i nx :
  op_at p k = Some i -> ins_next p k = Some nx -> ins_attr_next ih k = Some nx -> k < length p ->
  bounded k (rev done ++ [mkRaw (rev cur) false]) ->
  cbb_body p (seq 0 (length p)) (Some (cbb_view ih (done, cur))) k =
    Some (cbb_view ih (scan_step p (pred (length p)) (done, cur) k i (length nx))).
Proof.
  intros Hop Hnx Hih Hk Hb.
  unfold cbb_view at 2. rewrite scan_step_D.
  assert (Hlast : lst_last (seq 0 (length p)) = Some (pred (length p))).
  { destruct (length p) as [|n] eqn:E; [lia|]. apply lst_last_seq. }
  cbv beta delta [cbb_body cbb_view cbb_viewD]. rewrite bind_some. cbv beta.
  do 4 zeta_let. name_let k1.
  set (lastk := pred (length p)) in *. set (n := length nx).
  assert (Hk1 : forall D l, bounded k (D ++ [mkRaw l false]) ->
            bb_assign (D ++ [mkRaw l false]) ih = bb_assign (rev done ++ [mkRaw (rev cur) false]) ih ->
            k1 (seq 0 (S (length D))) (raw_heap (D ++ [mkRaw l false])) (length D)
            = Some (cbb_viewD ih (restD lastk k i n D l))).
  { intros D l HbD Has. subst k1. cbv beta.
    rewrite heap_add_instruction, bind_some. cbv beta.
    rewrite <- Has, assign_add; [|exact HbD|].
    2:{ unfold ins_attr_next in Hih. destruct (nth_error ih k); discriminate. }
    rewrite bind_some. cbv beta. name_let k2.
    set (ih2 := bb_assign (D ++ [mkRaw (l ++ [k]) false]) ih) in *.
    assert (Hn2 : ins_attr_next ih2 k = Some nx).
    { unfold ih2, bb_assign. rewrite bb_assign_from_next. exact Hih. }
    assert (Hk2 : forall A H b, k2 A H b =
              Some (if (Nat.eqb n 0 || is_b i)%bool then
                      if Nat.eqb k lastk then (A, H, ih2, b)
                      else (A ++ [fst (new_BasicBlock H)], snd (new_BasicBlock H), ih2, fst (new_BasicBlock H))
                    else (A, H, ih2, b))).
    { intros A H b. subst k2. cbv beta. unfold ins_class. rewrite Hn2, Hop, Hlast. cbn [bind ret].
      change (match i with IB _ => true | _ => false end) with (is_b i). fold n.
      destruct (Nat.eqb n 0); destruct (is_b i); cbn [orE ifE orb ret]; destruct (Nat.eqb k lastk); reflexivity. }
    unfold ins_class. rewrite Hn2, Hop, Hlast. cbn [bind ret].
    change (match i with ICallsub _ => true | _ => false end) with (is_cs i). fold n.
    unfold restD.
    assert (Hc : orE (ret (Nat.ltb 1 n)) (ret (is_cs i)) = Some (Nat.ltb 1 n || is_cs i)%bool).
    { destruct (Nat.ltb 1 n); reflexivity. }
    rewrite Hc. clear Hc.
    destruct (Nat.ltb 1 n || is_cs i)%bool eqn:Ec1; cbn [ifE].
    - destruct (Nat.eqb k lastk) eqn:El; cbn [ifE].
      + reflexivity.
      + cbv zeta. rewrite heap_new_fst, app_length. cbn [length]. rewrite Nat.add_1_r.
        rewrite heap_close_dflt_k. rewrite Hk2.
        assert (Hc2 : (Nat.eqb n 0 || is_b i)%bool = false).
        { apply (next_len_facts p k i nx Hop Hnx); [apply Nat.eqb_neq; exact El | exact Hk | exact Ec1]. }
        rewrite Hc2.
        unfold cbb_viewD. cbn [fst snd]. rewrite app_length. cbn [length]. rewrite Nat.add_1_r.
        rewrite <- seq_S. rewrite <- app_assoc. cbn [app].
        unfold ih2. rewrite (assign_close D (l ++ [k]) false true). reflexivity.
    - rewrite Hk2. destruct (Nat.eqb n 0 || is_b i)%bool.
      + destruct (Nat.eqb k lastk); [reflexivity|].
        rewrite heap_new_fst, app_length. cbn [length]. rewrite Nat.add_1_r.
        rewrite heap_close_plain.
        unfold cbb_viewD. cbn [fst snd]. rewrite app_length. cbn [length]. rewrite Nat.add_1_r.
        rewrite <- seq_S. rewrite <- app_assoc. cbn [app].
        unfold ih2. rewrite (assign_close D (l ++ [k]) false false). reflexivity.
      + reflexivity. }
  unfold ins_class. rewrite Hop, heap_instructions. cbn [bind ret rb_ins].
  change (match i with ILabel _ => true | _ => false end) with (is_lbl i).
  unfold phase1D.
  assert (Hc : andE (ret (is_lbl i)) (ret (negb (Nat.eqb (length (rev cur)) 0)))
               = Some (is_lbl i && negb (Nat.eqb (length (rev cur)) 0))%bool).
  { destruct (is_lbl i); reflexivity. }
  rewrite Hc. clear Hc.
  destruct (is_lbl i && negb (Nat.eqb (length (rev cur)) 0))%bool; cbn [ifE fst snd].
  - cbv zeta. rewrite heap_new_fst, app_length. cbn [length]. rewrite Nat.add_1_r.
    rewrite heap_close_dflt_k.
    rewrite <- seq_S.
    specialize (Hk1 (rev done ++ [mkRaw (rev cur) true]) []).
    rewrite app_length in Hk1. cbn [length] in Hk1. rewrite Nat.add_1_r in Hk1.
    rewrite <- app_assoc in Hk1. cbn [app] in Hk1. apply Hk1.
    + apply (bounded_close _ _ false true). exact Hb.
    + symmetry. apply assign_close.
  - apply Hk1; [exact Hb | reflexivity].
Qed.

Lemma upd_nth_none {A} (l : list A) n g : nth_error l n = None -> upd_nth l n g = None.
Proof.
  revert n. induction l as [|x l IH]; intros n H; [destruct n; reflexivity|].
  destruct n as [|n]; [discriminate|]. cbn in H |- *. rewrite (IH _ H). reflexivity.
Qed.

Lemma bb_assign_from_nth_none bs : forall ih k0 j, nth_error ih j = None -> nth_error (bb_assign_from bs k0 ih) j = None.
Proof.
  induction ih as [|o t IH]; intros k0 j H; [destruct j; reflexivity|].
  destruct j as [|j]; [discriminate|]. cbn in H |- *. apply IH. exact H.
Qed.

Lemma cbb_step_none p ih done cur k i :
  op_at p k = Some i -> ins_attr_next ih k = None ->
  cbb_body p (seq 0 (length p)) (Some (cbb_view ih (done, cur))) k = None.
Proof.
  intros Hop Hih.
  assert (Hn : nth_error ih k = None).
  { unfold ins_attr_next in Hih. destruct (nth_error ih k); [discriminate | reflexivity]. }
  cbv beta delta [cbb_body cbb_view cbb_viewD]. rewrite bind_some. cbv beta.
  do 4 zeta_let. name_let k1.
  assert (Hk1 : forall A D l, k1 A (raw_heap (D ++ [mkRaw l false])) (length D) = None).
  { intros A D l. subst k1. cbv beta. rewrite heap_add_instruction, bind_some. cbv beta.
    unfold set_ins_bb. rewrite upd_nth_none; [reflexivity|]. apply bb_assign_from_nth_none. exact Hn. }
  unfold ins_class. rewrite Hop, heap_instructions. cbn [bind ret rb_ins].
  destruct (match i with ILabel _ => true | _ => false end); cbn [andE ret];
    [destruct (negb (Nat.eqb (length (rev cur)) 0))|]; cbn [ifE].
  - cbv zeta. rewrite heap_new_fst, app_length. cbn [length]. rewrite Nat.add_1_r.
    rewrite heap_close_dflt_k.
    specialize (Hk1 (seq 0 (S (length (rev done))) ++ [S (length (rev done))]) (rev done ++ [mkRaw (rev cur) true]) []).
    rewrite app_length in Hk1. cbn [length] in Hk1. rewrite Nat.add_1_r in Hk1.
    rewrite <- app_assoc in Hk1. exact Hk1.
  - apply Hk1.
  - apply Hk1.
Qed.

Lemma bounded_step p lastk done cur k i n :
  bounded k (rev done ++ [mkRaw (rev cur) false]) ->
  bounded (S k) (rev (fst (scan_step p lastk (done, cur) k i n)) ++
                 [mkRaw (rev (snd (scan_step p lastk (done, cur) k i n))) false]).
Proof.
  intros Hb. pose proof (scan_step_D p lastk done cur k i n) as E.
  pose proof (f_equal fst E) as E1. pose proof (f_equal snd E) as E2. cbn [fst snd] in E1, E2.
  rewrite E1, E2. clear E E1 E2.
  assert (H1 : bounded k (fst (phase1D i (rev done) (rev cur)) ++ [mkRaw (snd (phase1D i (rev done) (rev cur))) false])).
  { unfold phase1D. destruct (is_lbl i && negb (Nat.eqb (length (rev cur)) 0))%bool; cbn [fst snd]; [|exact Hb].
    rewrite <- app_assoc. apply (bounded_close _ _ false true). exact Hb. }
  revert H1. generalize (fst (phase1D i (rev done) (rev cur))) (snd (phase1D i (rev done) (rev cur))).
  intros D l H1. apply bounded_add in H1. unfold restD.
  destruct (Nat.ltb 1 n || is_cs i)%bool; [|destruct (Nat.eqb n 0 || is_b i)%bool];
    destruct (Nat.eqb k lastk); cbn [fst snd]; try exact H1;
    rewrite <- app_assoc; eapply bounded_close; exact H1.
Qed.

Lemma cbb_body_none p L k : cbb_body p L None k = None.
Proof. reflexivity. Qed.

Lemma cbb_fold p ih :
  (forall k, k < length p -> ins_attr_next ih k = ins_next p k) ->
  forall rest pre done cur, p = pre ++ rest ->
    bounded (length pre) (rev done ++ [mkRaw (rev cur) false]) ->
    fold_left (cbb_body p (seq 0 (length p))) (seq (length pre) (length rest)) (Some (cbb_view ih (done, cur)))
    = option_map (cbb_view ih) (scan p (pred (length p)) rest (length pre) (done, cur)).
Proof.
  intros Hih. induction rest as [|a rest IH]; intros pre done cur Hp Hb; [reflexivity|].
  cbn [length seq fold_left scan].
  assert (Hk : length pre < length p) by (rewrite Hp, app_length; cbn; lia).
  assert (Hop : op_at p (length pre) = Some (i_op a)).
  { unfold op_at. rewrite Hp at 1. rewrite nth_error_app2, Nat.sub_diag by lia. reflexivity. }
  specialize (Hih _ Hk) as Hn.
  destruct (ins_next p (length pre)) as [nx|] eqn:Hnx.
  - rewrite (cbb_step p ih done cur _ _ nx Hop Hnx Hn Hk Hb).
    pose proof (bounded_step p (pred (length p)) done cur (length pre) (i_op a) (length nx) Hb) as Hb'.
    destruct (scan_step p (pred (length p)) (done, cur) (length pre) (i_op a) (length nx)) as [d1 c1].
    cbn [fst snd] in Hb'.
    assert (El : length (pre ++ [a]) = S (length pre)) by (rewrite app_length; cbn; lia).
    rewrite <- El. apply IH; [rewrite <- app_assoc; exact Hp | rewrite El; exact Hb'].
  - rewrite (cbb_step_none p ih done cur _ _ Hop Hn). apply fold_bind_none. intros x. apply cbb_body_none.
Qed.

Lemma insobj_eta o : mkInsObj (io_next o) (io_prev o) (io_bb o) = o.
Proof. destruct o; reflexivity. Qed.

Lemma bb_assign_empty ih : bb_assign [mkRaw [] false] ih = ih.
Proof.
  unfold bb_assign. generalize 0. induction ih as [|o t IH]; intros k; cbn; [reflexivity|].
  rewrite IH, insobj_eta. reflexivity.
Qed.

(* THEOREM 1: for every instruction list and every instruction heap whose `next` lists are the model's ins_next
   (or are undefined where ins_next is: an unresolved label), create_bb run on the Instruction objects
   0 .. length p - 1 with an empty all_bbs and an empty block heap returns: all_bbs = the addresses 0 .. n-1 in
   order, block heap = raw_heap of the model's raw blocks, instruction heap = the initial one with ins.bb set to
   the block that contains the position; and it raises an exception exactly when the model's create_bb is None. *)
Theorem create_bb_gen_eq p ih :
  (forall k, k < length p -> ins_attr_next ih k = ins_next p k) ->
  create_bb_gen p (seq 0 (length p)) [] [] ih =
  option_map (fun bs => (seq 0 (length bs), raw_heap bs, bb_assign bs ih)) (create_bb p).
Proof.
  intros Hih. rewrite create_bb_gen_unfold. cbn [new_BasicBlock fst snd length app].
  pose proof (cbb_fold p ih Hih p [] [] [] eq_refl) as H. cbn [length] in H.
  unfold cbb_view at 1, cbb_viewD in H. cbn [fst snd rev app length] in H.
  change (raw_heap [mkRaw [] false]) with [mkBlock 0 [] [] []] in H. change (seq 0 1) with [0] in H.
  rewrite bb_assign_empty in H. specialize (H ltac:(intros rb j [<-|[]] [])).
  match goal with |- bind ?X _ = _ =>
    assert (HX : X = option_map (cbb_view ih) (scan p (pred (length p)) p 0 ([], []))) by exact H; rewrite HX end.
  unfold create_bb. destruct (scan p (pred (length p)) p 0 ([], [])) as [[done cur]|]; [|reflexivity].
  cbn [option_map bind]. unfold cbb_view, cbb_viewD. cbn [fst snd option_map rev].
  rewrite app_length. cbn [length]. rewrite Nat.add_1_r. reflexivity.
Qed.

Lemma raw_heap_from_ins pd n bs : map b_ins (raw_heap_from pd n bs) = map rb_ins bs.
Proof. revert pd n. induction bs as [|rb t IH]; intros pd n; cbn; [reflexivity|]. rewrite IH. reflexivity. Qed.

(* TRANSPORTED (CfgLemmas.blocks_partition, blocks_nonempty): the blocks the generated create_bb builds partition the
   instruction list, in order, and none is empty; all_bbs lists them in creation order *)
Theorem create_bb_gen_partition p ih all_bbs bh ih' :
  (forall k, k < length p -> ins_attr_next ih k = ins_next p k) -> p <> [] ->
  create_bb_gen p (seq 0 (length p)) [] [] ih = Some (all_bbs, bh, ih') ->
  concat (map b_ins bh) = seq 0 (length p) /\ all_bbs = seq 0 (length bh) /\
  (forall b, In b bh -> b_ins b <> []) /\ map io_next ih' = map io_next ih.
Proof.
  intros Hih Hne H. rewrite (create_bb_gen_eq p ih Hih) in H.
  destruct (create_bb p) as [bs|] eqn:Hc; [|discriminate]. cbn in H. injection H as <- <- <-.
  split; [|split; [|split]].
  - unfold raw_heap. rewrite raw_heap_from_ins. exact (blocks_partition p bs Hc Hne).
  - rewrite raw_heap_length. reflexivity.
  - intros b Hb. assert (Hi : In (b_ins b) (map rb_ins bs)).
    { unfold raw_heap in Hb. rewrite <- (raw_heap_from_ins false 0). apply in_map. exact Hb. }
    apply in_map_iff in Hi. destruct Hi as (rb & <- & Hrb). exact (blocks_nonempty p bs Hc Hne rb Hrb).
  - clear. unfold bb_assign. generalize 0. induction ih as [|o t IH]; intros k; cbn; [reflexivity|].
    rewrite IH. reflexivity.
Qed.

(* ====================================================================== *)
(* 2. identify_subroutine_blocks (DFS with an explicit stack)              *)
(* ====================================================================== *)
(* the block heap is the model's block list: address = position *)
Lemma lst_mem_nat_mem x l : lst_mem x l = nat_mem x l.
Proof. reflexivity. Qed.

(* the successor loop: `for next_bb in bb.next: if next_bb not in subroutines_blocks and next_bb not in stack: ..` *)
Lemma dfs_push_fold visited : forall l stack,
  fold_left (fun acc next_bb => bind acc (fun st =>
               if (negb (lst_mem next_bb visited) && negb (lst_mem next_bb st))%bool then ret (st ++ [next_bb]) else ret st))
    l (ret stack) = Some (fold_left (push_new visited) l stack).
Proof.
  induction l as [|x l IH]; intros stack; [reflexivity|]. cbn [fold_left].
  replace (bind (ret stack) (fun st => if (negb (lst_mem x visited) && negb (lst_mem x st))%bool then ret (st ++ [x]) else ret st))
    with (ret (push_new visited stack x)).
  - apply IH.
  - unfold push_new, ret, bind, lst_mem, nat_mem.
    destruct (existsb (Nat.eqb x) visited); destruct (existsb (Nat.eqb x) stack); reflexivity.
Qed.

Lemma dfs_blocks_push fuel bs stack visited :
  dfs_blocks (S fuel) bs stack visited =
  match stack with
  | [] => visited
  | _ => dfs_blocks fuel bs (fold_left (push_new (visited ++ [last stack 0])) (next_of bs (last stack 0)) (removelast stack))
                    (visited ++ [last stack 0])
  end.
Proof. reflexivity. Qed.

Lemma loop_gen_step fuel e bs visited s1 bb :
  identify_subroutine_blocks_loop_gen (S fuel) e bs visited (s1 ++ [bb]) =
  bind (bb_next bs bb) (fun nx =>
    identify_subroutine_blocks_loop_gen fuel e bs (visited ++ [bb]) (fold_left (push_new (visited ++ [bb])) nx s1)).
Proof.
  cbn [identify_subroutine_blocks_loop_gen].
  assert (Hl : Nat.ltb 0 (length (s1 ++ [bb])) = true) by (apply Nat.ltb_lt; rewrite app_length; cbn; lia).
  rewrite Hl, lst_last_snoc, removelast_last. cbn [bind].
  destruct (bb_next bs bb) as [nx|]; [|reflexivity]. cbn [bind].
  rewrite dfs_push_fold. reflexivity.
Qed.

Lemma loop_gen_nil fuel e bs visited :
  identify_subroutine_blocks_loop_gen (S fuel) e bs visited [] = Some (Some (visited, [])).
Proof. reflexivity. Qed.

Lemma bb_next_next_of bs b nx : bb_next bs b = Some nx -> next_of bs b = nx.
Proof.
  unfold bb_next, next_of, get_block. destruct (nth_error bs b); cbn; [intros H; injection H as <-; reflexivity | discriminate].
Qed.

(* 2a. weakest form: whenever the generated loop terminates within its budget, without exception, it returns what the
   model's dfs_blocks returns with the same fuel, and the stack is empty; no hypothesis on the block list *)
Theorem identify_loop_gen_sound : forall fuel e bs visited stack v' s',
  identify_subroutine_blocks_loop_gen fuel e bs visited stack = Some (Some (v', s')) ->
  s' = [] /\ dfs_blocks fuel bs stack visited = v'.
Proof.
  induction fuel as [|f IH]; intros e bs visited stack v' s' H; [discriminate|].
  destruct stack as [|x t] eqn:Es.
  - rewrite loop_gen_nil in H. injection H as <- <-. split; reflexivity.
  - assert (Hne : x :: t <> []) by discriminate.
    destruct (exists_last Hne) as (s1 & bb & E). rewrite E in *.
    rewrite loop_gen_step in H. destruct (bb_next bs bb) as [nx|] eqn:Hn; [|discriminate]. cbn [bind] in H.
    rewrite dfs_step, (bb_next_next_of _ _ _ Hn). apply (IH _ _ _ _ _ _ H).
Qed.

Theorem identify_subroutine_blocks_gen_sound fuel e bs r :
  identify_subroutine_blocks_gen fuel e bs = Some (Some r) -> dfs_blocks fuel bs [e] [] = r.
Proof.
  unfold identify_subroutine_blocks_gen. cbn [app].
  destruct (identify_subroutine_blocks_loop_gen fuel e bs [] [e]) as [[[v s]|]|] eqn:H; cbn; try discriminate.
  intros E. injection E as <-. apply (identify_loop_gen_sound _ _ _ _ _ _ _ H).
Qed.

(* 2b. when the successors stay inside the block list (true of build_blocks: CfgLemmas.next_in_range), the loop
   raises no exception and does not exhaust the model's budget *)
Lemma identify_loop_gen_total bs e :
  (forall a b, In b (next_of bs a) -> b < length bs) -> e < length bs ->
  forall fuel stack visited, dinv bs e stack visited -> length bs < fuel + length visited ->
    identify_subroutine_blocks_loop_gen fuel e bs visited stack = Some (Some (dfs_blocks fuel bs stack visited, [])).
Proof.
  intros Hrange He. induction fuel as [|f IH]; intros stack visited Hinv Hfuel.
  - exfalso. cbn in Hfuel.
    assert (length visited <= length bs); [|lia].
    apply NoDup_bounded_length; [apply (d_ndv _ _ _ _ Hinv)|].
    intros x Hx. eapply Reach_lt; eauto. apply (d_reach _ _ _ _ Hinv). left; assumption.
  - destruct stack as [|x t] eqn:Es; [reflexivity|].
    assert (Hne : x :: t <> []) by discriminate.
    destruct (exists_last Hne) as (s1 & bb & E). rewrite E in *.
    rewrite loop_gen_step, dfs_step.
    assert (Hbb : bb < length bs).
    { eapply Reach_lt; eauto. apply (d_reach _ _ _ _ Hinv). right. apply in_or_app. right. left. reflexivity. }
    assert (Hn : bb_next bs bb = Some (next_of bs bb)).
    { unfold bb_next, next_of, get_block. destruct (nth_error bs bb) eqn:En; [reflexivity|].
      apply nth_error_None in En. lia. }
    rewrite Hn. cbn [bind]. apply IH.
    + apply dinv_step. exact Hinv.
    + rewrite app_length. cbn. lia.
Qed.

(* THEOREM 2: on a block list whose successors are in range, the generated identify_subroutine_blocks, run with the
   model's budget S (length bs), is the model's identify_subroutine_blocks *)
Theorem identify_subroutine_blocks_gen_eq bs e :
  (forall a b, In b (next_of bs a) -> b < length bs) -> e < length bs ->
  identify_subroutine_blocks_gen (S (length bs)) e bs = Some (Some (identify_subroutine_blocks bs e)).
Proof.
  intros Hrange He. unfold identify_subroutine_blocks_gen, identify_subroutine_blocks. cbn [app].
  rewrite (identify_loop_gen_total bs e Hrange He (S (length bs)) [e] []); [reflexivity| |cbn; lia].
  constructor; cbn; try tauto.
  - constructor.
  - constructor; [intros [] | constructor].
  - intros x [[]|[<-|[]]]. constructor.
Qed.

Theorem identify_subroutine_blocks_gen_eq_build p bs e :
  build_blocks p = Some bs -> e < length bs ->
  identify_subroutine_blocks_gen (S (length bs)) e bs = Some (Some (identify_subroutine_blocks bs e)).
Proof. intros H He. apply identify_subroutine_blocks_gen_eq; [|exact He]. intros a b. apply (next_of_range p bs a b H). Qed.

(* TRANSPORTED (SubLemmas.dfs_reach): the list the generated DFS returns is exactly the set of blocks reachable from
   the entry along b_next, without duplicates *)
Theorem identify_subroutine_blocks_gen_reach p bs e r :
  build_blocks p = Some bs -> e < length bs ->
  identify_subroutine_blocks_gen (S (length bs)) e bs = Some (Some r) ->
  (forall x, In x r <-> Reach bs e x) /\ NoDup r.
Proof.
  intros H He Hr. rewrite (identify_subroutine_blocks_gen_eq_build p bs e H He) in Hr. injection Hr as <-.
  exact (dfs_reach p bs e H He).
Qed.

(* ====================================================================== *)
(* 3. The pruning loop of parse_teal                                       *)
(* ====================================================================== *)
(* ---------------------------------------------------------------- well-formedness of the model's block list *)
Record wf_blocks (bs : list block) : Prop := {
  wf_idx : forall n b, nth_error bs n = Some b -> b_idx b = n;
  wf_next_range : forall n b m, nth_error bs n = Some b -> In m (b_next b) -> m < length bs;
  wf_prev_range : forall n b m, nth_error bs n = Some b -> In m (b_prev b) -> m < length bs;
  wf_next_nodup : forall n b, nth_error bs n = Some b -> NoDup (b_next b);
  wf_prev_nodup : forall n b, nth_error bs n = Some b -> NoDup (b_prev b);
  wf_mirror : forall n m b b', nth_error bs n = Some b -> nth_error bs m = Some b' ->
                (In m (b_next b) <-> In n (b_prev b')) }.

Lemma jumps_sorted (c : nat -> list nat -> bool) : forall nexts a,
  let l := flat_map (fun '(m, nx) => if c m nx then [m] else []) (combine (seq a (length nexts)) nexts) in
  NoDup l /\ forall y, In y l -> a <= y.
Proof.
  induction nexts as [|x t IH]; intros a; cbn [length seq combine flat_map].
  - split; [constructor | intros y []].
  - destruct (IH (S a)) as [Hnd Hge]. destruct (c a x); cbn [app].
    + split.
      * constructor; [|exact Hnd]. intros Hin. specialize (Hge _ Hin). lia.
      * intros y [<-|Hy]; [lia|]. specialize (Hge _ Hy). lia.
    + split; [exact Hnd|]. intros y Hy. specialize (Hge _ Hy). lia.
Qed.

Lemma prev_of_NoDup bs nexts n :
  (forall m rb nx, n = S m -> nth_error bs m = Some rb -> rb_dflt rb = true -> nth_error nexts m = Some nx -> ~ In n (tl nx)) ->
  NoDup (prev_of bs nexts n).
Proof.
  intros H.
  assert (Hj : NoDup (flat_map (fun '(m, nx) =>
                 if nat_mem n (match nth_error bs m with Some b => if rb_dflt b then tl nx else nx | None => nx end)
                 then [m] else []) (combine (seq 0 (length nexts)) nexts))).
  { apply (jumps_sorted (fun m nx => nat_mem n (match nth_error bs m with Some b => if rb_dflt b then tl nx else nx | None => nx end)) nexts 0). }
  unfold prev_of in *.
  destruct n as [|m]; [exact Hj|].
  destruct (nth_error bs m) as [rb|] eqn:Erb; [|exact Hj].
  destruct (rb_dflt rb) eqn:Ed; [|exact Hj].
  cbn [app]. constructor; [|exact Hj]. intros Hm.
  apply in_flat_map in Hm. destruct Hm as ((m0 & nx) & Hc & Hx).
  apply In_nth_error in Hc. destruct Hc as (j & Hj').
  rewrite nth_error_combine, nth_error_seq' in Hj'.
  destruct (Nat.ltb j (length nexts)); [|discriminate].
  destruct (nth_error nexts j) as [nx'|] eqn:Enx; [|discriminate].
  cbn in Hj'. injection Hj' as <- <-.
  match type of Hx with In _ (if ?c then _ else _) => destruct c eqn:Hmem end; [|destruct Hx].
  destruct Hx as [<-|[]]. rewrite Erb, Ed in Hmem. apply nat_mem_In in Hmem.
  exact (H j rb nx' eq_refl Erb Ed Enx Hmem).
Qed.

Theorem build_blocks_wf p bs : build_blocks p = Some bs -> wf_blocks bs.
Proof.
  intros H. destruct (build_blocks_spec p bs H) as (rbs & nexts & Hc & Hrn & Hln & Hl & Hn).
  constructor.
  - intros n b Hb. exact (idx_is_position p bs n b H Hb).
  - intros n b m Hb Hm. exact (next_in_range p bs b m H (nth_error_In _ _ Hb) Hm).
  - intros n b m Hb Hm. destruct (Hn n b Hb) as (rb & nx & Hrb & Hnx & Hr & E). subst b. cbn in Hm.
    apply prev_of_In in Hm. destruct Hm as [(-> & _)|(nx' & Hnx' & _)].
    + assert (S m < length rbs) by (apply nth_error_Some; congruence). lia.
    + assert (m < length nexts) by (apply nth_error_Some; congruence). lia.
  - intros n b Hb. exact (next_nodup p bs b H (nth_error_In _ _ Hb)).
  - intros n b Hb. destruct (Hn n b Hb) as (rb & nx & Hrb & Hnx & Hr & E). subst b. cbn.
    apply prev_of_NoDup. intros m rb' nx' -> Hrb' Hd Hnx'.
    assert (Hm : m < length bs) by (rewrite Hl; apply nth_error_Some; congruence).
    destruct (nth_error bs m) as [bm|] eqn:Ebm; [|apply nth_error_None in Ebm; lia].
    destruct (Hn m bm Ebm) as (rb2 & nx2 & Hrb2 & Hnx2 & Hr2 & E2).
    assert (rb2 = rb') by congruence. assert (nx2 = nx') by congruence. subst rb2 nx2.
    destruct (raw_next_spec _ _ _ _ _ Hr2) as (_ & inx & tb & _ & _ & Enx).
    rewrite Hd in Enx. destruct (add_new_app tb [S m]) as (ys & Eys).
    assert (Hnd : NoDup nx').
    { rewrite Enx. apply add_new_NoDup. constructor; [intros [] | constructor]. }
    rewrite Enx, Eys in Hnd |- *. cbn [app tl] in *. inversion Hnd; assumption.
  - intros n m b b' Hb Hb'.
    pose proof (next_prev_mirror p bs b b' H (nth_error_In _ _ Hb) (nth_error_In _ _ Hb')) as Hm.
    rewrite (idx_is_position p bs n b H Hb), (idx_is_position p bs m b' H Hb') in Hm. exact Hm.
Qed.

(* ---------------------------------------------------------------- generic: monadic folds, pointwise heaps *)
Fixpoint foldM {S X : Type} (F : S -> X -> py S) (l : list X) (s : S) : py S :=
  match l with [] => Some s | x :: t => bind (F s x) (foldM F t) end.

Lemma fold_left_bind {S X : Type} (F : S -> X -> py S) (l : list X) (s : S) :
  fold_left (fun acc x => bind acc (fun st => F st x)) l (ret s) = foldM F l s.
Proof.
  revert s. induction l as [|x t IH]; intros s; [reflexivity|]. cbn [fold_left foldM]. unfold ret at 1. cbn [bind].
  destruct (F s x) as [s'|]; cbn [bind]; [apply IH|]. apply fold_bind_none. reflexivity.
Qed.

Lemma nth_error_ext {A} : forall (l1 l2 : list A), (forall j, nth_error l1 j = nth_error l2 j) -> l1 = l2.
Proof.
  induction l1 as [|a l1 IH]; intros l2 H.
  - destruct l2 as [|b l2]; [reflexivity|]. specialize (H 0). discriminate.
  - destruct l2 as [|b l2]; [specialize (H 0); discriminate|].
    pose proof (H 0) as H0. cbn in H0. injection H0 as ->. f_equal. apply IH. intros j. exact (H (S j)).
Qed.

Lemma upd_nth_some {A} (g : A -> py A) : forall (l : list A) n x y,
  nth_error l n = Some x -> g x = Some y ->
  exists l', upd_nth l n g = Some l' /\
             forall j, nth_error l' j = if Nat.eqb j n then Some y else nth_error l j.
Proof.
  induction l as [|a l IH]; intros n x y Hn Hg; [destruct n; discriminate|].
  destruct n as [|n]; cbn in Hn.
  - injection Hn as ->. exists (y :: l). cbn [upd_nth]. rewrite Hg. split; [reflexivity|].
    intros [|j]; reflexivity.
  - destruct (IH n x y Hn Hg) as (l' & Hl' & Hj). exists (a :: l'). cbn [upd_nth]. rewrite Hl'. split; [reflexivity|].
    intros [|j]; [reflexivity|]. cbn [nth_error]. rewrite Hj. reflexivity.
Qed.

(* xs.remove(x) *)
Lemma lst_remove_app X a Z : ~ In a X -> lst_remove (X ++ a :: Z) a = Some (X ++ Z).
Proof.
  induction X as [|b X IH]; intros H; cbn [app lst_remove].
  - rewrite Nat.eqb_refl. reflexivity.
  - destruct (Nat.eqb b a) eqn:E; [apply Nat.eqb_eq in E; subst; exfalso; apply H; left; reflexivity|].
    rewrite IH; [reflexivity|]. intros Hi. apply H. right. exact Hi.
Qed.

Lemma lst_remove_nodup l a :
  In a l -> NoDup l -> lst_remove l a = Some (filter (fun z => negb (Nat.eqb z a)) l).
Proof.
  induction l as [|b l IH]; intros Hin Hnd; [destruct Hin|]. cbn [lst_remove filter].
  inversion Hnd as [|? ? Hb Hl]; subst.
  destruct (Nat.eqb b a) eqn:E; cbn [negb].
  - apply Nat.eqb_eq in E. subst b. f_equal. symmetry.
    clear IH Hin Hnd Hl. induction l as [|c l IH]; [reflexivity|]. cbn [filter].
    destruct (Nat.eqb c a) eqn:Ec; [apply Nat.eqb_eq in Ec; subst; exfalso; apply Hb; left; reflexivity|].
    cbn [negb]. f_equal. apply IH. intros Hi. apply Hb. right. exact Hi.
  - destruct Hin as [->|Hin]; [rewrite Nat.eqb_refl in E; discriminate|].
    rewrite (IH Hin Hl). reflexivity.
Qed.

Lemma lst_remove_count l a :
  In a l -> exists l', lst_remove l a = Some l' /\
    (forall b, count_occ Nat.eq_dec l' b = if Nat.eqb b a then pred (count_occ Nat.eq_dec l b) else count_occ Nat.eq_dec l b).
Proof.
  induction l as [|c l IH]; intros Hin; [destruct Hin|]. cbn [lst_remove].
  destruct (Nat.eqb c a) eqn:E.
  - apply Nat.eqb_eq in E. subst c. exists l. split; [reflexivity|]. intros b. cbn [count_occ].
    destruct (Nat.eq_dec a b) as [->|Hn]; [rewrite Nat.eqb_refl; reflexivity|].
    assert (Nat.eqb b a = false) by (apply Nat.eqb_neq; congruence). rewrite H. reflexivity.
  - destruct Hin as [->|Hin]; [rewrite Nat.eqb_refl in E; discriminate|].
    destruct (IH Hin) as (l' & Hl' & Hc). rewrite Hl'. exists (c :: l'). split; [reflexivity|].
    intros b. cbn [count_occ]. rewrite Hc. destruct (Nat.eq_dec c b) as [->|Hn]; [|reflexivity].
    rewrite E. reflexivity.
Qed.

(* ---------------------------------------------------------------- the block loop: `for bnext in list(bi.next)` *)
Definition ne (a : nat) : nat -> bool := fun z => negb (Nat.eqb z a).

Lemma bb_prev_remove_spec bh y bi By :
  nth_error bh y = Some By -> In bi (b_prev By) -> NoDup (b_prev By) ->
  exists bh', bb_prev_remove bh y bi = Some bh' /\
    forall j, nth_error bh' j =
      if Nat.eqb j y then Some (mkBlock (b_idx By) (b_ins By) (b_next By) (filter (ne bi) (b_prev By))) else nth_error bh j.
Proof.
  intros Hy Hin Hnd. unfold bb_prev_remove. eapply upd_nth_some; [exact Hy|].
  cbn beta. rewrite (lst_remove_nodup _ _ Hin Hnd). reflexivity.
Qed.

Lemma bb_next_remove_head bh bi B y rest :
  nth_error bh bi = Some B -> b_next B = y :: rest ->
  exists bh', bb_next_remove bh bi y = Some bh' /\
    forall j, nth_error bh' j =
      if Nat.eqb j bi then Some (mkBlock (b_idx B) (b_ins B) rest (b_prev B)) else nth_error bh j.
Proof.
  intros Hb Hn. unfold bb_next_remove. eapply upd_nth_some; [exact Hb|].
  cbn beta. rewrite Hn. cbn [lst_remove]. rewrite Nat.eqb_refl. reflexivity.
Qed.

Definition prune1 (bi : nat) (rest : list nat) (j : nat) (B : block) : block :=
  mkBlock (b_idx B) (b_ins B) (if Nat.eqb j bi then [] else b_next B)
          (if nat_mem j rest then filter (ne bi) (b_prev B) else b_prev B).

Lemma prune_inner_blocks bi : forall rest bh,
  (exists B, nth_error bh bi = Some B /\ b_next B = rest) -> NoDup rest ->
  (forall m, In m rest -> exists Bm, nth_error bh m = Some Bm /\ In bi (b_prev Bm) /\ NoDup (b_prev Bm)) ->
  exists bh',
    foldM (fun st2 bnext => let bheap := st2 in
             bind (bb_prev_remove bheap bnext bi) (fun bheap =>
             bind (bb_next_remove bheap bi bnext) (fun bheap => ret bheap))) rest bh = Some bh' /\
    forall j, nth_error bh' j = option_map (prune1 bi rest j) (nth_error bh j).
Proof.
  induction rest as [|y rest IH]; intros bh (B & HB & Hn) Hnd Hm.
  - exists bh. split; [reflexivity|]. intros j. unfold prune1. cbn [nat_mem existsb].
    destruct (nth_error bh j) as [Bj|] eqn:Ej; [|reflexivity]. cbn [option_map].
    destruct (Nat.eqb j bi) eqn:E.
    + apply Nat.eqb_eq in E. subst j. assert (Bj = B) by congruence. subst Bj. destruct B; cbn in Hn |- *; subst; reflexivity.
    + destruct Bj; reflexivity.
  - inversion Hnd as [|? ? Hy Hnd']; subst.
    destruct (Hm y (or_introl eq_refl)) as (By & HBy & Hin & Hndp).
    destruct (bb_prev_remove_spec bh y bi By HBy Hin Hndp) as (bh1 & E1 & H1).
    assert (HB1 : exists B1, nth_error bh1 bi = Some B1 /\ b_next B1 = y :: rest /\ b_idx B1 = b_idx B /\ b_ins B1 = b_ins B
                             /\ b_prev B1 = (if Nat.eqb bi y then filter (ne bi) (b_prev B) else b_prev B)).
    { rewrite H1. destruct (Nat.eqb bi y) eqn:E.
      - apply Nat.eqb_eq in E. subst y. assert (By = B) by congruence. subst By. eexists. split; [reflexivity|].
        cbn. auto.
      - exists B. auto. }
    destruct HB1 as (B1 & HB1 & Hn1 & Hi1 & Hs1 & Hp1).
    destruct (bb_next_remove_head bh1 bi B1 y rest HB1 Hn1) as (bh2 & E2 & H2).
    destruct (IH bh2) as (bh' & E' & H').
    + eexists. split; [rewrite H2, Nat.eqb_refl; reflexivity | reflexivity].
    + exact Hnd'.
    + intros m Hmr. assert (Hmy : m <> y) by (intros ->; contradiction).
      destruct (Hm m (or_intror Hmr)) as (Bm & HBm & Hinm & Hndm).
      rewrite H2. destruct (Nat.eqb m bi) eqn:Emb.
      * apply Nat.eqb_eq in Emb. subst m. eexists. split; [reflexivity|]. cbn [b_prev].
        rewrite Hp1. apply Nat.eqb_neq in Hmy. rewrite Hmy. assert (Bm = B) by congruence. subst Bm. auto.
      * rewrite H1. apply Nat.eqb_neq in Hmy. rewrite Hmy. exists Bm. auto.
    + exists bh'. split.
      * cbn [foldM]. cbv zeta. rewrite E1. cbn [bind]. rewrite E2. cbn [bind ret]. exact E'.
      * intros j. rewrite H', H2, H1. unfold prune1. cbn [nat_mem existsb].
        destruct (Nat.eqb j bi) eqn:Ejb.
        -- apply Nat.eqb_eq in Ejb. subst j. rewrite HB. cbn [option_map b_idx b_ins b_next b_prev].
           rewrite Hi1, Hs1, Hp1. rewrite (Nat.eqb_sym bi y).
           destruct (Nat.eqb y bi) eqn:Ey; cbn [orb].
           ++ apply Nat.eqb_eq in Ey. subst y.
              assert (Hf : existsb (Nat.eqb bi) rest = false).
              { destruct (existsb (Nat.eqb bi) rest) eqn:Ex; [|reflexivity].
                apply existsb_exists in Ex. destruct Ex as (z & Hz & Hez). apply Nat.eqb_eq in Hez. subst z. contradiction. }
              unfold nat_mem. rewrite Hf. reflexivity.
           ++ unfold nat_mem. destruct (existsb (Nat.eqb bi) rest); reflexivity.
        -- destruct (Nat.eqb j y) eqn:Ejy.
           ++ apply Nat.eqb_eq in Ejy. subst j. rewrite HBy. cbn [option_map b_idx b_ins b_next b_prev orb].
              assert (Hf : nat_mem y rest = false).
              { unfold nat_mem. destruct (existsb (Nat.eqb y) rest) eqn:Ex; [|reflexivity].
                apply existsb_exists in Ex. destruct Ex as (z & Hz & Hez). apply Nat.eqb_eq in Hez. subst z. contradiction. }
              rewrite Hf. reflexivity.
           ++ reflexivity.
Qed.

(* ---------------------------------------------------------------- `for ins in bi.instructions: instructions.remove(ins)` *)
Lemma prune_inner_instructions : forall insl X Y,
  (forall a, In a insl -> ~ In a X) ->
  foldM (fun st2 ins => let instructions := st2 in
           bind (lst_remove instructions ins) (fun instructions => ret instructions)) insl (X ++ insl ++ Y)
  = Some (X ++ Y).
Proof.
  induction insl as [|a insl IH]; intros X Y H; [reflexivity|].
  cbn [foldM app]. cbv zeta. rewrite lst_remove_app by (apply H; left; reflexivity). cbn [bind ret].
  apply IH. intros b Hb. apply H. right. exact Hb.
Qed.

(* ---------------------------------------------------------------- the instruction loop *)
(* the edge lists of the Instruction objects mirror each other, with multiplicities (a jump edge may equal the
   fall-through edge: both are recorded) *)
Definition ih_mirror (ih : ins_heap) : Prop :=
  forall x ox y, nth_error ih x = Some ox -> In y (io_next ox) ->
    exists oy, nth_error ih y = Some oy /\
               count_occ Nat.eq_dec (io_next ox) y = count_occ Nat.eq_dec (io_prev oy) x.

Lemma ins_prev_remove_spec ih y x oy :
  nth_error ih y = Some oy -> In x (io_prev oy) ->
  exists ih' l', ins_prev_remove ih y x = Some ih' /\ lst_remove (io_prev oy) x = Some l' /\
    forall j, nth_error ih' j = if Nat.eqb j y then Some (mkInsObj (io_next oy) l' (io_bb oy)) else nth_error ih j.
Proof.
  intros Hy Hin. destruct (lst_remove_count _ _ Hin) as (l' & Hl' & _).
  destruct (upd_nth_some (fun o => bind (lst_remove (io_prev o) x) (fun l => ret (mkInsObj (io_next o) l (io_bb o))))
              ih y oy (mkInsObj (io_next oy) l' (io_bb oy)) Hy) as (ih' & E & H).
  { rewrite Hl'. reflexivity. }
  exists ih', l'. auto.
Qed.

Lemma ins_next_remove_head ih x ox y rest :
  nth_error ih x = Some ox -> io_next ox = y :: rest ->
  exists ih', ins_next_remove ih x y = Some ih' /\
    forall j, nth_error ih' j = if Nat.eqb j x then Some (mkInsObj rest (io_prev ox) (io_bb ox)) else nth_error ih j.
Proof.
  intros Hx Hn. unfold ins_next_remove. eapply upd_nth_some; [exact Hx|].
  cbn beta. rewrite Hn. cbn [lst_remove]. rewrite Nat.eqb_refl. reflexivity.
Qed.

Lemma count_cons_eq (l : list nat) y b :
  count_occ Nat.eq_dec (y :: l) b = if Nat.eqb b y then S (count_occ Nat.eq_dec l b) else count_occ Nat.eq_dec l b.
Proof.
  cbn [count_occ]. destruct (Nat.eq_dec y b) as [->|Hn]; [rewrite Nat.eqb_refl; reflexivity|].
  assert (Nat.eqb b y = false) by (apply Nat.eqb_neq; congruence). rewrite H. reflexivity.
Qed.

Lemma prune_inner_iheap bh bi x : bb_exit_instr bh bi = Some x ->
  forall l ih ox, ih_mirror ih -> nth_error ih x = Some ox -> io_next ox = l ->
  exists ih',
    foldM (fun st2 ins_next => let iheap := st2 in
             bind (bind (bb_exit_instr bh bi) (fun tmp5 => ins_prev_remove iheap ins_next tmp5)) (fun iheap =>
             bind (bind (bb_exit_instr bh bi) (fun tmp6 => ins_next_remove iheap tmp6 ins_next)) (fun iheap =>
             ret iheap))) l ih = Some ih' /\
    ih_mirror ih' /\ length ih' = length ih /\ ins_attr_next ih' x = Some [].
Proof.
  intros Hx. induction l as [|y rest IH]; intros ih ox Hm Hox Hn.
  - exists ih. split; [reflexivity|]. split; [exact Hm|]. split; [reflexivity|].
    unfold ins_attr_next. rewrite Hox. cbn. rewrite Hn. reflexivity.
  - destruct (Hm x ox y Hox ltac:(rewrite Hn; left; reflexivity)) as (oy & Hoy & Hc).
    assert (Hin : In x (io_prev oy)).
    { apply (count_occ_In Nat.eq_dec). rewrite <- Hc, Hn. cbn [count_occ]. destruct (Nat.eq_dec y y); [lia|contradiction]. }
    destruct (ins_prev_remove_spec ih y x oy Hoy Hin) as (ih1 & l' & E1 & Hl' & H1).
    destruct (lst_remove_count _ _ Hin) as (l'' & Hl'' & Hcnt). assert (l'' = l') by congruence. subst l''.
    assert (Hox1 : exists ox1, nth_error ih1 x = Some ox1 /\ io_next ox1 = y :: rest /\ io_bb ox1 = io_bb ox /\
                               io_prev ox1 = if Nat.eqb x y then l' else io_prev ox).
    { rewrite H1. destruct (Nat.eqb x y) eqn:E.
      - apply Nat.eqb_eq in E. subst y. assert (oy = ox) by congruence. subst oy. eexists. split; [reflexivity|]. cbn. auto.
      - exists ox. auto. }
    destruct Hox1 as (ox1 & Hox1 & Hn1 & Hb1 & Hp1).
    destruct (ins_next_remove_head ih1 x ox1 y rest Hox1 Hn1) as (ih2 & E2 & H2).
    (* pointwise description of ih2 *)
    assert (P2 : forall j, nth_error ih2 j =
              option_map (fun o => mkInsObj (if Nat.eqb j x then rest else io_next o)
                                            (if Nat.eqb j y then l' else io_prev o) (io_bb o)) (nth_error ih j)).
    { intros j. rewrite H2, H1. destruct (Nat.eqb j x) eqn:Ejx.
      - apply Nat.eqb_eq in Ejx. subst j. rewrite Hox. cbn [option_map]. rewrite Hp1, Hb1. reflexivity.
      - destruct (Nat.eqb j y) eqn:Ejy.
        + apply Nat.eqb_eq in Ejy. subst j. rewrite Hoy. reflexivity.
        + destruct (nth_error ih j) as [o|]; [destruct o|]; reflexivity. }
    assert (Hm2 : ih_mirror ih2).
    { intros a oa b Ha Hb. rewrite P2 in Ha.
      destruct (nth_error ih a) as [oa0|] eqn:Ea0; [|discriminate]. cbn [option_map] in Ha. injection Ha as <-.
      cbn [io_next] in Hb |- *.
      assert (Hb0 : In b (io_next oa0)).
      { destruct (Nat.eqb a x) eqn:Eax; [|exact Hb]. apply Nat.eqb_eq in Eax. subst a.
        assert (oa0 = ox) by congruence. subst oa0. rewrite Hn. right. exact Hb. }
      destruct (Hm a oa0 b Ea0 Hb0) as (ob & Hob & Hcab).
      rewrite P2, Hob. cbn [option_map]. eexists. split; [reflexivity|]. cbn [io_prev].
      destruct (Nat.eqb a x) eqn:Eax.
      - apply Nat.eqb_eq in Eax. subst a. assert (oa0 = ox) by congruence. subst oa0.
        rewrite Hn, count_cons_eq in Hcab.
        destruct (Nat.eqb b y) eqn:Eby.
        + apply Nat.eqb_eq in Eby. subst b. assert (ob = oy) by congruence. subst ob.
          rewrite Hcnt, Nat.eqb_refl, <- Hcab. reflexivity.
        + exact Hcab.
      - destruct (Nat.eqb b y) eqn:Eby; [|exact Hcab].
        apply Nat.eqb_eq in Eby. subst b. assert (ob = oy) by congruence. subst ob.
        rewrite Hcnt, Eax. exact Hcab. }
    assert (Hox2 : nth_error ih2 x = Some (mkInsObj rest (io_prev ox1) (io_bb ox1))).
    { rewrite H2, Nat.eqb_refl. reflexivity. }
    destruct (IH ih2 _ Hm2 Hox2 eq_refl) as (ih' & E' & Hm' & Hlen & Hnx).
    exists ih'. split; [|split; [exact Hm'|split; [|exact Hnx]]].
    + cbn [foldM]. cbv zeta. cbv zeta in E'. rewrite Hx in E' |- *. cbn [bind] in E' |- *.
      rewrite E1. cbn [bind]. rewrite E2. cbn [bind ret] in E' |- *. exact E'.
    + rewrite Hlen. 
      assert (L : forall (l1 l2 : ins_heap), (forall j, (nth_error l1 j = None <-> nth_error l2 j = None)) -> length l1 = length l2).
      { intros l1 l2 HH. destruct (Nat.lt_trichotomy (length l1) (length l2)) as [Hlt|[He|Hgt]]; [|exact He|].
        - exfalso. assert (Hn1' : nth_error l1 (length l1) = None) by (apply nth_error_None; lia).
          apply HH in Hn1'. apply nth_error_None in Hn1'. lia.
        - exfalso. assert (Hn2' : nth_error l2 (length l2) = None) by (apply nth_error_None; lia).
          apply HH in Hn2'. apply nth_error_None in Hn2'. lia. }
      apply L. intros j. rewrite P2. destruct (nth_error ih j); cbn; split; intros; congruence.
Qed.

(* ---------------------------------------------------------------- the outer loop *)
Definition prune_body (reach : list nat) :
  py (list nat * block_heap * ins_heap) -> nat -> py (list nat * block_heap * ins_heap) :=
  ltac:(let t := eval cbv beta delta [prune_unreachable_gen] in (prune_unreachable_gen [] reach [] [] []) in
        match t with context [fold_left ?F _ _] => exact F end).

Lemma prune_unreachable_gen_unfold all_bbs reach instrs bh ih :
  prune_unreachable_gen all_bbs reach instrs bh ih =
  bind (fold_left (prune_body reach) all_bbs (ret (instrs, bh, ih)))
       (fun r => ret (fst (fst r), snd (fst r), snd r)).
Proof. reflexivity. Qed.

Lemma prune_body_alive reach st bi : lst_mem bi reach = true -> prune_body reach (Some st) bi = Some st.
Proof.
  intros H. cbv beta delta [prune_body]. rewrite bind_some. cbv beta zeta. rewrite H. cbn [negb].
  destruct st as [[a b] c]. reflexivity.
Qed.

Lemma prune_body_dead reach I bh ih bi B X Y ox :
  lst_mem bi reach = false -> nth_error bh bi = Some B -> NoDup (b_next B) ->
  (forall m, In m (b_next B) -> exists Bm, nth_error bh m = Some Bm /\ In bi (b_prev Bm) /\ NoDup (b_prev Bm)) ->
  b_ins B <> [] -> nth_error ih (last (b_ins B) 0) = Some ox -> ih_mirror ih ->
  I = X ++ b_ins B ++ Y -> (forall a, In a (b_ins B) -> ~ In a X) ->
  exists bh' ih', prune_body reach (Some (I, bh, ih)) bi = Some (X ++ Y, bh', ih') /\
    (forall j, nth_error bh' j = option_map (prune1 bi (b_next B) j) (nth_error bh j)) /\
    ih_mirror ih' /\ length ih' = length ih.
Proof.
  intros Hd HB Hnd Hmir Hne Hox Hm -> Hdisj.
  destruct (prune_inner_blocks bi (b_next B) bh (ex_intro _ B (conj HB eq_refl)) Hnd Hmir) as (bh' & E1 & H1).
  assert (HB' : nth_error bh' bi = Some (prune1 bi (b_next B) bi B)) by (rewrite H1, HB; reflexivity).
  assert (Hx : bb_exit_instr bh' bi = Some (last (b_ins B) 0)).
  { unfold bb_exit_instr. rewrite HB'. cbn [bind prune1 b_ins]. apply lst_last_last. exact Hne. }
  destruct (prune_inner_iheap bh' bi _ Hx (io_next ox) ih ox Hm Hox eq_refl) as (ih' & E2 & Hm' & Hlen & _).
  exists bh', ih'. split; [|auto].
  cbv zeta in E1, E2.
  cbv beta delta [prune_body]. rewrite bind_some. cbv beta zeta. cbn [fst snd]. rewrite Hd. cbn [negb].
  unfold bb_next at 1. rewrite HB. cbn [option_map bind].
  rewrite fold_left_bind, E1. cbn [bind].
  rewrite Hx in E2 |- *. cbn [bind] in E2 |- *. unfold ins_attr_next at 1. rewrite Hox. cbn [option_map bind].
  rewrite fold_left_bind, E2. cbn [bind].
  unfold bb_instructions. rewrite HB'. cbn [option_map bind prune1 b_ins].
  rewrite fold_left_bind.
  pose proof (prune_inner_instructions (b_ins B) X Y Hdisj) as E3. cbv zeta in E3. rewrite E3. reflexivity.
Qed.

Definition dead_upto (reach : list nat) (n m : nat) : bool := (Nat.ltb m n && negb (nat_mem m reach))%bool.
Definition prune_upto (reach : list nat) (n j : nat) (B : block) : block :=
  mkBlock (b_idx B) (b_ins B) (if dead_upto reach n j then [] else b_next B)
          (filter (fun m => negb (dead_upto reach n m)) (b_prev B)).
Definition alive (reach : list nat) (B : block) : bool := nat_mem (b_idx B) reach.

(* what the pruning loop leaves behind, for ALL blocks: an unreachable block loses its successors, every block
   loses its unreachable predecessors *)
Definition prune_spec (reach : list nat) (bs : list block) : list block :=
  map (fun B => mkBlock (b_idx B) (b_ins B) (if nat_mem (b_idx B) reach then b_next B else [])
                        (filter (fun m => nat_mem m reach) (b_prev B))) bs.

Lemma firstn_S_nth {A} (l : list A) n x : nth_error l n = Some x -> firstn (S n) l = firstn n l ++ [x].
Proof.
  revert n. induction l as [|a l IH]; intros n H; [destruct n; discriminate|].
  destruct n as [|n]; cbn [nth_error] in H; [injection H as ->; reflexivity|].
  change (firstn (S (S n)) (a :: l)) with (a :: firstn (S n) l). rewrite (IH _ H). reflexivity.
Qed.

Lemma skipn_nth {A} (l : list A) n x : nth_error l n = Some x -> skipn n l = x :: skipn (S n) l.
Proof.
  revert n. induction l as [|a l IH]; intros n H; [destruct n; discriminate|].
  destruct n as [|n]; cbn in H |- *; [injection H as ->; reflexivity|]. exact (IH _ H).
Qed.

Lemma filter_id_notin (l : list nat) n : ~ In n l -> filter (ne n) l = l.
Proof.
  induction l as [|a l IH]; intros H; [reflexivity|]. cbn [filter]. unfold ne at 1.
  destruct (Nat.eqb a n) eqn:E; [apply Nat.eqb_eq in E; subst; exfalso; apply H; left; reflexivity|].
  cbn [negb]. rewrite IH; [reflexivity|]. intros Hi. apply H. right. exact Hi.
Qed.

Lemma filter_filter {A} (f g : A -> bool) l : filter f (filter g l) = filter (fun x => g x && f x)%bool l.
Proof.
  induction l as [|a l IH]; [reflexivity|]. cbn [filter]. destruct (g a); cbn [filter andb]; [|exact IH].
  destruct (f a); rewrite IH; reflexivity.
Qed.

Lemma NoDup_filter {A} (f : A -> bool) l : NoDup l -> NoDup (filter f l).
Proof.
  induction 1 as [|a l Ha Hl IH]; cbn [filter]; [constructor|]. destruct (f a); [|exact IH].
  constructor; [|exact IH]. intros Hi. apply filter_In in Hi. apply Ha. apply Hi.
Qed.

Section PruneLoop.
  Variable reach : list nat.
  Variable bs : list block.
  Variable ih0 : ins_heap.
  Hypothesis Hwf : wf_blocks bs.
  Hypothesis Hnd : NoDup (concat (map b_ins bs)).
  Hypothesis Hne : forall n b, nth_error bs n = Some b -> b_ins b <> [].
  Hypothesis Hrange : forall n b k, nth_error bs n = Some b -> In k (b_ins b) -> k < length ih0.

  Record pinv (n : nat) (st : list nat * block_heap * ins_heap) : Prop := {
    pi_ins : fst (fst st) = concat (map b_ins (filter (alive reach) (firstn n bs))) ++ concat (map b_ins (skipn n bs));
    pi_bh : forall j, nth_error (snd (fst st)) j = option_map (prune_upto reach n j) (nth_error bs j);
    pi_mir : ih_mirror (snd st);
    pi_len : length (snd st) = length ih0 }.

  Lemma dead_upto_S_alive n m : nat_mem n reach = true -> dead_upto reach (S n) m = dead_upto reach n m.
  Proof.
    intros H. unfold dead_upto. destruct (Nat.eq_dec m n) as [->|Hn].
    - rewrite H. cbn. rewrite !andb_false_r. reflexivity.
    - replace (Nat.ltb m (S n)) with (Nat.ltb m n); [reflexivity|].
      destruct (Nat.ltb m n) eqn:E1; destruct (Nat.ltb m (S n)) eqn:E2; try reflexivity;
        [apply Nat.ltb_lt in E1; apply Nat.ltb_ge in E2 | apply Nat.ltb_ge in E1; apply Nat.ltb_lt in E2]; lia.
  Qed.

  Lemma dead_upto_S_dead n m : nat_mem n reach = false ->
    dead_upto reach (S n) m = (dead_upto reach n m || Nat.eqb m n)%bool.
  Proof.
    intros H. unfold dead_upto. destruct (Nat.eq_dec m n) as [->|Hn].
    - rewrite H, Nat.eqb_refl, Nat.ltb_irrefl. assert (E : Nat.ltb n (S n) = true) by (apply Nat.ltb_lt; lia).
      rewrite E. reflexivity.
    - assert (E : Nat.eqb m n = false) by (apply Nat.eqb_neq; exact Hn). rewrite E, orb_false_r.
      replace (Nat.ltb m (S n)) with (Nat.ltb m n); [reflexivity|].
      destruct (Nat.ltb m n) eqn:E1; destruct (Nat.ltb m (S n)) eqn:E2; try reflexivity;
        [apply Nat.ltb_lt in E1; apply Nat.ltb_ge in E2 | apply Nat.ltb_ge in E1; apply Nat.ltb_lt in E2]; lia.
  Qed.

  Lemma dead_upto_self n : dead_upto reach n n = false.
  Proof. unfold dead_upto. rewrite Nat.ltb_irrefl. reflexivity. Qed.

  Lemma pinv_step n B0 st :
    nth_error bs n = Some B0 -> pinv n st ->
    exists st', prune_body reach (Some st) n = Some st' /\ pinv (S n) st'.
  Proof.
    intros HB0 [Hi Hb Hm Hl]. destruct st as [[I bh] ih]. cbn [fst snd] in *.
    assert (Hidx : b_idx B0 = n) by (apply (wf_idx _ Hwf _ _ HB0)).
    rewrite (skipn_nth _ _ _ HB0) in Hi. cbn [map concat] in Hi.
    destruct (nat_mem n reach) eqn:Hr.
    - (* reachable: nothing happens *)
      exists (I, bh, ih). split; [apply prune_body_alive; exact Hr|].
      constructor; cbn [fst snd]; [| |exact Hm|exact Hl].
      + rewrite (firstn_S_nth _ _ _ HB0), filter_app. cbn [filter]. unfold alive at 2. rewrite Hidx, Hr.
        rewrite map_app, concat_app. cbn [map concat]. rewrite app_nil_r, <- app_assoc. exact Hi.
      + intros j. rewrite Hb. destruct (nth_error bs j) as [Bj|]; [|reflexivity]. cbn [option_map]. unfold prune_upto.
        rewrite (dead_upto_S_alive n j Hr). f_equal. f_equal. apply filter_ext. intros m.
        rewrite (dead_upto_S_alive n m Hr). reflexivity.
    - (* unreachable *)
      assert (HB : nth_error bh n = Some (prune_upto reach n n B0)) by (rewrite Hb, HB0; reflexivity).
      assert (Hnx : b_next (prune_upto reach n n B0) = b_next B0).
      { unfold prune_upto. cbn [b_next]. rewrite dead_upto_self. reflexivity. }
      assert (Hlast : In (last (b_ins B0) 0) (b_ins B0)) by (apply last_In; exact (Hne _ _ HB0)).
      destruct (nth_error ih (last (b_ins B0) 0)) as [ox|] eqn:Eox.
      2:{ apply nth_error_None in Eox. specialize (Hrange _ _ _ HB0 Hlast). lia. }
      destruct (prune_body_dead reach I bh ih n (prune_upto reach n n B0)
                  (concat (map b_ins (filter (alive reach) (firstn n bs)))) (concat (map b_ins (skipn (S n) bs))) ox)
        as (bh' & ih' & E & Hb' & Hm' & Hl'); try assumption.
      + rewrite Hnx. exact (wf_next_nodup _ Hwf _ _ HB0).
      + rewrite Hnx. intros m Hmn.
        pose proof (wf_next_range _ Hwf _ _ _ HB0 Hmn) as Hlt.
        destruct (nth_error bs m) as [Bm|] eqn:EBm; [|apply nth_error_None in EBm; lia].
        exists (prune_upto reach n m Bm). split; [rewrite Hb, EBm; reflexivity|]. unfold prune_upto. cbn [b_prev]. split.
        * apply filter_In. split; [apply (wf_mirror _ Hwf _ _ _ _ HB0 EBm); exact Hmn|].
          rewrite dead_upto_self. reflexivity.
        * apply NoDup_filter. exact (wf_prev_nodup _ Hwf _ _ EBm).
      + exact (Hne _ _ HB0).
      + intros a Ha Hx. 
        rewrite <- (firstn_skipn n bs), (skipn_nth _ _ _ HB0), map_app, concat_app in Hnd. cbn [map concat] in Hnd.
        apply (NoDup_app_disj _ _ a Hnd); [|apply in_or_app; left; exact Ha].
        apply in_concat in Hx. destruct Hx as (l & Hl1 & Hl2). apply in_map_iff in Hl1. destruct Hl1 as (Bx & <- & HBx).
        apply filter_In in HBx. apply in_concat. exists (b_ins Bx). split; [apply in_map; apply HBx | exact Hl2].
      + exists (concat (map b_ins (filter (alive reach) (firstn n bs))) ++ concat (map b_ins (skipn (S n) bs)), bh', ih').
        split; [exact E|]. constructor; cbn [fst snd]; [| |exact Hm'|congruence].
        * rewrite (firstn_S_nth _ _ _ HB0), filter_app. cbn [filter]. unfold alive at 3. rewrite Hidx, Hr, app_nil_r. reflexivity.
        * intros j. rewrite Hb', Hb. destruct (nth_error bs j) as [Bj|] eqn:EBj; [|reflexivity]. cbn [option_map].
          unfold prune1, prune_upto. cbn [b_idx b_ins b_next b_prev]. rewrite dead_upto_self.
          rewrite (dead_upto_S_dead n j Hr). f_equal. f_equal.
          -- destruct (Nat.eqb j n); [rewrite orb_true_r; reflexivity | rewrite orb_false_r; reflexivity].
          -- assert (Hff : filter (fun m => negb (dead_upto reach (S n) m)) (b_prev Bj)
                           = filter (ne n) (filter (fun m => negb (dead_upto reach n m)) (b_prev Bj))).
             { rewrite filter_filter. apply filter_ext. intros m. rewrite (dead_upto_S_dead n m Hr). unfold ne.
               rewrite negb_orb. reflexivity. }
             rewrite Hff. destruct (nat_mem j (b_next B0)) eqn:Ej; [reflexivity|].
             symmetry. apply filter_id_notin. intros Hin. apply filter_In in Hin. destruct Hin as [Hin _].
             apply (wf_mirror _ Hwf _ _ _ _ HB0 EBj) in Hin. apply nat_mem_In in Hin. congruence.
  Qed.

  Lemma pinv_fold : forall r n st, n + r = length bs -> pinv n st ->
    exists st', fold_left (prune_body reach) (seq n r) (Some st) = Some st' /\ pinv (length bs) st'.
  Proof.
    induction r as [|r IH]; intros n st Hn Hinv.
    - exists st. split; [reflexivity|]. replace (length bs) with n by lia. exact Hinv.
    - cbn [seq fold_left].
      destruct (nth_error bs n) as [B0|] eqn:EB; [|apply nth_error_None in EB; lia].
      destruct (pinv_step n B0 st EB Hinv) as (st1 & E1 & Hinv1). rewrite E1. apply IH; [lia | exact Hinv1].
  Qed.
End PruneLoop.

Lemma filter_true {A} (l : list A) : filter (fun _ => true) l = l.
Proof. induction l as [|a l IH]; [reflexivity|]. cbn. rewrite IH. reflexivity. Qed.

Lemma block_eta B : mkBlock (b_idx B) (b_ins B) (b_next B) (b_prev B) = B.
Proof. destruct B; reflexivity. Qed.

(* THEOREM 3: the pruning loop of parse_teal, run on a well-formed block list (e.g. build_blocks p), with all_bbs in
   creation order, the instruction list partitioned by the blocks, and an instruction heap whose next/prev lists
   mirror each other, raises no exception and leaves: the instructions of the reachable blocks, in order; the block
   heap prune_spec (every block without its unreachable predecessors, unreachable blocks without successors) *)
Theorem prune_unreachable_gen_eq reach bs ih :
  wf_blocks bs -> NoDup (concat (map b_ins bs)) ->
  (forall n b, nth_error bs n = Some b -> b_ins b <> []) ->
  (forall n b k, nth_error bs n = Some b -> In k (b_ins b) -> k < length ih) ->
  ih_mirror ih ->
  exists ih',
    prune_unreachable_gen (seq 0 (length bs)) reach (concat (map b_ins bs)) bs ih
      = Some (concat (map b_ins (filter (alive reach) bs)), prune_spec reach bs, ih') /\
    ih_mirror ih' /\ length ih' = length ih.
Proof.
  intros Hwf Hnd Hne Hrange Hm.
  assert (H0 : pinv reach bs ih 0 (concat (map b_ins bs), bs, ih)).
  { constructor; cbn [fst snd firstn skipn filter map concat app]; [reflexivity| |exact Hm|reflexivity].
    intros j. destruct (nth_error bs j) as [B|]; [|reflexivity]. cbn [option_map]. unfold prune_upto, dead_upto. cbn.
    rewrite filter_true, block_eta. reflexivity. }
  destruct (pinv_fold reach bs ih Hwf Hnd Hne Hrange (length bs) 0 _ eq_refl H0) as ([[I' bh'] ih'] & E & [Hi Hb Hm' Hl]).
  cbn [fst snd] in *. exists ih'. split; [|auto].
  rewrite prune_unreachable_gen_unfold.
  match goal with |- bind ?X _ = _ => assert (HX : X = Some (I', bh', ih')) by exact E; rewrite HX end.
  cbn [bind ret fst snd].
  rewrite firstn_all, skipn_all in Hi. cbn [map concat] in Hi. rewrite app_nil_r in Hi. subst I'.
  replace bh' with (prune_spec reach bs); [reflexivity|]. symmetry.
  apply nth_error_ext. intros j. rewrite Hb. unfold prune_spec. rewrite nth_error_map.
  destruct (nth_error bs j) as [B|] eqn:EB; [|reflexivity]. cbn [option_map]. f_equal.
  assert (Hj : j < length bs) by (apply nth_error_Some; congruence).
  unfold prune_upto, dead_upto. rewrite (wf_idx _ Hwf _ _ EB).
  assert (Hlt : Nat.ltb j (length bs) = true) by (apply Nat.ltb_lt; exact Hj). rewrite Hlt. cbn [andb].
  f_equal.
  - destruct (nat_mem j reach); reflexivity.
  - apply filter_ext_in. intros m Hmi. pose proof (wf_prev_range _ Hwf _ _ _ EB Hmi) as Hml.
    apply Nat.ltb_lt in Hml. rewrite Hml. cbn [andb]. rewrite negb_involutive. reflexivity.
Qed.

(* ---------------------------------------------------------------- against the model's pruning *)
Lemma filter_map_comm {A B} (f : A -> B) (P : B -> bool) l : filter P (map f l) = map f (filter (fun x => P (f x)) l).
Proof. induction l as [|a l IH]; [reflexivity|]. cbn. destruct (P (f a)); cbn; rewrite IH; reflexivity. Qed.

Lemma dedup_sorted_mem reach N k : nat_mem k (dedup_sorted reach N) = (nat_mem k reach && Nat.ltb k N)%bool.
Proof.
  unfold dedup_sorted. destruct (nat_mem k (filter (fun k0 => nat_mem k0 reach) (seq 0 N))) eqn:E.
  - apply nat_mem_In in E. apply filter_In in E. destruct E as [Hs Hr]. apply in_seq in Hs.
    rewrite Hr. symmetry. apply andb_true_intro. split; [reflexivity | apply Nat.ltb_lt; lia].
  - destruct (nat_mem k reach) eqn:Hr; [|reflexivity]. destruct (Nat.ltb k N) eqn:Hl; [|reflexivity].
    apply Nat.ltb_lt in Hl. assert (Hin : In k (filter (fun k0 => nat_mem k0 reach) (seq 0 N))).
    { apply filter_In. split; [apply in_seq; lia | exact Hr]. }
    apply nat_mem_In in Hin. congruence.
Qed.

Theorem prune_spec_model reach bs :
  wf_blocks bs -> filter (alive reach) (prune_spec reach bs) = prune bs (dedup_sorted reach (length bs)).
Proof.
  intros Hwf. unfold prune_spec, prune. rewrite filter_map_comm. unfold alive. cbn [b_idx].
  assert (Hf : filter (fun x => nat_mem (b_idx x) reach) bs
               = filter (fun b => nat_mem (b_idx b) (dedup_sorted reach (length bs))) bs).
  { apply filter_ext_in. intros b Hb. apply In_nth_error in Hb. destruct Hb as (n & Hn).
    rewrite dedup_sorted_mem, (wf_idx _ Hwf _ _ Hn).
    assert (Hl : Nat.ltb n (length bs) = true) by (apply Nat.ltb_lt; apply nth_error_Some; congruence).
    rewrite Hl, andb_true_r. reflexivity. }
  rewrite <- Hf. apply map_ext_in. intros b Hb. apply filter_In in Hb. destruct Hb as [Hb Hr]. rewrite Hr.
  unfold prune_block. f_equal. apply In_nth_error in Hb. destruct Hb as (n & Hn).
  apply filter_ext_in. intros m Hm. rewrite dedup_sorted_mem.
  pose proof (wf_prev_range _ Hwf _ _ _ Hn Hm) as Hl. apply Nat.ltb_lt in Hl. rewrite Hl, andb_true_r. reflexivity.
Qed.

Lemma concat_map_flat_map {A B} (f : A -> list B) l : concat (map f l) = flat_map f l.
Proof. induction l as [|a l IH]; [reflexivity|]. cbn. rewrite IH. reflexivity. Qed.

Lemma parse_teal_retained_ins p t : parse_teal p = Ok t -> t_retained_ins t = flat_map b_ins (t_blocks t).
Proof.
  unfold parse_teal. intros H. destruct p as [|i0 p']; [discriminate|].
  destruct (build_blocks (i0 :: p')) as [bs|]; [|discriminate].
  match type of H with (match ?m with Some _ => _ | None => _ end) = _ => destruct m as [subs0|] end; [|discriminate].
  inversion H; subst t; clear H. reflexivity.
Qed.

(* TRANSPORTED to the model's parse_teal: for a program the model accepts, the generated pruning loop, run on the
   model's block list with the model's list of reachable blocks, raises no exception; the instruction list it leaves
   is t_retained_ins, and the reachable blocks of the heap it leaves are exactly t_blocks *)
Theorem prune_unreachable_gen_parse_teal p t ih :
  parse_teal p = Ok t -> ih_mirror ih -> length ih = length p ->
  exists bs subs0 bh' ih',
    build_blocks p = Some bs /\
    prune_unreachable_gen (seq 0 (length bs)) (reachable_of bs subs0) (seq 0 (length p)) bs ih
      = Some (t_retained_ins t, bh', ih') /\
    filter (alive (reachable_of bs subs0)) bh' = t_blocks t /\ ih_mirror ih'.
Proof.
  intros Hp Hm Hl. pose proof (parse_teal_retained_ins p t Hp) as Hri.
  destruct (parse_teal_inv p t Hp) as (bs & subs0 & Hne & Hb & _ & _ & Hblocks & _).
  unfold retained_of in Hblocks.
  pose proof (build_blocks_wf p bs Hb) as Hwf.
  destruct (build_blocks_spec p bs Hb) as (rbs & nexts & Hc & _ & _ & Hlen & Hn).
  assert (Hins : map b_ins bs = map rb_ins rbs).
  { apply nth_error_ext. intros j. rewrite !nth_error_map.
    destruct (nth_error bs j) as [B|] eqn:EB.
    - destruct (Hn j B EB) as (rb & nx & Hrb & _ & _ & ->). rewrite Hrb. reflexivity.
    - apply nth_error_None in EB. rewrite Hlen in EB. apply nth_error_None in EB. rewrite EB. reflexivity. }
  assert (Hpart : concat (map b_ins bs) = seq 0 (length p)).
  { rewrite Hins. exact (blocks_partition p rbs Hc Hne). }
  destruct (prune_unreachable_gen_eq (reachable_of bs subs0) bs ih Hwf) as (ih' & E & Hm' & _).
  - rewrite Hpart. apply seq_NoDup.
  - intros n B HB. destruct (Hn n B HB) as (rb & nx & Hrb & _ & _ & ->). cbn.
    exact (blocks_nonempty p rbs Hc Hne rb (nth_error_In _ _ Hrb)).
  - intros n B k HB Hk. assert (Hin : In k (concat (map b_ins bs))).
    { apply in_concat. exists (b_ins B). split; [apply in_map; exact (nth_error_In _ _ HB) | exact Hk]. }
    rewrite Hpart in Hin. apply in_seq in Hin. lia.
  - exact Hm.
  - rewrite Hpart in E. exists bs, subs0, (prune_spec (reachable_of bs subs0) bs), ih'.
    split; [exact Hb|]. split; [|split; [|exact Hm']].
    + rewrite E. f_equal. f_equal. f_equal. rewrite Hri, Hblocks, <- (prune_spec_model _ bs Hwf).
      unfold prune_spec. rewrite filter_map_comm, concat_map_flat_map.
      rewrite flat_map_concat_map, (flat_map_concat_map b_ins), map_map. reflexivity.
    + rewrite Hblocks. apply prune_spec_model. exact Hwf.
Qed.

(* ====================================================================== *)
(* 4. first_pass / second_pass: Instruction.next                           *)
(* ====================================================================== *)
(* the edge lists of the Instruction objects mirror each other exactly (with multiplicities), and stay in range *)
Definition ih_sym (ih : ins_heap) : Prop :=
  (forall x ox y, nth_error ih x = Some ox -> In y (io_next ox) -> y < length ih) /\
  (forall x y ox oy, nth_error ih x = Some ox -> nth_error ih y = Some oy ->
     count_occ Nat.eq_dec (io_next ox) y = count_occ Nat.eq_dec (io_prev oy) x).

Lemma ih_sym_mirror ih : ih_sym ih -> ih_mirror ih.
Proof.
  intros [Hr Hc] x ox y Hx Hy. specialize (Hr x ox y Hx Hy).
  destruct (nth_error ih y) as [oy|] eqn:Ey; [|apply nth_error_None in Ey; lia].
  exists oy. split; [reflexivity|]. exact (Hc x y ox oy Hx Ey).
Qed.

(* one edge x -> t *)
Definition edge_cell (x t j : nat) (o : insobj) : insobj :=
  mkInsObj (io_next o ++ (if Nat.eqb j x then [t] else [])) (io_prev o ++ (if Nat.eqb j t then [x] else [])) (io_bb o).

Lemma same_length_nth {A B} (l1 : list A) (l2 : list B) :
  (forall j, nth_error l1 j = None <-> nth_error l2 j = None) -> length l1 = length l2.
Proof.
  intros HH. destruct (Nat.lt_trichotomy (length l1) (length l2)) as [Hlt|[He|Hgt]]; [|exact He|].
  - exfalso. assert (Hn : nth_error l1 (length l1) = None) by (apply nth_error_None; lia).
    apply HH in Hn. apply nth_error_None in Hn. lia.
  - exfalso. assert (Hn : nth_error l2 (length l2) = None) by (apply nth_error_None; lia).
    apply HH in Hn. apply nth_error_None in Hn. lia.
Qed.

Lemma edge_next_prev ih x t :
  x < length ih -> t < length ih ->
  exists ih', bind (ins_add_next ih x t) (fun h => ins_add_prev h t x) = Some ih' /\
              forall j, nth_error ih' j = option_map (edge_cell x t j) (nth_error ih j).
Proof.
  intros Hx Ht.
  destruct (nth_error ih x) as [ox|] eqn:Ex; [|apply nth_error_None in Ex; lia].
  destruct (upd_nth_some (fun o => ret (mkInsObj (io_next o ++ [t]) (io_prev o) (io_bb o))) ih x ox _ Ex eq_refl) as (h1 & E1 & H1).
  assert (Et : exists ot, nth_error h1 t = Some ot).
  { rewrite H1. destruct (Nat.eqb t x); [eauto|]. destruct (nth_error ih t) eqn:E; [eauto|apply nth_error_None in E; lia]. }
  destruct Et as (ot & Et).
  destruct (upd_nth_some (fun o => ret (mkInsObj (io_next o) (io_prev o ++ [x]) (io_bb o))) h1 t ot _ Et eq_refl) as (h2 & E2 & H2).
  exists h2. split; [unfold ins_add_next, ins_add_prev; rewrite E1; cbn [bind]; exact E2|].
  intros j. rewrite H2. unfold edge_cell. destruct (Nat.eqb j t) eqn:Ejt.
  - apply Nat.eqb_eq in Ejt. subst j. rewrite H1 in Et. destruct (Nat.eqb t x) eqn:Etx.
    + apply Nat.eqb_eq in Etx. subst t. injection Et as <-. rewrite Ex. cbn. reflexivity.
    + rewrite Et. cbn. rewrite app_nil_r. reflexivity.
  - rewrite H1. destruct (Nat.eqb j x) eqn:Ejx.
    + apply Nat.eqb_eq in Ejx. subst j. rewrite Ex. cbn. rewrite app_nil_r. reflexivity.
    + destruct (nth_error ih j) as [o|]; [|reflexivity]. cbn. rewrite !app_nil_r. destruct o; reflexivity.
Qed.

Lemma edge_prev_next ih x t :
  x < length ih -> t < length ih ->
  exists ih', bind (ins_add_prev ih t x) (fun h => ins_add_next h x t) = Some ih' /\
              forall j, nth_error ih' j = option_map (edge_cell x t j) (nth_error ih j).
Proof.
  intros Hx Ht.
  destruct (nth_error ih t) as [ot|] eqn:Et; [|apply nth_error_None in Et; lia].
  destruct (upd_nth_some (fun o => ret (mkInsObj (io_next o) (io_prev o ++ [x]) (io_bb o))) ih t ot _ Et eq_refl) as (h1 & E1 & H1).
  assert (Ex : exists ox, nth_error h1 x = Some ox).
  { rewrite H1. destruct (Nat.eqb x t); [eauto|]. destruct (nth_error ih x) eqn:E; [eauto|apply nth_error_None in E; lia]. }
  destruct Ex as (ox & Ex).
  destruct (upd_nth_some (fun o => ret (mkInsObj (io_next o ++ [t]) (io_prev o) (io_bb o))) h1 x ox _ Ex eq_refl) as (h2 & E2 & H2).
  exists h2. split; [unfold ins_add_next, ins_add_prev; rewrite E1; cbn [bind]; exact E2|].
  intros j. rewrite H2. unfold edge_cell. destruct (Nat.eqb j x) eqn:Ejx.
  - apply Nat.eqb_eq in Ejx. subst j. rewrite H1 in Ex. destruct (Nat.eqb x t) eqn:Ext.
    + apply Nat.eqb_eq in Ext. subst t. injection Ex as <-. rewrite Et. cbn. reflexivity.
    + rewrite Ex. cbn. rewrite app_nil_r. reflexivity.
  - rewrite H1. destruct (Nat.eqb j t) eqn:Ejt.
    + apply Nat.eqb_eq in Ejt. subst j. rewrite Et. cbn. rewrite app_nil_r. reflexivity.
    + destruct (nth_error ih j) as [o|]; [|reflexivity]. cbn. rewrite !app_nil_r. destruct o; reflexivity.
Qed.

Lemma count_app_single (l : list nat) a b :
  count_occ Nat.eq_dec (l ++ [a]) b = count_occ Nat.eq_dec l b + (if Nat.eqb a b then 1 else 0).
Proof.
  rewrite count_occ_app. cbn [count_occ]. destruct (Nat.eq_dec a b) as [->|Hn]; [rewrite Nat.eqb_refl; reflexivity|].
  apply Nat.eqb_neq in Hn. rewrite Hn. reflexivity.
Qed.

(* adding an edge keeps the heap symmetric *)
Lemma edge_sym ih ih' x t :
  x < length ih -> t < length ih -> ih_sym ih ->
  (forall j, nth_error ih' j = option_map (edge_cell x t j) (nth_error ih j)) ->
  ih_sym ih' /\ length ih' = length ih.
Proof.
  intros Hx Ht [Hr Hc] H.
  assert (Hl : length ih' = length ih).
  { apply same_length_nth. intros j. rewrite H. destruct (nth_error ih j); cbn; split; congruence. }
  split; [|exact Hl]. split.
  - intros a oa b Ha Hb. rewrite H in Ha. destruct (nth_error ih a) as [oa0|] eqn:Ea; [|discriminate].
    cbn in Ha. injection Ha as <-. cbn [edge_cell io_next] in Hb. rewrite Hl. apply in_app_or in Hb. destruct Hb as [Hb|Hb].
    + exact (Hr a oa0 b Ea Hb).
    + destruct (Nat.eqb a x); [destruct Hb as [<-|[]]; exact Ht | destruct Hb].
  - intros a b oa ob Ha Hb. rewrite H in Ha, Hb.
    destruct (nth_error ih a) as [oa0|] eqn:Ea; [|discriminate]. destruct (nth_error ih b) as [ob0|] eqn:Eb; [|discriminate].
    cbn in Ha, Hb. injection Ha as <-. injection Hb as <-. cbn [edge_cell io_next io_prev].
    specialize (Hc a b oa0 ob0 Ea Eb).
    destruct (Nat.eqb a x) eqn:Eax; destruct (Nat.eqb b t) eqn:Ebt; rewrite ?app_nil_r, ?count_app_single, Hc.
    + apply Nat.eqb_eq in Eax, Ebt. subst. rewrite !Nat.eqb_refl. reflexivity.
    + rewrite (Nat.eqb_sym t b), Ebt. lia.
    + rewrite (Nat.eqb_sym x a), Eax. lia.
    + reflexivity.
Qed.

Lemma edge_next_other ih ih' x t j :
  (forall j, nth_error ih' j = option_map (edge_cell x t j) (nth_error ih j)) ->
  ins_attr_next ih' j = option_map (fun l => l ++ (if Nat.eqb j x then [t] else [])) (ins_attr_next ih j).
Proof.
  intros H. unfold ins_attr_next. rewrite H. destruct (nth_error ih j); reflexivity.
Qed.

(* ---------------------------------------------------------------- first_pass *)
Definition fp_state : Type := labels_dict * subs_dict * list nat * ins_heap * option nat.
Definition fp_body (p : prog) : py fp_state -> nat -> py fp_state :=
  ltac:(let t := eval cbv beta delta [first_pass_gen] in (first_pass_gen p [] [] [] []) in
        match t with context [fold_left ?F _ _] => exact F end).

Lemma first_pass_gen_unfold p L S I ih :
  first_pass_gen p L S I ih =
  bind (fold_left (fp_body p) (seq 0 (length p)) (ret (L, S, I, ih, None)))
       (fun r => ret (fst (fst (fst (fst r))), snd (fst (fst (fst r))), snd (fst (fst r)), snd (fst r))).
Proof. reflexivity. Qed.

Definition subs_step (S : subs_dict) (i : instr) (k : nat) : subs_dict :=
  match i with ICallsub l => subs_append S l k | _ => S end.
Definition labels_step (L : labels_dict) (i : instr) (k : nat) : labels_dict :=
  match i with ILabel l => labels_set L l k | _ => L end.

(* the effect of one iteration on the instruction heap: the edge prev -> ins *)
Definition fp_heap (ih : ins_heap) (pv : option nat) (k : nat) : py ins_heap :=
  match pv with Some m => bind (ins_add_prev ih k m) (fun h => ins_add_next h m k) | None => Some ih end.

(* one iteration, as a function of the state *)
Lemma fp_step p L S I ih pv k i :
  op_at p k = Some i ->
  fp_body p (Some (L, S, I, ih, pv)) k
  = bind (fp_heap ih pv k) (fun ih' =>
      Some (labels_step L i k, subs_step S i k, I ++ [k], ih', if no_fallthrough i then None else Some k)).
Proof.
  intros Hop.
  cbv beta delta [fp_body]. rewrite bind_some. cbv beta. do 5 zeta_let. name_let k1.
  assert (Hk1 : forall L',
            k1 L' = bind (fp_heap ih pv k) (fun ih' =>
                      Some (L', subs_step S i k, I ++ [k], ih', if no_fallthrough i then None else Some k))).
  { intros L'. subst k1. cbv beta. name_let k2.
    assert (Hk2 : forall ih', k2 ih' = Some (L', subs_step S i k, I ++ [k], ih', if no_fallthrough i then None else Some k)).
    { intros ih'. subst k2. cbv beta. zeta_let. name_let k3.
      assert (Hk3 : forall pv', k3 pv' = Some (L', subs_step S i k, I ++ [k], ih', pv')).
      { intros pv'. subst k3. cbv beta. name_let k4.
        assert (Hk4 : forall S', k4 S' = Some (L', S', I ++ [k], ih', pv')) by (intros S'; reflexivity).
        unfold ins_class, ins_attr_label. rewrite Hop. cbn [bind ret].
        destruct i; cbn [ifE bind ret subs_step]; apply Hk4. }
      unfold ins_class. rewrite Hop. cbn [bind ret].
      destruct i; cbn [ifE no_fallthrough]; try (cbv zeta); apply Hk3. }
    unfold fp_heap. destruct pv as [m|].
    - destruct (ins_add_prev ih k m) as [h1|]; [|reflexivity]. cbn [bind].
      destruct (ins_add_next h1 m k) as [h2|]; [|reflexivity]. cbn [bind]. apply Hk2.
    - cbn [bind]. apply Hk2. }
  unfold ins_class, ins_attr_label. rewrite Hop. cbn [bind ret].
  destruct i; cbn [ifE bind ret labels_step]; apply Hk1.
Qed.

Definition nofall (p : prog) (j : nat) : bool := match op_at p j with Some i => no_fallthrough i | None => true end.
(* the default edges present after the first k instructions have been processed *)
Definition nd (p : prog) (k j : nat) : list nat := if (Nat.ltb (S j) k && negb (nofall p j))%bool then [S j] else [].
Definition prev_at (p : prog) (k : nat) : option nat :=
  match k with O => None | S m => if nofall p m then None else Some m end.
Definition labels_upto (p : prog) (k : nat) (l : string) : option nat := find_label_from l (firstn k p) 0 None.

Lemma find_label_from_app l : forall A B k acc,
  find_label_from l (A ++ B) k acc = find_label_from l B (k + length A) (find_label_from l A k acc).
Proof.
  induction A as [|a A IH]; intros B k acc; cbn [app find_label_from length].
  - rewrite Nat.add_0_r. reflexivity.
  - rewrite IH. replace (S k + length A) with (k + S (length A)) by lia. reflexivity.
Qed.

Lemma labels_get_set L l k l' : labels_get (labels_set L l k) l' = if String.eqb l l' then Some k else labels_get L l'.
Proof.
  induction L as [|[a v] L IH]; cbn [labels_set labels_get].
  - destruct (String.eqb l l'); reflexivity.
  - destruct (String.eqb a l) eqn:E1; cbn [labels_get].
    + apply String.eqb_eq in E1. subst a. destruct (String.eqb l l'); reflexivity.
    + rewrite IH. destruct (String.eqb a l') eqn:E2; [|reflexivity].
      apply String.eqb_eq in E2. subst a. rewrite String.eqb_sym, E1. reflexivity.
Qed.

Lemma nd_step p k j :
  nd p (S k) j = nd p k j ++ (if (Nat.eqb (S j) k && negb (nofall p j))%bool then [k] else []).
Proof.
  unfold nd. destruct (negb (nofall p j)); rewrite ?andb_false_r; [|reflexivity]. rewrite !andb_true_r.
  destruct (Nat.eqb (S j) k) eqn:E.
  - apply Nat.eqb_eq in E. subst k. rewrite Nat.ltb_irrefl.
    assert (H : Nat.ltb (S j) (S (S j)) = true) by (apply Nat.ltb_lt; lia). rewrite H. reflexivity.
  - apply Nat.eqb_neq in E. rewrite app_nil_r.
    destruct (Nat.ltb (S j) k) eqn:E1; destruct (Nat.ltb (S j) (S k)) eqn:E2; try reflexivity;
      [apply Nat.ltb_lt in E1; apply Nat.ltb_ge in E2 | apply Nat.ltb_ge in E1; apply Nat.ltb_lt in E2]; lia.
Qed.

(* subroutines[label].append(ins) on the defaultdict against the model's callsub_table step (keys are distinct) *)
Definition ct_acc (acc : list (string * list nat)) (l : string) (k : nat) : list (string * list nat) :=
  if existsb (fun '(n, _) => String.eqb n l) acc
  then map (fun '(n, ks) => if String.eqb n l then (n, ks ++ [k]) else (n, ks)) acc
  else acc ++ [(l, [k])].

Lemma subs_append_model : forall d l k, NoDup (map fst d) ->
  subs_append d l k = ct_acc d l k /\ NoDup (map fst (subs_append d l k)).
Proof.
  unfold ct_acc. induction d as [|[a w] d IH]; intros l k Hnd; cbn [subs_append existsb map app fst].
  - split; [reflexivity|]. constructor; [intros [] | constructor].
  - cbn [map fst] in Hnd. inversion Hnd as [|? ? Ha Hd]; subst.
    destruct (String.eqb a l) eqn:E; cbn [orb map fst].
    + apply String.eqb_eq in E. subst a. split; [|exact Hnd]. f_equal.
      assert (Hid : forall t : list (string * list nat), ~ In l (map fst t) ->
                map (fun '(n, ks) => if String.eqb n l then (n, ks ++ [k]) else (n, ks)) t = t).
      { induction t as [|[b u] t IHt]; intros Hn; [reflexivity|]. cbn [map].
        destruct (String.eqb b l) eqn:Eb; [apply String.eqb_eq in Eb; subst; exfalso; apply Hn; left; reflexivity|].
        rewrite IHt; [reflexivity|]. intros Hi. apply Hn. right. exact Hi. }
      symmetry. apply Hid. exact Ha.
    + destruct (IH l k Hd) as [E1 Hn1]. rewrite E1. split.
      * destruct (existsb (fun '(n, _) => String.eqb n l) d); reflexivity.
      * cbn [map fst]. constructor; [|rewrite <- E1; exact Hn1].
        rewrite <- E1. intros Hin.
        assert (Hk : forall t : subs_dict, In a (map fst (subs_append t l k)) -> In a (map fst t) \/ a = l).
        { induction t as [|[b u] t IHt]; cbn [subs_append map fst]; [intros [<-|[]]; right; reflexivity|].
          destruct (String.eqb b l); cbn [map fst]; [tauto|]. intros [<-|Hi]; [left; left; reflexivity|].
          destruct (IHt Hi); [left; right; assumption | right; assumption]. }
        destruct (Hk d Hin) as [Hi|Hal]; [contradiction|]. subst a. rewrite String.eqb_refl in E. discriminate.
Qed.

Lemma callsub_table_app : forall A B k acc,
  callsub_table (A ++ B) k acc = callsub_table B (k + length A) (callsub_table A k acc).
Proof.
  induction A as [|a A IH]; intros B k acc; cbn [app callsub_table length].
  - rewrite Nat.add_0_r. reflexivity.
  - destruct (i_op a); rewrite IH; replace (S k + length A) with (k + S (length A)) by lia; reflexivity.
Qed.

Section FirstPass.
  Variable p : prog.

  Record inv1 (k : nat) (st : fp_state) : Prop := {
    i1_ins : snd (fst (fst st)) = seq 0 k;
    i1_lab : forall l, labels_get (fst (fst (fst (fst st)))) l = labels_upto p k l;
    i1_subs : snd (fst (fst (fst st))) = callsub_table (firstn k p) 0 [];
    i1_subs_nd : NoDup (map fst (snd (fst (fst (fst st)))));
    i1_len : length (snd (fst st)) = length p;
    i1_sym : ih_sym (snd (fst st));
    i1_next : forall j, j < length p -> ins_attr_next (snd (fst st)) j = Some (nd p k j);
    i1_prev : snd st = prev_at p k }.

  Lemma inv1_step k st : k < length p -> inv1 k st -> exists st', fp_body p (Some st) k = Some st' /\ inv1 (S k) st'.
  Proof.
    intros Hk [Hi Hlab Hsubs Hsnd Hlen Hsym Hnext Hpv]. destruct st as [[[[L Sd] I] ih] pv]. cbn [fst snd] in *.
    destruct (nth_error p k) as [a|] eqn:Ea; [|apply nth_error_None in Ea; lia].
    assert (Hop : op_at p k = Some (i_op a)) by (unfold op_at; rewrite Ea; reflexivity).
    pose proof (fp_step p L Sd I ih pv k (i_op a) Hop) as Hstep.
    assert (Hnf : nofall p k = no_fallthrough (i_op a)) by (unfold nofall; rewrite Hop; reflexivity).
    assert (Hh : exists ih', fp_heap ih pv k = Some ih' /\ ih_sym ih' /\ length ih' = length p /\
                   forall j, j < length p -> ins_attr_next ih' j = Some (nd p (S k) j)).
    { unfold fp_heap. subst pv. destruct k as [|m]; cbn [prev_at].
      - exists ih. split; [reflexivity|]. split; [exact Hsym|]. split; [exact Hlen|].
        intros j Hj. rewrite (Hnext j Hj), nd_step. change (Nat.eqb (S j) 0) with false. cbn [andb]. cbv iota. rewrite app_nil_r. reflexivity.
      - destruct (nofall p m) eqn:Em.
        + exists ih. split; [reflexivity|]. split; [exact Hsym|]. split; [exact Hlen|].
          intros j Hj. rewrite (Hnext j Hj), (nd_step p (S m) j).
          destruct (Nat.eqb (S j) (S m)) eqn:E; [|cbn [andb]; cbv iota; rewrite app_nil_r; reflexivity].
          apply Nat.eqb_eq in E. injection E as ->. rewrite Em. cbn [andb negb]. cbv iota. rewrite app_nil_r. reflexivity.
        + destruct (edge_prev_next ih m (S m) ltac:(lia) ltac:(lia)) as (ih' & E & H).
          destruct (edge_sym ih ih' m (S m) ltac:(lia) ltac:(lia) Hsym H) as [Hs' Hl'].
          exists ih'. split; [exact E|]. split; [exact Hs'|]. split; [congruence|].
          intros j Hj. rewrite (edge_next_other ih ih' m (S m) j H), (Hnext j Hj), (nd_step p (S m) j). cbn [option_map].
          change (Nat.eqb (S j) (S m)) with (Nat.eqb j m).
          destruct (Nat.eqb j m) eqn:Ejm; [|reflexivity]. apply Nat.eqb_eq in Ejm. subst j. rewrite Em. reflexivity. }
    destruct Hh as (ih' & Eh & Hs' & Hl' & Hn'). rewrite Eh in Hstep. cbn [bind] in Hstep. eexists. split; [exact Hstep|].
    constructor; cbn [fst snd].
    - rewrite Hi, seq_S. reflexivity.
    - intros l. unfold labels_upto. rewrite (firstn_S_nth _ _ _ Ea), find_label_from_app.
      rewrite firstn_length, Nat.min_l by lia. cbn [find_label_from plus].
      fold (labels_upto p k l). rewrite <- Hlab.
      unfold labels_step. destruct (i_op a); try reflexivity. rewrite labels_get_set. reflexivity.
    - rewrite (firstn_S_nth _ _ _ Ea), callsub_table_app, <- Hsubs.
      rewrite firstn_length, Nat.min_l by lia. cbn [callsub_table plus]. unfold subs_step.
      destruct (i_op a); try reflexivity. fold (ct_acc Sd l k). exact (proj1 (subs_append_model Sd l k Hsnd)).
    - unfold subs_step. destruct (i_op a); try exact Hsnd. exact (proj2 (subs_append_model Sd l k Hsnd)).
    - exact Hl'.
    - exact Hs'.
    - exact Hn'.
    - cbn [prev_at]. rewrite Hnf. reflexivity.
  Qed.

  Lemma inv1_fold : forall r k st, k + r = length p -> inv1 k st ->
    exists st', fold_left (fp_body p) (seq k r) (Some st) = Some st' /\ inv1 (length p) st'.
  Proof.
    induction r as [|r IH]; intros k st Hk Hinv.
    - exists st. split; [reflexivity|]. replace (length p) with k by lia. exact Hinv.
    - cbn [seq fold_left]. destruct (inv1_step k st ltac:(lia) Hinv) as (st1 & E & H1). rewrite E. apply IH; [lia|exact H1].
  Qed.

  Lemma ih_sym_init : ih_sym (iheap_init p).
  Proof.
    unfold iheap_init. split.
    - intros x ox y Hx Hy. rewrite nth_error_map in Hx. destruct (nth_error p x); [|discriminate].
      cbn in Hx. injection Hx as <-. destruct Hy.
    - intros x y ox oy Hx Hy. rewrite nth_error_map in Hx, Hy.
      destruct (nth_error p x); [|discriminate]. destruct (nth_error p y); [|discriminate].
      cbn in Hx, Hy. injection Hx as <-. injection Hy as <-. reflexivity.
  Qed.

  (* the first pass never raises; it leaves: the label dictionary = Cfg.find_label, the instruction list, and an
     instruction heap with exactly the default (fall-through) edges *)
  Theorem first_pass_gen_spec :
    exists L S ih,
      first_pass_gen p [] [] [] (iheap_init p) = Some (L, S, seq 0 (length p), ih) /\
      (forall l, labels_get L l = find_label p l) /\ S = callsub_table p 0 [] /\
      length ih = length p /\ ih_sym ih /\
      (forall j, j < length p -> ins_attr_next ih j = Some (nd p (length p) j)).
  Proof.
    assert (H0 : inv1 0 ([], [], [], iheap_init p, None)).
    { constructor; cbn [fst snd]; try reflexivity.
      - constructor.
      - unfold iheap_init. apply map_length.
      - apply ih_sym_init.
      - intros j Hj. unfold ins_attr_next, iheap_init. rewrite nth_error_map.
        destruct (nth_error p j) eqn:E; [reflexivity | apply nth_error_None in E; lia]. }
    destruct (inv1_fold (length p) 0 _ eq_refl H0) as ([[[[L Sd] I] ih] pv] & E & [Hi Hlab Hsubs Hsnd Hlen Hsym Hnext Hpv]).
    cbn [fst snd] in *. exists L, Sd, ih. rewrite first_pass_gen_unfold.
    match goal with |- bind ?X _ = _ /\ _ => assert (HX : X = Some (L, Sd, I, ih, pv)) by exact E; rewrite HX end.
    cbn [bind ret fst snd]. subst I. split; [reflexivity|]. split; [|split; [|auto]].
    - intros l. rewrite Hlab. unfold labels_upto, find_label. rewrite firstn_all. reflexivity.
    - rewrite Hsubs, firstn_all. reflexivity.
  Qed.
End FirstPass.

(* ---------------------------------------------------------------- second_pass *)
Definition sp_body (p : prog) (L : labels_dict) : py ins_heap -> nat -> py ins_heap :=
  ltac:(let t := eval cbv beta delta [second_pass_gen] in (second_pass_gen p [] L []) in
        match t with context [fold_left ?F _ _] => exact F end).

Lemma second_pass_gen_unfold p I L ih :
  second_pass_gen p I L ih = bind (fold_left (sp_body p L) I (ret ih)) (fun r => ret r).
Proof. reflexivity. Qed.

(* the jump edges of one instruction, in the order of its labels: `ins.add_next(labels[l]); labels[l].add_prev(ins)` *)
Fixpoint add_edges (L : labels_dict) (ih : ins_heap) (k : nat) (ls : list string) : py ins_heap :=
  match ls with
  | [] => Some ih
  | l :: t => bind (labels_get L l) (fun tg =>
              bind (bind (ins_add_next ih k tg) (fun h => ins_add_prev h tg k)) (fun ih' => add_edges L ih' k t))
  end.

Lemma sp_inner_fold L k : forall ls ih,
  foldM (fun st2 ins_label => let iheap := st2 in
           bind (bind (labels_get L ins_label) (fun tmp3 => ins_add_next iheap k tmp3)) (fun iheap =>
           bind (bind (labels_get L ins_label) (fun tmp4 => ins_add_prev iheap tmp4 k)) (fun iheap => ret iheap))) ls ih
  = add_edges L ih k ls.
Proof.
  induction ls as [|l t IH]; intros ih; [reflexivity|]. cbn [foldM add_edges]. cbv zeta.
  destruct (labels_get L l) as [tg|]; [|reflexivity]. cbn [bind].
  destruct (ins_add_next ih k tg) as [h|]; [|reflexivity]. cbn [bind].
  destruct (ins_add_prev h tg k) as [h'|]; [|reflexivity]. cbn [bind ret]. apply IH.
Qed.

Lemma sp_step p L ih k i : op_at p k = Some i -> sp_body p L (Some ih) k = add_edges L ih k (jump_labels i).
Proof.
  intros Hop. cbv beta delta [sp_body]. rewrite bind_some. cbv beta. zeta_let. name_let k1.
  assert (Hk1 : forall h, k1 h = match i with ISwitch ls | IMatch ls => add_edges L h k ls | _ => Some h end).
  { intros h. subst k1. cbv beta. unfold ins_class, ins_attr_labels. rewrite Hop. cbn [bind ret].
    destruct i; cbn [ifE]; try reflexivity; cbn [bind]; rewrite fold_left_bind;
      pose proof (sp_inner_fold L k ls h) as E; cbv zeta in E; rewrite E; destruct (add_edges L h k ls); reflexivity. }
  unfold ins_class, ins_attr_label. rewrite Hop. cbn [bind ret].
  destruct i; cbn [ifE jump_labels]; try (rewrite Hk1; reflexivity);
    cbn [bind add_edges]; (destruct (labels_get L l) as [tg|]; [|reflexivity]); cbn [bind];
    (destruct (ins_add_next ih k tg) as [h|]; [|reflexivity]); cbn [bind];
    (destruct (ins_add_prev h tg k) as [h'|]; [|reflexivity]); cbn [bind]; rewrite Hk1; reflexivity.
Qed.

Lemma find_label_lt p l t : find_label p l = Some t -> t < length p.
Proof.
  intros H. apply find_label_spec in H. unfold op_at in H.
  destruct (nth_error p t) eqn:E; [|discriminate]. apply nth_error_Some. congruence.
Qed.

Lemma add_edges_spec p L (HL : forall l, labels_get L l = find_label p l) k : k < length p ->
  forall ls ih, length ih = length p -> ih_sym ih ->
  match map_opt (find_label p) ls with
  | Some js => exists ih', add_edges L ih k ls = Some ih' /\ length ih' = length p /\ ih_sym ih' /\
                 forall j, ins_attr_next ih' j = option_map (fun nx => nx ++ (if Nat.eqb j k then js else [])) (ins_attr_next ih j)
  | None => add_edges L ih k ls = None
  end.
Proof.
  intros Hk. induction ls as [|l t IH]; intros ih Hlen Hsym; cbn [map_opt add_edges].
  - exists ih. split; [reflexivity|]. split; [exact Hlen|]. split; [exact Hsym|].
    intros j. destruct (ins_attr_next ih j); cbn; [|reflexivity]. destruct (Nat.eqb j k); rewrite app_nil_r; reflexivity.
  - rewrite HL. destruct (find_label p l) as [tg|] eqn:El; [|reflexivity]. cbn [bind].
    pose proof (find_label_lt p l tg El) as Htg.
    destruct (edge_next_prev ih k tg ltac:(lia) ltac:(lia)) as (ih1 & E1 & H1).
    destruct (edge_sym ih ih1 k tg ltac:(lia) ltac:(lia) Hsym H1) as [Hs1 Hl1].
    rewrite E1. cbn [bind]. specialize (IH ih1 ltac:(congruence) Hs1).
    destruct (map_opt (find_label p) t) as [js|]; [|exact IH].
    destruct IH as (ih' & E' & Hl' & Hs' & Hn'). exists ih'. split; [exact E'|]. split; [exact Hl'|]. split; [exact Hs'|].
    intros j. rewrite Hn', (edge_next_other ih ih1 k tg j H1). destruct (ins_attr_next ih j) as [nx|]; [|reflexivity].
    cbn [option_map]. destruct (Nat.eqb j k); rewrite <- ?app_assoc; reflexivity.
Qed.

Section SecondPass.
  Variable p : prog.
  Variable L : labels_dict.
  Hypothesis HL : forall l, labels_get L l = find_label p l.

  (* Instruction.next once the first k instructions have received their jump edges *)
  Definition nx2 (k j : nat) : option (list nat) := if Nat.ltb j k then ins_next p j else Some (nd p (length p) j).

  Lemma ins_next_alt j i : op_at p j = Some i ->
    ins_next p j = option_map (fun js => nd p (length p) j ++ js) (map_opt (find_label p) (jump_labels i)).
  Proof.
    intros Hop. unfold ins_next, nd, nofall. rewrite Hop. rewrite andb_comm. reflexivity.
  Qed.

  Record inv2 (k : nat) (ih : ins_heap) : Prop := {
    i2_len : length ih = length p;
    i2_sym : ih_sym ih;
    i2_next : forall j, j < length p -> ins_attr_next ih j = nx2 k j /\ nx2 k j <> None }.

  Lemma inv2_step k ih : k < length p -> inv2 k ih ->
    match ins_next p k with
    | Some _ => exists ih', sp_body p L (Some ih) k = Some ih' /\ inv2 (S k) ih'
    | None => sp_body p L (Some ih) k = None
    end.
  Proof.
    intros Hk [Hlen Hsym Hnext].
    destruct (nth_error p k) as [a|] eqn:Ea; [|apply nth_error_None in Ea; lia].
    assert (Hop : op_at p k = Some (i_op a)) by (unfold op_at; rewrite Ea; reflexivity).
    rewrite (sp_step p L ih k _ Hop), (ins_next_alt k _ Hop).
    pose proof (add_edges_spec p L HL k Hk (jump_labels (i_op a)) ih Hlen Hsym) as Hspec.
    destruct (map_opt (find_label p) (jump_labels (i_op a))) as [js|] eqn:Ej; cbn [option_map]; [|exact Hspec].
    destruct Hspec as (ih' & E & Hl' & Hs' & Hn'). exists ih'. split; [exact E|]. constructor; [exact Hl'|exact Hs'|].
    intros j Hj. destruct (Hnext j Hj) as [H1 H2]. rewrite Hn', H1. unfold nx2 in *.
    destruct (Nat.eqb j k) eqn:Ejk.
    - apply Nat.eqb_eq in Ejk. subst j. rewrite Nat.ltb_irrefl.
      assert (Hlt : Nat.ltb k (S k) = true) by (apply Nat.ltb_lt; lia). rewrite Hlt.
      rewrite (ins_next_alt k _ Hop), Ej. cbn. split; [reflexivity | discriminate].
    - apply Nat.eqb_neq in Ejk.
      replace (Nat.ltb j (S k)) with (Nat.ltb j k).
      2:{ destruct (Nat.ltb j k) eqn:E1; destruct (Nat.ltb j (S k)) eqn:E2; try reflexivity;
            [apply Nat.ltb_lt in E1; apply Nat.ltb_ge in E2 | apply Nat.ltb_ge in E1; apply Nat.ltb_lt in E2]; lia. }
      destruct (if Nat.ltb j k then ins_next p j else Some (nd p (length p) j)) as [nx|]; [|contradiction].
      cbn. rewrite app_nil_r. split; [reflexivity | discriminate].
  Qed.

  Lemma sp_body_none k : sp_body p L None k = None.
  Proof. reflexivity. Qed.

  Lemma inv2_fold : forall r k ih, k + r = length p -> inv2 k ih ->
    (exists ih', fold_left (sp_body p L) (seq k r) (Some ih) = Some ih' /\ inv2 (length p) ih') \/
    (fold_left (sp_body p L) (seq k r) (Some ih) = None /\ exists j, j < length p /\ ins_next p j = None).
  Proof.
    induction r as [|r IH]; intros k ih Hk Hinv.
    - left. exists ih. split; [reflexivity|]. replace (length p) with k by lia. exact Hinv.
    - cbn [seq fold_left]. pose proof (inv2_step k ih ltac:(lia) Hinv) as Hs.
      destruct (ins_next p k) eqn:En.
      + destruct Hs as (ih1 & E & H1). rewrite E. apply IH; [lia | exact H1].
      + right. rewrite Hs. split; [apply fold_bind_none; intros x; apply sp_body_none|]. exists k. split; [lia | exact En].
  Qed.
End SecondPass.

(* the two passes in sequence, from the fresh Instruction objects *)
Definition passes_gen (p : prog) : py ins_heap :=
  bind (first_pass_gen p [] [] [] (iheap_init p)) (fun r =>
    second_pass_gen p (snd (fst r)) (fst (fst (fst r))) (snd r)).

(* THEOREM 4: after first_pass and second_pass, Instruction.next is the model's ins_next at every position, the edge
   lists mirror each other; the passes raise an exception (KeyError: label) exactly when some ins_next is undefined *)
Theorem passes_gen_spec p :
  match passes_gen p with
  | Some ih => length ih = length p /\ ih_sym ih /\ forall k, k < length p -> ins_attr_next ih k = ins_next p k
  | None => exists k, k < length p /\ ins_next p k = None
  end.
Proof.
  unfold passes_gen. destruct (first_pass_gen_spec p) as (L & Sd & ih1 & E1 & HL & _ & Hlen & Hsym & Hnext).
  rewrite E1. cbn [bind fst snd]. rewrite second_pass_gen_unfold.
  assert (H0 : inv2 p 0 ih1).
  { constructor; [exact Hlen | exact Hsym|]. intros j Hj. unfold nx2. cbn. rewrite (Hnext j Hj). split; [reflexivity|discriminate]. }
  destruct (inv2_fold p L HL (length p) 0 ih1 eq_refl H0) as [(ih' & E & [Hl' Hs' Hn'])|(E & Hex)].
  - match goal with |- match bind ?X _ with _ => _ end => assert (HX : X = Some ih') by exact E; rewrite HX end.
    cbn [bind ret]. split; [exact Hl'|]. split; [exact Hs'|]. intros k Hk. destruct (Hn' k Hk) as [H1 _].
    rewrite H1. unfold nx2. apply Nat.ltb_lt in Hk. rewrite Hk. reflexivity.
  - match goal with |- match bind ?X _ with _ => _ end => assert (HX : X = None) by exact E; rewrite HX end.
    exact Hex.
Qed.

(* ---------------------------------------------------------------- the passes composed *)
Lemma scan_none p lastk : forall rest pre st k,
  p = pre ++ rest -> length pre <= k -> k < length p -> ins_next p k = None ->
  scan p lastk rest (length pre) st = None.
Proof.
  induction rest as [|a rest IH]; intros pre st k Hp Hle Hlt Hn.
  - rewrite Hp, app_nil_r in Hlt. lia.
  - cbn [scan]. destruct (Nat.eq_dec k (length pre)) as [->|Hne]; [rewrite Hn; reflexivity|].
    destruct (ins_next p (length pre)); [|reflexivity].
    assert (El : length (pre ++ [a]) = S (length pre)) by (rewrite app_length; cbn; lia).
    rewrite <- El. apply (IH (pre ++ [a]) _ k); [rewrite <- app_assoc; exact Hp | rewrite El; lia | exact Hlt | exact Hn].
Qed.

Lemma create_bb_none p k : k < length p -> ins_next p k = None -> create_bb p = None.
Proof.
  intros Hk Hn. unfold create_bb.
  pose proof (scan_none p (pred (length p)) p [] ([], []) k eq_refl (Nat.le_0_l _) Hk Hn) as Hs.
  cbn [length] in Hs. rewrite Hs. reflexivity.
Qed.

(* THEOREM 1+4: first_pass, second_pass and create_bb in sequence, from the fresh Instruction objects, with NO
   hypothesis on the instruction list: the result is the model's create_bb (an unresolved label raises KeyError in
   second_pass where the model's create_bb is None) *)
Theorem passes_create_bb_gen_eq p :
  bind (passes_gen p) (fun ih => create_bb_gen p (seq 0 (length p)) [] [] ih) =
  bind (create_bb p) (fun bs =>
    match passes_gen p with
    | Some ih => Some (seq 0 (length bs), raw_heap bs, bb_assign bs ih)
    | None => None
    end).
Proof.
  pose proof (passes_gen_spec p) as H. destruct (passes_gen p) as [ih|]; cbn [bind].
  - destruct H as (_ & _ & Hn). rewrite (create_bb_gen_eq p ih Hn). destruct (create_bb p); reflexivity.
  - destruct H as (k & Hk & Hn). rewrite (create_bb_none p k Hk Hn). reflexivity.
Qed.

Corollary passes_defined_iff p : passes_gen p <> None <-> (p = [] \/ create_bb p <> None).
Proof.
  pose proof (passes_gen_spec p) as H. destruct (passes_gen p) as [ih|] eqn:E.
  - split; [|intros _; discriminate]. intros _. destruct p as [|a p']; [left; reflexivity|]. right.
    destruct H as (Hlen & _ & Hn).
    intros Hnone. unfold create_bb in Hnone.
    destruct (scan (a :: p') (pred (length (a :: p'))) (a :: p') 0 ([], [])) as [[d c]|] eqn:Es; [discriminate|].
    clear Hnone.
    assert (Hall : forall rest pre st, a :: p' = pre ++ rest -> scan (a :: p') (pred (length (a :: p'))) rest (length pre) st <> None).
    { induction rest as [|x rest IH]; intros pre st Hp; [discriminate|]. cbn [scan].
      assert (Hk : length pre < length (a :: p')) by (rewrite Hp, app_length; cbn; lia).
      specialize (Hn _ Hk). unfold ins_attr_next in Hn.
      destruct (ins_next (a :: p') (length pre)) as [nx|] eqn:En.
      - assert (El : length (pre ++ [x]) = S (length pre)) by (rewrite app_length; cbn; lia).
        rewrite <- El. apply IH. rewrite <- app_assoc. exact Hp.
      - exfalso. destruct (nth_error ih (length pre)) eqn:Eh; [discriminate|].
        apply nth_error_None in Eh. lia. }
    exact (Hall (a :: p') [] ([], []) eq_refl Es).
  - split; [intros Hc; contradiction|]. intros [->|Hc].
    + destruct H as (k & Hk & _). cbn in Hk. lia.
    + exfalso. apply Hc. destruct H as (k & Hk & Hn). exact (create_bb_none p k Hk Hn).
Qed.

(* ins.bb assignments do not touch the edge lists *)
Lemma bb_assign_mirror bs ih : ih_mirror ih -> ih_mirror (bb_assign bs ih).
Proof.
  assert (Hnth : forall ih k0 j, nth_error (bb_assign_from bs k0 ih) j =
            option_map (fun o => mkInsObj (io_next o) (io_prev o)
                                   (match block_of_pos bs (k0 + j) 0 with Some b => Some b | None => io_bb o end))
                       (nth_error ih j)).
  { induction ih0 as [|o t IH]; intros k0 j; [destruct j; reflexivity|].
    destruct j as [|j]; cbn [bb_assign_from nth_error option_map]; [rewrite Nat.add_0_r; reflexivity|].
    rewrite IH. replace (S k0 + j) with (k0 + S j) by lia. reflexivity. }
  intros Hm x ox y Hx Hy. unfold bb_assign in *. rewrite Hnth in Hx.
  destruct (nth_error ih x) as [ox0|] eqn:Ex; [|discriminate]. cbn in Hx. injection Hx as <-. cbn [io_next] in *.
  destruct (Hm x ox0 y Ex Hy) as (oy & Hoy & Hc). rewrite Hnth, Hoy. cbn. eexists. split; [reflexivity|]. exact Hc.
Qed.

(* TRANSPORTED, end to end: for a program the model accepts, the instruction heap first_pass/second_pass/create_bb
   produce satisfies the hypothesis of the pruning theorem, so that the generated pruning loop run on it returns
   the model's retained instructions and blocks *)
Definition bb_assign_bs (p : prog) (ih : ins_heap) : ins_heap :=
  match create_bb p with Some rbs => bb_assign rbs ih | None => ih end.

Theorem passes_prune_parse_teal p t :
  parse_teal p = Ok t ->
  exists ih bs subs0 bh' ih',
    passes_gen p = Some ih /\ build_blocks p = Some bs /\
    prune_unreachable_gen (seq 0 (length bs)) (reachable_of bs subs0) (seq 0 (length p)) bs (bb_assign_bs p ih)
      = Some (t_retained_ins t, bh', ih') /\
    filter (alive (reachable_of bs subs0)) bh' = t_blocks t.
Proof.
  unfold bb_assign_bs.
  intros Hp. destruct (parse_teal_inv p t Hp) as (bs0 & s0 & Hne & Hb & _).
  pose proof (passes_gen_spec p) as H. destruct (passes_gen p) as [ih|] eqn:E.
  - destruct H as (Hlen & Hsym & _).
    assert (Hm : ih_mirror (match create_bb p with Some rbs => bb_assign rbs ih | None => ih end)).
    { destruct (create_bb p); [apply bb_assign_mirror|]; apply ih_sym_mirror; exact Hsym. }
    assert (Hl : length (match create_bb p with Some rbs => bb_assign rbs ih | None => ih end) = length p).
    { destruct (create_bb p) as [rbs|]; [|exact Hlen]. rewrite <- Hlen. unfold bb_assign. generalize 0.
      clear. induction ih as [|o t IH]; intros k; cbn; [reflexivity|]. rewrite IH. reflexivity. }
    destruct (prune_unreachable_gen_parse_teal p t _ Hp Hm Hl) as (bs & subs0 & bh' & ih' & Hb' & Ep & Hf & _).
    exists ih, bs, subs0, bh', ih'. auto.
  - exfalso. destruct H as (k & Hk & Hn). unfold build_blocks in Hb.
    rewrite (create_bb_none p k Hk Hn) in Hb. discriminate.
Qed.

(* ====================================================================== *)
(* 5. fourth_pass                                                          *)
(* ====================================================================== *)
(* the successors fourth_pass appends to a next list `cur`, given the blocks of the successors of the exit instruction *)
Fixpoint added (cur tb : list nat) : list nat :=
  match tb with
  | [] => []
  | t :: r => if nat_mem t cur then added cur r else t :: added (cur ++ [t]) r
  end.

Lemma add_new_added : forall tb cur, add_new cur tb = cur ++ added cur tb.
Proof.
  induction tb as [|t r IH]; intros cur; cbn [add_new added]; [rewrite app_nil_r; reflexivity|].
  destruct (nat_mem t cur); [apply IH|]. rewrite IH, <- app_assoc. reflexivity.
Qed.

Lemma added_not_cur : forall tb cur t, In t (added cur tb) -> ~ In t cur.
Proof.
  induction tb as [|a r IH]; intros cur t H; cbn [added] in H; [destruct H|].
  destruct (nat_mem a cur) eqn:E; [exact (IH _ _ H)|].
  destruct H as [<-|H].
  - intros Hin. apply nat_mem_In in Hin. congruence.
  - intros Hin. apply (IH _ _ H). apply in_or_app. left. exact Hin.
Qed.

Lemma added_in_tb : forall tb cur t, In t (added cur tb) -> In t tb.
Proof.
  induction tb as [|a r IH]; intros cur t H; cbn [added] in H; [destruct H|].
  destruct (nat_mem a cur); [right; exact (IH _ _ H)|]. destruct H as [<-|H]; [left; reflexivity | right; exact (IH _ _ H)].
Qed.

(* one block of fourth_pass: the loop over the successors of the exit instruction *)
Definition fp4_cell (n : nat) (ad : list nat) (j : nat) (B : block) : block :=
  mkBlock (b_idx B) (b_ins B) (b_next B ++ (if Nat.eqb j n then ad else []))
          (b_prev B ++ (if nat_mem j ad then [n] else [])).

Lemma edge_blocks bh n t Bn :
  nth_error bh n = Some Bn -> t < length bh ->
  exists bh', bind (bb_add_next bh n t) (fun h => bb_add_prev h t n) = Some bh' /\
    forall j, nth_error bh' j = option_map (fp4_cell n [t] j) (nth_error bh j).
Proof.
  intros Hn Ht.
  destruct (upd_nth_some (fun o => ret (mkBlock (b_idx o) (b_ins o) (b_next o ++ [t]) (b_prev o))) bh n Bn _ Hn eq_refl) as (h1 & E1 & H1).
  assert (Et : exists Bt, nth_error h1 t = Some Bt).
  { rewrite H1. destruct (Nat.eqb t n); [eauto|]. destruct (nth_error bh t) eqn:E; [eauto|apply nth_error_None in E; lia]. }
  destruct Et as (Bt & Et).
  destruct (upd_nth_some (fun o => ret (mkBlock (b_idx o) (b_ins o) (b_next o) (b_prev o ++ [n]))) h1 t Bt _ Et eq_refl) as (h2 & E2 & H2).
  exists h2. split; [unfold bb_add_next, bb_add_prev; rewrite E1; cbn [bind]; exact E2|].
  intros j. rewrite H2. unfold fp4_cell. cbn [nat_mem existsb]. rewrite orb_false_r.
  destruct (Nat.eqb j t) eqn:Ejt.
  - apply Nat.eqb_eq in Ejt. subst j. rewrite H1 in Et. destruct (Nat.eqb t n) eqn:Etn.
    + apply Nat.eqb_eq in Etn. subst t. injection Et as <-. rewrite Hn. reflexivity.
    + rewrite Et. cbn. rewrite app_nil_r. reflexivity.
  - rewrite H1. destruct (Nat.eqb j n) eqn:Ejn.
    + apply Nat.eqb_eq in Ejn. subst j. rewrite Hn. cbn. rewrite app_nil_r. reflexivity.
    + destruct (nth_error bh j) as [B|]; [|reflexivity]. cbn. rewrite !app_nil_r. destruct B; reflexivity.
Qed.

Lemma upd_nth_length {A} (g : A -> py A) : forall (l : list A) n l', upd_nth l n g = Some l' -> length l' = length l.
Proof.
  induction l as [|a l IH]; intros n l' H; [destruct n; discriminate|].
  destruct n as [|n]; cbn [upd_nth] in H.
  - destruct (g a); [|discriminate]. injection H as <-. reflexivity.
  - destruct (upd_nth l n g) as [t'|] eqn:E; [|discriminate]. injection H as <-. cbn. rewrite (IH _ _ E). reflexivity.
Qed.

Lemma fp4_inner (ih : ins_heap) (bpos : nat -> option nat) (n : nat) : forall nx,
  (forall k, In k nx -> ins_attr_bb ih k = bpos k) -> forall bh Bn,
  nth_error bh n = Some Bn ->
  match map_opt bpos nx with
  | None =>
      foldM (fun bheap next_ins =>
         bind (ins_attr_bb ih next_ins) (fun next_bb =>
         ifE (bind (bb_next bheap n) (fun tmp2 => ret (negb (lst_mem next_bb tmp2))))
             (assertC (bind (bb_prev bheap next_bb) (fun tmp3 => ret (negb (lst_mem n tmp3))))
                (bind (bb_add_next bheap n next_bb) (fun bheap =>
                 bind (bb_add_prev bheap next_bb n) (fun bheap => ret bheap))))
             (ret bheap))) nx bh = None
  | Some tb =>
      (forall t, In t tb -> t < length bh) ->
      (forall t Bt, In t (added (b_next Bn) tb) -> nth_error bh t = Some Bt -> ~ In n (b_prev Bt)) ->
      exists bh',
        foldM (fun bheap next_ins =>
           bind (ins_attr_bb ih next_ins) (fun next_bb =>
           ifE (bind (bb_next bheap n) (fun tmp2 => ret (negb (lst_mem next_bb tmp2))))
               (assertC (bind (bb_prev bheap next_bb) (fun tmp3 => ret (negb (lst_mem n tmp3))))
                  (bind (bb_add_next bheap n next_bb) (fun bheap =>
                   bind (bb_add_prev bheap next_bb n) (fun bheap => ret bheap))))
               (ret bheap))) nx bh = Some bh' /\
        forall j, nth_error bh' j = option_map (fp4_cell n (added (b_next Bn) tb) j) (nth_error bh j)
  end.
Proof.
  induction nx as [|x nx IH]; intros Hbb bh Bn Hn; cbn [map_opt].
  - intros _ _. exists bh. split; [reflexivity|]. intros j. unfold fp4_cell. cbn [added nat_mem existsb].
    destruct (nth_error bh j) as [B|]; [|reflexivity]. cbn. destruct (Nat.eqb j n); rewrite !app_nil_r; destruct B; reflexivity.
  - cbn [foldM]. rewrite (Hbb x (or_introl eq_refl)). destruct (bpos x) as [t|] eqn:Ex; [|destruct (map_opt bpos nx); reflexivity].
    cbn [bind]. specialize (IH (fun k Hk => Hbb k (or_intror Hk))). pose proof (IH bh Bn Hn) as IHsame.
    destruct (map_opt bpos nx) as [tb|] eqn:Etb.
    + intros Hlt Hpre. unfold bb_next at 1. rewrite Hn. cbn [option_map bind ret].
      change (lst_mem t (b_next Bn)) with (nat_mem t (b_next Bn)).
      cbn [added] in Hpre |- *.
      destruct (nat_mem t (b_next Bn)) eqn:Emem; cbn [negb ifE bind ret].
      * (* already a successor *)
        apply IHsame; [intros t' Ht'; apply Hlt; right; exact Ht' | exact Hpre].
      * (* a new successor *)
        assert (Ht : t < length bh) by (apply Hlt; left; reflexivity).
        destruct (nth_error bh t) as [Bt|] eqn:EBt; [|apply nth_error_None in EBt; lia].
        unfold bb_prev at 1. rewrite EBt. cbn [option_map bind ret].
        assert (Hnp : lst_mem n (b_prev Bt) = false).
        { destruct (lst_mem n (b_prev Bt)) eqn:E; [|reflexivity]. exfalso.
          apply (Hpre t Bt (or_introl eq_refl) EBt). apply nat_mem_In. exact E. }
        rewrite Hnp. cbn [negb assertC].
        destruct (edge_blocks bh n t Bn Hn Ht) as (bh1 & E1 & H1).
        assert (Hn1 : nth_error bh1 n = Some (fp4_cell n [t] n Bn)) by (rewrite H1, Hn; reflexivity).
        assert (Hl1 : length bh1 = length bh).
        { apply same_length_nth. intros j. rewrite H1. destruct (nth_error bh j); cbn; split; congruence. }
        specialize (IH bh1 _ Hn1).
        assert (Hnx1 : b_next (fp4_cell n [t] n Bn) = b_next Bn ++ [t]).
        { unfold fp4_cell. cbn [b_next]. rewrite Nat.eqb_refl. reflexivity. }
        rewrite Hnx1 in IH.
        destruct IH as (bh' & E' & H').
        { intros t' Ht'. rewrite Hl1. apply Hlt. right. exact Ht'. }
        { intros t' Bt' Ht' HBt'. rewrite H1 in HBt'.
          destruct (nth_error bh t') as [Bt0|] eqn:EBt0; [|discriminate]. cbn in HBt'. injection HBt' as <-.
          unfold fp4_cell. cbn [b_prev nat_mem existsb]. rewrite orb_false_r.
          assert (Hne : t' <> t).
          { intros ->. apply (added_not_cur _ _ _ Ht'). apply in_or_app. right. left. reflexivity. }
          apply Nat.eqb_neq in Hne. rewrite Hne, app_nil_r.
          apply (Hpre t' Bt0); [right; exact Ht' | exact EBt0]. }
        exists bh'. split.
        -- destruct (bb_add_next bh n t) as [h|]; [|discriminate]. cbn [bind] in E1 |- *. rewrite E1. cbn [bind ret]. exact E'.
        -- intros j. rewrite H', H1. destruct (nth_error bh j) as [B|]; [|reflexivity]. cbn [option_map].
           unfold fp4_cell. cbn [b_idx b_ins b_next b_prev nat_mem existsb]. rewrite orb_false_r.
           f_equal. f_equal.
           ++ destruct (Nat.eqb j n); [rewrite <- app_assoc; reflexivity | rewrite !app_nil_r; reflexivity].
           ++ rewrite <- app_assoc. f_equal. destruct (Nat.eqb j t) eqn:Ejt; cbn [orb app].
              ** apply Nat.eqb_eq in Ejt. subst j.
                 assert (Hf : existsb (Nat.eqb t) (added (b_next Bn ++ [t]) tb) = false).
                 { destruct (existsb (Nat.eqb t) (added (b_next Bn ++ [t]) tb)) eqn:E; [|reflexivity]. exfalso.
                   apply existsb_exists in E. destruct E as (z & Hz & Hez). apply Nat.eqb_eq in Hez. subst z.
                   apply (added_not_cur _ _ _ Hz). apply in_or_app. right. left. reflexivity. }
                 unfold nat_mem. rewrite Hf. reflexivity.
              ** reflexivity.
    + (* a later successor has no block: the loop raises *)
      unfold bb_next at 1. rewrite Hn. cbn [option_map bind ret].
      destruct (lst_mem t (b_next Bn)); cbn [negb ifE bind ret]; [exact IHsame|].
      destruct (nth_error bh t) as [Bt|] eqn:EBt.
      2:{ unfold bb_prev at 1. rewrite EBt. reflexivity. }
      unfold bb_prev at 1. rewrite EBt. cbn [option_map bind ret].
      destruct (lst_mem n (b_prev Bt)); cbn [negb assertC]; [reflexivity|].
      destruct (bb_add_next bh n t) as [h|] eqn:Ea; [|reflexivity]. cbn [bind].
      destruct (bb_add_prev h t n) as [h2|] eqn:Eb; [|reflexivity]. cbn [bind ret].
      assert (exists B2, nth_error h2 n = Some B2) as (B2 & HB2).
      { assert (L1 : length h = length bh) by (exact (upd_nth_length _ _ _ _ Ea)).
        assert (L2 : length h2 = length h) by (exact (upd_nth_length _ _ _ _ Eb)).
        destruct (nth_error h2 n) eqn:E; [eauto|]. apply nth_error_None in E.
        assert (n < length bh) by (apply nth_error_Some; congruence). lia. }
      specialize (IH h2 B2 HB2). exact IH.
Qed.

(* ---------------------------------------------------------------- the outer loop *)
Definition fp4_body (ih : ins_heap) : py block_heap -> nat -> py block_heap :=
  ltac:(let t := eval cbv beta delta [fourth_pass_gen] in (fourth_pass_gen [] [] ih) in
        match t with context [fold_left ?F _ _] => exact F end).

Lemma fourth_pass_gen_unfold bbs bh ih :
  fourth_pass_gen bbs bh ih = bind (fold_left (fp4_body ih) bbs (ret bh)) (fun r => ret r).
Proof. reflexivity. Qed.

Lemma flat_map_ext_in {A B} (f g : A -> list B) l : (forall x, In x l -> f x = g x) -> flat_map f l = flat_map g l.
Proof.
  induction l as [|a l IH]; intros H; [reflexivity|]. cbn. rewrite (H a (or_introl eq_refl)), IH; [reflexivity|].
  intros x Hx. apply H. right. exact Hx.
Qed.

Lemma flat_map_combine_seq {A B} (g : nat -> A -> list B) : forall (l : list A) a,
  flat_map (fun '(m, x) => g m x) (combine (seq a (length l)) l)
  = flat_map (fun m => match nth_error l (m - a) with Some x => g m x | None => [] end) (seq a (length l)).
Proof.
  induction l as [|x l IH]; intros a; [reflexivity|]. cbn [length seq combine flat_map].
  rewrite Nat.sub_diag. cbn [nth_error]. f_equal. rewrite IH. apply flat_map_ext_in.
  intros m Hm. apply in_seq in Hm. replace (m - a) with (S (m - S a)) by lia. reflexivity.
Qed.

Section FourthPass.
  Variable p : prog.
  Variable bs : list rawblock.
  Variable blocks : list block.
  Variable ih : ins_heap.
  Hypothesis Hc : create_bb p = Some bs.
  Hypothesis Hb : build_blocks p = Some blocks.
  Hypothesis Hnext : forall k, k < length p -> ins_attr_next ih k = ins_next p k.
  Hypothesis Hbb : forall k, k < length p -> ins_attr_bb ih k = block_of_pos bs k 0.

  (* default successor / default predecessor of raw block j, successors added by fourth_pass *)
  Definition dfl (j : nat) : list nat := match nth_error bs j with Some rb => if rb_dflt rb then [S j] else [] | None => [] end.
  Definition dprev (j : nat) : list nat :=
    match j with O => [] | S m => match nth_error bs m with Some b => if rb_dflt b then [m] else [] | None => [] end end.
  Definition adj (nexts : list (list nat)) (m : nat) : list nat :=
    match nth_error nexts m with
    | Some nx => match nth_error bs m with Some b => if rb_dflt b then tl nx else nx | None => nx end
    | None => []
    end.

  Definition fp4_upto (nexts : list (list nat)) (n j : nat) (rb : rawblock) : block :=
    mkBlock j (rb_ins rb) (dfl j ++ (if Nat.ltb j n then adj nexts j else []))
            (dprev j ++ flat_map (fun m => if nat_mem j (adj nexts m) then [m] else []) (seq 0 n)).

  Lemma ins_next_lt k nx y : ins_next p k = Some nx -> In y nx -> y < length p.
  Proof.
    unfold ins_next. destruct (op_at p k) as [i|]; [|discriminate].
    destruct (map_opt (find_label p) (jump_labels i)) as [js|] eqn:Ej; [|discriminate].
    intros H Hy. injection H as <-. apply in_app_or in Hy. destruct Hy as [Hy|Hy].
    - destruct (negb (no_fallthrough i) && Nat.ltb (S k) (length p))%bool eqn:E; [|destruct Hy].
      destruct Hy as [<-|[]]. apply andb_prop in E. destruct E as [_ E]. apply Nat.ltb_lt in E. exact E.
    - apply (map_opt_In _ _ _ Ej) in Hy. destruct Hy as (l & _ & Hl). exact (find_label_lt p l y Hl).
  Qed.

  Theorem fourth_pass_gen_eq : fourth_pass_gen (seq 0 (length bs)) (raw_heap bs) ih = Some blocks.
  Proof.
    destruct (build_blocks_spec p blocks Hb) as (bs' & nexts & Hc' & Hrn & Hln & Hlb & Hspec).
    assert (bs' = bs) by congruence. subst bs'.
    assert (Hne : p <> []) by (intros ->; discriminate).
    (* facts about every block *)
    assert (Hblk : forall n rb, nth_error bs n = Some rb ->
              exists nx inx tb, nth_error nexts n = Some nx /\ rb_ins rb <> [] /\
                ins_next p (last (rb_ins rb) 0) = Some inx /\ map_opt (fun k => block_of_pos bs k 0) inx = Some tb /\
                nx = dfl n ++ adj nexts n /\ adj nexts n = added (dfl n) tb /\ last (rb_ins rb) 0 < length p).
    { intros n rb Hrb. assert (Hn : n < length blocks) by (rewrite Hlb; apply nth_error_Some; congruence).
      destruct (nth_error blocks n) as [b|] eqn:Eb; [|apply nth_error_None in Eb; lia].
      destruct (Hspec n b Eb) as (rb' & nx & Hrb' & Hnx & Hr & _). assert (rb' = rb) by congruence. subst rb'.
      destruct (raw_next_spec _ _ _ _ _ Hr) as (Hnemp & inx & tb & Hin & Htb & Enx).
      exists nx, inx, tb. split; [exact Hnx|]. split; [exact Hnemp|]. split; [exact Hin|]. split; [exact Htb|].
      rewrite add_new_added in Enx. unfold dfl, adj. rewrite Hrb, Hnx.
      assert (Hl : last (rb_ins rb) 0 < length p).
      { assert (Hi : In (last (rb_ins rb) 0) (concat (map rb_ins bs))).
        { apply in_concat. exists (rb_ins rb). split; [apply in_map; exact (nth_error_In _ _ Hrb) | apply last_In; exact Hnemp]. }
        rewrite (blocks_partition p bs Hc Hne) in Hi. apply in_seq in Hi. lia. }
      destruct (rb_dflt rb); rewrite Enx; cbn [app tl]; auto. }
    (* the invariant *)
    assert (Hinv : forall r n bh, n + r = length bs ->
              (forall j, nth_error bh j = option_map (fp4_upto nexts n j) (nth_error bs j)) ->
              exists bh', fold_left (fp4_body ih) (seq n r) (Some bh) = Some bh' /\
                          forall j, nth_error bh' j = option_map (fp4_upto nexts (length bs) j) (nth_error bs j)).
    { induction r as [|r IH]; intros n bh Hn Hbh.
      - exists bh. split; [reflexivity|]. replace (length bs) with n by lia. exact Hbh.
      - cbn [seq fold_left].
        destruct (nth_error bs n) as [rb|] eqn:Erb; [|apply nth_error_None in Erb; lia].
        destruct (Hblk n rb Erb) as (nx & inx & tb & Hnx & Hnemp & Hin & Htb & Enx & Ead & Hex).
        assert (HBn : nth_error bh n = Some (fp4_upto nexts n n rb)) by (rewrite Hbh, Erb; reflexivity).
        assert (Hlen : length bh = length bs).
        { apply same_length_nth. intros j. rewrite Hbh. destruct (nth_error bs j); cbn; split; congruence. }
        pose proof (fp4_inner ih (fun k => block_of_pos bs k 0) n inx
                      (fun k Hk => Hbb k (ins_next_lt _ _ _ Hin Hk)) bh _ HBn) as Hin4. rewrite Htb in Hin4.
        assert (Hnxt : b_next (fp4_upto nexts n n rb) = dfl n).
        { unfold fp4_upto. cbn [b_next]. rewrite Nat.ltb_irrefl, app_nil_r. reflexivity. }
        rewrite Hnxt, <- Ead in Hin4.
        destruct Hin4 as (bh1 & E1 & H1).
        { intros t Ht. rewrite Hlen. apply (map_opt_In _ _ _ Htb) in Ht. destruct Ht as (k & _ & Hk).
          apply block_of_pos_spec in Hk. destruct Hk as (_ & rb' & Hrb' & _). rewrite Nat.sub_0_r in Hrb'.
          apply nth_error_Some. congruence. }
        { intros t Bt Ht HBt Hin'. rewrite Hbh in HBt. destruct (nth_error bs t) as [rbt|] eqn:Erbt; [|discriminate].
          cbn in HBt. injection HBt as <-. unfold fp4_upto in Hin'. cbn [b_prev] in Hin'.
          apply in_app_or in Hin'. destruct Hin' as [Hd|Hf].
          - unfold dprev in Hd. destruct t as [|m]; [destruct Hd|].
            destruct (nth_error bs m) as [bm|] eqn:Ebm; [|destruct Hd]. destruct (rb_dflt bm) eqn:Edm; [|destruct Hd].
            destruct Hd as [->|[]]. rewrite Ead in Ht. apply (added_not_cur _ _ _ Ht).
            unfold dfl. rewrite Ebm, Edm. left. reflexivity.
          - apply in_flat_map in Hf. destruct Hf as (m & Hm & Hx). apply in_seq in Hm.
            destruct (nat_mem t (adj nexts m)); [|destruct Hx]. destruct Hx as [->|[]]. lia. }
        assert (Estep : fp4_body ih (Some bh) n = Some bh1).
        { cbv beta delta [fp4_body]. rewrite bind_some. cbv beta zeta.
          unfold bb_exit_instr. rewrite HBn. cbn [bind fp4_upto b_ins]. rewrite (lst_last_last _ Hnemp). cbn [bind].
          rewrite (Hnext _ Hex), Hin. cbn [bind]. rewrite fold_left_bind, E1. reflexivity. }
        rewrite Estep. apply IH; [lia|].
        intros j. rewrite H1, Hbh. destruct (nth_error bs j) as [rbj|]; [|reflexivity]. cbn [option_map].
        unfold fp4_cell, fp4_upto. cbn [b_idx b_ins b_next b_prev]. f_equal. f_equal.
        + rewrite <- app_assoc. f_equal. destruct (Nat.eqb j n) eqn:Ejn.
          * apply Nat.eqb_eq in Ejn. subst j. rewrite Nat.ltb_irrefl.
            assert (H2 : Nat.ltb n (S n) = true) by (apply Nat.ltb_lt; lia). rewrite H2. reflexivity.
          * apply Nat.eqb_neq in Ejn. rewrite app_nil_r.
            replace (Nat.ltb j (S n)) with (Nat.ltb j n); [reflexivity|].
            destruct (Nat.ltb j n) eqn:E3; destruct (Nat.ltb j (S n)) eqn:E4; try reflexivity;
              [apply Nat.ltb_lt in E3; apply Nat.ltb_ge in E4 | apply Nat.ltb_ge in E3; apply Nat.ltb_lt in E4]; lia.
        + rewrite seq_S, flat_map_app, <- app_assoc. cbn [plus flat_map]. rewrite app_nil_r. reflexivity. }
    destruct (Hinv (length bs) 0 (raw_heap bs) eq_refl) as (bh' & E & H').
    { intros j. destruct (nth_error bs j) as [rb|] eqn:Erb.
      - rewrite (raw_heap_nth bs j rb Erb). cbn [option_map]. unfold fp4_upto, dfl, dprev. rewrite Erb.
        cbn [seq flat_map]. rewrite !app_nil_r. destruct (Nat.ltb j 0) eqn:E0; [apply Nat.ltb_lt in E0; lia|].
        rewrite ?app_nil_r. reflexivity.
      - cbn [option_map]. apply nth_error_None. rewrite raw_heap_length. apply nth_error_None. exact Erb. }
    rewrite fourth_pass_gen_unfold.
    match goal with |- bind ?X _ = _ => assert (HX : X = Some bh') by exact E; rewrite HX end.
    cbn [bind ret]. apply f_equal. apply nth_error_ext. intros j. rewrite H'.
    destruct (nth_error bs j) as [rb|] eqn:Erb.
    - assert (Hj : j < length blocks) by (rewrite Hlb; apply nth_error_Some; congruence).
      destruct (nth_error blocks j) as [b|] eqn:Eb; [|apply nth_error_None in Eb; lia].
      destruct (Hspec j b Eb) as (rb' & nx & Hrb' & Hnx & _ & ->). assert (rb' = rb) by congruence. subst rb'.
      destruct (Hblk j rb Erb) as (nx' & inx' & tb' & Hnx' & _ & _ & _ & Enx & _). assert (Hnn : nx' = nx) by congruence. rewrite Hnn in Enx.
      cbn [option_map]. unfold fp4_upto. f_equal. f_equal.
      + apply Nat.ltb_lt in Hj. rewrite Hlb in Hj. rewrite Hj. symmetry. exact Enx.
      + unfold prev_of. f_equal.
        rewrite (flat_map_combine_seq (fun m nx0 =>
                   if nat_mem j (match nth_error bs m with Some b => if rb_dflt b then tl nx0 else nx0 | None => nx0 end)
                   then [m] else []) nexts 0).
        rewrite Hln. apply flat_map_ext_in. intros m Hm. rewrite Nat.sub_0_r. unfold adj.
        destruct (nth_error nexts m); reflexivity.
    - cbn [option_map]. symmetry. apply nth_error_None. rewrite Hlb. apply nth_error_None. exact Erb.
  Qed.
End FourthPass.

(* ---------------------------------------------------------------- the four passes in sequence *)
Definition build_gen (p : prog) : py block_heap :=
  bind (passes_gen p) (fun ih =>
  bind (create_bb_gen p (seq 0 (length p)) [] [] ih) (fun r =>
  fourth_pass_gen (fst (fst r)) (snd (fst r)) (snd r))).

Lemma bb_assign_from_nth bs : forall ih k0 j,
  nth_error (bb_assign_from bs k0 ih) j =
  option_map (fun o => mkInsObj (io_next o) (io_prev o)
                         (match block_of_pos bs (k0 + j) 0 with Some b => Some b | None => io_bb o end))
             (nth_error ih j).
Proof.
  induction ih as [|o t IH]; intros k0 j; [destruct j; reflexivity|].
  destruct j as [|j]; cbn [bb_assign_from nth_error option_map]; [rewrite Nat.add_0_r; reflexivity|].
  rewrite IH. replace (S k0 + j) with (k0 + S j) by lia. reflexivity.
Qed.

Lemma block_of_pos_complete : forall bs k n, In k (concat (map rb_ins bs)) -> block_of_pos bs k n <> None.
Proof.
  induction bs as [|a bs IH]; intros k n H; [destruct H|]. cbn [map concat] in H. cbn [block_of_pos].
  destruct (existsb (Nat.eqb k) (rb_ins a)) eqn:E; [discriminate|].
  apply in_app_or in H. destruct H as [H|H]; [|exact (IH _ _ H)].
  apply existsb_eqb_In in H. congruence.
Qed.

Lemma map_opt_some {A B} (f : A -> option B) l : (forall x, In x l -> f x <> None) -> map_opt f l <> None.
Proof.
  induction l as [|a l IH]; intros H; cbn [map_opt]; [discriminate|].
  destruct (f a) eqn:E; [|exfalso; exact (H a (or_introl eq_refl) E)].
  destruct (map_opt f l) eqn:E2; [discriminate|]. exfalso. apply IH; [|reflexivity]. intros x Hx. apply H. right. exact Hx.
Qed.

Lemma raw_nexts_some p all : forall bs n,
  (forall i rb, nth_error bs i = Some rb -> raw_next p all (n + i) rb <> None) -> raw_nexts p all bs n <> None.
Proof.
  induction bs as [|b bs IH]; intros n H; cbn [raw_nexts]; [discriminate|].
  pose proof (H 0 b eq_refl) as H0. rewrite Nat.add_0_r in H0.
  destruct (raw_next p all n b); [|contradiction].
  destruct (raw_nexts p all bs (S n)) eqn:E; [discriminate|]. exfalso. apply (IH (S n)); [|exact E].
  intros i rb Hi. replace (S n + i) with (n + S i) by lia. apply H. exact Hi.
Qed.

(* the model's fourth pass is total once create_bb has succeeded on a non-empty program *)
Theorem build_blocks_total p bs : create_bb p = Some bs -> p <> [] -> build_blocks p <> None.
Proof.
  intros Hc Hne. unfold build_blocks. rewrite Hc.
  assert (Hr : raw_nexts p bs bs 0 <> None).
  { apply raw_nexts_some. intros i rb Hi. cbn [plus]. unfold raw_next.
    pose proof (blocks_nonempty p bs Hc Hne rb (nth_error_In _ _ Hi)) as Hn.
    destruct (rb_ins rb) as [|h t] eqn:Er; [contradiction|].
    assert (Hl : last (h :: t) 0 < length p).
    { assert (Hin : In (last (h :: t) 0) (concat (map rb_ins bs))).
      { apply in_concat. exists (rb_ins rb). split; [apply in_map; exact (nth_error_In _ _ Hi)|]. rewrite Er. apply last_In. discriminate. }
      rewrite (blocks_partition p bs Hc Hne) in Hin. apply in_seq in Hin. lia. }
    destruct (ins_next p (last (h :: t) 0)) as [nx|] eqn:En.
    2:{ rewrite (create_bb_none p _ Hl En) in Hc. discriminate. }
    destruct (map_opt (fun k => block_of_pos bs k 0) nx) eqn:Em; [discriminate|]. exfalso.
    apply (map_opt_some (fun k => block_of_pos bs k 0) nx); [|exact Em].
    intros y Hy. apply block_of_pos_complete. rewrite (blocks_partition p bs Hc Hne). apply in_seq.
    pose proof (ins_next_lt p _ _ _ En Hy). lia. }
  destruct (raw_nexts p bs bs 0); [discriminate|contradiction].
Qed.

(* THEOREM 5: first_pass, second_pass, create_bb and fourth_pass in sequence, from the fresh Instruction objects and
   empty heaps, produce exactly the model's block list build_blocks p -- same blocks, same positions, same order of
   the next and prev lists -- and raise an exception exactly when build_blocks p is None; NO hypothesis on p *)
Theorem build_gen_eq p : build_gen p = build_blocks p.
Proof.
  destruct p as [|a p'] eqn:Ep; [reflexivity|]. rewrite <- Ep. assert (Hne : p <> []) by (rewrite Ep; discriminate).
  clear Ep. unfold build_gen. pose proof (passes_gen_spec p) as H. destruct (passes_gen p) as [ih|]; cbn [bind].
  - destruct H as (Hlen & _ & Hn). rewrite (create_bb_gen_eq p ih Hn).
    destruct (create_bb p) as [bs|] eqn:Hc; cbn [option_map bind fst snd]; [|unfold build_blocks; rewrite Hc; reflexivity].
    destruct (build_blocks p) as [blocks|] eqn:Hb; [|exfalso; exact (build_blocks_total p bs Hc Hne Hb)].
    apply (fourth_pass_gen_eq p bs blocks (bb_assign bs ih) Hc Hb).
    + intros k Hk. unfold bb_assign. rewrite bb_assign_from_next. exact (Hn k Hk).
    + intros k Hk. unfold ins_attr_bb, bb_assign. rewrite bb_assign_from_nth. cbn [plus].
      destruct (nth_error ih k) as [o|] eqn:Eo; [|apply nth_error_None in Eo; lia]. cbn [option_map bind io_bb].
      destruct (block_of_pos bs k 0) eqn:Eb; [reflexivity|]. exfalso.
      apply (block_of_pos_complete bs k 0); [|exact Eb]. rewrite (blocks_partition p bs Hc Hne). apply in_seq. lia.
  - destruct H as (k & Hk & Hn). unfold build_blocks. rewrite (create_bb_none p k Hk Hn). reflexivity.
Qed.

(* TRANSPORTED (CfgLemmas.next_prev_mirror, next_nodup via build_blocks_wf; SubLemmas.dfs_reach): the heap the four
   generated passes build is well-formed, and the generated DFS run on it returns exactly the reachable blocks *)
Theorem build_gen_wf p bh : build_gen p = Some bh -> wf_blocks bh.
Proof. rewrite build_gen_eq. apply build_blocks_wf. Qed.

Theorem build_gen_identify p bh e :
  build_gen p = Some bh -> e < length bh ->
  identify_subroutine_blocks_gen (S (length bh)) e bh = Some (Some (identify_subroutine_blocks bh e)) /\
  (forall x, In x (identify_subroutine_blocks bh e) <-> Reach bh e x) /\ NoDup (identify_subroutine_blocks bh e).
Proof.
  rewrite build_gen_eq. intros Hb He. split; [exact (identify_subroutine_blocks_gen_eq_build p bh e Hb He)|].
  exact (dfs_reach p bh e Hb He).
Qed.


(* everything together on the heap the generated passes build *)
Theorem build_gen_prune_parse_teal p t :
  parse_teal p = Ok t ->
  exists ih bh subs0 bh' ih',
    passes_gen p = Some ih /\ build_gen p = Some bh /\
    prune_unreachable_gen (seq 0 (length bh)) (reachable_of bh subs0) (seq 0 (length p)) bh (bb_assign_bs p ih)
      = Some (t_retained_ins t, bh', ih') /\
    filter (alive (reachable_of bh subs0)) bh' = t_blocks t.
Proof.
  intros Hp. destruct (passes_prune_parse_teal p t Hp) as (ih & bs & subs0 & bh' & ih' & H1 & H2 & H3 & H4).
  exists ih, bs, subs0, bh', ih'. rewrite build_gen_eq. auto.
Qed.

Print Assumptions create_bb_gen_eq.
Print Assumptions create_bb_gen_partition.
Print Assumptions identify_loop_gen_sound.
Print Assumptions identify_subroutine_blocks_gen_eq.
Print Assumptions identify_subroutine_blocks_gen_reach.
Print Assumptions build_blocks_wf.
Print Assumptions prune_unreachable_gen_eq.
Print Assumptions prune_unreachable_gen_parse_teal.
Print Assumptions first_pass_gen_spec.
Print Assumptions passes_gen_spec.
Print Assumptions passes_create_bb_gen_eq.
Print Assumptions passes_prune_parse_teal.
Print Assumptions fourth_pass_gen_eq.
Print Assumptions build_blocks_total.
Print Assumptions build_gen_eq.
Print Assumptions build_gen_identify.
Print Assumptions build_gen_prune_parse_teal.
