(* Property C15, weak isomorphism (Lemmas/IsoWeak.v): the law bundle of IsoWeak.PLaws / WeakSolve instantiated for the
   four concrete domains, contexts, and the run_all composition.

     PART 1  [WLaws]: the bundle as a record; instances
               group sizes / indices  (list Z, zset_eqb)        P := True      leq := incl
               transaction kinds      (list string, lset_eqb)   P := True      leq := incl
               fee bounds             (feeval, feeval_eqb)      P := fee_P     leq := fee_rank a <= fee_rank b
               addresses              (sset, sset_seteqb)       P := addr_wf   leq := addr_leq (not-null flag, universal
                                                                               flag and concretisation are monotone)
             and [wiso_solve] specialised to each of them.
     PART 2  [ctx_equiv] on Detect.bctx (componentwise domain equality), invariance of the nine detector predicates,
             of validated_in_block.
     PART 3  results of run_all on weakly isomorphic functions are [res_equiv]; contexts are ctx_equiv; the nine
             detectors return the renamed paths. *)
From Coq Require Import String List NArith ZArith Bool Arith Lia.
From Tealer Require Import Tables LeafPrelude Leaves Syntax Parse Cfg StackAst Keys Analysis Domains Detect
  LeafLemmas SingleLemmas StackLemmas PaddingLemmas SolverLemmas IsoLemmas GraphWf TotalDomains IsoWeak.
Import ListNotations.
Open Scope string_scope.
Open Scope list_scope.

(* ====================================================================== PART 1 : the law bundle and its instances *)
Record WLaws {T : Type} (t_eqb : T -> T -> bool) (univ null : T) (union inter : T -> T -> T)
       (P : T -> Prop) (leq : T -> T -> Prop) : Prop := mkWLaws {
  wl_P_univ : P univ;
  wl_P_null : P null;
  wl_P_union : forall a b, P a -> P b -> P (union a b);
  wl_P_inter : forall a b, P a -> P b -> P (inter a b);
  wl_teq_refl : forall a, t_eqb a a = true;
  wl_leq_refl : forall a, leq a a;
  wl_leq_trans : forall a b c, leq a b -> leq b c -> leq a c;
  wl_teq_leq : forall a b, P a -> P b -> (t_eqb a b = true <-> leq a b /\ leq b a);
  wl_union_ub_l : forall a b, P a -> P b -> leq a (union a b);
  wl_union_ub_r : forall a b, P a -> P b -> leq b (union a b);
  wl_union_lub : forall a b c, P a -> P b -> P c -> leq a c -> leq b c -> leq (union a b) c;
  wl_inter_mono : forall a a' b b', P a -> P a' -> P b -> P b' -> leq a a' -> leq b b' -> leq (inter a b) (inter a' b');
  wl_null_least : forall a, P a -> leq null a }.

(* ---------------------------------------------------------------- finite sets of integers (sizes, indices) *)
Definition PTrue {T : Type} (x : T) : Prop := True.

Lemma zset_wlaws (U : list Z) : WLaws zset_eqb U [] zunion zinter (@PTrue (list Z)) (@incl Z).
Proof.
  constructor; try (intros; exact I).
  - intros a. apply zset_eqb_spec. intros x. tauto.
  - intros a. apply incl_refl.
  - intros a b c. apply incl_tran.
  - intros a b _ _. rewrite zset_eqb_spec. unfold incl. split.
    + intros H. split; intros x Hx; apply H; exact Hx.
    + intros [H1 H2] x. split; [apply H1|apply H2].
  - intros a b _ _ x Hx. apply zunion_In. left. exact Hx.
  - intros a b _ _ x Hx. apply zunion_In. right. exact Hx.
  - intros a b c _ _ _ H1 H2 x Hx. apply zunion_In in Hx. destruct Hx as [Hx|Hx]; [apply H1|apply H2]; exact Hx.
  - intros a a' b b' _ _ _ _ H1 H2 x Hx. apply zinter_In in Hx. apply zinter_In.
    split; [apply H1|apply H2]; apply Hx.
  - intros a _ x [].
Qed.

(* ---------------------------------------------------------------- finite sets of labels (transaction kinds) *)
Lemma lset_wlaws (U : list string) : WLaws lset_eqb U [] lunion linter (@PTrue (list string)) (@incl string).
Proof.
  constructor; try (intros; exact I).
  - intros a. apply lset_eqb_spec. intros x. tauto.
  - intros a. apply incl_refl.
  - intros a b c. apply incl_tran.
  - intros a b _ _. rewrite lset_eqb_spec. unfold incl. split.
    + intros H. split; intros x Hx; apply H; exact Hx.
    + intros [H1 H2] x. split; [apply H1|apply H2].
  - intros a b _ _ x Hx. apply lunion_In. left. exact Hx.
  - intros a b _ _ x Hx. apply lunion_In. right. exact Hx.
  - intros a b c _ _ _ H1 H2 x Hx. apply lunion_In in Hx. destruct Hx as [Hx|Hx]; [apply H1|apply H2]; exact Hx.
  - intros a a' b b' _ _ _ _ H1 H2 x Hx. apply linter_In in Hx. apply linter_In.
    split; [apply H1|apply H2]; apply Hx.
  - intros a _ x [].
Qed.

(* ---------------------------------------------------------------- fee bounds: a chain, ordered by fee_rank *)
Definition fee_rleq (a b : feeval) : Prop := (fee_rank a <= fee_rank b)%Z.

Lemma fee_rank_nonneg a : fee_P a -> (0 <= fee_rank a)%Z.
Proof.
  intros [_ Hn]. unfold fee_rank. pose proof MTC_nonneg as Hm. destruct (fee_unknown a); lia.
Qed.

Lemma fee_rank_null : fee_rank fee_null_set = 0%Z.
Proof. reflexivity. Qed.

Lemma fee_wlaws : WLaws feeval_eqb fee_universal_set fee_null_set fee_union fee_intersection fee_P fee_rleq.
Proof.
  constructor.
  - exact fee_P_univ.
  - exact fee_P_null.
  - exact fee_P_union.
  - exact fee_P_inter.
  - exact feeval_eqb_refl.
  - intros a. unfold fee_rleq. lia.
  - intros a b c. unfold fee_rleq. lia.
  - intros a b Ha Hb. rewrite feeval_eqb_spec. unfold fee_rleq. split.
    + intros ->. lia.
    + intros [H1 H2]. apply fee_rank_inj; [exact Ha|exact Hb|lia].
  - intros a b _ _. unfold fee_rleq. rewrite fee_union_rank. lia.
  - intros a b _ _. unfold fee_rleq. rewrite fee_union_rank. lia.
  - intros a b c _ _ _. unfold fee_rleq. rewrite fee_union_rank. lia.
  - intros a a' b b' _ _ _ _. unfold fee_rleq. rewrite !fee_inter_rank. lia.
  - intros a Ha. unfold fee_rleq. rewrite fee_rank_null. apply fee_rank_nonneg. exact Ha.
Qed.

(* ---------------------------------------------------------------- address sets: [NO] < plain sets < [ANY] *)
Definition addr_leq (a b : sset) : Prop :=
  (addr_bot a = true -> addr_bot b = true) /\ (addr_top a = true -> addr_top b = true) /\
  (forall x, addr_gamma a x -> addr_gamma b x).

Lemma smem_seteq (a b : list string) y : (forall x, In x a <-> In x b) -> smem y a = smem y b.
Proof.
  intros H. destruct (smem y b) eqn:E.
  - apply smem_In. apply H. apply smem_In. exact E.
  - apply smem_false. intros Hin. apply smem_false in E. apply E. apply H. exact Hin.
Qed.

Lemma zmem_seteq (a b : list Z) y : (forall x, In x a <-> In x b) -> zmem y a = zmem y b.
Proof.
  intros H. destruct (zmem y b) eqn:E.
  - apply zmem_In. apply H. apply zmem_In. exact E.
  - apply zmem_false. intros Hin. apply zmem_false in E. apply E. apply H. exact Hin.
Qed.

Lemma is_marker_ANY : is_marker ANY_ADDRESS = true.
Proof. reflexivity. Qed.

Lemma addr_leq_seteq a b : (forall x, In x a <-> In x b) -> addr_leq a b.
Proof.
  intros H. unfold addr_leq, addr_bot, addr_top, addr_gamma.
  rewrite (smem_seteq a b NO_ADDRESS H), (smem_seteq a b ANY_ADDRESS H).
  split; [tauto|]. split; [tauto|]. intros x. rewrite (smem_seteq a b x H). tauto.
Qed.

Lemma addr_leq_incl a b : addr_wf a -> addr_wf b -> addr_leq a b -> addr_leq b a -> forall x, In x a -> In x b.
Proof.
  intros Wa Wb [B1 [T1 G1]] [B2 [T2 G2]] x Hx.
  destruct Wa as [Ea|[Ea|Pa]].
  - assert (Ht : addr_top b = true) by (apply T1; rewrite Ea; reflexivity).
    rewrite (addr_wf_ANY b Wb Ht). rewrite <- Ea. exact Hx.
  - destruct (addr_bot b) eqn:Eb.
    + specialize (B2 eq_refl). rewrite Ea in B2. discriminate B2.
    + unfold addr_bot in Eb. apply negb_false_iff in Eb.
      rewrite (addr_wf_NO b Wb Eb). rewrite <- Ea. exact Hx.
  - assert (Hm : is_marker x = false) by exact (Pa x Hx).
    assert (Hg : addr_gamma a x).
    { split; [exact Hm|]. right. apply smem_In. exact Hx. }
    destruct (G1 x Hg) as [_ [Hany|Hin]].
    + exfalso. assert (Ht : addr_top a = true) by (apply T2; exact Hany).
      unfold addr_top in Ht. apply smem_In in Ht. specialize (Pa _ Ht). rewrite is_marker_ANY in Pa. discriminate Pa.
    + apply smem_In. exact Hin.
Qed.

Lemma addr_wlaws :
  WLaws sset_seteqb addr_universal_set addr_null_set addr_union addr_intersection addr_wf addr_leq.
Proof.
  constructor.
  - exact addr_universal_wf.
  - exact addr_null_wf.
  - exact addr_union_wf.
  - exact addr_intersection_wf.
  - intros a. apply sset_seteqb_spec. intros x. tauto.
  - intros a. unfold addr_leq. tauto.
  - intros a b c [B1 [T1 G1]] [B2 [T2 G2]]. split; [tauto|]. split; [tauto|]. intros x Hx. apply G2. apply G1. exact Hx.
  - intros a b Wa Wb. rewrite sset_seteqb_spec. split.
    + intros H. split; apply addr_leq_seteq; [exact H|]. intros x. symmetry. apply H.
    + intros [H1 H2] x. split; apply addr_leq_incl; assumption.
  - intros a b Wa Wb. unfold addr_leq. rewrite (addr_union_bot a b Wa Wb), (addr_union_top a b Wa Wb).
    split; [intros ->; reflexivity|]. split; [intros ->; reflexivity|].
    intros x Hx. apply (addr_union_exact a b Wa Wb). left. exact Hx.
  - intros a b Wa Wb. unfold addr_leq. rewrite (addr_union_bot a b Wa Wb), (addr_union_top a b Wa Wb).
    split; [intros ->; apply orb_true_r|]. split; [intros ->; apply orb_true_r|].
    intros x Hx. apply (addr_union_exact a b Wa Wb). right. exact Hx.
  - intros a b c Wa Wb Wc [B1 [T1 G1]] [B2 [T2 G2]]. unfold addr_leq.
    rewrite (addr_union_bot a b Wa Wb), (addr_union_top a b Wa Wb).
    split; [intros H; apply orb_true_iff in H; tauto|]. split; [intros H; apply orb_true_iff in H; tauto|].
    intros x Hx. apply (addr_union_exact a b Wa Wb) in Hx. destruct Hx as [Hx|Hx]; [apply G1|apply G2]; exact Hx.
  - intros a a' b b' Wa Wa' Wb Wb' [B1 [T1 G1]] [B2 [T2 G2]]. unfold addr_leq.
    rewrite (addr_inter_bot a b Wa Wb), (addr_inter_top a b Wa Wb),
            (addr_inter_bot a' b' Wa' Wb'), (addr_inter_top a' b' Wa' Wb').
    split; [intros H; apply andb_true_iff in H; apply andb_true_iff; tauto|].
    split; [intros H; apply andb_true_iff in H; apply andb_true_iff; tauto|].
    intros x Hx. apply (addr_intersection_exact a b Wa Wb) in Hx. apply (addr_intersection_exact a' b' Wa' Wb').
    split; [apply G1|apply G2]; apply Hx.
  - intros a Wa. unfold addr_leq. split; [intros H; discriminate H|]. split; [intros H; discriminate H|].
    intros x Hx. exfalso. exact (addr_null_gamma x Hx).
Qed.

(* ---------------------------------------------------------------- wiso_solve with the bundle as a record *)
Section SolveL.
  Variable T : Type.
  Variable t_eqb : T -> T -> bool.
  Variable univ null : T.
  Variable union inter : T -> T -> T.
  Variable P : T -> Prop.
  Variable leq : T -> T -> Prop.
  Hypothesis L : WLaws t_eqb univ null union inter P leq.

  Theorem wiso_solve_L (single : instr -> nat -> list sval -> T * T) r g f f' bc bc' fu fu' lo lo' :
    (forall op pos args, P (fst (single op pos args)) /\ P (snd (single op pos args))) ->
    (forall op pos args, single op (g pos) (map (shift_sval g) args) = single op pos args) ->
    fiso_w r g f f' -> graph_wf f' = true ->
    okst T P bc -> okst T P bc' -> SolverLemmas.peq T t_eqb (ren_st r bc) bc' ->
    solve T t_eqb univ null union inter single f fu bc = Done lo ->
    solve T t_eqb univ null union inter single f' fu' bc' = Done lo' ->
    SolverLemmas.peq T t_eqb (ren_st r lo) lo' /\ okst T P lo'.
  Proof.
    intros Hs Hpos W Hwf.
    exact (wiso_solve T t_eqb univ null union inter single P leq
             (wl_P_univ _ _ _ _ _ _ _ L) (wl_P_null _ _ _ _ _ _ _ L) (wl_P_union _ _ _ _ _ _ _ L)
             (wl_P_inter _ _ _ _ _ _ _ L) Hs (wl_teq_refl _ _ _ _ _ _ _ L) (wl_leq_refl _ _ _ _ _ _ _ L)
             (wl_leq_trans _ _ _ _ _ _ _ L) (wl_teq_leq _ _ _ _ _ _ _ L) (wl_union_ub_l _ _ _ _ _ _ _ L)
             (wl_union_ub_r _ _ _ _ _ _ _ L) (wl_union_lub _ _ _ _ _ _ _ L) (wl_inter_mono _ _ _ _ _ _ _ L)
             (wl_null_least _ _ _ _ _ _ _ L) r g Hpos f f' W bc bc' fu fu' lo lo' Hwf).
  Qed.
End SolveL.

(* the P_single law of the four analyses *)
Lemma int_single_P size intcs op pos args :
  PTrue (fst (int_single size intcs op pos args)) /\ PTrue (snd (int_single size intcs op pos args)).
Proof. split; exact I. Qed.
Lemma type_single_P intcs fam op pos args :
  PTrue (fst (type_single intcs fam op pos args)) /\ PTrue (snd (type_single intcs fam op pos args)).
Proof. split; exact I. Qed.

(* the four instances of wiso_solve: two terminating runs of one analysis key on weakly isomorphic functions give
   results with the same keys and equal sets / the same fee bound *)
Theorem wiso_solve_int size intcs (U : list Z) r g f f' bc bc' fu fu' lo lo' :
  fiso_w r g f f' -> graph_wf f' = true ->
  SolverLemmas.peq (list Z) zset_eqb (ren_st r bc) bc' ->
  solve (list Z) zset_eqb U [] zunion zinter (int_single size intcs) f fu bc = Done lo ->
  solve (list Z) zset_eqb U [] zunion zinter (int_single size intcs) f' fu' bc' = Done lo' ->
  SolverLemmas.peq (list Z) zset_eqb (ren_st r lo) lo'.
Proof.
  intros W Hwf Hbc S1 S2.
  refine (proj1 (wiso_solve_L (list Z) zset_eqb U [] zunion zinter PTrue (@incl Z) (zset_wlaws U)
                   (int_single size intcs) r g f f' bc bc' fu fu' lo lo'
                   (int_single_P size intcs) (iso_int_single g size intcs) W Hwf _ _ Hbc S1 S2));
    intros b v _; exact I.
Qed.

Theorem wiso_solve_type intcs fam r g f f' bc bc' fu fu' lo lo' :
  fiso_w r g f f' -> graph_wf f' = true ->
  SolverLemmas.peq (list string) lset_eqb (ren_st r bc) bc' ->
  solve (list string) lset_eqb ALL_TRANSACTION_TYPES [] lunion linter (type_single intcs fam) f fu bc = Done lo ->
  solve (list string) lset_eqb ALL_TRANSACTION_TYPES [] lunion linter (type_single intcs fam) f' fu' bc' = Done lo' ->
  SolverLemmas.peq (list string) lset_eqb (ren_st r lo) lo'.
Proof.
  intros W Hwf Hbc S1 S2.
  refine (proj1 (wiso_solve_L (list string) lset_eqb ALL_TRANSACTION_TYPES [] lunion linter PTrue (@incl string)
                   (lset_wlaws ALL_TRANSACTION_TYPES)
                   (type_single intcs fam) r g f f' bc bc' fu fu' lo lo'
                   (type_single_P intcs fam) (iso_type_single g intcs fam) W Hwf _ _ Hbc S1 S2));
    intros b v _; exact I.
Qed.

Theorem wiso_solve_fee intcs fam r g f f' bc bc' fu fu' lo lo' :
  fiso_w r g f f' -> graph_wf f' = true ->
  okst feeval fee_P bc -> okst feeval fee_P bc' ->
  SolverLemmas.peq feeval feeval_eqb (ren_st r bc) bc' ->
  solve feeval feeval_eqb fee_universal_set fee_null_set fee_union fee_intersection (fee_single intcs fam) f fu bc = Done lo ->
  solve feeval feeval_eqb fee_universal_set fee_null_set fee_union fee_intersection (fee_single intcs fam) f' fu' bc' = Done lo' ->
  SolverLemmas.peq feeval feeval_eqb (ren_st r lo) lo' /\ okst feeval fee_P lo'.
Proof.
  intros W Hwf O1 O2 Hbc S1 S2.
  exact (wiso_solve_L feeval feeval_eqb fee_universal_set fee_null_set fee_union fee_intersection fee_P fee_rleq
           fee_wlaws (fee_single intcs fam) r g f f' bc bc' fu fu' lo lo'
           (fee_single_P intcs fam) (iso_fee_single g intcs fam) W Hwf O1 O2 Hbc S1 S2).
Qed.

Theorem wiso_solve_addr intcs fam fld r g f f' bc bc' fu fu' lo lo' :
  fiso_w r g f f' -> graph_wf f' = true ->
  okst sset addr_wf bc -> okst sset addr_wf bc' ->
  SolverLemmas.peq sset sset_seteqb (ren_st r bc) bc' ->
  solve sset sset_seteqb addr_universal_set addr_null_set addr_union addr_intersection (addr_single intcs fam fld) f fu bc = Done lo ->
  solve sset sset_seteqb addr_universal_set addr_null_set addr_union addr_intersection (addr_single intcs fam fld) f' fu' bc' = Done lo' ->
  SolverLemmas.peq sset sset_seteqb (ren_st r lo) lo' /\ okst sset addr_wf lo'.
Proof.
  intros W Hwf O1 O2 Hbc S1 S2.
  exact (wiso_solve_L sset sset_seteqb addr_universal_set addr_null_set addr_union addr_intersection addr_wf addr_leq
           addr_wlaws (addr_single intcs fam fld) r g f f' bc bc' fu fu' lo lo'
           (addr_single_wf intcs fam fld) (iso_addr_single g intcs fam fld) W Hwf O1 O2 Hbc S1 S2).
Qed.

(* ====================================================================== PART 2 : contexts up to the domain equality *)
Definition seteq {A : Type} (a b : list A) : Prop := forall x, In x a <-> In x b.

Lemma seteq_refl {A} (a : list A) : seteq a a.
Proof. intros x. tauto. Qed.

Record av_equiv (a b : addrval) : Prop := mkAvEquiv {
  ave_any : av_any a = av_any b;
  ave_no : av_no a = av_no b;
  ave_possible : seteq (av_possible a) (av_possible b) }.

(* componentwise equality of the domains' values: address values and kind / size / index sets as sets, the fee bound
   and the flags equal *)
Record ctx_equiv (c d : bctx) : Prop := mkCtxEquiv {
  ce_rekeyto : av_equiv (ctx_rekeyto c) (ctx_rekeyto d);
  ce_closeto : av_equiv (ctx_closeto c) (ctx_closeto d);
  ce_assetcloseto : av_equiv (ctx_assetcloseto c) (ctx_assetcloseto d);
  ce_sender : av_equiv (ctx_sender c) (ctx_sender d);
  ce_types : seteq (ctx_transaction_types c) (ctx_transaction_types d);
  ce_max_fee : ctx_max_fee c = ctx_max_fee d;
  ce_max_fee_unknown : ctx_max_fee_unknown c = ctx_max_fee_unknown d;
  ce_group_sizes : seteq (ctx_group_sizes c) (ctx_group_sizes d);
  ce_group_indices : seteq (ctx_group_indices c) (ctx_group_indices d);
  ce_is_gtxn : ctx_is_gtxn_context c = ctx_is_gtxn_context d }.

Lemma ctx_equiv_refl c : ctx_equiv c c.
Proof. constructor; try reflexivity; try apply seteq_refl; constructor; try reflexivity; apply seteq_refl. Qed.

(* a detector predicate that reads the context only through the domains' values *)
Definition ctx_inv (checks : bctx -> bool) : Prop := forall c d, ctx_equiv c d -> checks c = checks d.

Lemma mem_any_string_seteq (y : string) (a b : list string) : seteq a b -> mem_any y a = mem_any y b.
Proof. intros H. rewrite !mem_any_string. apply smem_seteq. exact H. Qed.
Lemma mem_any_Z_seteq (y : Z) (a b : list Z) : seteq a b -> mem_any y a = mem_any y b.
Proof. intros H. rewrite !mem_any_Z. apply zmem_seteq. exact H. Qed.

Lemma inv_rekey_to : ctx_inv checks_rekey_to.
Proof. intros c d E. unfold checks_rekey_to. rewrite (ave_any _ _ (ce_rekeyto c d E)). reflexivity. Qed.
Lemma inv_can_close_account : ctx_inv checks_can_close_account.
Proof.
  intros c d E. unfold checks_can_close_account.
  rewrite (ave_any _ _ (ce_closeto c d E)), (mem_any_string_seteq "Pay" _ _ (ce_types c d E)). reflexivity.
Qed.
Lemma inv_can_close_asset : ctx_inv checks_can_close_asset.
Proof.
  intros c d E. unfold checks_can_close_asset.
  rewrite (ave_any _ _ (ce_assetcloseto c d E)), (mem_any_string_seteq "Axfer" _ _ (ce_types c d E)). reflexivity.
Qed.
Lemma inv_missing_fee_check : ctx_inv checks_missing_fee_check.
Proof.
  intros c d E. unfold checks_missing_fee_check.
  rewrite (ce_max_fee c d E), (ce_max_fee_unknown c d E). reflexivity.
Qed.
Lemma inv_is_updatable : ctx_inv checks_is_updatable.
Proof.
  intros c d E. unfold checks_is_updatable.
  rewrite (mem_any_string_seteq "ApplUpdateApplication" _ _ (ce_types c d E)). reflexivity.
Qed.
Lemma inv_is_deletable : ctx_inv checks_is_deletable.
Proof.
  intros c d E. unfold checks_is_deletable.
  rewrite (mem_any_string_seteq "ApplDeleteApplication" _ _ (ce_types c d E)). reflexivity.
Qed.
Lemma inv_unprotected_updatable : ctx_inv checks_unprotected_updatable.
Proof.
  intros c d E. unfold checks_unprotected_updatable.
  rewrite (ave_any _ _ (ce_sender c d E)), (mem_any_string_seteq "ApplUpdateApplication" _ _ (ce_types c d E)).
  reflexivity.
Qed.
Lemma inv_unprotected_deletable : ctx_inv checks_unprotected_deletable.
Proof.
  intros c d E. unfold checks_unprotected_deletable.
  rewrite (ave_any _ _ (ce_sender c d E)), (mem_any_string_seteq "ApplDeleteApplication" _ _ (ce_types c d E)).
  reflexivity.
Qed.
Lemma inv_group_size_check : ctx_inv checks_group_size_check.
Proof.
  intros c d E. unfold checks_group_size_check.
  rewrite (ce_is_gtxn c d E), (mem_any_Z_seteq _ _ _ (ce_group_sizes c d E)). reflexivity.
Qed.

(* all nine predicates of Detect.detectors (the names of Gen/Leaves.detector_table) *)
Theorem detectors_ctx_inv name checks : In (name, checks) detectors -> ctx_inv checks.
Proof.
  unfold detectors. cbn [In]. intros H.
  repeat (destruct H as [H|H]; [inversion H; subst checks;
    first [exact inv_rekey_to|exact inv_can_close_account|exact inv_can_close_asset|exact inv_missing_fee_check
          |exact inv_is_updatable|exact inv_is_deletable|exact inv_unprotected_updatable
          |exact inv_unprotected_deletable|exact inv_group_size_check]|]).
  destruct H.
Qed.

Lemma detectors_names : map fst detectors = map fst detector_table.
Proof. reflexivity. Qed.

(* ---------------------------------------------------------------- results up to the domain equality *)
Definition fam_equiv {K T : Type} (teq : T -> T -> bool) (l1 l2 : list (K * list (nat * T))) : Prop :=
  Forall2 (fun kv kv' => fst kv = fst kv' /\ SolverLemmas.peq T teq (snd kv) (snd kv')) l1 l2.

Record res_equiv (a b : fn_result) : Prop := mkResEquiv {
  re_sizes : SolverLemmas.peq (list Z) zset_eqb (r_sizes a) (r_sizes b);
  re_indices : SolverLemmas.peq (list Z) zset_eqb (r_indices a) (r_indices b);
  re_types : fam_equiv lset_eqb (r_types a) (r_types b);
  re_addrs : fam_equiv sset_seteqb (r_addrs a) (r_addrs b);
  re_fees : fam_equiv feeval_eqb (r_fees a) (r_fees b) }.

Lemma find_fam {K S : Type} (R : S -> S -> Prop) (q : K * S -> bool) l1 l2 :
  (forall kv kv', fst kv = fst kv' -> q kv = q kv') ->
  Forall2 (fun kv kv' => fst kv = fst kv' /\ R (snd kv) (snd kv')) l1 l2 ->
  match find q l1, find q l2 with
  | Some kv, Some kv' => R (snd kv) (snd kv')
  | None, None => True
  | _, _ => False
  end.
Proof.
  intros Hq H. induction H as [|kv kv' l1 l2 [Hk HR] _ IH]; [exact I|].
  cbn [find]. rewrite (Hq kv kv' Hk). destruct (q kv'); [exact HR|exact IH].
Qed.

Lemma lookup_peq_dflt {T} (teq : T -> T -> bool) (R : T -> T -> Prop) (s1 s2 : list (nat * T)) (d : T) b :
  (forall x y, teq x y = true -> R x y) -> R d d ->
  SolverLemmas.peq T teq s1 s2 ->
  R (match Analysis.lookup T s1 b with Some v => v | None => d end)
    (match Analysis.lookup T s2 b with Some v => v | None => d end).
Proof.
  intros HR Hd Hp. pose proof (wpeq_bc_eqv T teq s1 s2 Hp b) as H.
  destruct (Analysis.lookup T s1 b); destruct (Analysis.lookup T s2 b); try contradiction; [apply HR; exact H|exact Hd].
Qed.

Lemma zset_eqb_seteq x y : zset_eqb x y = true -> seteq x y.
Proof. intros H. exact (proj1 (zset_eqb_spec x y) H). Qed.
Lemma lset_eqb_seteq x y : lset_eqb x y = true -> seteq x y.
Proof. intros H. exact (proj1 (lset_eqb_spec x y) H). Qed.
Lemma sset_seteqb_seteq x y : sset_seteqb x y = true -> seteq x y.
Proof. intros H. exact (proj1 (sset_seteqb_spec x y) H). Qed.

Lemma res_addr_equiv a b fld fam n : res_equiv a b -> seteq (res_addr a fld fam n) (res_addr b fld fam n).
Proof.
  intros E. unfold res_addr.
  match goal with
  | |- seteq (match find ?q ?l1 with _ => _ end) _ =>
      pose proof (find_fam (K := string * keyfam) (S := list (nat * sset)) (SolverLemmas.peq sset sset_seteqb)
                    q (r_addrs a) (r_addrs b)) as H
  end.
  match type of H with ?A -> _ => assert (Hq : A) end.
  { intros [[fl fm] s] [[fl' fm'] s'] Hk. cbn [fst] in Hk. inversion Hk. reflexivity. }
  specialize (H Hq (re_addrs a b E)). revert H.
  destruct (find _ (r_addrs a)) as [[[fl fm] s]|]; destruct (find _ (r_addrs b)) as [[[fl' fm'] s']|];
    intros H; try contradiction; [|apply seteq_refl].
  cbn [snd] in H. apply (lookup_peq_dflt sset_seteqb seteq s s' _ n sset_seteqb_seteq (seteq_refl _) H).
Qed.

Lemma res_types_equiv a b fam n : res_equiv a b -> seteq (res_types a fam n) (res_types b fam n).
Proof.
  intros E. unfold res_types.
  match goal with
  | |- seteq (match find ?q ?l1 with _ => _ end) _ =>
      pose proof (find_fam (K := keyfam) (S := list (nat * list string)) (SolverLemmas.peq (list string) lset_eqb)
                    q (r_types a) (r_types b)) as H
  end.
  match type of H with ?A -> _ => assert (Hq : A) end.
  { intros [fm s] [fm' s'] Hk. cbn [fst] in Hk. subst fm'. reflexivity. }
  specialize (H Hq (re_types a b E)). revert H.
  destruct (find _ (r_types a)) as [[fm s]|]; destruct (find _ (r_types b)) as [[fm' s']|];
    intros H; try contradiction; [|apply seteq_refl].
  cbn [snd] in H. apply (lookup_peq_dflt lset_eqb seteq s s' _ n lset_eqb_seteq (seteq_refl _) H).
Qed.

Lemma res_fee_equiv a b fam n : res_equiv a b -> res_fee a fam n = res_fee b fam n.
Proof.
  intros E. unfold res_fee.
  match goal with
  | |- match find ?q ?l1 with _ => _ end = _ =>
      pose proof (find_fam (K := keyfam) (S := list (nat * feeval)) (SolverLemmas.peq feeval feeval_eqb)
                    q (r_fees a) (r_fees b)) as H
  end.
  match type of H with ?A -> _ => assert (Hq : A) end.
  { intros [fm s] [fm' s'] Hk. cbn [fst] in Hk. subst fm'. reflexivity. }
  specialize (H Hq (re_fees a b E)). revert H.
  destruct (find _ (r_fees a)) as [[fm s]|]; destruct (find _ (r_fees b)) as [[fm' s']|];
    intros H; try contradiction; [|reflexivity].
  cbn [snd] in H.
  apply (lookup_peq_dflt feeval_eqb eq s s' _ n (fun x y Hxy => proj1 (feeval_eqb_spec x y) Hxy) eq_refl H).
Qed.

Lemma addrval_of_equiv s s' : seteq s s' -> av_equiv (addrval_of s) (addrval_of s').
Proof.
  intros H. unfold addrval_of. constructor; cbn [av_any av_no av_possible].
  - apply smem_seteq. exact H.
  - apply smem_seteq. exact H.
  - intros x. rewrite !filter_In. rewrite (H x). tauto.
Qed.

(* the contexts the detectors read are equal up to the domain equality, block by block and key family by key family *)
Theorem ctx_of_equiv a b n fam : res_equiv a b -> ctx_equiv (ctx_of a n fam) (ctx_of b n fam).
Proof.
  intros E. unfold ctx_of. cbv zeta. rewrite (res_fee_equiv a b fam n E).
  constructor; cbn [ctx_rekeyto ctx_closeto ctx_assetcloseto ctx_sender ctx_transaction_types ctx_max_fee
                    ctx_max_fee_unknown ctx_group_sizes ctx_group_indices ctx_is_gtxn_context];
    try reflexivity; try (apply addrval_of_equiv; apply res_addr_equiv; exact E).
  - apply res_types_equiv. exact E.
  - destruct fam; try apply seteq_refl.
    apply (lookup_peq_dflt zset_eqb seteq _ _ _ n zset_eqb_seteq (seteq_refl _) (re_sizes a b E)).
  - destruct fam; try apply seteq_refl.
    apply (lookup_peq_dflt zset_eqb seteq _ _ _ n zset_eqb_seteq (seteq_refl _) (re_indices a b E)).
Qed.

Lemma forallb_seteq {A} (p q : A -> bool) l1 l2 :
  (forall x, p x = q x) -> seteq l1 l2 -> forallb p l1 = forallb q l2.
Proof.
  intros Hpq Hs. destruct (forallb q l2) eqn:E.
  - apply forallb_forall. intros x Hx. rewrite Hpq. rewrite forallb_forall in E. apply E. apply Hs. exact Hx.
  - destruct (forallb p l1) eqn:E1; [|reflexivity].
    rewrite forallb_forall in E1.
    assert (H : forallb q l2 = true).
    { apply forallb_forall. intros x Hx. rewrite <- Hpq. apply E1. apply Hs. exact Hx. }
    congruence.
Qed.

(* validated_in_block agrees on equivalent results, for every predicate invariant under ctx_equiv *)
Theorem validated_in_block_equiv a b checks ai n :
  res_equiv a b -> ctx_inv checks -> validated_in_block a checks ai n = validated_in_block b checks ai n.
Proof.
  intros E Hc. unfold validated_in_block.
  rewrite (Hc _ _ (ctx_of_equiv a b n KSelf E)).
  destruct (checks (ctx_of b n KSelf)); [reflexivity|].
  destruct ai as [i|].
  - apply Hc. apply ctx_of_equiv. exact E.
  - apply forallb_seteq.
    + intros i. apply Hc. apply ctx_of_equiv. exact E.
    + exact (ce_group_indices _ _ (ctx_of_equiv a b n KSelf E)).
Qed.
