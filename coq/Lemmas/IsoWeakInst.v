(* Property C15, weak isomorphism (Lemmas/IsoWeak.v): the law bundle of IsoWeak.PLaws / WeakSolve instantiated for the
   four concrete domains, contexts, and the run_all composition.

     PART 1  [WLaws]: the bundle as a record; instances
               group sizes / indices  (list Z, zset_eqb)        P := True      leq := incl
               transaction kinds      (list string, lset_eqb)   P := True      leq := incl
               fee bounds             (feeval, feeval_eqb)      P := fee_P     leq := fee_rank a <= fee_rank b
               addresses              (sset, sset_seteqb)       P := addr_wf   leq := addr_leq (not-null flag, universal
                                                                               flag and concretisation are monotone)
             and [wiso_solve] specialised to each of them.
     PART 2  [ctx_equiv] on Detect.bctx (componentwise domain equality), invariance of the nine detector predicates,
             of validated_in_block.
     PART 3  results of run_all on weakly isomorphic functions are [res_equiv]; contexts are ctx_equiv; the nine
             detectors return the renamed paths. *)
From Coq Require Import String List NArith ZArith Bool Arith Lia.
From Tealer Require Import Tables LeafPrelude Leaves Syntax Parse Cfg StackAst Keys Analysis Domains Detect
  LeafLemmas SingleLemmas StackLemmas PaddingLemmas SolverLemmas IsoLemmas GraphWf TotalDomains IsoWeak.
Import ListNotations.
Open Scope string_scope.
Open Scope list_scope.

(* ====================================================================== PART 1 : the law bundle and its instances *)
Record WLaws {T : Type} (t_eqb : T -> T -> bool) (univ null : T) (union inter : T -> T -> T)
       (P : T -> Prop) (leq : T -> T -> Prop) : Prop := mkWLaws {
  wl_P_univ : P univ;
  wl_P_null : P null;
  wl_P_union : forall a b, P a -> P b -> P (union a b);
  wl_P_inter : forall a b, P a -> P b -> P (inter a b);
  wl_teq_refl : forall a, t_eqb a a = true;
  wl_leq_refl : forall a, leq a a;
  wl_leq_trans : forall a b c, leq a b -> leq b c -> leq a c;
  wl_teq_leq : forall a b, P a -> P b -> (t_eqb a b = true <-> leq a b /\ leq b a);
  wl_union_ub_l : forall a b, P a -> P b -> leq a (union a b);
  wl_union_ub_r : forall a b, P a -> P b -> leq b (union a b);
  wl_union_lub : forall a b c, P a -> P b -> P c -> leq a c -> leq b c -> leq (union a b) c;
  wl_inter_mono : forall a a' b b', P a -> P a' -> P b -> P b' -> leq a a' -> leq b b' -> leq (inter a b) (inter a' b');
  wl_null_least : forall a, P a -> leq null a }.

(* ---------------------------------------------------------------- finite sets of integers (sizes, indices) *)
Definition PTrue {T : Type} (x : T) : Prop := True.

Lemma zset_wlaws (U : list Z) : WLaws zset_eqb U [] zunion zinter (@PTrue (list Z)) (@incl Z).
Proof.
  constructor; try (intros; exact I).
  - intros a. apply zset_eqb_spec. intros x. tauto.
  - intros a. apply incl_refl.
  - intros a b c. apply incl_tran.
  - intros a b _ _. rewrite zset_eqb_spec. unfold incl. split.
    + intros H. split; intros x Hx; apply H; exact Hx.
    + intros [H1 H2] x. split; [apply H1|apply H2].
  - intros a b _ _ x Hx. apply zunion_In. left. exact Hx.
  - intros a b _ _ x Hx. apply zunion_In. right. exact Hx.
  - intros a b c _ _ _ H1 H2 x Hx. apply zunion_In in Hx. destruct Hx as [Hx|Hx]; [apply H1|apply H2]; exact Hx.
  - intros a a' b b' _ _ _ _ H1 H2 x Hx. apply zinter_In in Hx. apply zinter_In.
    split; [apply H1|apply H2]; apply Hx.
  - intros a _ x [].
Qed.

(* ---------------------------------------------------------------- finite sets of labels (transaction kinds) *)
Lemma lset_wlaws (U : list string) : WLaws lset_eqb U [] lunion linter (@PTrue (list string)) (@incl string).
Proof.
  constructor; try (intros; exact I).
  - intros a. apply lset_eqb_spec. intros x. tauto.
  - intros a. apply incl_refl.
  - intros a b c. apply incl_tran.
  - intros a b _ _. rewrite lset_eqb_spec. unfold incl. split.
    + intros H. split; intros x Hx; apply H; exact Hx.
    + intros [H1 H2] x. split; [apply H1|apply H2].
  - intros a b _ _ x Hx. apply lunion_In. left. exact Hx.
  - intros a b _ _ x Hx. apply lunion_In. right. exact Hx.
  - intros a b c _ _ _ H1 H2 x Hx. apply lunion_In in Hx. destruct Hx as [Hx|Hx]; [apply H1|apply H2]; exact Hx.
  - intros a a' b b' _ _ _ _ H1 H2 x Hx. apply linter_In in Hx. apply linter_In.
    split; [apply H1|apply H2]; apply Hx.
  - intros a _ x [].
Qed.

(* ---------------------------------------------------------------- fee bounds: a chain, ordered by fee_rank *)
Definition fee_rleq (a b : feeval) : Prop := (fee_rank a <= fee_rank b)%Z.

Lemma fee_rank_nonneg a : fee_P a -> (0 <= fee_rank a)%Z.
Proof.
  intros [_ Hn]. unfold fee_rank. pose proof MTC_nonneg as Hm. destruct (fee_unknown a); lia.
Qed.

Lemma fee_rank_null : fee_rank fee_null_set = 0%Z.
Proof. reflexivity. Qed.

Lemma fee_wlaws : WLaws feeval_eqb fee_universal_set fee_null_set fee_union fee_intersection fee_P fee_rleq.
Proof.
  constructor.
  - exact fee_P_univ.
  - exact fee_P_null.
  - exact fee_P_union.
  - exact fee_P_inter.
  - exact feeval_eqb_refl.
  - intros a. unfold fee_rleq. lia.
  - intros a b c. unfold fee_rleq. lia.
  - intros a b Ha Hb. rewrite feeval_eqb_spec. unfold fee_rleq. split.
    + intros ->. lia.
    + intros [H1 H2]. apply fee_rank_inj; [exact Ha|exact Hb|lia].
  - intros a b _ _. unfold fee_rleq. rewrite fee_union_rank. lia.
  - intros a b _ _. unfold fee_rleq. rewrite fee_union_rank. lia.
  - intros a b c _ _ _. unfold fee_rleq. rewrite fee_union_rank. lia.
  - intros a a' b b' _ _ _ _. unfold fee_rleq. rewrite !fee_inter_rank. lia.
  - intros a Ha. unfold fee_rleq. rewrite fee_rank_null. apply fee_rank_nonneg. exact Ha.
Qed.

(* ---------------------------------------------------------------- address sets: [NO] < plain sets < [ANY] *)
Definition addr_leq (a b : sset) : Prop :=
  (addr_bot a = true -> addr_bot b = true) /\ (addr_top a = true -> addr_top b = true) /\
  (forall x, addr_gamma a x -> addr_gamma b x).

Lemma smem_seteq (a b : list string) y : (forall x, In x a <-> In x b) -> smem y a = smem y b.
Proof.
  intros H. destruct (smem y b) eqn:E.
  - apply smem_In. apply H. apply smem_In. exact E.
  - apply smem_false. intros Hin. apply smem_false in E. apply E. apply H. exact Hin.
Qed.

Lemma zmem_seteq (a b : list Z) y : (forall x, In x a <-> In x b) -> zmem y a = zmem y b.
Proof.
  intros H. destruct (zmem y b) eqn:E.
  - apply zmem_In. apply H. apply zmem_In. exact E.
  - apply zmem_false. intros Hin. apply zmem_false in E. apply E. apply H. exact Hin.
Qed.

Lemma is_marker_ANY : is_marker ANY_ADDRESS = true.
Proof. reflexivity. Qed.

Lemma addr_leq_seteq a b : (forall x, In x a <-> In x b) -> addr_leq a b.
Proof.
  intros H. unfold addr_leq, addr_bot, addr_top, addr_gamma.
  rewrite (smem_seteq a b NO_ADDRESS H), (smem_seteq a b ANY_ADDRESS H).
  split; [tauto|]. split; [tauto|]. intros x. rewrite (smem_seteq a b x H). tauto.
Qed.

Lemma addr_leq_incl a b : addr_wf a -> addr_wf b -> addr_leq a b -> addr_leq b a -> forall x, In x a -> In x b.
Proof.
  intros Wa Wb [B1 [T1 G1]] [B2 [T2 G2]] x Hx.
  destruct Wa as [Ea|[Ea|Pa]].
  - assert (Ht : addr_top b = true) by (apply T1; rewrite Ea; reflexivity).
    rewrite (addr_wf_ANY b Wb Ht). rewrite <- Ea. exact Hx.
  - destruct (addr_bot b) eqn:Eb.
    + specialize (B2 eq_refl). rewrite Ea in B2. discriminate B2.
    + unfold addr_bot in Eb. apply negb_false_iff in Eb.
      rewrite (addr_wf_NO b Wb Eb). rewrite <- Ea. exact Hx.
  - assert (Hm : is_marker x = false) by exact (Pa x Hx).
    assert (Hg : addr_gamma a x).
    { split; [exact Hm|]. right. apply smem_In. exact Hx. }
    destruct (G1 x Hg) as [_ [Hany|Hin]].
    + exfalso. assert (Ht : addr_top a = true) by (apply T2; exact Hany).
      unfold addr_top in Ht. apply smem_In in Ht. specialize (Pa _ Ht). rewrite is_marker_ANY in Pa. discriminate Pa.
    + apply smem_In. exact Hin.
Qed.

Lemma addr_wlaws :
  WLaws sset_seteqb addr_universal_set addr_null_set addr_union addr_intersection addr_wf addr_leq.
Proof.
  constructor.
  - exact addr_universal_wf.
  - exact addr_null_wf.
  - exact addr_union_wf.
  - exact addr_intersection_wf.
  - intros a. apply sset_seteqb_spec. intros x. tauto.
  - intros a. unfold addr_leq. tauto.
  - intros a b c [B1 [T1 G1]] [B2 [T2 G2]]. split; [tauto|]. split; [tauto|]. intros x Hx. apply G2. apply G1. exact Hx.
  - intros a b Wa Wb. rewrite sset_seteqb_spec. split.
    + intros H. split; apply addr_leq_seteq; [exact H|]. intros x. symmetry. apply H.
    + intros [H1 H2] x. split; apply addr_leq_incl; assumption.
  - intros a b Wa Wb. unfold addr_leq. rewrite (addr_union_bot a b Wa Wb), (addr_union_top a b Wa Wb).
    split; [intros ->; reflexivity|]. split; [intros ->; reflexivity|].
    intros x Hx. apply (addr_union_exact a b Wa Wb). left. exact Hx.
  - intros a b Wa Wb. unfold addr_leq. rewrite (addr_union_bot a b Wa Wb), (addr_union_top a b Wa Wb).
    split; [intros ->; apply orb_true_r|]. split; [intros ->; apply orb_true_r|].
    intros x Hx. apply (addr_union_exact a b Wa Wb). right. exact Hx.
  - intros a b c Wa Wb Wc [B1 [T1 G1]] [B2 [T2 G2]]. unfold addr_leq.
    rewrite (addr_union_bot a b Wa Wb), (addr_union_top a b Wa Wb).
    split; [intros H; apply orb_true_iff in H; tauto|]. split; [intros H; apply orb_true_iff in H; tauto|].
    intros x Hx. apply (addr_union_exact a b Wa Wb) in Hx. destruct Hx as [Hx|Hx]; [apply G1|apply G2]; exact Hx.
  - intros a a' b b' Wa Wa' Wb Wb' [B1 [T1 G1]] [B2 [T2 G2]]. unfold addr_leq.
    rewrite (addr_inter_bot a b Wa Wb), (addr_inter_top a b Wa Wb),
            (addr_inter_bot a' b' Wa' Wb'), (addr_inter_top a' b' Wa' Wb').
    split; [intros H; apply andb_true_iff in H; apply andb_true_iff; tauto|].
    split; [intros H; apply andb_true_iff in H; apply andb_true_iff; tauto|].
    intros x Hx. apply (addr_intersection_exact a b Wa Wb) in Hx. apply (addr_intersection_exact a' b' Wa' Wb').
    split; [apply G1|apply G2]; apply Hx.
  - intros a Wa. unfold addr_leq. split; [intros H; discriminate H|]. split; [intros H; discriminate H|].
    intros x Hx. exfalso. exact (addr_null_gamma x Hx).
Qed.

(* ---------------------------------------------------------------- wiso_solve with the bundle as a record *)
Section SolveL.
  Variable T : Type.
  Variable t_eqb : T -> T -> bool.
  Variable univ null : T.
  Variable union inter : T -> T -> T.
  Variable P : T -> Prop.
  Variable leq : T -> T -> Prop.
  Hypothesis L : WLaws t_eqb univ null union inter P leq.

  Theorem wiso_solve_L (single : instr -> nat -> list sval -> T * T) r g f f' bc bc' fu fu' lo lo' :
    (forall op pos args, P (fst (single op pos args)) /\ P (snd (single op pos args))) ->
    (forall op pos args, single op (g pos) (map (shift_sval g) args) = single op pos args) ->
    fiso_w r g f f' -> graph_wf f' = true ->
    okst T P bc -> okst T P bc' -> SolverLemmas.peq T t_eqb (ren_st r bc) bc' ->
    solve T t_eqb univ null union inter single f fu bc = Done lo ->
    solve T t_eqb univ null union inter single f' fu' bc' = Done lo' ->
    SolverLemmas.peq T t_eqb (ren_st r lo) lo' /\ okst T P lo'.
  Proof.
    intros Hs Hpos W Hwf.
    exact (wiso_solve T t_eqb univ null union inter single P leq
             (wl_P_univ _ _ _ _ _ _ _ L) (wl_P_null _ _ _ _ _ _ _ L) (wl_P_union _ _ _ _ _ _ _ L)
             (wl_P_inter _ _ _ _ _ _ _ L) Hs (wl_teq_refl _ _ _ _ _ _ _ L) (wl_leq_refl _ _ _ _ _ _ _ L)
             (wl_leq_trans _ _ _ _ _ _ _ L) (wl_teq_leq _ _ _ _ _ _ _ L) (wl_union_ub_l _ _ _ _ _ _ _ L)
             (wl_union_ub_r _ _ _ _ _ _ _ L) (wl_union_lub _ _ _ _ _ _ _ L) (wl_inter_mono _ _ _ _ _ _ _ L)
             (wl_null_least _ _ _ _ _ _ _ L) r g Hpos f f' W bc bc' fu fu' lo lo' Hwf).
  Qed.
End SolveL.

(* the P_single law of the four analyses *)
Lemma int_single_P size intcs op pos args :
  PTrue (fst (int_single size intcs op pos args)) /\ PTrue (snd (int_single size intcs op pos args)).
Proof. split; exact I. Qed.
Lemma type_single_P intcs fam op pos args :
  PTrue (fst (type_single intcs fam op pos args)) /\ PTrue (snd (type_single intcs fam op pos args)).
Proof. split; exact I. Qed.

(* the four instances of wiso_solve: two terminating runs of one analysis key on weakly isomorphic functions give
   results with the same keys and equal sets / the same fee bound *)
Theorem wiso_solve_int size intcs (U : list Z) r g f f' bc bc' fu fu' lo lo' :
  fiso_w r g f f' -> graph_wf f' = true ->
  SolverLemmas.peq (list Z) zset_eqb (ren_st r bc) bc' ->
  solve (list Z) zset_eqb U [] zunion zinter (int_single size intcs) f fu bc = Done lo ->
  solve (list Z) zset_eqb U [] zunion zinter (int_single size intcs) f' fu' bc' = Done lo' ->
  SolverLemmas.peq (list Z) zset_eqb (ren_st r lo) lo'.
Proof.
  intros W Hwf Hbc S1 S2.
  refine (proj1 (wiso_solve_L (list Z) zset_eqb U [] zunion zinter PTrue (@incl Z) (zset_wlaws U)
                   (int_single size intcs) r g f f' bc bc' fu fu' lo lo'
                   (int_single_P size intcs) (iso_int_single g size intcs) W Hwf _ _ Hbc S1 S2));
    intros b v _; exact I.
Qed.

Theorem wiso_solve_type intcs fam r g f f' bc bc' fu fu' lo lo' :
  fiso_w r g f f' -> graph_wf f' = true ->
  SolverLemmas.peq (list string) lset_eqb (ren_st r bc) bc' ->
  solve (list string) lset_eqb ALL_TRANSACTION_TYPES [] lunion linter (type_single intcs fam) f fu bc = Done lo ->
  solve (list string) lset_eqb ALL_TRANSACTION_TYPES [] lunion linter (type_single intcs fam) f' fu' bc' = Done lo' ->
  SolverLemmas.peq (list string) lset_eqb (ren_st r lo) lo'.
Proof.
  intros W Hwf Hbc S1 S2.
  refine (proj1 (wiso_solve_L (list string) lset_eqb ALL_TRANSACTION_TYPES [] lunion linter PTrue (@incl string)
                   (lset_wlaws ALL_TRANSACTION_TYPES)
                   (type_single intcs fam) r g f f' bc bc' fu fu' lo lo'
                   (type_single_P intcs fam) (iso_type_single g intcs fam) W Hwf _ _ Hbc S1 S2));
    intros b v _; exact I.
Qed.

Theorem wiso_solve_fee intcs fam r g f f' bc bc' fu fu' lo lo' :
  fiso_w r g f f' -> graph_wf f' = true ->
  okst feeval fee_P bc -> okst feeval fee_P bc' ->
  SolverLemmas.peq feeval feeval_eqb (ren_st r bc) bc' ->
  solve feeval feeval_eqb fee_universal_set fee_null_set fee_union fee_intersection (fee_single intcs fam) f fu bc = Done lo ->
  solve feeval feeval_eqb fee_universal_set fee_null_set fee_union fee_intersection (fee_single intcs fam) f' fu' bc' = Done lo' ->
  SolverLemmas.peq feeval feeval_eqb (ren_st r lo) lo' /\ okst feeval fee_P lo'.
Proof.
  intros W Hwf O1 O2 Hbc S1 S2.
  exact (wiso_solve_L feeval feeval_eqb fee_universal_set fee_null_set fee_union fee_intersection fee_P fee_rleq
           fee_wlaws (fee_single intcs fam) r g f f' bc bc' fu fu' lo lo'
           (fee_single_P intcs fam) (iso_fee_single g intcs fam) W Hwf O1 O2 Hbc S1 S2).
Qed.

Theorem wiso_solve_addr intcs fam fld r g f f' bc bc' fu fu' lo lo' :
  fiso_w r g f f' -> graph_wf f' = true ->
  okst sset addr_wf bc -> okst sset addr_wf bc' ->
  SolverLemmas.peq sset sset_seteqb (ren_st r bc) bc' ->
  solve sset sset_seteqb addr_universal_set addr_null_set addr_union addr_intersection (addr_single intcs fam fld) f fu bc = Done lo ->
  solve sset sset_seteqb addr_universal_set addr_null_set addr_union addr_intersection (addr_single intcs fam fld) f' fu' bc' = Done lo' ->
  SolverLemmas.peq sset sset_seteqb (ren_st r lo) lo' /\ okst sset addr_wf lo'.
Proof.
  intros W Hwf O1 O2 Hbc S1 S2.
  exact (wiso_solve_L sset sset_seteqb addr_universal_set addr_null_set addr_union addr_intersection addr_wf addr_leq
           addr_wlaws (addr_single intcs fam fld) r g f f' bc bc' fu fu' lo lo'
           (addr_single_wf intcs fam fld) (iso_addr_single g intcs fam fld) W Hwf O1 O2 Hbc S1 S2).
Qed.

(* ====================================================================== PART 2 : contexts up to the domain equality *)
Definition seteq {A : Type} (a b : list A) : Prop := forall x, In x a <-> In x b.

Lemma seteq_refl {A} (a : list A) : seteq a a.
Proof. intros x. tauto. Qed.

Record av_equiv (a b : addrval) : Prop := mkAvEquiv {
  ave_any : av_any a = av_any b;
  ave_no : av_no a = av_no b;
  ave_possible : seteq (av_possible a) (av_possible b) }.

(* componentwise equality of the domains' values: address values and kind / size / index sets as sets, the fee bound
   and the flags equal *)
Record ctx_equiv (c d : bctx) : Prop := mkCtxEquiv {
  ce_rekeyto : av_equiv (ctx_rekeyto c) (ctx_rekeyto d);
  ce_closeto : av_equiv (ctx_closeto c) (ctx_closeto d);
  ce_assetcloseto : av_equiv (ctx_assetcloseto c) (ctx_assetcloseto d);
  ce_sender : av_equiv (ctx_sender c) (ctx_sender d);
  ce_types : seteq (ctx_transaction_types c) (ctx_transaction_types d);
  ce_max_fee : ctx_max_fee c = ctx_max_fee d;
  ce_max_fee_unknown : ctx_max_fee_unknown c = ctx_max_fee_unknown d;
  ce_group_sizes : seteq (ctx_group_sizes c) (ctx_group_sizes d);
  ce_group_indices : seteq (ctx_group_indices c) (ctx_group_indices d);
  ce_is_gtxn : ctx_is_gtxn_context c = ctx_is_gtxn_context d }.

Lemma ctx_equiv_refl c : ctx_equiv c c.
Proof. constructor; try reflexivity; try apply seteq_refl; constructor; try reflexivity; apply seteq_refl. Qed.

(* a detector predicate that reads the context only through the domains' values *)
Definition ctx_inv (checks : bctx -> bool) : Prop := forall c d, ctx_equiv c d -> checks c = checks d.

Lemma mem_any_string_seteq (y : string) (a b : list string) : seteq a b -> mem_any y a = mem_any y b.
Proof. intros H. rewrite !mem_any_string. apply smem_seteq. exact H. Qed.
Lemma mem_any_Z_seteq (y : Z) (a b : list Z) : seteq a b -> mem_any y a = mem_any y b.
Proof. intros H. rewrite !mem_any_Z. apply zmem_seteq. exact H. Qed.

Lemma inv_rekey_to : ctx_inv checks_rekey_to.
Proof. intros c d E. unfold checks_rekey_to. rewrite (ave_any _ _ (ce_rekeyto c d E)). reflexivity. Qed.
Lemma inv_can_close_account : ctx_inv checks_can_close_account.
Proof.
  intros c d E. unfold checks_can_close_account.
  rewrite (ave_any _ _ (ce_closeto c d E)), (mem_any_string_seteq "Pay" _ _ (ce_types c d E)). reflexivity.
Qed.
Lemma inv_can_close_asset : ctx_inv checks_can_close_asset.
Proof.
  intros c d E. unfold checks_can_close_asset.
  rewrite (ave_any _ _ (ce_assetcloseto c d E)), (mem_any_string_seteq "Axfer" _ _ (ce_types c d E)). reflexivity.
Qed.
Lemma inv_missing_fee_check : ctx_inv checks_missing_fee_check.
Proof.
  intros c d E. unfold checks_missing_fee_check.
  rewrite (ce_max_fee c d E), (ce_max_fee_unknown c d E). reflexivity.
Qed.
Lemma inv_is_updatable : ctx_inv checks_is_updatable.
Proof.
  intros c d E. unfold checks_is_updatable.
  rewrite (mem_any_string_seteq "ApplUpdateApplication" _ _ (ce_types c d E)). reflexivity.
Qed.
Lemma inv_is_deletable : ctx_inv checks_is_deletable.
Proof.
  intros c d E. unfold checks_is_deletable.
  rewrite (mem_any_string_seteq "ApplDeleteApplication" _ _ (ce_types c d E)). reflexivity.
Qed.
Lemma inv_unprotected_updatable : ctx_inv checks_unprotected_updatable.
Proof.
  intros c d E. unfold checks_unprotected_updatable.
  rewrite (ave_any _ _ (ce_sender c d E)), (mem_any_string_seteq "ApplUpdateApplication" _ _ (ce_types c d E)).
  reflexivity.
Qed.
Lemma inv_unprotected_deletable : ctx_inv checks_unprotected_deletable.
Proof.
  intros c d E. unfold checks_unprotected_deletable.
  rewrite (ave_any _ _ (ce_sender c d E)), (mem_any_string_seteq "ApplDeleteApplication" _ _ (ce_types c d E)).
  reflexivity.
Qed.
Lemma inv_group_size_check : ctx_inv checks_group_size_check.
Proof.
  intros c d E. unfold checks_group_size_check.
  rewrite (ce_is_gtxn c d E), (mem_any_Z_seteq _ _ _ (ce_group_sizes c d E)). reflexivity.
Qed.

(* all nine predicates of Detect.detectors (the names of Gen/Leaves.detector_table) *)
Theorem detectors_ctx_inv name checks : In (name, checks) detectors -> ctx_inv checks.
Proof.
  unfold detectors. cbn [In]. intros H.
  repeat (destruct H as [H|H]; [inversion H; subst checks;
    first [exact inv_rekey_to|exact inv_can_close_account|exact inv_can_close_asset|exact inv_missing_fee_check
          |exact inv_is_updatable|exact inv_is_deletable|exact inv_unprotected_updatable
          |exact inv_unprotected_deletable|exact inv_group_size_check]|]).
  destruct H.
Qed.

Lemma detectors_names : map fst detectors = map fst detector_table.
Proof. reflexivity. Qed.

(* ---------------------------------------------------------------- results up to the domain equality *)
Definition fam_equiv {K T : Type} (teq : T -> T -> bool) (l1 l2 : list (K * list (nat * T))) : Prop :=
  Forall2 (fun kv kv' => fst kv = fst kv' /\ SolverLemmas.peq T teq (snd kv) (snd kv')) l1 l2.

Record res_equiv (a b : fn_result) : Prop := mkResEquiv {
  re_sizes : SolverLemmas.peq (list Z) zset_eqb (r_sizes a) (r_sizes b);
  re_indices : SolverLemmas.peq (list Z) zset_eqb (r_indices a) (r_indices b);
  re_types : fam_equiv lset_eqb (r_types a) (r_types b);
  re_addrs : fam_equiv sset_seteqb (r_addrs a) (r_addrs b);
  re_fees : fam_equiv feeval_eqb (r_fees a) (r_fees b) }.

Lemma find_fam {K S : Type} (R : S -> S -> Prop) (q : K * S -> bool) l1 l2 :
  (forall kv kv', fst kv = fst kv' -> q kv = q kv') ->
  Forall2 (fun kv kv' => fst kv = fst kv' /\ R (snd kv) (snd kv')) l1 l2 ->
  match find q l1, find q l2 with
  | Some kv, Some kv' => R (snd kv) (snd kv')
  | None, None => True
  | _, _ => False
  end.
Proof.
  intros Hq H. induction H as [|kv kv' l1 l2 [Hk HR] _ IH]; [exact I|].
  cbn [find]. rewrite (Hq kv kv' Hk). destruct (q kv'); [exact HR|exact IH].
Qed.

Lemma lookup_peq_dflt {T} (teq : T -> T -> bool) (R : T -> T -> Prop) (s1 s2 : list (nat * T)) (d : T) b :
  (forall x y, teq x y = true -> R x y) -> R d d ->
  SolverLemmas.peq T teq s1 s2 ->
  R (match Analysis.lookup T s1 b with Some v => v | None => d end)
    (match Analysis.lookup T s2 b with Some v => v | None => d end).
Proof.
  intros HR Hd Hp. pose proof (wpeq_bc_eqv T teq s1 s2 Hp b) as H.
  destruct (Analysis.lookup T s1 b); destruct (Analysis.lookup T s2 b); try contradiction; [apply HR; exact H|exact Hd].
Qed.

Lemma zset_eqb_seteq x y : zset_eqb x y = true -> seteq x y.
Proof. intros H. exact (proj1 (zset_eqb_spec x y) H). Qed.
Lemma lset_eqb_seteq x y : lset_eqb x y = true -> seteq x y.
Proof. intros H. exact (proj1 (lset_eqb_spec x y) H). Qed.
Lemma sset_seteqb_seteq x y : sset_seteqb x y = true -> seteq x y.
Proof. intros H. exact (proj1 (sset_seteqb_spec x y) H). Qed.

Lemma res_addr_equiv a b fld fam n : res_equiv a b -> seteq (res_addr a fld fam n) (res_addr b fld fam n).
Proof.
  intros E. unfold res_addr.
  match goal with
  | |- seteq (match find ?q ?l1 with _ => _ end) _ =>
      pose proof (find_fam (K := string * keyfam) (S := list (nat * sset)) (SolverLemmas.peq sset sset_seteqb)
                    q (r_addrs a) (r_addrs b)) as H
  end.
  match type of H with ?A -> _ => assert (Hq : A) end.
  { intros [[fl fm] s] [[fl' fm'] s'] Hk. cbn [fst] in Hk. inversion Hk. reflexivity. }
  specialize (H Hq (re_addrs a b E)). revert H.
  destruct (find _ (r_addrs a)) as [[[fl fm] s]|]; destruct (find _ (r_addrs b)) as [[[fl' fm'] s']|];
    intros H; try contradiction; [|apply seteq_refl].
  cbn [snd] in H. apply (lookup_peq_dflt sset_seteqb seteq s s' _ n sset_seteqb_seteq (seteq_refl _) H).
Qed.

Lemma res_types_equiv a b fam n : res_equiv a b -> seteq (res_types a fam n) (res_types b fam n).
Proof.
  intros E. unfold res_types.
  match goal with
  | |- seteq (match find ?q ?l1 with _ => _ end) _ =>
      pose proof (find_fam (K := keyfam) (S := list (nat * list string)) (SolverLemmas.peq (list string) lset_eqb)
                    q (r_types a) (r_types b)) as H
  end.
  match type of H with ?A -> _ => assert (Hq : A) end.
  { intros [fm s] [fm' s'] Hk. cbn [fst] in Hk. subst fm'. reflexivity. }
  specialize (H Hq (re_types a b E)). revert H.
  destruct (find _ (r_types a)) as [[fm s]|]; destruct (find _ (r_types b)) as [[fm' s']|];
    intros H; try contradiction; [|apply seteq_refl].
  cbn [snd] in H. apply (lookup_peq_dflt lset_eqb seteq s s' _ n lset_eqb_seteq (seteq_refl _) H).
Qed.

Lemma res_fee_equiv a b fam n : res_equiv a b -> res_fee a fam n = res_fee b fam n.
Proof.
  intros E. unfold res_fee.
  match goal with
  | |- match find ?q ?l1 with _ => _ end = _ =>
      pose proof (find_fam (K := keyfam) (S := list (nat * feeval)) (SolverLemmas.peq feeval feeval_eqb)
                    q (r_fees a) (r_fees b)) as H
  end.
  match type of H with ?A -> _ => assert (Hq : A) end.
  { intros [fm s] [fm' s'] Hk. cbn [fst] in Hk. subst fm'. reflexivity. }
  specialize (H Hq (re_fees a b E)). revert H.
  destruct (find _ (r_fees a)) as [[fm s]|]; destruct (find _ (r_fees b)) as [[fm' s']|];
    intros H; try contradiction; [|reflexivity].
  cbn [snd] in H.
  apply (lookup_peq_dflt feeval_eqb eq s s' _ n (fun x y Hxy => proj1 (feeval_eqb_spec x y) Hxy) eq_refl H).
Qed.

Lemma addrval_of_equiv s s' : seteq s s' -> av_equiv (addrval_of s) (addrval_of s').
Proof.
  intros H. unfold addrval_of. constructor; cbn [av_any av_no av_possible].
  - apply smem_seteq. exact H.
  - apply smem_seteq. exact H.
  - intros x. rewrite !filter_In. rewrite (H x). tauto.
Qed.

(* the contexts the detectors read are equal up to the domain equality, block by block and key family by key family *)
Theorem ctx_of_equiv a b n fam : res_equiv a b -> ctx_equiv (ctx_of a n fam) (ctx_of b n fam).
Proof.
  intros E. unfold ctx_of. cbv zeta. rewrite (res_fee_equiv a b fam n E).
  constructor; cbn [ctx_rekeyto ctx_closeto ctx_assetcloseto ctx_sender ctx_transaction_types ctx_max_fee
                    ctx_max_fee_unknown ctx_group_sizes ctx_group_indices ctx_is_gtxn_context];
    try reflexivity; try (apply addrval_of_equiv; apply res_addr_equiv; exact E).
  - apply res_types_equiv. exact E.
  - destruct fam; try apply seteq_refl.
    apply (lookup_peq_dflt zset_eqb seteq _ _ _ n zset_eqb_seteq (seteq_refl _) (re_sizes a b E)).
  - destruct fam; try apply seteq_refl.
    apply (lookup_peq_dflt zset_eqb seteq _ _ _ n zset_eqb_seteq (seteq_refl _) (re_indices a b E)).
Qed.

Lemma forallb_seteq {A} (p q : A -> bool) l1 l2 :
  (forall x, p x = q x) -> seteq l1 l2 -> forallb p l1 = forallb q l2.
Proof.
  intros Hpq Hs. destruct (forallb q l2) eqn:E.
  - apply forallb_forall. intros x Hx. rewrite Hpq. rewrite forallb_forall in E. apply E. apply Hs. exact Hx.
  - destruct (forallb p l1) eqn:E1; [|reflexivity].
    rewrite forallb_forall in E1.
    assert (H : forallb q l2 = true).
    { apply forallb_forall. intros x Hx. rewrite <- Hpq. apply E1. apply Hs. exact Hx. }
    congruence.
Qed.

(* validated_in_block agrees on equivalent results, for every predicate invariant under ctx_equiv *)
Theorem validated_in_block_equiv a b checks ai n :
  res_equiv a b -> ctx_inv checks -> validated_in_block a checks ai n = validated_in_block b checks ai n.
Proof.
  intros E Hc. unfold validated_in_block.
  rewrite (Hc _ _ (ctx_of_equiv a b n KSelf E)).
  destruct (checks (ctx_of b n KSelf)); [reflexivity|].
  destruct ai as [i|].
  - apply Hc. apply ctx_of_equiv. exact E.
  - apply forallb_seteq.
    + intros i. apply Hc. apply ctx_of_equiv. exact E.
    + exact (ce_group_indices _ _ (ctx_of_equiv a b n KSelf E)).
Qed.

(* ====================================================================== PART 3 : run_all on weakly isomorphic functions *)
Lemma peq_refl_teq {T} (teq : T -> T -> bool) (s : list (nat * T)) :
  (forall a, teq a a = true) -> SolverLemmas.peq T teq s s.
Proof.
  intros Hr. split; [reflexivity|]. intros b v1 v2 E1 E2. rewrite E1 in E2. inversion E2. apply Hr.
Qed.

Lemma zmax_fold_spec : forall l a,
  (a <= fold_left Z.max l a)%Z /\ (forall x, In x l -> (x <= fold_left Z.max l a)%Z) /\
  (fold_left Z.max l a = a \/ In (fold_left Z.max l a) l).
Proof.
  induction l as [|y l IH]; intros a.
  - cbn [fold_left]. split; [lia|]. split; [intros x []|left; reflexivity].
  - cbn [fold_left]. destruct (IH (Z.max a y)) as [H1 [H2 H3]]. split; [lia|]. split.
    + intros x [<-|Hx]; [lia|exact (H2 x Hx)].
    + destruct H3 as [H3|H3]; [|right; right; exact H3].
      destruct (Z.max_spec a y) as [[_ E]|[_ E]]; rewrite E in H3 |- *.
      * right. left. symmetry. exact H3.
      * left. exact H3.
Qed.

(* the largest possible group size depends on the set only *)
Lemma zmax_default_seteq l l' : seteq l l' -> zmax_default l = zmax_default l'.
Proof.
  intros H. unfold zmax_default.
  destruct (zmax_fold_spec l 0%Z) as [A1 [A2 A3]]. destruct (zmax_fold_spec l' 0%Z) as [B1 [B2 B3]].
  assert (L1 : (fold_left Z.max l 0 <= fold_left Z.max l' 0)%Z).
  { destruct A3 as [A3|A3]; [lia|]. apply B2. apply H. exact A3. }
  assert (L2 : (fold_left Z.max l' 0 <= fold_left Z.max l 0)%Z).
  { destruct B3 as [B3|B3]; [lia|]. apply A2. apply H. exact B3. }
  lia.
Qed.

Lemma seq_outcomes_rel {A B C} (R : B -> C -> Prop) (l : list A) (G : A -> outcome B) (G' : A -> outcome C) :
  (forall a b c, In a l -> G a = Done b -> G' a = Done c -> R b c) ->
  forall rs rs', seq_outcomes l G = Done rs -> seq_outcomes l G' = Done rs' -> Forall2 R rs rs'.
Proof.
  unfold seq_outcomes. induction l as [|a l IH]; intros HR rs rs' E1 E2.
  - cbn [fold_right] in E1, E2. inversion E1; inversion E2. constructor.
  - cbn [fold_right] in E1, E2.
    destruct (fold_right _ (Done []) l) as [q| |] eqn:Q1 in E1; try discriminate E1.
    destruct (fold_right _ (Done []) l) as [q'| |] eqn:Q2 in E2; try discriminate E2.
    destruct (G a) as [b| |] eqn:Ga; try discriminate E1. destruct (G' a) as [c| |] eqn:Ga'; try discriminate E2.
    inversion E1; inversion E2. constructor.
    + apply (HR a b c); [left; reflexivity|exact Ga|exact Ga'].
    + apply IH; [intros a0 b0 c0 Hin; apply HR; right; exact Hin|exact Q1|exact Q2].
Qed.

Lemma Forall2_map_l {A B C} (R : B -> C -> Prop) (h : A -> B) l l' :
  Forall2 (fun a c => R (h a) c) l l' -> Forall2 R (map h l) l'.
Proof. intros H. induction H; cbn [map]; constructor; assumption. Qed.

Lemma Forall2_concat_map {A B C} (R : B -> C -> Prop) (h : A -> B) ls ls' :
  Forall2 (fun l l' => Forall2 R (map h l) l') ls ls' -> Forall2 R (map h (concat ls)) (concat ls').
Proof.
  intros H. induction H as [|l l' ls ls' H1 _ IH]; [constructor|].
  cbn [concat]. rewrite map_app. apply Forall2_app; assumption.
Qed.

(* the at-index refinement of Domains.run_family *)
Definition refine1 {T} (null : T) (inter : T -> T -> T) (indices : list (nat * list Z)) (base : list (nat * T)) (i : N)
  : nat * T -> nat * T :=
  fun '(b, c) =>
    let gi := match Analysis.lookup _ indices b with Some l => l | None => [] end in
    if zmem (Z.of_N i) gi
    then (b, inter c (match Analysis.lookup _ base b with Some v => v | None => null end))
    else (b, null).

Lemma refine1_fst {T} (null : T) inter indices base i b c : fst (refine1 null inter indices base i (b, c)) = b.
Proof. unfold refine1. cbv zeta. destruct (zmem _ _); reflexivity. Qed.

(* _store_results of the group indices *)
Definition below_size (sizes : list (nat * list Z)) : nat * list Z -> nat * list Z :=
  fun '(b, gi) =>
    let gs := match Analysis.lookup _ sizes b with Some l => l | None => [] end in
    (b, filter (fun i => Z.ltb i (zmax_default gs)) gi).

Section WRunAll.
  Variables r g : nat -> nat.
  Variables f f' : func.
  Hypothesis W : fiso_w r g f f'.
  Hypothesis Hwf : graph_wf f' = true.
  Variables fu fu' : nat.

  Let ISO := isow_iso r g f f' W.

  Lemma w_intcs : fn_intcs f' = fn_intcs f.
  Proof. exact (iso_intcs r g f _ ISO). Qed.

  Lemma w_lookup {T} (st : list (nat * T)) b : Analysis.lookup T (ren_st r st) (r b) = Analysis.lookup T st b.
  Proof. exact (iso_lookup r g T f _ ISO st b). Qed.

  Lemma map_fst_keep {T} (h : nat * T -> nat * T) s : (forall b c, fst (h (b, c)) = b) -> map fst (map h s) = map fst s.
  Proof. intros Hh. rewrite map_map. apply map_ext. intros [b c]. apply Hh. Qed.

  Lemma map_fst_ren {T} (s : list (nat * T)) : map fst (ren_st r s) = map r (map fst s).
  Proof. unfold ren_st. rewrite !map_map. reflexivity. Qed.

  (* key-preserving maps over states that are equal up to the renaming and the domain equality *)
  Lemma keep_peq {T} (teq : T -> T -> bool) (h h' : nat * T -> nat * T) s s' :
    (forall b c, fst (h (b, c)) = b) -> (forall b c, fst (h' (b, c)) = b) ->
    SolverLemmas.peq T teq (ren_st r s) s' ->
    (forall k c c', Analysis.lookup T s k = Some c -> Analysis.lookup T s' (r k) = Some c' -> teq c c' = true ->
                    teq (snd (h (k, c))) (snd (h' (r k, c'))) = true) ->
    SolverLemmas.peq T teq (ren_st r (map h s)) (map h' s').
  Proof.
    intros Hh Hh' [Hk Hv] Hrel. split.
    - rewrite map_fst_ren, (map_fst_keep h s Hh), (map_fst_keep h' s' Hh'), <- Hk, map_fst_ren. reflexivity.
    - intros k v1 v2 E1 E2.
      destruct (lookup_ren_inv T r g f f' W _ k v1 E1) as [k0 [-> E1']].
      rewrite (lookup_map_keep h Hh) in E1'. rewrite (lookup_map_keep h' Hh') in E2.
      destruct (Analysis.lookup T s k0) as [c|] eqn:Ec; [|discriminate E1'].
      destruct (Analysis.lookup T s' (r k0)) as [c'|] eqn:Ec'; [|discriminate E2].
      cbn [option_map] in E1', E2. inversion E1'; inversion E2.
      apply Hrel; [exact Ec|exact Ec'|]. apply (Hv (r k0)); [rewrite w_lookup; exact Ec|exact Ec'].
  Qed.

  Lemma okst_keep {T} (P : T -> Prop) (h : nat * T -> nat * T) s :
    (forall b c, fst (h (b, c)) = b) -> okst T P s -> (forall b c, P c -> P (snd (h (b, c)))) -> okst T P (map h s).
  Proof.
    intros Hh Ho Hp b v E. rewrite (lookup_map_keep h Hh) in E.
    destruct (Analysis.lookup T s b) as [c|] eqn:Ec; [|discriminate E]. cbn [option_map] in E. inversion E.
    apply Hp. exact (Ho b c Ec).
  Qed.

  (* ---------------------------------------------------------------- group sizes / indices *)
  Lemma wiso_run_int size lo lo' :
    run_int f fu size = Done lo -> run_int f' fu' size = Done lo' ->
    SolverLemmas.peq (list Z) zset_eqb (ren_st r lo) lo'.
  Proof.
    unfold run_int. cbv zeta. rewrite w_intcs.
    rewrite (wiso_init_constraints r g f f' (list Z) _ _ zunion zinter (int_single size (fn_intcs f)) W
               (iso_int_single g size (fn_intcs f))).
    destruct (init_constraints (list Z) _ _ zunion zinter (int_single size (fn_intcs f)) f) as [bc|];
      [|intros H; discriminate H].
    cbn [option_map]. intros S1 S2.
    apply (wiso_solve_int size (fn_intcs f) (if size then int_universal_groupsize else int_universal_groupindex)
             r g f f' bc (ren_st r bc) fu fu' lo lo' W Hwf); [|exact S1|exact S2].
    apply peq_refl_teq. intros a. apply zset_eqb_spec. intros x. tauto.
  Qed.

  Lemma below_size_peq sizes sizes' idx idx' :
    SolverLemmas.peq (list Z) zset_eqb (ren_st r sizes) sizes' ->
    SolverLemmas.peq (list Z) zset_eqb (ren_st r idx) idx' ->
    SolverLemmas.peq (list Z) zset_eqb (ren_st r (map (below_size sizes) idx)) (map (below_size sizes') idx').
  Proof.
    intros Hs Hx. apply keep_peq; try (intros b c; reflexivity); [exact Hx|].
    intros k c c' _ _ Hc. unfold below_size. cbv zeta. cbn [snd].
    pose proof (wpeq_bc_eqv _ _ _ _ Hs (r k)) as Hb. rewrite w_lookup in Hb.
    assert (Em : zmax_default (match Analysis.lookup _ sizes k with Some l => l | None => [] end) =
                 zmax_default (match Analysis.lookup _ sizes' (r k) with Some l => l | None => [] end)).
    { apply zmax_default_seteq.
      destruct (Analysis.lookup _ sizes k); destruct (Analysis.lookup _ sizes' (r k)); try contradiction;
        [apply zset_eqb_seteq; exact Hb|apply seteq_refl]. }
    rewrite Em. apply zset_eqb_spec. intros x. rewrite !filter_In. rewrite (zset_eqb_seteq _ _ Hc x). tauto.
  Qed.

  (* ---------------------------------------------------------------- one family of keys, any domain with the laws *)
  Section Family.
    Variable T : Type.
    Variable t_eqb : T -> T -> bool.
    Variable univ null : T.
    Variable union inter : T -> T -> T.
    Variable P : T -> Prop.
    Variable leq : T -> T -> Prop.
    Hypothesis L : WLaws t_eqb univ null union inter P leq.
    Variable single : keyfam -> instr -> nat -> list sval -> T * T.
    Hypothesis Hs : forall fam op pos args, P (fst (single fam op pos args)) /\ P (snd (single fam op pos args)).
    Hypothesis Hpos : forall fam op pos args,
      single fam op (g pos) (map (shift_sval g) args) = single fam op pos args.

    Lemma init_okst fam bc : init_constraints T univ null union inter (single fam) f = Some bc -> okst T P bc.
    Proof.
      intros Hi b v Hl.
      exact (init_constraints_closed T univ null union inter (single fam) P
               (wl_P_univ _ _ _ _ _ _ _ L) (wl_P_null _ _ _ _ _ _ _ L) (wl_P_union _ _ _ _ _ _ _ L)
               (wl_P_inter _ _ _ _ _ _ _ L) (Hs fam) f bc b v Hi Hl).
    Qed.

    Lemma dflt_P (s : list (nat * T)) b : okst T P s -> P (match Analysis.lookup T s b with Some v => v | None => null end).
    Proof.
      intros Ho. destruct (Analysis.lookup T s b) as [v|] eqn:E; [exact (Ho b v E)|exact (wl_P_null _ _ _ _ _ _ _ L)].
    Qed.

    Lemma refine_peq indices indices' base base' i bc :
      okst T P bc -> okst T P base -> okst T P base' ->
      SolverLemmas.peq (list Z) zset_eqb (ren_st r indices) indices' ->
      SolverLemmas.peq T t_eqb (ren_st r base) base' ->
      SolverLemmas.peq T t_eqb (ren_st r (map (refine1 null inter indices base i) bc))
                       (map (refine1 null inter indices' base' i) (ren_st r bc)) /\
      okst T P (map (refine1 null inter indices base i) bc) /\
      okst T P (map (refine1 null inter indices' base' i) (ren_st r bc)).
    Proof.
      intros Obc Ob Ob' Hi Hb.
      assert (Hok : forall ind bs, okst T P bs -> forall b c, P c -> P (snd (refine1 null inter ind bs i (b, c)))).
      { intros ind bs Obs b c Pc. unfold refine1. cbv zeta. destruct (zmem _ _); cbn [snd].
        - apply (wl_P_inter _ _ _ _ _ _ _ L); [exact Pc|apply dflt_P; exact Obs].
        - exact (wl_P_null _ _ _ _ _ _ _ L). }
      split; [|split].
      - apply keep_peq; try (intros b c; apply refine1_fst).
        + apply peq_refl_teq. exact (wl_teq_refl _ _ _ _ _ _ _ L).
        + intros k c c' Ec Ec' _. rewrite w_lookup in Ec'. rewrite Ec in Ec'. inversion Ec'; subst c'.
          assert (Pc : P c) by exact (Obc k c Ec).
          unfold refine1. cbv zeta.
          pose proof (wpeq_bc_eqv _ _ _ _ Hi (r k)) as Hik. rewrite w_lookup in Hik.
          assert (Ez : zmem (Z.of_N i) (match Analysis.lookup _ indices k with Some l => l | None => [] end) =
                       zmem (Z.of_N i) (match Analysis.lookup _ indices' (r k) with Some l => l | None => [] end)).
          { apply zmem_seteq.
            destruct (Analysis.lookup _ indices k); destruct (Analysis.lookup _ indices' (r k)); try contradiction;
              [apply zset_eqb_seteq; exact Hik|apply seteq_refl]. }
          rewrite <- Ez. destruct (zmem _ _); cbn [snd]; [|apply (wl_teq_refl _ _ _ _ _ _ _ L)].
          apply (w_inter_cong T t_eqb inter P leq (wl_P_inter _ _ _ _ _ _ _ L) (wl_teq_leq _ _ _ _ _ _ _ L)
                   (wl_inter_mono _ _ _ _ _ _ _ L)); try exact Pc; try (apply dflt_P; assumption).
          * apply (wl_teq_refl _ _ _ _ _ _ _ L).
          * pose proof (wpeq_bc_eqv _ _ _ _ Hb (r k)) as Hbk. rewrite w_lookup in Hbk.
            destruct (Analysis.lookup T base k); destruct (Analysis.lookup T base' (r k)); try contradiction;
              [exact Hbk|apply (wl_teq_refl _ _ _ _ _ _ _ L)].
      - apply okst_keep; [intros b c; apply refine1_fst|exact Obc|apply Hok; exact Ob].
      - apply okst_keep; [intros b c; apply refine1_fst|apply (okst_ren T P r g f f' W); exact Obc|apply Hok; exact Ob'].
    Qed.

    Theorem wiso_run_family indices indices' res res' :
      SolverLemmas.peq (list Z) zset_eqb (ren_st r indices) indices' ->
      run_family f fu t_eqb univ null union inter single indices = Done res ->
      run_family f' fu' t_eqb univ null union inter single indices' = Done res' ->
      fam_equiv t_eqb (ren_fam r res) res'.
    Proof.
      intros Hi. unfold run_family.
      rewrite (wiso_init_constraints r g f f' T univ null union inter (single KSelf) W (Hpos KSelf)).
      destruct (init_constraints T univ null union inter (single KSelf) f) as [bc0|] eqn:I0;
        [|intros H; discriminate H].
      cbn [option_map].
      destruct (solve T t_eqb univ null union inter (single KSelf) f fu bc0) as [base| |] eqn:S1;
        try (intros H; discriminate H).
      destruct (solve T t_eqb univ null union inter (single KSelf) f' fu' (ren_st r bc0)) as [base'| |] eqn:S2;
        try (intros _ H; discriminate H).
      assert (O0 : okst T P bc0) by exact (init_okst KSelf bc0 I0).
      destruct (wiso_solve_L T t_eqb univ null union inter P leq L (single KSelf) r g f f' bc0 (ren_st r bc0)
                  fu fu' base base' (Hs KSelf) (Hpos KSelf) W Hwf O0 (okst_ren T P r g f f' W bc0 O0)
                  (peq_refl_teq t_eqb _ (wl_teq_refl _ _ _ _ _ _ _ L)) S1 S2) as [Hb Ob'].
      assert (Ob : okst T P base).
      { apply solve_passes in S1. destruct S1 as [ro [F1 B1]].
        assert (Oro : okst T P ro).
        { refine (forward_okst T t_eqb univ null union inter (single KSelf) P leq
                    (wl_P_univ _ _ _ _ _ _ _ L) (wl_P_null _ _ _ _ _ _ _ L) (wl_P_union _ _ _ _ _ _ _ L)
                    (wl_P_inter _ _ _ _ _ _ _ L) (Hs KSelf) (wl_leq_refl _ _ _ _ _ _ _ L)
                    (wl_leq_trans _ _ _ _ _ _ _ L) (wl_union_ub_l _ _ _ _ _ _ _ L) (wl_union_ub_r _ _ _ _ _ _ _ L)
                    (wl_union_lub _ _ _ _ _ _ _ L) f _ _ _ _ ro O0 _ F1).
          apply okst_blocks. intros; exact (wl_P_null _ _ _ _ _ _ _ L). }
        refine (backward_okst T t_eqb null union inter P leq (wl_P_null _ _ _ _ _ _ _ L) (wl_P_union _ _ _ _ _ _ _ L)
                  (wl_P_inter _ _ _ _ _ _ _ L) (wl_leq_refl _ _ _ _ _ _ _ L)
                  (wl_leq_trans _ _ _ _ _ _ _ L) (wl_union_ub_l _ _ _ _ _ _ _ L) (wl_union_ub_r _ _ _ _ _ _ _ L)
                  (wl_union_lub _ _ _ _ _ _ _ L) f _ _ _ _ base Oro _ B1).
        apply (okst_bwd_st0 T null P (wl_P_null _ _ _ _ _ _ _ L)). exact Oro. }
      match goal with
      | |- match seq_outcomes ?l ?G with _ => _ end = _ -> match seq_outcomes _ ?G' with _ => _ end = _ -> _ =>
          destruct (seq_outcomes l G) as [rest| |] eqn:Q1; try (intros H; discriminate H);
          destruct (seq_outcomes l G') as [rest'| |] eqn:Q2; try (intros _ H; discriminate H);
          pose proof (seq_outcomes_rel
                        (fun (kv kv' : keyfam * list (nat * T)) =>
                           fst kv = fst kv' /\ SolverLemmas.peq T t_eqb (ren_st r (snd kv)) (snd kv'))
                        l G G') as HR
      end.
      intros R1 R2. inversion R1; inversion R2. unfold ren_fam. cbn [map]. constructor.
      - cbn [fst snd]. split; [reflexivity|exact Hb].
      - apply Forall2_map_l. cbn [fst snd]. refine (HR _ rest rest' Q1 Q2). clear HR Q1 Q2 R1 R2.
        intros fam b c _.
        rewrite (wiso_init_constraints r g f f' T univ null union inter (single fam) W (Hpos fam)).
        destruct (init_constraints T univ null union inter (single fam) f) as [bc|] eqn:If;
          [|intros H; discriminate H].
        cbn [option_map].
        assert (Obc : okst T P bc) by exact (init_okst fam bc If).
        assert (HX : exists bcf bcf',
                   SolverLemmas.peq T t_eqb (ren_st r bcf) bcf' /\ okst T P bcf /\ okst T P bcf' /\
                   bcf = match fam with
                         | KAtIndex i => map (refine1 null inter indices base i) bc
                         | _ => bc end /\
                   bcf' = match fam with
                          | KAtIndex i => map (refine1 null inter indices' base' i) (ren_st r bc)
                          | _ => ren_st r bc end).
        { destruct fam as [|i| |];
            try (exists bc, (ren_st r bc); split; [apply peq_refl_teq; exact (wl_teq_refl _ _ _ _ _ _ _ L)|];
                 split; [exact Obc|]; split; [apply (okst_ren T P r g f f' W); exact Obc|]; split; reflexivity).
          destruct (refine_peq indices indices' base base' i bc Obc Ob Ob' Hi Hb) as [X1 [X2 X3]].
          eexists. eexists. split; [exact X1|]. split; [exact X2|]. split; [exact X3|]. split; reflexivity. }
        destruct HX as [bcf [bcf' [Xp [Xo [Xo' [E1 E2]]]]]].
        subst bcf bcf'.
        match goal with
        | |- match solve _ _ _ _ _ _ _ _ _ ?X with _ => _ end = _ -> _ =>
            destruct (solve T t_eqb univ null union inter (single fam) f fu X) as [rr| |] eqn:Sf;
              try (intros H; discriminate H)
        end.
        match goal with
        | |- _ -> match solve _ _ _ _ _ _ _ _ _ ?X with _ => _ end = _ -> _ =>
            destruct (solve T t_eqb univ null union inter (single fam) f' fu' X) as [rr'| |] eqn:Sf';
              try (intros _ H; discriminate H)
        end.
        intros Eb Ec. inversion Eb; inversion Ec. cbn [fst snd]. split; [reflexivity|].
        exact (proj1 (wiso_solve_L T t_eqb univ null union inter P leq L (single fam) r g f f' _ _
                        fu fu' rr rr' (Hs fam) (Hpos fam) W Hwf Xo Xo' Xp Sf Sf')).
    Qed.
  End Family.
End WRunAll.

(* ---------------------------------------------------------------- run_all *)
Lemma fam_equiv_tag {T} (teq : T -> T -> bool) (r : nat -> nat) (fld : string)
      (rr rr' : list (keyfam * list (nat * T))) :
  fam_equiv teq (ren_fam r rr) rr' ->
  fam_equiv teq (ren_fam r (map (fun '(fam, v) => (fld, fam, v)) rr)) (map (fun '(fam, v) => (fld, fam, v)) rr').
Proof.
  unfold fam_equiv, ren_fam. revert rr'. induction rr as [|[fam v] rr IH]; intros rr' H.
  - inversion H. constructor.
  - cbn [map] in H. inversion H as [|x y l l' [Hk Hp] Hrest]; subst. destruct y as [fam' v']. cbn [fst snd] in Hk, Hp.
    subst fam'. cbn [map fst snd]. constructor; [split; [reflexivity|exact Hp]|]. apply IH. exact Hrest.
Qed.

Section WRunAll2.
  Variables r g : nat -> nat.
  Variables f f' : func.
  Hypothesis W : fiso_w r g f f'.
  Hypothesis Hwf : graph_wf f' = true.
  Variables fu fu' : nat.

  (* two terminating runs of the whole analysis on weakly isomorphic functions: the result of f' is the renamed result
     of f up to the domains' equalities (same keys in the same order, equal sets, equal fee bounds) *)
  Theorem wiso_run_all res res' :
    run_all f fu = Done res -> run_all f' fu' = Done res' -> res_equiv (ren_result r res) res'.
  Proof.
    unfold run_all. cbv zeta. rewrite (w_intcs r g f f' W).
    destruct (run_int f fu true) as [sizes| |] eqn:Rs; destruct (run_int f fu false) as [idx0| |] eqn:Rx;
      try (intros H; discriminate H).
    destruct (run_int f' fu' true) as [sizes'| |] eqn:Rs'; destruct (run_int f' fu' false) as [idx0'| |] eqn:Rx';
      try (intros _ H; discriminate H).
    pose proof (wiso_run_int r g f f' W Hwf fu fu' true sizes sizes' Rs Rs') as Hs.
    pose proof (wiso_run_int r g f f' W Hwf fu fu' false idx0 idx0' Rx Rx') as Hx.
    pose proof (below_size_peq r g f f' W sizes sizes' idx0 idx0' Hs Hx) as Hi.
    change (map (fun '(b, gi) =>
                   let gs := match Analysis.lookup _ sizes b with Some l => l | None => [] end in
                   (b, filter (fun i => Z.ltb i (zmax_default gs)) gi)) idx0)
      with (map (below_size sizes) idx0).
    change (map (fun '(b, gi) =>
                   let gs := match Analysis.lookup _ sizes' b with Some l => l | None => [] end in
                   (b, filter (fun i => Z.ltb i (zmax_default gs)) gi)) idx0')
      with (map (below_size sizes') idx0').
    set (indices := map (below_size sizes) idx0) in *. set (indices' := map (below_size sizes') idx0') in *.
    match goal with
    | |- match seq_outcomes ?l ?G with _ => _ end = _ -> match seq_outcomes _ ?G' with _ => _ end = _ -> _ =>
        destruct (seq_outcomes l G) as [addrs| |] eqn:Q1; try (intros H; discriminate H);
        destruct (seq_outcomes l G') as [addrs'| |] eqn:Q2; try (intros _ H; discriminate H);
        pose proof (seq_outcomes_rel
                      (fun (l0 l0' : list (string * keyfam * list (nat * sset))) =>
                         fam_equiv sset_seteqb (ren_fam r l0) l0') l G G') as HA
    end.
    match goal with |- match ?X with _ => _ end = _ -> _ => destruct X as [fees| |] eqn:Rf; try (intros H; discriminate H) end.
    match goal with |- _ -> match ?X with _ => _ end = _ -> _ => destruct X as [fees'| |] eqn:Rf'; try (intros _ H; discriminate H) end.
    match goal with |- match ?X with _ => _ end = _ -> _ => destruct X as [types| |] eqn:Rt; try (intros H; discriminate H) end.
    match goal with |- _ -> match ?X with _ => _ end = _ -> _ => destruct X as [types'| |] eqn:Rt'; try (intros _ H; discriminate H) end.
    intros R1 R2. inversion R1; inversion R2. unfold ren_result. cbn [r_sizes r_indices r_types r_addrs r_fees].
    constructor; cbn [r_sizes r_indices r_types r_addrs r_fees].
    - exact Hs.
    - exact Hi.
    - exact (wiso_run_family r g f f' W Hwf fu fu' (list string) lset_eqb ALL_TRANSACTION_TYPES [] lunion linter
               PTrue (@incl string) (lset_wlaws ALL_TRANSACTION_TYPES)
               (fun fam => type_single (fn_intcs f) fam) (fun fam => type_single_P (fn_intcs f) fam)
               (fun fam => iso_type_single g (fn_intcs f) fam) indices indices' types types' Hi Rt Rt').
    - unfold fam_equiv, ren_fam. apply Forall2_concat_map.
      refine (HA _ addrs addrs' Q1 Q2). clear HA Q1 Q2.
      intros fld b c _.
      match goal with |- match ?X with _ => _ end = _ -> _ => destruct X as [rr| |] eqn:Ra; try (intros H; discriminate H) end.
      match goal with |- _ -> match ?X with _ => _ end = _ -> _ => destruct X as [rr'| |] eqn:Ra'; try (intros _ H; discriminate H) end.
      intros Eb Ec. inversion Eb; inversion Ec. apply fam_equiv_tag.
      exact (wiso_run_family r g f f' W Hwf fu fu' sset sset_seteqb addr_universal_set addr_null_set addr_union
               addr_intersection addr_wf addr_leq addr_wlaws
               (fun fam => addr_single (fn_intcs f) fam fld) (fun fam => addr_single_wf (fn_intcs f) fam fld)
               (fun fam => iso_addr_single g (fn_intcs f) fam fld) indices indices' rr rr' Hi Ra Ra').
    - exact (wiso_run_family r g f f' W Hwf fu fu' feeval feeval_eqb fee_universal_set fee_null_set fee_union
               fee_intersection fee_P fee_rleq fee_wlaws
               (fun fam => fee_single (fn_intcs f) fam) (fun fam => fee_single_P (fn_intcs f) fam)
               (fun fam => iso_fee_single g (fn_intcs f) fam) indices indices' fees fees' Hi Rf Rf').
  Qed.

  (* the contexts of corresponding blocks are ctx_equiv (every block id, every key family) *)
  Theorem wiso_ctx_equiv res res' n fam :
    run_all f fu = Done res -> run_all f' fu' = Done res' ->
    ctx_equiv (ctx_of (ren_result r res) n fam) (ctx_of res' n fam).
  Proof. intros R1 R2. apply ctx_of_equiv. exact (wiso_run_all res res' R1 R2). Qed.

  (* validated_in_block agrees: the hypothesis of IsoWeak.wiso_run_detector, for every invariant predicate *)
  Theorem wiso_validated res res' checks ai n :
    run_all f fu = Done res -> run_all f' fu' = Done res' -> ctx_inv checks ->
    validated_in_block res' checks ai n = validated_in_block (ren_result r res) checks ai n.
  Proof.
    intros R1 R2 Hc. symmetry. apply validated_in_block_equiv; [exact (wiso_run_all res res' R1 R2)|exact Hc].
  Qed.

  (* detectors: exactly the renamed paths, same order, every search fuel, exceptions included *)
  Theorem wiso_detector_inv res res' fuel name checks :
    run_all f fu = Done res -> run_all f' fu' = Done res' -> ctx_inv checks ->
    run_detector f' res' fuel name checks = omap (ren_paths r) (run_detector f res fuel name checks).
  Proof.
    intros R1 R2 Hc. apply (wiso_run_detector r g f f' res res' fuel name checks W).
    intros n. exact (wiso_validated res res' checks None n R1 R2 Hc).
  Qed.

  Theorem wiso_detectors res res' fuel name checks :
    run_all f fu = Done res -> run_all f' fu' = Done res' -> In (name, checks) detectors ->
    run_detector f' res' fuel name checks = omap (ren_paths r) (run_detector f res fuel name checks).
  Proof.
    intros R1 R2 Hin. exact (wiso_detector_inv res res' fuel name checks R1 R2 (detectors_ctx_inv name checks Hin)).
  Qed.
End WRunAll2.

Print Assumptions wiso_detectors.

(* ====================================================================== non-vacuity *)
From Tealer Require Import MoveSubLemmas IsoEx MoveSubEx IsoWeakEx.

(* the domain equalities are strictly weaker than Leibniz equality, the orders are not trivial *)
Example wlaws_nonvacuous :
  zset_eqb (zunion [1%Z] [2%Z]) (zunion [2%Z] [1%Z]) = true /\ zunion [1%Z] [2%Z] <> zunion [2%Z] [1%Z] /\
  sset_seteqb ["b"; "a"] ["a"; "b"] = true /\
  fee_rleq fee_null_set (mkFee true MAX_UINT64z) /\ ~ fee_rleq (mkFee true MAX_UINT64z) fee_null_set /\
  addr_leq addr_null_set [] /\ ~ addr_leq [] addr_null_set /\
  addr_leq ["a"] addr_universal_set /\ ~ addr_leq addr_universal_set ["a"].
Proof.
  split; [vm_compute; reflexivity|]. split; [vm_compute; intros H; discriminate H|].
  split; [vm_compute; reflexivity|]. split; [vm_compute; intros H; discriminate H|].
  split; [vm_compute; intros H; apply H; reflexivity|].
  split; [apply (wl_null_least _ _ _ _ _ _ _ addr_wlaws); right; right; intros x []|].
  split; [intros [H _]; specialize (H eq_refl); discriminate H|].
  split.
  - split; [intros _; reflexivity|]. split; [intros _; reflexivity|]. intros x [Hm _]. split; [exact Hm|left; reflexivity].
  - intros [_ [H _]]. specialize (H eq_refl). discriminate H.
Qed.

(* two different contexts that are ctx_equiv; a predicate that reads the ORDER of the kinds is not invariant, so
   ctx_inv is a real hypothesis of wiso_detector_inv (the nine predicates of the tool satisfy it) *)
Definition ex_av : addrval := mkAddrVal false false ["a"; "b"].
Definition ex_av' : addrval := mkAddrVal false false ["b"; "a"].
Definition ex_ctx : bctx := mkBctx ex_av ex_av ex_av ex_av ["Pay"; "Axfer"] 5 false [1%Z; 2%Z] [0%Z] false.
Definition ex_ctx' : bctx := mkBctx ex_av' ex_av ex_av ex_av' ["Axfer"; "Pay"] 5 false [2%Z; 1%Z; 2%Z] [0%Z] false.

Example ctx_equiv_nonvacuous :
  ctx_equiv ex_ctx ex_ctx' /\ ex_ctx <> ex_ctx' /\
  map (fun nc => snd nc ex_ctx) detectors = map (fun nc => snd nc ex_ctx') detectors.
Proof.
  assert (Hav : av_equiv ex_av ex_av').
  { constructor; try reflexivity. intros x. cbn. tauto. }
  split; [|split; [intros H; discriminate H|vm_compute; reflexivity]].
  constructor; try reflexivity; try exact Hav; try (constructor; try reflexivity; apply seteq_refl);
    intros x; cbn; tauto.
Qed.

Example ctx_inv_refuted :
  ~ ctx_inv (fun c => match ctx_transaction_types c with "Pay" :: _ => true | _ => false end).
Proof.
  intros H. specialize (H ex_ctx ex_ctx' (proj1 ctx_equiv_nonvacuous)). vm_compute in H. discriminate H.
Qed.

(* the pair of IsoWeakEx (rejected by the in-order check): all hypotheses hold, so the results are res_equiv, and all
   nine detectors return the renamed paths at every search fuel -- now a consequence of the theorem, not computed *)
Example m3w_res_equiv : res_equiv (ren_result m3_r m3_res) m3_res'.
Proof.
  exact (wiso_run_all m3_r m3_g m3_f m3_f' m3w_fiso_w (proj2 (proj2 (proj2 (proj2 m3w_accepted)))) 200 200
           m3_res m3_res' (proj1 m3w_verdicts) (proj1 (proj2 m3w_verdicts))).
Qed.

Example m3w_detectors_all fuel name checks :
  In (name, checks) detectors ->
  run_detector m3_f' m3_res' fuel name checks = omap (ren_paths m3_r) (run_detector m3_f m3_res fuel name checks).
Proof.
  exact (wiso_detectors m3_r m3_g m3_f m3_f' m3w_fiso_w (proj2 (proj2 (proj2 (proj2 m3w_accepted)))) 200 200
           m3_res m3_res' fuel name checks (proj1 m3w_verdicts) (proj1 (proj2 m3w_verdicts))).
Qed.

Print Assumptions wlaws_nonvacuous.
Print Assumptions ctx_equiv_nonvacuous.
Print Assumptions m3w_detectors_all.
