(* Soundness, completeness, duplicate-freedom and fuel monotonicity of the path search (Model/Detect.v, search)
   with respect to the declarative specification Spec/Paths.v. *)
From Coq Require Import String List Bool Arith Lia.
From Tealer Require Import Syntax Cfg Analysis Detect Paths.
Import ListNotations.
Open Scope string_scope.
Open Scope list_scope.

(* ---------------------------------------------------------------- generic helpers *)
Lemma but_last_l_removelast {A} (l : list A) : but_last_l l = removelast l.
Proof.
  induction l as [|x t IH]; [reflexivity|].
  destruct t as [|y t]; [reflexivity|].
  change (x :: but_last_l (y :: t) = x :: removelast (y :: t)). now rewrite IH.
Qed.

Lemma nat_mem_true x l : nat_mem x l = true <-> In x l.
Proof.
  unfold nat_mem. rewrite existsb_exists. split.
  - intros [y [Hy He]]. apply Nat.eqb_eq in He. now subst.
  - intros H. exists x. split; [assumption | apply Nat.eqb_refl].
Qed.

Lemma nat_mem_false x l : nat_mem x l = false <-> ~ In x l.
Proof. rewrite <- nat_mem_true. destruct (nat_mem x l); split; congruence. Qed.

Lemma on_stack_true l (st : list frame) :
  existsb (fun '(_, s) => s =? l) st = true <-> In l (map snd st).
Proof.
  rewrite existsb_exists, in_map_iff. split.
  - intros [[o s] [Hin He]]. apply String.eqb_eq in He. exists (o, s). now split.
  - intros [[o s] [He Hin]]. simpl in He. subst. exists (o, l). split; [assumption | apply String.eqb_refl].
Qed.

Lemma on_stack_false l (st : list frame) :
  existsb (fun '(_, s) => s =? l) st = false <-> ~ In l (map snd st).
Proof.
  rewrite <- on_stack_true. destruct (existsb (fun '(_, s) => s =? l) st); split; congruence.
Qed.

(* the accumulation over the successors *)
Definition collect {A} (g : nat -> outcome (list A)) (acc : outcome (list A)) (nb : nat) : outcome (list A) :=
  match acc with
  | Done ps => match g nb with Done qs => Done (ps ++ qs) | Exn e => Exn e | OutOfFuel => OutOfFuel end
  | _ => acc
  end.

Lemma fold_collect_not_done {A} (g : nat -> outcome (list A)) nx acc :
  (forall ps, acc <> Done ps) -> fold_left (collect g) nx acc = acc.
Proof.
  induction nx as [|n nx IH]; intros H; [reflexivity|].
  simpl. destruct acc; [exfalso; eapply H; reflexivity | apply IH; discriminate | apply IH; discriminate].
Qed.

(* if the fold returns Done ps then each successor's search returned Done qs, and ps is their concatenation *)
Lemma fold_collect_done {A} (g : nat -> outcome (list A)) nx ps0 ps :
  fold_left (collect g) nx (Done ps0) = Done ps <->
  exists qss, Forall2 (fun nb qs => g nb = Done qs) nx qss /\ ps = ps0 ++ concat qss.
Proof.
  split.
  - revert ps0. induction nx as [|n nx IH]; intros ps0 H.
    + simpl in H. inversion H; subst. exists []. split; [constructor | now rewrite app_nil_r].
    + simpl in H. destruct (g n) as [qs| |] eqn:Hg.
      * apply IH in H. destruct H as [qss [HF ->]]. exists (qs :: qss). split.
        -- now constructor.
        -- simpl. now rewrite app_assoc.
      * rewrite fold_collect_not_done in H by discriminate. discriminate.
      * rewrite fold_collect_not_done in H by discriminate. discriminate.
  - intros [qss [HF ->]]. revert ps0. induction HF as [|n qs nx qss Hg HF IH]; intros ps0.
    + simpl. now rewrite app_nil_r.
    + simpl. rewrite Hg. rewrite IH. simpl. now rewrite app_assoc.
Qed.

Lemma Forall2_in_l {A B} (R : A -> B -> Prop) l l' x :
  Forall2 R l l' -> In x l -> exists y, In y l' /\ R x y.
Proof.
  induction 1 as [|a b l l' Hab HF IH]; intros Hin; [contradiction|].
  destruct Hin as [->|Hin].
  - exists b. split; [now left | assumption].
  - destruct (IH Hin) as [y [Hy HR]]. exists y. split; [now right | assumption].
Qed.

Lemma Forall2_in_r {A B} (R : A -> B -> Prop) l l' y :
  Forall2 R l l' -> In y l' -> exists x, In x l /\ R x y.
Proof.
  induction 1 as [|a b l l' Hab HF IH]; intros Hin; [contradiction|].
  destruct Hin as [->|Hin].
  - exists a. split; [now left | assumption].
  - destruct (IH Hin) as [x [Hx HR]]. exists x. split; [now right | assumption].
Qed.

Section SearchLemmas.
  Variable f : func.
  Variable validated : nat -> bool.
  Variable report : list nat -> bool.

  Notation search := (Detect.search f validated report).
  Notation GoodPathFrom := (Paths.GoodPathFrom f validated).
  Notation pstep := (Paths.pstep f validated).
  Notation enterable := (Paths.enterable validated).

  (* -------------------------------------------------------------- one unfolding of search, as a relation *)
  Lemma search_S0 fu bb path stack executed :
    search (S fu) bb path stack executed =
    if nat_mem bb (List.last executed []) then Done [] else
    if validated bb then Done [] else
    let path' := path ++ [bb] in
    match fblock f bb with
    | None => Exn "KeyError: block"
    | Some b =>
        if leaf_global f b then Done (if report path' then [path'] else []) else
        let executed1 := but_last_l executed ++ [List.last executed [] ++ [bb]] in
        match fexit_op f b with
        | Some (ICallsub l) =>
            if existsb (fun '(_, s) => s =? l) stack then Done [] else
            match f_find_sub f l with
            | None => Exn "called_subroutine"
            | Some s => search fu (s_entry s) path' (stack ++ [(Some bb, l)]) (executed1 ++ [[]])
            end
        | Some IRetsub =>
            match List.last stack (None, "") with
            | (None, _) => Exn "AssertionError: callsub_block is None"
            | (Some cs, _) =>
                match fblock f cs with
                | None => Exn "KeyError: block"
                | Some cb =>
                    match sub_return_point cb with
                    | Some rp => search fu rp path' (but_last_l stack) (but_last_l executed1)
                    | None => Done []
                    end
                end
            end
        | _ =>
            match next_global f b with
            | None => Exn "KeyError: next_blocks_global"
            | Some nx => fold_left (collect (fun nb => search fu nb path' stack executed1)) nx (Done [])
            end
        end
    end.
  Proof. reflexivity. Qed.

  Lemma exit_match_other b (T : Type) (X : string -> T) (Y Z : T) :
    f_is_callsub f b = false -> f_is_retsub f b = false ->
    match fexit_op f b with Some (ICallsub l) => X l | Some IRetsub => Y | _ => Z end = Z.
  Proof.
    unfold f_is_callsub, f_is_retsub. destruct (fexit_op f b) as [[]|]; try reflexivity; discriminate.
  Qed.

  Lemma next_global_plain b :
    f_is_callsub f b = false -> f_is_retsub f b = false -> next_global f b = Some (b_next b).
  Proof.
    intros Hc Hr. unfold next_global. rewrite Hr. revert Hc. unfold f_is_callsub.
    destruct (fexit_op f b) as [[]|]; try reflexivity; discriminate.
  Qed.

  Lemma leaf_false_callsub b l : fexit_op f b = Some (ICallsub l) -> leaf_global f b = false.
  Proof. intros H. unfold leaf_global, f_is_callsub. rewrite H. simpl. apply andb_false_r. Qed.

  Lemma leaf_false_retsub b : fexit_op f b = Some IRetsub -> leaf_global f b = false.
  Proof. intros H. unfold leaf_global, f_is_retsub. rewrite H. simpl. now rewrite andb_false_r. Qed.

  (* the premise "leaf_global f blk = false" of PS_edge follows from the existence of a successor *)
  Lemma leaf_false_edge b n : In n (b_next b) -> leaf_global f b = false.
  Proof. intros H. unfold leaf_global. destruct (b_next b); [contradiction | reflexivity]. Qed.

  Lemma enterable_iff st ex bb :
    enterable (st, ex) bb <-> nat_mem bb (last ex []) = false /\ validated bb = false.
  Proof. unfold Paths.enterable. simpl. rewrite nat_mem_false. tauto. Qed.

  (* search_step fu bb path st ex ps: one unfolding of the search at fuel (S fu) finishes with ps *)
  Inductive search_step (fu bb : nat) (path : list nat) (st : list frame) (ex : list (list nat))
    : list (list nat) -> Prop :=
  | SS_visited : In bb (last ex []) -> search_step fu bb path st ex []
  | SS_validated : validated bb = true -> search_step fu bb path st ex []
  | SS_leaf b :
      enterable (st, ex) bb -> fblock f bb = Some b -> leaf_global f b = true ->
      search_step fu bb path st ex (if report (path ++ [bb]) then [path ++ [bb]] else [])
  | SS_recursion b l :
      enterable (st, ex) bb -> fblock f bb = Some b -> leaf_global f b = false ->
      fexit_op f b = Some (ICallsub l) -> In l (map snd st) ->
      search_step fu bb path st ex []
  | SS_call b l s ps :
      enterable (st, ex) bb -> fblock f bb = Some b -> leaf_global f b = false ->
      fexit_op f b = Some (ICallsub l) -> ~ In l (map snd st) -> f_find_sub f l = Some s ->
      search fu (s_entry s) (path ++ [bb]) (st ++ [(Some bb, l)]) (visit ex bb ++ [[]]) = Done ps ->
      search_step fu bb path st ex ps
  | SS_ret b cs name cb rp ps :
      enterable (st, ex) bb -> fblock f bb = Some b -> leaf_global f b = false ->
      fexit_op f b = Some IRetsub -> last st (None, "") = (Some cs, name) ->
      fblock f cs = Some cb -> sub_return_point cb = Some rp ->
      search fu rp (path ++ [bb]) (removelast st) (removelast (visit ex bb)) = Done ps ->
      search_step fu bb path st ex ps
  | SS_ret_nowhere b cs name cb :
      enterable (st, ex) bb -> fblock f bb = Some b -> leaf_global f b = false ->
      fexit_op f b = Some IRetsub -> last st (None, "") = (Some cs, name) ->
      fblock f cs = Some cb -> sub_return_point cb = None ->
      search_step fu bb path st ex []
  | SS_edge b qss :
      enterable (st, ex) bb -> fblock f bb = Some b -> leaf_global f b = false ->
      f_is_callsub f b = false -> f_is_retsub f b = false ->
      Forall2 (fun nb qs => search fu nb (path ++ [bb]) st (visit ex bb) = Done qs) (b_next b) qss ->
      search_step fu bb path st ex (concat qss).

  Lemma search_step_iff fu bb path st ex ps :
    search (S fu) bb path st ex = Done ps <-> search_step fu bb path st ex ps.
  Proof.
    rewrite search_S0. cbv zeta. rewrite !but_last_l_removelast. fold (visit ex bb).
    split.
    - intros H.
      destruct (nat_mem bb (last ex [])) eqn:Hmem.
      { inversion H; subst. apply SS_visited. now apply nat_mem_true. }
      destruct (validated bb) eqn:Hval.
      { inversion H; subst. now apply SS_validated. }
      assert (Hent : enterable (st, ex) bb) by (apply enterable_iff; now split).
      destruct (fblock f bb) as [b|] eqn:Hb; [|discriminate].
      destruct (leaf_global f b) eqn:Hleaf.
      { inversion H; subst. eapply SS_leaf; eassumption. }
      destruct (f_is_callsub f b) eqn:Hc.
      { unfold f_is_callsub in Hc. destruct (fexit_op f b) as [[]|] eqn:Hop; try discriminate.
        destruct (existsb _ st) eqn:Hst.
        { inversion H; subst. eapply SS_recursion; try eassumption. now apply on_stack_true. }
        destruct (f_find_sub f l) as [s|] eqn:Hs; [|discriminate].
        eapply SS_call; try eassumption. now apply on_stack_false. }
      destruct (f_is_retsub f b) eqn:Hr.
      { unfold f_is_retsub in Hr. destruct (fexit_op f b) as [[]|] eqn:Hop; try discriminate.
        destruct (last st (None, "")) as [[cs|] name] eqn:Hlast; [|discriminate].
        destruct (fblock f cs) as [cb|] eqn:Hcb; [|discriminate].
        destruct (sub_return_point cb) as [rp|] eqn:Hrp.
        - eapply SS_ret; eassumption.
        - inversion H; subst. eapply SS_ret_nowhere; eassumption. }
      rewrite exit_match_other in H by assumption.
      rewrite next_global_plain in H by assumption.
      apply fold_collect_done in H. destruct H as [qss [HF ->]]. simpl.
      eapply SS_edge; eassumption.
    - intros H. destruct H as [Hin | Hval | b Hent Hb Hleaf | b l Hent Hb Hleaf Hop Hin
                               | b l s ps Hent Hb Hleaf Hop Hin Hs Hrec
                               | b cs name cb rp ps Hent Hb Hleaf Hop Hlast Hcb Hrp Hrec
                               | b cs name cb Hent Hb Hleaf Hop Hlast Hcb Hrp
                               | b qss Hent Hb Hleaf Hc Hr HF].
      + apply nat_mem_true in Hin. now rewrite Hin.
      + rewrite Hval. now destruct (nat_mem bb (last ex [])).
      + apply enterable_iff in Hent. destruct Hent as [-> ->]. now rewrite Hb, Hleaf.
      + apply enterable_iff in Hent. destruct Hent as [-> ->]. rewrite Hb, Hleaf, Hop.
        apply on_stack_true in Hin. now rewrite Hin.
      + apply enterable_iff in Hent. destruct Hent as [-> ->]. rewrite Hb, Hleaf, Hop.
        apply on_stack_false in Hin. now rewrite Hin, Hs.
      + apply enterable_iff in Hent. destruct Hent as [-> ->]. unfold frame in *. now rewrite Hb, Hleaf, Hop, Hlast, Hcb, Hrp.
      + apply enterable_iff in Hent. destruct Hent as [-> ->]. unfold frame in *. now rewrite Hb, Hleaf, Hop, Hlast, Hcb, Hrp.
      + apply enterable_iff in Hent. destruct Hent as [-> ->]. rewrite Hb, Hleaf.
        rewrite exit_match_other by assumption. rewrite next_global_plain by assumption.
        apply fold_collect_done. exists qss. now split.
  Qed.

  (* -------------------------------------------------------------- simple facts about good paths *)
  Lemma GoodPathFrom_head c b suffix : GoodPathFrom c b suffix -> exists rest, suffix = b :: rest.
  Proof. intros H. inversion H; subst; eexists; reflexivity. Qed.

  Lemma pstep_enterable c b c' b' : pstep c b c' b' -> enterable c b.
  Proof. intros H. inversion H; subst; assumption. Qed.

  Lemma GoodPathFrom_not_validated c b suffix :
    GoodPathFrom c b suffix -> Forall (fun n => validated n = false) suffix.
  Proof.
    induction 1 as [c b blk Hent Hb Hleaf | c b c' b' rest Hstep HG IH].
    - constructor; [apply Hent | constructor].
    - constructor; [apply (pstep_enterable _ _ _ _ Hstep) | assumption].
  Qed.

  Lemma GoodPathFrom_ends_in_leaf c b suffix :
    GoodPathFrom c b suffix -> exists blk, fblock f (last suffix 0) = Some blk /\ leaf_global f blk = true.
  Proof.
    induction 1 as [c b blk Hent Hb Hleaf | c b c' b' rest Hstep HG IH].
    - exists blk. now split.
    - destruct (GoodPathFrom_head _ _ _ HG) as [r ->]. exact IH.
  Qed.

  (* -------------------------------------------------------------- soundness *)
  Theorem search_sound : forall fuel bb path stack executed ps,
    search fuel bb path stack executed = Done ps ->
    forall p, In p ps ->
    exists suffix, p = path ++ suffix /\ GoodPathFrom (stack, executed) bb suffix /\ report p = true.
  Proof.
    induction fuel as [|fu IH]; intros bb path st ex ps H p Hin; [discriminate|].
    apply search_step_iff in H.
    destruct H as [Hvis | Hval | b Hent Hb Hleaf | b l Hent Hb Hleaf Hop Hst
                   | b l s ps Hent Hb Hleaf Hop Hst Hs Hrec
                   | b cs name cb rp ps Hent Hb Hleaf Hop Hlast Hcb Hrp Hrec
                   | b cs name cb Hent Hb Hleaf Hop Hlast Hcb Hrp
                   | b qss Hent Hb Hleaf Hc Hr HF]; try contradiction.
    - destruct (report (path ++ [bb])) eqn:Hrep; [|contradiction].
      destruct Hin as [<-|[]]. exists [bb]. split; [reflexivity|]. split; [|assumption].
      eapply GP_leaf; eassumption.
    - destruct (IH _ _ _ _ _ Hrec p Hin) as [suf [-> [HG Hrep]]].
      exists (bb :: suf). rewrite <- app_assoc in *. split; [reflexivity|]. split; [|assumption].
      eapply GP_step; [eapply PS_call; eassumption | exact HG].
    - destruct (IH _ _ _ _ _ Hrec p Hin) as [suf [-> [HG Hrep]]].
      exists (bb :: suf). rewrite <- app_assoc in *. split; [reflexivity|]. split; [|assumption].
      eapply GP_step; [eapply PS_ret; eassumption | exact HG].
    - apply in_concat in Hin. destruct Hin as [qs [Hqs Hp]].
      destruct (Forall2_in_r _ _ _ _ HF Hqs) as [nb [Hnb Hsearch]].
      destruct (IH _ _ _ _ _ Hsearch p Hp) as [suf [-> [HG Hrep]]].
      exists (bb :: suf). rewrite <- app_assoc in *. split; [reflexivity|]. split; [|assumption].
      eapply GP_step; [eapply PS_edge; eassumption | exact HG].
  Qed.

  Corollary detect_paths_sound : forall fuel ps,
    detect_paths f validated report fuel = Done ps ->
    forall p, In p ps -> GoodPath f validated p /\ report p = true.
  Proof.
    unfold detect_paths. intros fuel ps H p Hin.
    destruct (search_sound _ _ _ _ _ _ H p Hin) as [suf [-> [HG Hrep]]]. now split.
  Qed.

  (* every reported path extends path ++ [bb] *)
  Lemma search_prefix fuel bb path stack executed ps :
    search fuel bb path stack executed = Done ps ->
    forall p, In p ps -> exists rest, p = path ++ bb :: rest.
  Proof.
    intros H p Hin. destruct (search_sound _ _ _ _ _ _ H p Hin) as [suf [-> [HG _]]].
    destruct (GoodPathFrom_head _ _ _ HG) as [rest ->]. now exists rest.
  Qed.

  (* -------------------------------------------------------------- completeness *)
  Ltac same_block :=
    repeat match goal with
           | H1 : fblock f ?n = Some ?x, H2 : fblock f ?n = Some ?y |- _ =>
               assert (x = y) by congruence; subst y; clear H2
           end.

  Ltac clash :=
    same_block;
    try match goal with Hent : Paths.enterable _ _ _ |- _ => destruct Hent as [? ?]; simpl in * end;
    try contradiction; try congruence;
    try (unfold f_is_callsub, f_is_retsub in *;
         match goal with Hop : fexit_op f _ = Some _ |- _ => rewrite Hop in * end; discriminate).

  Lemma search_complete_aux : forall c b suffix,
    GoodPathFrom c b suffix ->
    forall fuel path ps, report (path ++ suffix) = true ->
    search fuel b path (fst c) (snd c) = Done ps -> In (path ++ suffix) ps.
  Proof.
    induction 1 as [c b blk Hent Hb Hleaf | c b c' b' rest Hstep HG IH]; intros fuel path ps Hrep H;
      (destruct fuel as [|fu]; [discriminate|]); apply search_step_iff in H.
    - destruct c as [st ex]. simpl in H.
      destruct H as [Hvis | Hval | b0 Hent0 Hb0 Hleaf0 | b0 l Hent0 Hb0 Hleaf0 Hop Hst
                   | b0 l s ps Hent0 Hb0 Hleaf0 Hop Hst Hs Hrec
                   | b0 cs name cb rp ps Hent0 Hb0 Hleaf0 Hop Hlast Hcb Hrp Hrec
                   | b0 cs name cb Hent0 Hb0 Hleaf0 Hop Hlast Hcb Hrp
                   | b0 qss Hent0 Hb0 Hleaf0 Hc Hr HF]; try solve [clash].
      rewrite Hrep. now left.
    - inversion Hstep as [st ex b1 blk l s Hent Hb Hleaf Hop Hst Hs
                         | st ex b1 blk cs name cb rp Hent Hb Hleaf Hop Hlast Hcb Hrp
                         | st ex b1 blk b1' Hent Hb Hleaf Hc Hr Hnext]; subst; simpl in H, IH;
      destruct H as [Hvis | Hval | b0 Hent0 Hb0 Hleaf0 | b0 l0 Hent0 Hb0 Hleaf0 Hop0 Hst0
                   | b0 l0 s0 ps Hent0 Hb0 Hleaf0 Hop0 Hst0 Hs0 Hrec
                   | b0 cs0 name0 cb0 rp0 ps Hent0 Hb0 Hleaf0 Hop0 Hlast0 Hcb0 Hrp0 Hrec
                   | b0 cs0 name0 cb0 Hent0 Hb0 Hleaf0 Hop0 Hlast0 Hcb0 Hrp0
                   | b0 qss Hent0 Hb0 Hleaf0 Hc0 Hr0 HF]; try solve [clash].
      + (* call / call *)
        same_block. assert (l0 = l) by congruence. subst l0. assert (s0 = s) by congruence. subst s0.
        replace (path ++ b :: rest) with ((path ++ [b]) ++ rest) in * by (now rewrite <- app_assoc).
        eapply IH; eassumption.
      + (* ret / ret *)
        same_block. assert (cs0 = cs) by congruence. subst cs0. same_block.
        assert (rp0 = b') by congruence. subst rp0.
        replace (path ++ b :: rest) with ((path ++ [b]) ++ rest) in * by (now rewrite <- app_assoc).
        eapply IH; eassumption.
      + (* edge / edge *)
        same_block. destruct (Forall2_in_l _ _ _ _ HF Hnext) as [qs [Hqs Hsearch]].
        apply in_concat. exists qs. split; [assumption|].
        replace (path ++ b :: rest) with ((path ++ [b]) ++ rest) in * by (now rewrite <- app_assoc).
        eapply IH; eassumption.
  Qed.

  Theorem search_complete : forall suffix fuel bb path stack executed ps,
    GoodPathFrom (stack, executed) bb suffix ->
    report (path ++ suffix) = true ->
    search fuel bb path stack executed = Done ps ->
    In (path ++ suffix) ps.
  Proof.
    intros suffix fuel bb path st ex ps HG Hrep H.
    exact (search_complete_aux _ _ _ HG fuel path ps Hrep H).
  Qed.

  Corollary detect_paths_complete : forall fuel ps p,
    GoodPath f validated p -> report p = true ->
    detect_paths f validated report fuel = Done ps -> In p ps.
  Proof.
    unfold detect_paths, GoodPath, init_config. intros fuel ps p HG Hrep H.
    exact (search_complete p fuel _ [] _ _ ps HG Hrep H).
  Qed.

  (* -------------------------------------------------------------- fuel monotonicity *)
  Theorem search_fuel_mono : forall fuel bb path stack executed ps,
    search fuel bb path stack executed = Done ps ->
    forall fuel', fuel <= fuel' -> search fuel' bb path stack executed = Done ps.
  Proof.
    induction fuel as [|fu IH]; intros bb path st ex ps H fuel' Hle; [discriminate|].
    destruct fuel' as [|fu']; [lia|]. assert (Hle' : fu <= fu') by lia.
    apply search_step_iff in H. apply search_step_iff.
    destruct H as [Hvis | Hval | b Hent Hb Hleaf | b l Hent Hb Hleaf Hop Hst
                   | b l s ps Hent Hb Hleaf Hop Hst Hs Hrec
                   | b cs name cb rp ps Hent Hb Hleaf Hop Hlast Hcb Hrp Hrec
                   | b cs name cb Hent Hb Hleaf Hop Hlast Hcb Hrp
                   | b qss Hent Hb Hleaf Hc Hr HF].
    - now apply SS_visited.
    - now apply SS_validated.
    - eapply SS_leaf; eassumption.
    - eapply SS_recursion; eassumption.
    - eapply SS_call; try eassumption. eapply IH; eassumption.
    - eapply SS_ret; try eassumption. eapply IH; eassumption.
    - eapply SS_ret_nowhere; eassumption.
    - eapply SS_edge; try eassumption.
      induction HF as [|nb qs nx qss Hs HF IHF]; constructor; [eapply IH; eassumption | assumption].
  Qed.

  (* the result does not depend on the fuel, as soon as the search finishes *)
  Corollary search_fuel_indep : forall fuel1 fuel2 bb path stack executed ps1 ps2,
    search fuel1 bb path stack executed = Done ps1 ->
    search fuel2 bb path stack executed = Done ps2 -> ps1 = ps2.
  Proof.
    intros fuel1 fuel2 bb path st ex ps1 ps2 H1 H2.
    apply search_fuel_mono with (fuel' := Nat.max fuel1 fuel2) in H1; [|lia].
    apply search_fuel_mono with (fuel' := Nat.max fuel1 fuel2) in H2; [|lia].
    congruence.
  Qed.

  (* -------------------------------------------------------------- no duplicates *)
  Lemma NoDup_app_disjoint {A} (l l' : list A) :
    NoDup l -> NoDup l' -> (forall x, In x l -> ~ In x l') -> NoDup (l ++ l').
  Proof.
    induction 1 as [|a l Ha Hl IH]; intros Hl' Hdis; [assumption|].
    simpl. constructor.
    - rewrite in_app_iff. intros [H|H]; [contradiction | apply (Hdis a); [now left | assumption]].
    - apply IH; [assumption|]. intros x Hx. apply Hdis. now right.
  Qed.

  Lemma NoDup_concat_tagged {A B} (R : A -> list B -> Prop) nx qss :
    Forall2 R nx qss -> NoDup nx ->
    (forall a qs, R a qs -> NoDup qs) ->
    (forall a a' qs qs' p, R a qs -> R a' qs' -> In p qs -> In p qs' -> a = a') ->
    NoDup (concat qss).
  Proof.
    intros HF Hnd Hqs Htag. induction HF as [|a qs nx qss HR HF IH]; [constructor|].
    inversion Hnd as [|? ? Hnotin Hnd']; subst. simpl. apply NoDup_app_disjoint.
    - eapply Hqs; eassumption.
    - apply IH; assumption.
    - intros p Hp Hp'. apply in_concat in Hp'. destruct Hp' as [qs' [Hqs' Hp']].
      destruct (Forall2_in_r _ _ _ _ HF Hqs') as [a' [Ha' HR']].
      assert (a = a') by (eapply Htag; eassumption). subst a'. contradiction.
  Qed.

  Section NoDup.
    Hypothesis next_nodup : forall n b, fblock f n = Some b -> NoDup (b_next b).

    Theorem search_nodup : forall fuel bb path stack executed ps,
      search fuel bb path stack executed = Done ps -> NoDup ps.
    Proof.
      induction fuel as [|fu IH]; intros bb path st ex ps H; [discriminate|].
      apply search_step_iff in H.
      destruct H as [Hvis | Hval | b Hent Hb Hleaf | b l Hent Hb Hleaf Hop Hst
                     | b l s ps Hent Hb Hleaf Hop Hst Hs Hrec
                     | b cs name cb rp ps Hent Hb Hleaf Hop Hlast Hcb Hrp Hrec
                     | b cs name cb Hent Hb Hleaf Hop Hlast Hcb Hrp
                     | b qss Hent Hb Hleaf Hc Hr HF]; try (now constructor).
      - destruct (report (path ++ [bb])); repeat constructor. intros [].
      - eapply IH; eassumption.
      - eapply IH; eassumption.
      - eapply NoDup_concat_tagged; [exact HF | eapply next_nodup; eassumption | |].
        + intros nb qs Hs. eapply IH; exact Hs.
        + intros nb nb' qs qs' p Hs Hs' Hp Hp'.
          destruct (search_prefix _ _ _ _ _ _ Hs p Hp) as [r ->].
          destruct (search_prefix _ _ _ _ _ _ Hs' _ Hp') as [r' He].
          apply app_inv_head in He. congruence.
    Qed.

    Corollary detect_paths_nodup : forall fuel ps,
      detect_paths f validated report fuel = Done ps -> NoDup ps.
    Proof. unfold detect_paths. intros fuel ps H. eapply search_nodup; exact H. Qed.
  End NoDup.

  Corollary detect_paths_fuel_mono : forall fuel ps,
    detect_paths f validated report fuel = Done ps ->
    forall fuel', fuel <= fuel' -> detect_paths f validated report fuel' = Done ps.
  Proof. unfold detect_paths. intros fuel ps H fuel' Hle. eapply search_fuel_mono; eassumption. Qed.

End SearchLemmas.

Print Assumptions search_sound.
Print Assumptions detect_paths_sound.
Print Assumptions search_complete.
Print Assumptions detect_paths_complete.
Print Assumptions search_nodup.
Print Assumptions search_fuel_mono.
Print Assumptions search_fuel_indep.
