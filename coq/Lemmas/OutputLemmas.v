(* C18 / C05: what the exporters draw (Model/Output.v) is exactly the internal graph.
   1. shape of the successor list of bz / bnz blocks (the coloured drawing shows every successor)
   2. full_cfg_to_dot: nodes = retained blocks; edges = the relation cfg_edge (the one-step relation of
      Spec/Runs.v on blocks, return steps restricted to call sites of the returning routine)
   3. relation to Runs.rstep of the whole-contract function
   4. subroutine_to_dot: local edges and call boxes
   5. call graph
   6. reported paths: marks, short notation (injective), filter, count
   7. examples *)
From Coq Require Import String List NArith ZArith Bool Ascii Arith Lia.
From Tealer Require Import Tables Syntax Parse Cfg Analysis Detect Output.
From Tealer Require Import CfgLemmas SolverLemmas SubLemmas GraphWf ParseLemmas Runs RunLemmas GraphOk.
Import ListNotations.
Close Scope string_scope.
Open Scope nat_scope.
Open Scope list_scope.

(* ================================================================== 0. helpers *)
Lemma in_uncolor (l : list (nat * nat * ecolor)) a b :
  In (a, b) (uncolor l) <-> exists c, In (a, b, c) l.
Proof.
  unfold uncolor. rewrite in_map_iff. split.
  - intros ([[a' b'] c] & E & Hin). simpl in E. inversion E; subst. eauto.
  - intros (c & Hin). exists (a, b, c). auto.
Qed.

Lemma tblock_b_idx t n b : tblock t n = Some b -> b_idx b = n.
Proof. unfold tblock. intros H. apply find_some in H. apply Nat.eqb_eq. tauto. Qed.

Lemma tblock_in_blocks t n b : tblock t n = Some b -> In b (t_blocks t).
Proof. unfold tblock. intros H. apply find_some in H. tauto. Qed.

Lemma exit_op_pos t b i : exit_op t b = Some i -> b_ins b <> [] /\ op_at (t_prog t) (last (b_ins b) 0) = Some i.
Proof. unfold exit_op. destruct (b_ins b); [discriminate|]. intros H. split; [discriminate | exact H]. Qed.

(* ================================================================== 1. bz / bnz blocks have one or two successors *)
Theorem cond_branch_next_shape p t n b :
  parse_teal p = Ok t -> tblock t n = Some b -> is_cond_branch_block t b = true ->
  (exists j, b_next b = [j]) \/ (exists d j, b_next b = [d; j]).
Proof.
  intros H Hb Hc. destruct (parse_teal_blocks p t H) as (bs & Hbs).
  destruct (retained_char p t bs H Hbs) as (_ & _ & _ & Htb & _).
  destruct (Htb n b Hb) as (b0 & Hn0 & _ & Hins & Hnx & _).
  destruct (parse_teal_inv p t H) as (_ & _ & Hne & _ & _ & Hprog & _).
  assert (Hop : exists l, op_at p (last (b_ins b0) 0) = Some (IBZ l) \/ op_at p (last (b_ins b0) 0) = Some (IBNZ l)).
  { unfold is_cond_branch_block in Hc. destruct (exit_op t b) as [i|] eqn:Ee; [|discriminate].
    apply exit_op_pos in Ee. destruct Ee as [_ Ee]. rewrite Hprog, Hins in Ee.
    destruct i; try discriminate; eauto. }
  destruct Hop as (l & Hop).
  destruct (build_blocks_spec p bs Hbs) as (rbs & nexts & Hcr & _ & _ & Hl & Hn).
  destruct (Hn n b0 Hn0) as (rb & nx & Hrb & _ & Hr & Eb).
  assert (Hins0 : b_ins b0 = rb_ins rb) by (subst b0; reflexivity).
  assert (Hnx0 : b_next b0 = nx) by (subst b0; reflexivity).
  assert (Hidx0 : b_idx b0 = n) by (subst b0; reflexivity).
  destruct (raw_next_spec _ _ _ _ _ Hr) as (_ & inx & tb & Hinx & Hmap & Enx).
  rewrite <- Hins0 in Hinx.
  assert (Hfl : exists tl, find_label p l = Some tl /\
                          inx = (if (negb false && Nat.ltb (S (last (b_ins b0) 0)) (length p))%bool
                                 then [S (last (b_ins b0) 0)] else []) ++ [tl]).
  { unfold ins_next in Hinx.
    destruct Hop as [Hop|Hop]; rewrite Hop in Hinx; cbn [no_fallthrough jump_labels map_opt] in Hinx;
      destruct (find_label p l) as [tl|]; try discriminate; exists tl; (split; [reflexivity|]);
      inversion Hinx; reflexivity. }
  destruct Hfl as (tl & Hfl & Einx). rewrite Hnx.
  destruct (Nat.ltb (S (last (b_ins b0) 0)) (length p)) eqn:Elt.
  - apply Nat.ltb_lt in Elt.
    destruct (cond_branch_order p bs rbs b0 l tl Hbs Hcr (nth_error_In _ _ Hn0) Hop Elt Hfl) as (tbk & _ & E).
    rewrite E. destruct (tbk =? S (b_idx b0)); [left | right]; eauto.
  - left. simpl in Einx. subst inx. simpl in Hmap.
    destruct (block_of_pos rbs tl 0) as [x|]; [|discriminate]. inversion Hmap; subst tb.
    assert (Hd : rb_dflt rb = false).
    { apply Nat.ltb_ge in Elt. destruct (nth_error rbs (S n)) as [rb'|] eqn:Erb'.
      - destruct (consecutive_spec p rbs n rb rb' Hcr Hrb Erb') as (_ & Hlt & _). rewrite <- Hins0 in Hlt. lia.
      - apply nth_error_None in Erb'.
        assert (n < length rbs) by (apply nth_error_Some; congruence).
        apply (last_block_no_dflt p rbs n rb Hcr Hrb). lia. }
    rewrite Hd in Enx. simpl in Enx. rewrite Hnx0, Enx. eauto.
Qed.

(* the targets _bb_to_dot draws for a block, with or without colours, are its successors (none for a callsub block) *)
Lemma local_out_In color t b m :
  (is_cond_branch_block t b = true -> (exists j, b_next b = [j]) \/ (exists d j, b_next b = [d; j])) ->
  ((exists c, In (m, c) (local_out color t b)) <-> is_callsub_block t b = false /\ In m (b_next b)).
Proof.
  intros Hshape. unfold local_out. destruct (is_callsub_block t b) eqn:Ecs.
  { split; [intros (c & []) | intros [Hd _]; discriminate]. }
  assert (Hplain : (exists c, In (m, c) (map (fun n => (n, EPlain)) (b_next b))) <-> false = false /\ In m (b_next b)).
  { split.
    - intros (c & Hin). apply in_map_iff in Hin. destruct Hin as (x & E & Hx). inversion E; subst. auto.
    - intros [_ Hin]. exists EPlain. apply in_map_iff. eauto. }
  destruct color; simpl; [|exact Hplain].
  destruct (is_cond_branch_block t b) eqn:Ecb; [|exact Hplain].
  destruct (Hshape eq_refl) as [(j & E)|(d & j & E)]; rewrite E; simpl.
  - split.
    + intros (c & [Hc|[]]). inversion Hc; subst. auto.
    + intros [_ [<-|[]]]. eauto.
  - split.
    + intros (c & [Hc|[Hc|[]]]); inversion Hc; subst; auto.
    + intros [_ [<-|[<-|[]]]]; eauto.
Qed.

(* ================================================================== 2. full_cfg_to_dot *)
(* ---------------------------------------------------------------- nodes *)
Theorem full_cfg_nodes_retained t : full_cfg_nodes t = retained_ids t.
Proof. reflexivity. Qed.

Theorem full_cfg_nodes_spec p t :
  parse_teal p = Ok t ->
  NoDup (full_cfg_nodes t) /\ (forall n, In n (full_cfg_nodes t) <-> exists b, tblock t n = Some b).
Proof.
  intros H. destruct (parse_teal_blocks p t H) as (bs & Hbs). split.
  - destruct (retained_char p t bs H Hbs) as (_ & _ & Hnd & _). exact Hnd.
  - intros n. apply (tblock_retained_ids p t n H).
Qed.

(* the node of block n shows the line numbers of exactly the instructions of the block, in order *)
Theorem full_cfg_node_lines_spec t n b :
  tblock t n = Some b ->
  full_cfg_node_lines t n =
  flat_map (fun k => match nth_error (t_prog t) k with Some i => [i_line i] | None => [] end) (b_ins b).
Proof. intros H. unfold full_cfg_node_lines. rewrite H. reflexivity. Qed.

(* ---------------------------------------------------------------- the drawn relation *)
(* Spec/Runs.rstep on blocks, stacks forgotten; a retsub block goes to the return points of the (retained)
   call sites of a subroutine it belongs to *)
Inductive cfg_edge (t : teal) : nat -> nat -> Prop :=
| CE_call b blk l s :
    tblock t b = Some blk -> exit_op t blk = Some (ICallsub l) -> find_sub t l = Some s ->
    cfg_edge t b (s_entry s)
| CE_ret b blk cs cb l s rp :
    tblock t b = Some blk -> exit_op t blk = Some IRetsub ->
    tblock t cs = Some cb -> exit_op t cb = Some (ICallsub l) -> find_sub t l = Some s -> In b (s_blocks s) ->
    sub_return_point cb = Some rp ->
    cfg_edge t b rp
| CE_edge b blk b' :
    tblock t b = Some blk -> is_callsub_block t blk = false -> is_retsub_block t blk = false ->
    In b' (b_next blk) ->
    cfg_edge t b b'.

Lemma called_subroutine_inv t b s :
  called_subroutine t b = Some s -> exists l, exit_op t b = Some (ICallsub l) /\ find_sub t l = Some s.
Proof.
  unfold called_subroutine. destruct (exit_op t b) as [i|]; [|discriminate].
  destruct i; try discriminate. eauto.
Qed.

Lemma retsub_blocks_In t s r :
  In r (retsub_blocks t s) <-> In r (s_blocks s) /\ exists blk, tblock t r = Some blk /\ exit_op t blk = Some IRetsub.
Proof.
  unfold retsub_blocks. rewrite filter_In. split.
  - intros [Hin Hf]. split; [assumption|]. destruct (tblock t r) as [blk|]; [|discriminate].
    exists blk. split; [reflexivity|]. unfold is_retsub_block in Hf.
    destruct (exit_op t blk) as [i|]; [|discriminate]. destruct i; try discriminate. reflexivity.
  - intros [Hin (blk & Hb & He)]. split; [assumption|]. rewrite Hb. unfold is_retsub_block. rewrite He. reflexivity.
Qed.

Lemma call_out_In t b x y :
  (exists c, In (x, y, c) (call_out t b)) <->
  exists l s, exit_op t b = Some (ICallsub l) /\ find_sub t l = Some s /\
              ((x = b_idx b /\ y = s_entry s) \/
               (sub_return_point b = Some y /\ In x (retsub_blocks t s))).
Proof.
  unfold call_out. split.
  - intros (c & Hin). destruct (called_subroutine t b) as [s|] eqn:Ecs; [|destruct Hin].
    destruct (called_subroutine_inv t b s Ecs) as (l & He & Hf). exists l, s. split; [assumption|]. split; [assumption|].
    destruct Hin as [E|Hin].
    + inversion E; subst. left; auto.
    + right. destruct (sub_return_point b) as [rp|]; [|destruct Hin].
      apply in_map_iff in Hin. destruct Hin as (r & E & Hr). inversion E; subst. auto.
  - intros (l & s & He & Hf & Hcase). unfold called_subroutine. rewrite He, Hf.
    destruct Hcase as [[-> ->]|[Hrp Hr]].
    + exists ECall. left. reflexivity.
    + exists EPlain. right. rewrite Hrp. apply in_map_iff. eauto.
Qed.

Section FullCfg.
  Variables (p : prog) (t : teal).
  Hypothesis Hparse : parse_teal p = Ok t.

  Lemma in_blocks_tblock b : In b (t_blocks t) <-> tblock t (b_idx b) = Some b.
  Proof. apply (in_t_blocks p t b Hparse). Qed.

  Lemma shape_of b : In b (t_blocks t) ->
    is_cond_branch_block t b = true -> (exists j, b_next b = [j]) \/ (exists d j, b_next b = [d; j]).
  Proof. intros Hin. apply in_blocks_tblock in Hin. exact (cond_branch_next_shape p t _ b Hparse Hin). Qed.

  Lemma edges_gen_In color x y :
    (exists c, In (x, y, c) (full_cfg_colored_edges_gen color t)) <->
    exists b, In b (t_blocks t) /\
              ((x = b_idx b /\ is_callsub_block t b = false /\ In y (b_next b)) \/
               (exists c, In (x, y, c) (call_out t b))).
  Proof.
    unfold full_cfg_colored_edges_gen. split.
    - intros (c & Hin). apply in_flat_map in Hin. destruct Hin as (b & Hb & Hin). exists b. split; [assumption|].
      apply in_app_iff in Hin. destruct Hin as [Hin|Hin]; [left | right; eauto].
      apply in_map_iff in Hin. destruct Hin as ([m c'] & E & Hm). inversion E; subst.
      split; [reflexivity|]. apply (local_out_In color t b y (shape_of b Hb)). eauto.
    - intros (b & Hb & [(-> & Hnc & Hy)|(c & Hin)]).
      + destruct (proj2 (local_out_In color t b y (shape_of b Hb)) (conj Hnc Hy)) as (c & Hc).
        exists c. apply in_flat_map. exists b. split; [assumption|]. apply in_or_app. left.
        apply in_map_iff. exists (y, c). auto.
      + exists c. apply in_flat_map. exists b. split; [assumption|]. apply in_or_app. right. assumption.
  Qed.

  Lemma edges_gen_exact color x y :
    In (x, y) (uncolor (full_cfg_colored_edges_gen color t)) <-> cfg_edge t x y.
  Proof.
    rewrite in_uncolor, edges_gen_In. split.
    - intros (b & Hb & [(-> & Hnc & Hy)|Hc]).
      + apply in_blocks_tblock in Hb. destruct (is_retsub_block t b) eqn:Er.
        * rewrite (retsub_no_next p t _ b Hparse Hb Er) in Hy. destruct Hy.
        * eapply CE_edge; eauto.
      + apply call_out_In in Hc. destruct Hc as (l & s & He & Hf & [[-> ->]|[Hrp Hr]]).
        * apply in_blocks_tblock in Hb. eapply CE_call; eauto.
        * apply retsub_blocks_In in Hr. destruct Hr as (Hin & blk & Hx & Hex).
          apply in_blocks_tblock in Hb. exact (CE_ret t x blk (b_idx b) b l s y Hx Hex Hb He Hf Hin Hrp).
    - intros Hedge. destruct Hedge as [b blk l s Hb He Hf|b blk cs cb l s rp Hb He Hcs Hce Hf Hin Hrp|b blk b' Hb Hnc Hnr Hn].
      + exists blk. split; [eapply tblock_in_blocks; eauto|]. right. apply call_out_In.
        exists l, s. split; [assumption|]. split; [assumption|]. left. split; [symmetry; eapply tblock_b_idx; eauto | reflexivity].
      + exists cb. split; [eapply tblock_in_blocks; eauto|]. right. apply call_out_In.
        exists l, s. split; [assumption|]. split; [assumption|]. right. split; [assumption|].
        apply retsub_blocks_In. eauto.
      + exists blk. split; [eapply tblock_in_blocks; eauto|]. left.
        split; [symmetry; eapply tblock_b_idx; eauto|]. auto.
  Qed.

  (* printer "cfg": the edge set of full_cfg.dot *)
  Theorem full_cfg_edges_exact b b' : In (b, b') (full_cfg_edges t) <-> cfg_edge t b b'.
  Proof. apply edges_gen_exact. Qed.

  (* detector path files: same edge set (drawn without the bz / bnz colouring) *)
  Theorem path_cfg_edges_exact b b' : In (b, b') (path_cfg_edges t) <-> cfg_edge t b b'.
  Proof. apply edges_gen_exact. Qed.

  Corollary path_cfg_edges_same b b' : In (b, b') (path_cfg_edges t) <-> In (b, b') (full_cfg_edges t).
  Proof. rewrite full_cfg_edges_exact, path_cfg_edges_exact. tauto. Qed.

  (* both ends of a drawn edge are drawn nodes *)
  Theorem cfg_edge_nodes b b' : cfg_edge t b b' -> In b (full_cfg_nodes t) /\ In b' (full_cfg_nodes t).
  Proof.
    destruct (parse_teal_blocks p t Hparse) as (bs & Hbs).
    destruct (retained_char p t bs Hparse Hbs) as (Hret & _ & _ & _ & _ & Hnext).
    pose proof (tblock_retained_ids p t) as Hids. unfold full_cfg_nodes. fold (retained_ids t).
    intros Hedge. destruct Hedge as [b blk l s Hb He Hf|b blk cs cb l s rp Hb He Hcs Hce Hf Hin Hrp|b blk b' Hb Hnc Hnr Hn].
    - split; [apply (Hids b Hparse); eauto|]. apply Hret. right. apply find_sub_some in Hf.
      exists s. split; [tauto | constructor].
    - split; [apply (Hids b Hparse); eauto|]. apply (Hnext cb rp); [eapply tblock_in_blocks; eauto|].
      unfold sub_return_point in Hrp. destruct (b_next cb); [discriminate|]. inversion Hrp. left; reflexivity.
    - split; [apply (Hids b Hparse); eauto|]. apply (Hnext blk b'); [eapply tblock_in_blocks; eauto | assumption].
  Qed.
End FullCfg.

(* ================================================================== 3. the drawn edges and Runs.rstep *)
(* every retained block belongs to the whole-contract function (no subroutine is called from dead code only) *)
Definition all_routines_used (t : teal) : Prop := forall n, In n (retained_ids t) -> In n (wf_ids t).

Section RunsView.
  Variables (p : prog) (t : teal).
  Hypothesis Hparse : parse_teal p = Ok t.
  Notation f := (whole_function t).

  (* a step of the function is a drawn edge, provided the frame popped by a return step is a call of a routine
     the returning block belongs to (RunLemmas.in_act: true of every configuration of a run) *)
  Theorem rstep_is_cfg_edge b st b' st' :
    rstep f (b, st) (b', st') -> in_act f st b -> cfg_edge t b b'.
  Proof.
    intros Hstep Hact.
    inversion Hstep as [b0 st0 blk l s Hb Hop Hs|b0 st0 cs blk cb rp Hb Hop Hcs Hrp|b0 st0 blk b'' Hb Hnc Hnr Hn]; subst.
    - apply fblock_whole in Hb. destruct Hb as [_ Hb]. exact (CE_call t b blk l s Hb Hop Hs).
    - destruct (Hact st' cs eq_refl) as (cb' & l & s & Hcs' & Hcop & Hfs & Hin).
      rewrite Hcs in Hcs'. inversion Hcs'; subst cb'.
      apply fblock_whole in Hb. apply fblock_whole in Hcs.
      exact (CE_ret t b blk cs cb l s b' (proj2 Hb) Hop (proj2 Hcs) Hcop Hfs Hin Hrp).
    - apply fblock_whole in Hb. exact (CE_edge t b blk b' (proj2 Hb) Hnc Hnr Hn).
  Qed.

  (* consecutive configurations of a run are joined by an edge of full_cfg.dot: every run is a walk in the drawing *)
  Theorem run_steps_drawn cfgs :
    Run f cfgs -> forall pre c c' post, cfgs = pre ++ c :: c' :: post -> In (fst c, fst c') (full_cfg_edges t).
  Proof.
    intros Hrun pre c c' post E.
    assert (Hinv : act_inv f c).
    { apply (act_inv_run f (whole_sub_entry_in p t Hparse) (whole_sub_closed p t Hparse) _ _ Hrun (act_inv_init f _)).
      rewrite E. apply in_or_app. right. left. reflexivity. }
    pose proof (RunFrom_suffix f _ _ Hrun pre c (c' :: post) E) as Hsuf.
    inversion Hsuf as [|c0 c1 rest Hstep Hrest]; subst.
    destruct (RunFrom_head f _ _ Hrest) as (rest' & Erest). inversion Erest; subst c1 rest'.
    destruct c as [b st]. destruct c' as [b' st']. simpl.
    apply (full_cfg_edges_exact p t Hparse). exact (rstep_is_cfg_edge b st b' st' Hstep (proj2 Hinv)).
  Qed.

  Lemma in_act_nil b : in_act f [] b.
  Proof. intros st' cs E. destruct st'; discriminate. Qed.

  Lemma fblock_of_tblock n b : In n (wf_ids t) -> tblock t n = Some b -> fblock f n = Some b.
  Proof. intros Hn Hb. apply fblock_whole. auto. Qed.

  (* conversely a drawn edge is a step, when the blocks it mentions are blocks of the function *)
  Lemma cfg_edge_is_rstep_gen b b' :
    cfg_edge t b b' -> In b (wf_ids t) ->
    (forall cs cb, tblock t cs = Some cb -> sub_return_point cb = Some b' -> is_callsub_block t cb = true -> In cs (wf_ids t)) ->
    exists st st', in_act f st b /\ rstep f (b, st) (b', st').
  Proof.
    intros Hedge Hb0 Hcs0.
    destruct Hedge as [b blk l s Hb He Hf|b blk cs cb l s rp Hb He Hcs Hce Hf Hin Hrp|b blk b' Hb Hnc Hnr Hn].
    - exists [], ([] ++ [b]). split; [apply in_act_nil|].
      exact (RS_call f b [] blk l s (fblock_of_tblock b blk Hb0 Hb) He Hf).
    - assert (Hcsin : In cs (wf_ids t)).
      { apply (Hcs0 cs cb Hcs Hrp). unfold is_callsub_block. rewrite Hce. reflexivity. }
      exists ([] ++ [cs]), []. split.
      + intros st' cs' E. apply app_inj_tail in E. destruct E as [_ <-].
        exists cb, l, s. split; [exact (fblock_of_tblock cs cb Hcsin Hcs)|]. auto.
      + exact (RS_ret f b [] cs blk cb rp (fblock_of_tblock b blk Hb0 Hb) He (fblock_of_tblock cs cb Hcsin Hcs) Hrp).
    - exists [], []. split; [apply in_act_nil|].
      exact (RS_edge f b [] blk b' (fblock_of_tblock b blk Hb0 Hb) Hnc Hnr Hn).
  Qed.

  Theorem cfg_edge_is_rstep b b' :
    all_routines_used t -> cfg_edge t b b' -> exists st st', in_act f st b /\ rstep f (b, st) (b', st').
  Proof.
    intros Hall Hedge. apply cfg_edge_is_rstep_gen; [exact Hedge | |].
    - apply Hall. apply (cfg_edge_nodes p t Hparse b b' Hedge).
    - intros cs cb Hcs _ _. apply Hall. apply (tblock_retained_ids p t cs Hparse). eauto.
  Qed.

  (* full_cfg.dot = the step relation of Spec/Runs.v with the stacks forgotten *)
  Theorem full_cfg_edges_rstep b b' :
    all_routines_used t ->
    (In (b, b') (full_cfg_edges t) <-> exists st st', in_act f st b /\ rstep f (b, st) (b', st')).
  Proof.
    intros Hall. rewrite (full_cfg_edges_exact p t Hparse). split.
    - apply cfg_edge_is_rstep. exact Hall.
    - intros (st & st' & Hact & Hstep). eapply rstep_is_cfg_edge; eauto.
  Qed.

  (* a step stays inside the function *)
  Lemma rstep_in_ids b st b' st' : rstep f (b, st) (b', st') -> In b (wf_ids t) /\ In b' (wf_ids t).
  Proof.
    destruct (parse_teal_blocks p t Hparse) as (bs & Hbs).
    assert (Hcl : forall n blk m, fblock f n = Some blk -> In m (b_next blk) -> In m (wf_ids t)).
    { intros n blk m Hn Hm. apply fblock_whole in Hn. destruct Hn as [Hn Hblk].
      apply (wf_ids_closed p t bs Hparse Hbs n m Hn). rewrite <- (tblock_next p t bs n blk Hparse Hbs Hblk). exact Hm. }
    intros Hstep.
    inversion Hstep as [b0 st0 blk l s Hb Hop Hs|b0 st0 cs blk cb rp Hb Hop Hcs Hrp|b0 st0 blk b'' Hb Hnc Hnr Hn]; subst.
    - split; [apply fblock_whole in Hb; tauto|].
      destruct (callsub_closure p t Hparse b blk l Hb Hop) as (s' & Hf' & Hs' & _).
      rewrite f_find_sub_whole, Hf' in Hs. inversion Hs; subst s'.
      apply (sub_blocks_in_ids t s _ Hs'). apply (sub_entry_in_blocks p t bs Hparse Hbs). apply wf_subs_sub. exact Hs'.
    - split; [apply fblock_whole in Hb; tauto|]. apply (Hcl cs cb b' Hcs).
      unfold sub_return_point in Hrp. destruct (b_next cb); [discriminate|]. inversion Hrp. left; reflexivity.
    - split; [apply fblock_whole in Hb; tauto|]. exact (Hcl b blk b' Hb Hn).
  Qed.

  (* for structured programs, without assuming that every routine is used: the drawing restricted to the
     function's blocks is the step relation *)
  Theorem full_cfg_edges_rstep_struct b b' :
    struct_ok t ->
    (In (b, b') (full_cfg_edges t) /\ In b (wf_ids t) /\ In b' (wf_ids t) <->
     exists st st', in_act f st b /\ rstep f (b, st) (b', st')).
  Proof.
    intros Hok. destruct (parse_teal_blocks p t Hparse) as (bs & Hbs).
    rewrite (full_cfg_edges_exact p t Hparse). split.
    - intros (Hedge & Hb & Hb'). apply cfg_edge_is_rstep_gen; [exact Hedge | exact Hb |].
      intros cs cb Hcs Hrp _.
      destruct (wf_ids_tblock p t bs Hparse Hbs b' Hb') as (rb & Hrb).
      apply (pred_in_ids p t bs Hparse Hbs Hok b' rb cs Hb' Hrb).
      apply (tblock_mirror p t cs b' cb rb Hparse Hcs Hrb).
      unfold sub_return_point in Hrp. destruct (b_next cb); [discriminate|]. inversion Hrp. left; reflexivity.
    - intros (st & st' & Hact & Hstep). split; [eapply rstep_is_cfg_edge; eauto|].
      eapply rstep_in_ids; eauto.
  Qed.
End RunsView.

(* ================================================================== 4. subroutine_to_dot *)
Definition routine (t : teal) (s : subroutine) : Prop := s = t_main t \/ In s (t_subs t).

Lemma is_callsub_called t b : is_callsub_block t b = false -> called_subroutine t b = None.
Proof.
  unfold is_callsub_block, called_subroutine. destruct (exit_op t b) as [i|]; [|reflexivity].
  destruct i; try reflexivity. discriminate.
Qed.

Section SubCfg.
  Variables (p : prog) (t : teal).
  Hypothesis Hparse : parse_teal p = Ok t.

  Lemma routine_blocks bs s : build_blocks p = Some bs -> routine t s ->
    (forall n, In n (s_blocks s) <-> Reach bs (s_entry s) n) /\ NoDup (s_blocks s) /\
    (forall n, In n (s_blocks s) -> In n (retained_ids t)).
  Proof.
    intros Hbs Hr. destruct (retained_char p t bs Hparse Hbs) as (Hret & _).
    destruct Hr as [->|Hs].
    - destruct (main_blocks_are_local_reach p t bs Hparse Hbs) as (He & Hre & Hnd). rewrite He.
      split; [exact Hre|]. split; [exact Hnd|]. intros n Hn. apply Hret. left. apply Hre. exact Hn.
    - destruct (sub_blocks_are_local_reach p t bs s Hparse Hbs Hs) as (Hre & Hnd & _).
      split; [exact Hre|]. split; [exact Hnd|]. intros n Hn. apply Hret. right. exists s. split; [exact Hs|].
      apply Hre. exact Hn.
  Qed.

  (* one node per block of the routine; they are nodes of the full CFG as well *)
  Theorem sub_cfg_nodes_spec s : routine t s ->
    sub_cfg_nodes t s = s_blocks s /\ NoDup (sub_cfg_nodes t s) /\
    (forall n, In n (sub_cfg_nodes t s) -> In n (full_cfg_nodes t)).
  Proof.
    intros Hr. destruct (parse_teal_blocks p t Hparse) as (bs & Hbs).
    destruct (routine_blocks bs s Hbs Hr) as (_ & Hnd & Hin). split; [reflexivity|]. split; assumption.
  Qed.

  (* block -> block edges: the local successor edges of the routine's blocks that do not end in callsub *)
  Theorem sub_cfg_edges_exact s b b' :
    In (b, b') (sub_cfg_edges t s) <->
    In b (s_blocks s) /\ exists blk, tblock t b = Some blk /\ is_callsub_block t blk = false /\ In b' (b_next blk).
  Proof.
    unfold sub_cfg_edges. rewrite in_uncolor. unfold sub_cfg_colored_edges. split.
    - intros (c & Hin). apply in_flat_map in Hin. destruct Hin as (n & Hn & Hin).
      destruct (tblock t n) as [blk|] eqn:Eb; [|destruct Hin].
      apply in_map_iff in Hin. destruct Hin as ([m c'] & E & Hm). inversion E; subst.
      split; [assumption|]. exists blk. split; [assumption|].
      apply (local_out_In true t blk b' (cond_branch_next_shape p t b blk Hparse Eb)). eauto.
    - intros (Hb & blk & Eb & Hnc & Hn).
      destruct (proj2 (local_out_In true t blk b' (cond_branch_next_shape p t b blk Hparse Eb)) (conj Hnc Hn)) as (c & Hc).
      exists c. apply in_flat_map. exists b. split; [assumption|]. rewrite Eb.
      apply in_map_iff. exists (b', c). auto.
  Qed.

  Lemma routine_closed s n blk m : routine t s -> In n (s_blocks s) -> tblock t n = Some blk -> In m (b_next blk) ->
    In m (s_blocks s).
  Proof.
    intros Hr Hn Hb Hm. destruct (parse_teal_blocks p t Hparse) as (bs & Hbs).
    destruct (routine_blocks bs s Hbs Hr) as (Hre & _). apply Hre. apply Hre in Hn.
    econstructor; [exact Hn|]. rewrite <- (tblock_next p t bs n blk Hparse Hbs Hb). exact Hm.
  Qed.

  (* the edges stay inside the routine *)
  Theorem sub_cfg_edges_inside s b b' : routine t s -> In (b, b') (sub_cfg_edges t s) ->
    In b (sub_cfg_nodes t s) /\ In b' (sub_cfg_nodes t s).
  Proof.
    intros Hr Hin. apply sub_cfg_edges_exact in Hin. destruct Hin as (Hb & blk & Eb & _ & Hn).
    split; [exact Hb|]. eapply routine_closed; eauto.
  Qed.

  (* call boxes: (call site, its return point, name of the callee) *)
  Theorem sub_cfg_callboxes_exact s c rp name :
    In (c, rp, name) (sub_cfg_callboxes t s) <->
    In c (s_blocks s) /\ exists blk, tblock t c = Some blk /\ exit_op t blk = Some (ICallsub name) /\
                                      rp = sub_return_point blk.
  Proof.
    unfold sub_cfg_callboxes. rewrite in_flat_map. split.
    - intros (n & Hn & Hin). destruct (tblock t n) as [blk|] eqn:Eb; [|destruct Hin].
      destruct (called_subroutine t blk) as [c0|] eqn:Ec; [|destruct Hin].
      destruct Hin as [E|[]]. inversion E; subst. split; [assumption|]. exists blk. split; [assumption|].
      destruct (called_subroutine_inv t blk c0 Ec) as (l & He & Hf). apply find_sub_some in Hf.
      destruct Hf as [_ <-]. auto.
    - intros (Hc & blk & Eb & He & ->). exists c. split; [assumption|]. rewrite Eb.
      destruct (called_subroutine_spec p t c blk name Hparse Eb He) as (s0 & Hs0 & _ & Hname).
      rewrite Hs0, Hname. left. reflexivity.
  Qed.

  (* exactly one box per call site of the routine, in the order of the routine's blocks *)
  Theorem sub_cfg_callboxes_sites s :
    map (fun x => fst (fst x)) (sub_cfg_callboxes t s) =
    filter (fun n => match tblock t n with Some b => is_callsub_block t b | None => false end) (s_blocks s).
  Proof.
    unfold sub_cfg_callboxes. induction (s_blocks s) as [|n l IH]; [reflexivity|].
    cbn [flat_map filter]. rewrite map_app, IH.
    destruct (tblock t n) as [blk|] eqn:Eb; [|reflexivity].
    destruct (is_callsub_block t blk) eqn:Ecs.
    - destruct (callsub_exit t blk Ecs) as (lbl & He).
      destruct (called_subroutine_spec p t n blk lbl Hparse Eb He) as (s0 & Hs0 & _). rewrite Hs0. reflexivity.
    - rewrite (is_callsub_called t blk Ecs). reflexivity.
  Qed.

  Corollary sub_cfg_callboxes_nodup s : routine t s -> NoDup (map (fun x => fst (fst x)) (sub_cfg_callboxes t s)).
  Proof.
    intros Hr. rewrite sub_cfg_callboxes_sites. apply NoDup_filter.
    destruct (parse_teal_blocks p t Hparse) as (bs & Hbs). apply (routine_blocks bs s Hbs Hr).
  Qed.

  (* the box's outgoing edge, when there is one, goes to the block that follows the call site, a node of the routine *)
  Theorem sub_cfg_callbox_return s c r name : routine t s -> In (c, Some r, name) (sub_cfg_callboxes t s) ->
    r = S c /\ In r (sub_cfg_nodes t s).
  Proof.
    intros Hr Hin. apply sub_cfg_callboxes_exact in Hin. destruct Hin as (Hc & blk & Eb & He & Hrp).
    assert (Hcs : is_callsub_block t blk = true) by (unfold is_callsub_block; rewrite He; reflexivity).
    assert (Hn : In r (b_next blk)).
    { unfold sub_return_point in Hrp. destruct (b_next blk); [discriminate|]. inversion Hrp. left; reflexivity. }
    split; [|eapply routine_closed; eauto].
    destruct (return_point p t c blk Hparse Eb Hcs) as [[E _]|[E _]]; rewrite E in Hn.
    - destruct Hn.
    - destruct Hn as [<-|[]]. reflexivity.
  Qed.
End SubCfg.

(* ================================================================== 5. call graph *)
Lemma dedup_str_In l x : In x (dedup_str l) <-> In x l.
Proof.
  induction l as [|a l IH]; simpl; [tauto|]. rewrite filter_In, IH. split.
  - intros [H|[H _]]; auto.
  - intros [H|H]; [auto|]. destruct (string_dec x a) as [->|Hne]; [auto|]. right. split; [assumption|].
    apply Bool.negb_true_iff. apply String.eqb_neq. assumption.
Qed.

Lemma dedup_str_NoDup l : NoDup (dedup_str l).
Proof.
  induction l as [|a l IH]; simpl; constructor.
  - rewrite filter_In. intros [_ H]. rewrite String.eqb_refl in H. discriminate.
  - apply NoDup_filter. exact IH.
Qed.

(* bb.subroutine: the routine found contains the block *)
Lemma sub_of_block_in t c r : sub_of_block t c = Some r -> routine t r /\ In c (s_blocks r).
Proof.
  unfold sub_of_block, routine. destruct (nat_mem c (s_blocks (t_main t))) eqn:Em.
  - intros E. inversion E; subst. split; [left; reflexivity|]. apply CfgLemmas.nat_mem_In. exact Em.
  - intros E. apply find_some in E. destruct E as [Hin Hm]. split.
    + right. apply in_rev. exact Hin.
    + apply CfgLemmas.nat_mem_In. exact Hm.
Qed.

Lemma sub_of_block_some t c r : routine t r -> In c (s_blocks r) -> exists r', sub_of_block t c = Some r'.
Proof.
  intros Hr Hc. unfold sub_of_block. destruct (nat_mem c (s_blocks (t_main t))) eqn:Em; [eauto|].
  destruct Hr as [->|Hr].
  - apply CfgLemmas.nat_mem_In in Hc. congruence.
  - destruct (find (fun s => nat_mem c (s_blocks s)) (rev (t_subs t))) as [r'|] eqn:Ef; [eauto|].
    exfalso. apply in_rev in Hr. pose proof (find_none _ _ Ef r Hr) as Hf. simpl in Hf.
    apply CfgLemmas.nat_mem_In in Hc. congruence.
Qed.

(* for structured programs the routine of a block is the only one that contains it *)
Lemma sub_of_block_struct t c r : struct_ok t -> (sub_of_block t c = Some r <-> routine t r /\ In c (s_blocks r)).
Proof.
  intros Hok. split; [apply sub_of_block_in|]. intros [Hr Hc].
  destruct (sub_of_block_some t c r Hr Hc) as (r' & E). rewrite E. f_equal.
  apply sub_of_block_in in E. destruct E as [Hr' Hc'].
  destruct Hr as [->|Hr]; destruct Hr' as [->|Hr']; try reflexivity.
  - exfalso. exact (so_main_disj t Hok r' c Hr' Hc' Hc).
  - exfalso. exact (so_main_disj t Hok r c Hr Hc Hc').
  - exact (so_sub_disj t Hok r' r c Hr' Hr Hc' Hc).
Qed.

Section CallGraph.
  Variables (p : prog) (t : teal).
  Hypothesis Hparse : parse_teal p = Ok t.

  Lemma callgraph_sources_In g fn : In g (t_subs t) ->
    (In fn (callgraph_sources t g) <->
     exists c b r, tblock t c = Some b /\ exit_op t b = Some (ICallsub (s_name g)) /\
                   sub_of_block t c = Some r /\ s_name r = fn).
  Proof.
    intros Hg. unfold callgraph_sources. rewrite dedup_str_In, in_flat_map. split.
    - intros (c & Hc & Hin). apply (callers_exact p t g Hparse Hg) in Hc. destruct Hc as (b & Hb & He).
      destruct (sub_of_block t c) as [r|] eqn:Er; [|destruct Hin]. destruct Hin as [<-|[]].
      exists c, b, r. auto.
    - intros (c & b & r & Hb & He & Er & <-). exists c. split.
      + apply (callers_exact p t g Hparse Hg). eauto.
      + rewrite Er. left. reflexivity.
  Qed.

  (* call-graph.dot has the edge fn -> g exactly when a retained callsub block assigned to routine fn targets g *)
  Theorem callgraph_edges_exact fn g :
    In (fn, g) (callgraph_edges t) <->
    exists c b r, tblock t c = Some b /\ exit_op t b = Some (ICallsub g) /\
                  sub_of_block t c = Some r /\ s_name r = fn.
  Proof.
    unfold callgraph_edges. rewrite in_flat_map. split.
    - intros (gs & Hgs & Hin). apply in_map_iff in Hin. destruct Hin as (f0 & E & Hf0). inversion E; subst.
      apply (callgraph_sources_In gs fn Hgs). exact Hf0.
    - intros (c & b & r & Hb & He & Er & Hn).
      destruct (called_subroutine_spec p t c b g Hparse Hb He) as (gs & _ & Hgs & Hname).
      exists gs. split; [assumption|]. apply in_map_iff. exists fn. split; [rewrite Hname; reflexivity|].
      apply (callgraph_sources_In gs fn Hgs). rewrite Hname. exists c, b, r. auto.
  Qed.

  (* structured programs: "assigned to" = "belongs to" *)
  Theorem callgraph_edges_struct fn g : struct_ok t ->
    (In (fn, g) (callgraph_edges t) <->
     exists r c b, routine t r /\ s_name r = fn /\ In c (s_blocks r) /\
                   tblock t c = Some b /\ exit_op t b = Some (ICallsub g)).
  Proof.
    intros Hok. rewrite callgraph_edges_exact. split.
    - intros (c & b & r & Hb & He & Er & Hn). apply (sub_of_block_struct t c r Hok) in Er. destruct Er as [Hr Hc].
      exists r, c, b. auto.
    - intros (r & c & b & Hr & Hn & Hc & Hb & He). exists c, b, r. split; [assumption|]. split; [assumption|].
      split; [|assumption]. apply (sub_of_block_struct t c r Hok). auto.
  Qed.

  (* declared nodes = the subroutines, each once; every edge ends at a declared node and starts at a declared
     node or at the main routine *)
  Theorem callgraph_nodes_spec :
    callgraph_nodes t = map s_name (t_subs t) /\ NoDup (callgraph_nodes t) /\
    (forall fn g, In (fn, g) (callgraph_edges t) ->
                  In g (callgraph_nodes t) /\ (fn = s_name (t_main t) \/ In fn (callgraph_nodes t))).
  Proof.
    split; [reflexivity|]. split; [apply (subs_are_callsub_targets p t Hparse)|].
    intros fn g Hin. apply callgraph_edges_exact in Hin. destruct Hin as (c & b & r & Hb & He & Er & Hn).
    destruct (called_subroutine_spec p t c b g Hparse Hb He) as (gs & _ & Hgs & Hname). split.
    - unfold callgraph_nodes. rewrite <- Hname. apply in_map. exact Hgs.
    - apply sub_of_block_in in Er. destruct Er as [[->|Hr] _]; [left; auto|].
      right. unfold callgraph_nodes. rewrite <- Hn. apply in_map. exact Hr.
  Qed.

  Lemma NoDup_pairs {A} (k : A -> string) (src : A -> list string) : forall l : list A,
    NoDup (map k l) -> (forall g, In g l -> NoDup (src g)) ->
    NoDup (flat_map (fun g => map (fun f => (f, k g)) (src g)) l).
  Proof.
    induction l as [|a l IH]; intros Hnd Hsrc; [constructor|].
    simpl in *. apply NoDup_cons_iff in Hnd. destruct Hnd as [Ha Hnd].
    apply NoDup_app_intro.
    - apply FinFun.Injective_map_NoDup; [|apply Hsrc; left; reflexivity].
      intros x y E. inversion E. reflexivity.
    - apply IH; [assumption|]. intros g Hg. apply Hsrc. right. assumption.
    - intros [f0 g0] H1 H2. apply in_map_iff in H1. destruct H1 as (x & E & _). inversion E; subst.
      apply in_flat_map in H2. destruct H2 as (g & Hg & H2). apply in_map_iff in H2.
      destruct H2 as (y & E2 & _). inversion E2 as [[Ey Ek]]. apply Ha. rewrite <- Ek. apply in_map. exact Hg.
  Qed.

  (* no edge is listed twice *)
  Theorem callgraph_edges_nodup : NoDup (callgraph_edges t).
  Proof.
    unfold callgraph_edges. apply NoDup_pairs.
    - apply (subs_are_callsub_targets p t Hparse).
    - intros g _. apply dedup_str_NoDup.
  Qed.
End CallGraph.

(* ================================================================== 6. reported paths *)
(* the blocks drawn RED in the file of a path are exactly the blocks of the path *)
Theorem path_marks_spec path b : path_marks path b = true <-> In b path.
Proof. unfold path_marks. apply CfgLemmas.nat_mem_In. Qed.

Theorem path_red_nodes_spec t path n :
  In n (path_red_nodes t path) <-> In n path /\ In n (full_cfg_nodes t).
Proof. unfold path_red_nodes. rewrite filter_In, path_marks_spec. tauto. Qed.

(* every block of the path is drawn (and red) as soon as the path runs over retained blocks *)
Corollary path_red_nodes_all t path :
  (forall n, In n path -> In n (full_cfg_nodes t)) -> forall n, In n (path_red_nodes t path) <-> In n path.
Proof. intros H n. rewrite path_red_nodes_spec. split; [tauto|]. intros Hn. split; [assumption | apply H; assumption]. Qed.

(* ---------------------------------------------------------------- short notation *)
Definition dig (c : ascii) : bool := (Nat.leb 48 (nat_of_ascii c) && Nat.leb (nat_of_ascii c) 57)%bool.

Fixpoint span_digits (s : string) : string * string :=
  match s with
  | EmptyString => (EmptyString, EmptyString)
  | String c r => if dig c then (String c (fst (span_digits r)), snd (span_digits r)) else (EmptyString, s)
  end.

Definition starts_nondigit (s : string) : Prop :=
  match s with EmptyString => True | String c _ => dig c = false end.

Lemma span_digits_app d rest :
  all_digits d = true -> starts_nondigit rest -> span_digits (d ++ rest)%string = (d, rest).
Proof.
  induction d as [|c d IH]; intros Hd Hr.
  - simpl. destruct rest as [|c r]; [reflexivity|]. simpl in *. rewrite Hr. reflexivity.
  - cbn [all_digits] in Hd. apply andb_true_iff in Hd. destruct Hd as [Hc Hd]. change (dig c = true) in Hc.
    cbn [String.append span_digits]. rewrite Hc, (IH Hd Hr). reflexivity.
Qed.

Lemma dec_of_nat_digits n : all_digits (dec_of_nat n) = true.
Proof. unfold dec_of_nat. rewrite string_of_N_base. apply all_digits_base10. reflexivity. Qed.

Lemma dec_of_nat_nonempty n : dec_of_nat n <> EmptyString.
Proof.
  unfold dec_of_nat. rewrite string_of_N_base.
  destruct (base_digits_head_fuel 10 (N.of_nat n) ltac:(lia)) as (d & tl & E & _). rewrite E. discriminate.
Qed.

Lemma dec_of_nat_inj a b : dec_of_nat a = dec_of_nat b -> a = b.
Proof.
  unfold dec_of_nat. intros E. apply Nat2N.inj.
  pose proof (parse_int_decimal (N.of_nat a)) as Ha. pose proof (parse_int_decimal (N.of_nat b)) as Hb.
  rewrite E in Ha. rewrite Ha in Hb. inversion Hb. reflexivity.
Qed.

Definition arrow : string := " -> "%string.

Lemma join_cons sep x l :
  join sep (x :: l) = (x ++ match l with [] => EmptyString | _ => sep ++ join sep l end)%string.
Proof. destruct l; simpl; [rewrite sapp_nil_r|]; reflexivity. Qed.

Lemma short_notation_cons x l :
  short_notation (x :: l) =
  (dec_of_nat x ++ match l with [] => EmptyString | _ => arrow ++ short_notation l end)%string.
Proof. unfold short_notation. cbn [map]. rewrite join_cons. destruct l; reflexivity. Qed.

Lemma short_tail_nondigit (l : list nat) :
  starts_nondigit (match l with [] => EmptyString | _ => arrow ++ short_notation l end)%string.
Proof. destruct l; simpl; [exact I | reflexivity]. Qed.

(* distinct paths have distinct short notations: the notation printed / stored in the JSON identifies the path *)
Theorem short_notation_inj : forall l1 l2, short_notation l1 = short_notation l2 -> l1 = l2.
Proof.
  induction l1 as [|x l1 IH]; intros l2 E.
  - destruct l2 as [|y l2]; [reflexivity|]. exfalso. rewrite short_notation_cons in E.
    change (short_notation []) with EmptyString in E.
    destruct (dec_of_nat y) eqn:Ey; [exact (dec_of_nat_nonempty y Ey) | discriminate].
  - destruct l2 as [|y l2].
    + exfalso. rewrite short_notation_cons in E. change (short_notation []) with EmptyString in E.
      destruct (dec_of_nat x) eqn:Ex; [exact (dec_of_nat_nonempty x Ex) | discriminate].
    + rewrite !short_notation_cons in E.
      pose proof (span_digits_app _ _ (dec_of_nat_digits x) (short_tail_nondigit l1)) as S1.
      pose proof (span_digits_app _ _ (dec_of_nat_digits y) (short_tail_nondigit l2)) as S2.
      rewrite E in S1. rewrite S1 in S2. inversion S2 as [[Ed Et]].
      apply dec_of_nat_inj in Ed. subst y. f_equal.
      destruct l1 as [|a l1']; destruct l2 as [|b l2']; try reflexivity; try discriminate.
      apply IH. unfold arrow in Et. simpl in Et. inversion Et. reflexivity.
Qed.

(* ---------------------------------------------------------------- --filter-paths, count *)
(* exactly the paths whose short notation matches the pattern are removed; order and multiplicity are kept *)
Theorem filter_paths_spec search pattern paths path : pattern <> EmptyString ->
  (In path (filter_paths search pattern paths) <->
   In path paths /\ search pattern (short_notation path) = false).
Proof.
  intros Hne. unfold filter_paths. destruct (String.eqb pattern "") eqn:E.
  - apply String.eqb_eq in E. contradiction.
  - rewrite filter_In, Bool.negb_true_iff. tauto.
Qed.

Theorem filter_paths_empty search paths : filter_paths search EmptyString paths = paths.
Proof. reflexivity. Qed.

Theorem filter_paths_nodup search pattern paths : NoDup paths -> NoDup (filter_paths search pattern paths).
Proof. intros H. unfold filter_paths. destruct (String.eqb pattern ""); [assumption | apply NoDup_filter; assumption]. Qed.

(* "count" = number of listed paths, before and after filtering; one "short" entry per path, in order *)
Theorem json_count_spec t paths :
  json_count paths = length (json_paths t paths) /\ map fst (json_paths t paths) = map short_notation paths.
Proof.
  unfold json_count, json_paths. rewrite map_length, map_map. split; [reflexivity|]. apply map_ext. reflexivity.
Qed.

Theorem json_count_filter search pattern paths :
  json_count (filter_paths search pattern paths) + length (filter (fun path => search pattern (short_notation path)) paths)
  = json_count paths \/ pattern = EmptyString.
Proof.
  unfold filter_paths, json_count. destruct (String.eqb pattern "") eqn:E; [right; apply String.eqb_eq; exact E|].
  left. induction paths as [|a l IH]; [reflexivity|]. simpl.
  destruct (search pattern (short_notation a)); simpl; lia.
Qed.

(* the i-th file (i from 1) belongs to the i-th path *)
Theorem path_file_indices_spec paths i path :
  In (i, path) (path_file_indices paths) <-> 1 <= i /\ nth_error paths (i - 1) = Some path.
Proof.
  unfold path_file_indices. revert i. generalize 1 at 1 2 3.
  induction paths as [|a l IH]; intros k i; simpl.
  - split; [intros [] | intros [_ H]; destruct (i - k); discriminate].
  - rewrite IH. split.
    + intros [E|[Hle Hn]].
      * inversion E; subst. rewrite Nat.sub_diag. split; [lia | reflexivity].
      * split; [lia|]. replace (i - k) with (S (i - S k)) by lia. exact Hn.
    + intros [Hle Hn]. destruct (i - k) as [|d] eqn:Ed.
      * left. inversion Hn. f_equal. lia.
      * right. split; [lia|]. replace (i - S k) with d by lia. exact Hn.
Qed.

(* ================================================================== 7. examples, non-vacuity, refutations *)
Definition all_routines_usedb (t : teal) : bool := forallb (fun n => nat_mem n (wf_ids t)) (retained_ids t).

Lemma all_routines_usedb_sound t : all_routines_usedb t = true -> all_routines_used t.
Proof.
  unfold all_routines_usedb, all_routines_used. rewrite forallb_forall. intros H n Hn.
  apply CfgLemmas.nat_mem_In. apply H. exact Hn.
Qed.

Definition prog_of_lines (ls : list string) : prog :=
  match parse_program (unlines ls) with Ok p => p | Err _ => [] end.
Definition dummy_teal : teal := mkTeal 0%N MAny [] [] [] (mkSub EmptyString 0 [] []) [] None.
Definition teal_of_prog (p : prog) : teal := match parse_teal p with Ok t => t | Err _ => dummy_teal end.

Open Scope string_scope.
(* main calls f twice (the second call under a branch) and g once; g calls f; f has two retsub blocks.
     B0 [#pragma; callsub f]  B1 [int 1; bz skip]  B2 [callsub f]  B3 [skip:; callsub g]  B4 [int 1; return]
     B5 [f:; int 2; bnz fa]   B6 [retsub]          B7 [fa:; pop; retsub]
     B8 [g:; callsub f]       B9 [retsub]
   The values below were compared with the output of tealer's full_cfg_to_dot / subroutine_to_dot /
   PrinterCallGraph on the same source (identical, including the emission order). *)
Definition ex_out_lines : list string :=
  ["#pragma version 6"; "callsub f"; "int 1"; "bz skip"; "callsub f"; "skip:"; "callsub g"; "int 1"; "return";
   "f:"; "int 2"; "bnz fa"; "retsub"; "fa:"; "pop"; "retsub"; "g:"; "callsub f"; "retsub"].
Definition ex_out_prog : prog := Eval vm_compute in prog_of_lines ex_out_lines.
Definition ex_out_teal : teal := Eval vm_compute in teal_of_prog ex_out_prog.

Example ex_out_parses : parse_teal ex_out_prog = Ok ex_out_teal.
Proof. vm_compute. reflexivity. Qed.

Example ex_out_full_nodes : full_cfg_nodes ex_out_teal = [0; 1; 2; 3; 4; 5; 6; 7; 8; 9].
Proof. vm_compute. reflexivity. Qed.

Example ex_out_full_edges :
  full_cfg_colored_edges ex_out_teal =
  [(0, 5, ECall); (7, 1, EPlain); (6, 1, EPlain); (1, 2, EDefault); (1, 3, EJump); (2, 5, ECall);
   (7, 3, EPlain); (6, 3, EPlain); (3, 8, ECall); (9, 4, EPlain); (5, 6, EDefault); (5, 7, EJump);
   (8, 5, ECall); (7, 9, EPlain); (6, 9, EPlain)].
Proof. vm_compute. reflexivity. Qed.

Example ex_out_path_edges :
  path_cfg_edges ex_out_teal =
  [(0, 5); (7, 1); (6, 1); (1, 2); (1, 3); (2, 5); (7, 3); (6, 3); (3, 8); (9, 4); (5, 6); (5, 7);
   (8, 5); (7, 9); (6, 9)].
Proof. vm_compute. reflexivity. Qed.

Example ex_out_node_lines : map (full_cfg_node_lines ex_out_teal) [0; 5; 7] = [[1; 2]; [10; 11; 12]; [14; 15; 16]].
Proof. vm_compute. reflexivity. Qed.

Example ex_out_clusters : full_cfg_clusters ex_out_teal = [("f", [5; 7; 6]); ("g", [8; 9])].
Proof. vm_compute. reflexivity. Qed.

Example ex_out_sub_cfgs :
  map (fun '(file, s) => (file, sub_cfg_nodes ex_out_teal s, sub_cfg_edges ex_out_teal s, sub_cfg_callboxes ex_out_teal s))
      (sub_cfg_files ex_out_teal) =
  [("contract_shortened_cfg.dot", [0; 1; 3; 4; 2], [(1, 2); (1, 3)], [(0, Some 1, "f"); (3, Some 4, "g"); (2, Some 3, "f")]);
   ("subroutine_f_cfg.dot", [5; 7; 6], [(5, 6); (5, 7)], []);
   ("subroutine_g_cfg.dot", [8; 9], [], [(8, Some 9, "f")])].
Proof. vm_compute. reflexivity. Qed.

Example ex_out_callgraph :
  (callgraph_exported ex_out_teal, callgraph_nodes ex_out_teal, callgraph_edges ex_out_teal) =
  (true, ["f"; "g"], [("__main__", "f"); ("g", "f"); ("__main__", "g")]).
Proof. vm_compute. reflexivity. Qed.

Example ex_out_path :
  (short_notation [0; 5; 7; 1; 3; 8], path_red_nodes ex_out_teal [0; 5; 7; 1; 3; 8],
   path_filename "rekey-to" 12, json_count [[0; 5]; [0; 5; 7]]) =
  ("0 -> 5 -> 7 -> 1 -> 3 -> 8", [0; 1; 3; 5; 7; 8], "rekey-to-12.dot", 2).
Proof. vm_compute. reflexivity. Qed.

(* a call that is the last instruction: the box has no return point and no retsub edge is drawn for the call *)
Definition ex_last_lines : list string := ["#pragma version 6"; "b main"; "f:"; "retsub"; "main:"; "callsub f"].
Definition ex_last_teal : teal := Eval vm_compute in teal_of_prog (prog_of_lines ex_last_lines).
Example ex_last_out :
  (full_cfg_edges ex_last_teal, sub_cfg_callboxes ex_last_teal (t_main ex_last_teal)) =
  ([(0, 2); (2, 1)], [(2, None, "f")]).
Proof. vm_compute. reflexivity. Qed.

(* the hypothesis of full_cfg_edges_rstep holds on the first example.  (struct_ok does not: "skip" is both the
   return point of the call in B2 and the target of the bz in B1; ex_frames below satisfies both.) *)
Example ex_out_all_used : all_routines_used ex_out_teal.
Proof. apply all_routines_usedb_sound. vm_compute. reflexivity. Qed.
Example ex_out_not_struct : struct_okb ex_out_teal = false.
Proof. vm_compute. reflexivity. Qed.

(* ---------------------------------------------------------------- refutation 1: all_routines_used cannot be dropped.
   g is called from dead code only: its blocks are retained and drawn, and the retsub block B5 of s gets an
   edge to the return point B4 of the call site B3 inside g -- not a step of the whole-contract function *)
Definition ex_dead_lines : list string :=
  ["#pragma version 6"; "callsub s"; "int 1"; "return"; "dead:"; "callsub g"; "g:"; "callsub s"; "retsub"; "s:"; "retsub"].
Definition ex_dead_prog : prog := Eval vm_compute in prog_of_lines ex_dead_lines.
Definition ex_dead_teal : teal := Eval vm_compute in teal_of_prog ex_dead_prog.
Close Scope string_scope.

Example ex_dead_parses : parse_teal ex_dead_prog = Ok ex_dead_teal.
Proof. vm_compute. reflexivity. Qed.

Example ex_dead_edges :
  (full_cfg_edges ex_dead_teal, map b_idx (fn_blocks (whole_function ex_dead_teal))) =
  ([(0, 5); (5, 1); (3, 5); (5, 4)], [0; 1; 5]).
Proof. vm_compute. reflexivity. Qed.

Theorem full_cfg_edges_rstep_refuted :
  exists p t b b', parse_teal p = Ok t /\ In (b, b') (full_cfg_edges t) /\ In b (wf_ids t) /\
                   ~ exists st st', rstep (whole_function t) (b, st) (b', st').
Proof.
  exists ex_dead_prog, ex_dead_teal, 5, 4. split; [exact ex_dead_parses|].
  split; [vm_compute; tauto|]. split; [vm_compute; tauto|].
  intros (st & st' & Hstep).
  remember (5, st) as c eqn:Ec. remember (4, st') as c' eqn:Ec'.
  destruct Hstep as [b0 st0 blk l s Hb Hop Hs|b0 st0 cs blk cb rp Hb Hop Hcs Hrp|b0 st0 blk b'' Hb Hnc Hnr Hn];
    injection Ec as Eb Est; injection Ec' as Eb' Est'; subst b0.
  - vm_compute in Hb. injection Hb as Eblk. subst blk. vm_compute in Hop. discriminate.
  - subst rp. apply fblock_In in Hcs. vm_compute in Hcs.
    destruct Hcs as [<-|[<-|[<-|[]]]]; vm_compute in Hrp; discriminate.
  - subst b''. vm_compute in Hb. injection Hb as Eblk. subst blk. vm_compute in Hn. exact Hn.
Qed.

(* ---------------------------------------------------------------- refutation 2: the frame condition cannot be dropped.
   Spec/Runs.rstep lets a retsub block pop ANY frame: from B3 (retsub of a) with the call site B1 of b on the
   stack it steps to B2; the drawing has B3 -> B1 only (return point of the call site B0 of a) *)
Open Scope string_scope.
Definition ex_frames_lines : list string :=
  ["#pragma version 6"; "callsub a"; "callsub b"; "int 1"; "return"; "a:"; "retsub"; "b:"; "retsub"].
Definition ex_frames_prog : prog := Eval vm_compute in prog_of_lines ex_frames_lines.
Definition ex_frames_teal : teal := Eval vm_compute in teal_of_prog ex_frames_prog.
Close Scope string_scope.

Example ex_frames_parses : parse_teal ex_frames_prog = Ok ex_frames_teal.
Proof. vm_compute. reflexivity. Qed.

Example ex_frames_edges : full_cfg_edges ex_frames_teal = [(0, 3); (3, 1); (1, 4); (4, 2)].
Proof. vm_compute. reflexivity. Qed.

Theorem rstep_any_frame_not_drawn_refuted :
  exists p t b st b' st', parse_teal p = Ok t /\ all_routines_used t /\ struct_ok t /\
                          rstep (whole_function t) (b, st) (b', st') /\ ~ In (b, b') (full_cfg_edges t).
Proof.
  exists ex_frames_prog, ex_frames_teal, 3, ([] ++ [1]), 2, []. split; [exact ex_frames_parses|].
  split; [apply all_routines_usedb_sound; vm_compute; reflexivity|].
  split; [apply struct_okb_sound; vm_compute; reflexivity|]. split.
  - eapply RS_ret; vm_compute; reflexivity.
  - rewrite ex_frames_edges. simpl. intros [H|[H|[H|[H|[]]]]]; discriminate.
Qed.

Print Assumptions cond_branch_next_shape.
Print Assumptions full_cfg_nodes_spec.
Print Assumptions full_cfg_edges_exact.
Print Assumptions path_cfg_edges_exact.
Print Assumptions cfg_edge_nodes.
Print Assumptions rstep_is_cfg_edge.
Print Assumptions run_steps_drawn.
Print Assumptions cfg_edge_is_rstep.
Print Assumptions full_cfg_edges_rstep.
Print Assumptions full_cfg_edges_rstep_struct.
Print Assumptions sub_cfg_nodes_spec.
Print Assumptions sub_cfg_edges_exact.
Print Assumptions sub_cfg_edges_inside.
Print Assumptions sub_cfg_callboxes_exact.
Print Assumptions sub_cfg_callboxes_sites.
Print Assumptions sub_cfg_callboxes_nodup.
Print Assumptions sub_cfg_callbox_return.
Print Assumptions callgraph_edges_exact.
Print Assumptions callgraph_edges_struct.
Print Assumptions callgraph_nodes_spec.
Print Assumptions callgraph_edges_nodup.
Print Assumptions path_marks_spec.
Print Assumptions path_red_nodes_spec.
Print Assumptions short_notation_inj.
Print Assumptions filter_paths_spec.
Print Assumptions filter_paths_nodup.
Print Assumptions json_count_spec.
Print Assumptions json_count_filter.
Print Assumptions path_file_indices_spec.
Print Assumptions full_cfg_edges_rstep_refuted.
Print Assumptions rstep_any_frame_not_drawn_refuted.
