(* The constraint initialisation of the dataflow analysis REGENERATED from tealer's Python source
   (Gen/ConstraintsGen.v: block_level_constraints_gen, path_level_constraints_gen, translated statement by statement
   from DataflowTransactionContext._block_level_constraints / _path_level_constraints, for one analysis key) against
   the hand-written block_constraint / edge_constraint of Model/Analysis.v (Section Domain).

   Result.  For all domain parameters, every function f, every block b of f (`fblock f n = Some b`) whose instruction
   positions are pairwise distinct (NoDup (b_ins b): the stack values are looked up by instruction), and every
   recursion budget fuel > length (b_ins b) (emulate_depth: the operands of a block of k instructions have depth <= k):
     - when the stack emulation of the block is defined (part of TotalSolver.defined_okb)
          block_level_constraints_gen fuel n = block_constraint f b            (block_level_constraints_gen_eq)
     - when no subroutine carries the name "" (GraphGenLemmas.main_name_fresh), the block has an exit instruction
       (fexit_op f b <> None) and, on a bz/bnz block with ONE successor, Python's test len(exit_instr.next) > 1 and
       the model's test Analysis.branch_to_next agree (exit_next_ok f n b), for every successor succ
          bind (path_level_constraints_gen fuel n) (fun w => last_write w succ) = edge_constraint f b succ
                                                                                 (path_level_constraints_gen_eq)
       i.e. edge_constraint f pred succ is the LAST value the Python writes to _path_contexts[key][succ][pred], None
       (KeyError) when it writes none, and None for every succ when the Python raises.
   exit_next_ok is proved for the blocks of whole_function t (exit_next_ok_whole) and of the functions cut out of it by
   construct_function (exit_next_ok_cut) of every parsed contract whose text holds no TealerCustomErr instruction.
   The hypotheses are needed (section 8; the generated side mirrors the Python):
     - a block without instructions: block.exit_instr raises IndexError, the model gives the edge no constraint
       (path_level_constraints_gen_eq_refuted_empty);
     - a one-successor bz block whose target is not the next line and which is not the last source line (the block
       graph contradicts the text): the Python stores no constraint, the model the jump side
       (path_level_constraints_gen_eq_refuted_geometry);
     - a block without assert / return whose stack emulation is undefined: the Python never emulates it, the model
       raises (block_level_constraints_gen_eq_refuted_lazy).
   ExecLemmas.block_constraint_sound and edge_constraint_sound are transported to the generated functions
   (block_level_constraints_gen_sound, path_level_constraints_gen_sound). *)
From Coq Require Import String List NArith ZArith Bool Arith Lia.
From Tealer Require Import Tables Syntax Parse Cfg StackAst Keys KeysGen Analysis AssertedGen GraphGen ConstraintsGen.
From Tealer Require Import StackLemmas AssertedLemmas KeysGenLemmas AssertedGenLemmas SolverLemmas TotalSolver GraphGenLemmas.
From Tealer Require Import Detect Group Runs InsExec Eval Exec ExecLemmas SubLemmas GraphWf GraphOk WalkLemmas EdgeRepair.
From Tealer Require Import GroupLemmas CutExec.
Import ListNotations.
Open Scope list_scope.

(* ====================================================================== *)
(* 0. The recursion budget: depth of the values the stack emulation builds  *)
(* ====================================================================== *)
Fixpoint vdepth (v : sval) : nat :=
  match v with
  | SUnknown => 1
  | SKnown _ _ args _ => S (list_max (map vdepth args))
  end.

Lemma vdepth_known op pos args out d :
  Forall (fun v => vdepth v <= d) args -> vdepth (SKnown op pos args out) <= S d.
Proof.
  intros H. cbn [vdepth]. apply le_n_S. apply list_max_le. rewrite Forall_map. exact H.
Qed.

Lemma cdepth_le_vdepth : forall v, cdepth (cond_of v) <= vdepth v.
Proof.
  induction v as [| op pos args out IH] using sval_ind'; [cbn; lia|].
  assert (Hleaf : cdepth (CLeaf op pos args) <= vdepth (SKnown op pos args out)) by (cbn; lia).
  assert (Hm : forall a, In a args -> cdepth (cond_of a) <= list_max (map vdepth args)).
  { intros a Ha. rewrite Forall_forall in IH. specialize (IH a Ha).
    assert (Hle : vdepth a <= list_max (map vdepth args)).
    { assert (HF : Forall (fun k => k <= list_max (map vdepth args)) (map vdepth args)) by (apply list_max_le; lia).
      rewrite Forall_forall in HF. apply HF. apply in_map. exact Ha. }
    lia. }
  destruct op; try exact Hleaf.
  - (* And *) destruct args as [| a [| b [| c r]]]; try exact Hleaf.
    cbn [cond_of cdepth]. pose proof (Hm a (or_introl eq_refl)). pose proof (Hm b (or_intror (or_introl eq_refl))).
    cbn [vdepth]. lia.
  - (* Or *) destruct args as [| a [| b [| c r]]]; try exact Hleaf.
    cbn [cond_of cdepth]. pose proof (Hm a (or_introl eq_refl)). pose proof (Hm b (or_intror (or_introl eq_refl))).
    cbn [vdepth]. lia.
  - (* Not *) destruct args as [| a [| b r]]; try exact Hleaf.
    cbn [cond_of cdepth]. pose proof (Hm a (or_introl eq_refl)). cbn [vdepth]. lia.
Qed.

(* the operands of the i-th instruction of a block have depth at most i + 1 *)
Lemma emulate_depth_gen p : forall poss st ast d,
  1 <= d -> Forall (fun v => vdepth v <= d) st -> emulate p poss st = Some ast ->
  forall k op args, In (k, op, args) ast -> Forall (fun v => vdepth v <= d + length poss - 1) args.
Proof.
  induction poss as [| k0 t IH]; intros st ast d Hd Hst H k op args Hin.
  - cbn in H. inversion H; subst. destruct Hin.
  - apply emulate_cons_inv in H. destruct H as (op0 & n & m & r & _ & _ & _ & Hr & ->).
    destruct (pop_n_Forall (fun v => vdepth v <= d) st n Hd Hst) as [Ha Hs].
    destruct Hin as [E | Hin].
    + inversion E; subst. eapply Forall_impl; [| exact Ha]. cbn beta. intros v Hv. cbn [length]. lia.
    + assert (Hst' : Forall (fun v => vdepth v <= S d) (push_outs op0 k0 (fst (pop_n st n)) m (snd (pop_n st n)))).
      { apply push_outs_Forall.
        - intros j _. apply vdepth_known. exact Ha.
        - eapply Forall_impl; [| exact Hs]. cbn beta. intros v Hv. lia. }
      pose proof (IH _ _ (S d) ltac:(lia) Hst' Hr k op args Hin) as HF.
      eapply Forall_impl; [| exact HF]. cbn beta. intros v Hv. cbn [length]. lia.
Qed.

Theorem emulate_depth p poss ast :
  emulate p poss [] = Some ast ->
  forall k op args a, In (k, op, args) ast -> In a args -> cdepth (cond_of a) <= length poss.
Proof.
  intros H k op args a Hin Ha.
  pose proof (emulate_depth_gen p poss [] ast 1 (le_n 1) (Forall_nil _) H k op args Hin) as HF.
  rewrite Forall_forall in HF. specialize (HF a Ha). pose proof (cdepth_le_vdepth a). lia.
Qed.

(* ====================================================================== *)
(* 1. Small facts: lists, the stack-value dictionary                        *)
(* ====================================================================== *)
Lemma find_unique {A} (q : A -> bool) (x : A) : forall l,
  In x l -> q x = true -> (forall y, In y l -> q y = true -> y = x) -> find q l = Some x.
Proof.
  induction l as [| a l IH]; intros Hin Hq Hu; [destruct Hin|].
  cbn [find]. destruct (q a) eqn:Ea.
  - f_equal. apply Hu; [left; reflexivity | exact Ea].
  - destruct Hin as [-> | Hin]; [congruence|].
    apply IH; [exact Hin | exact Hq |]. intros y Hy. apply Hu. right. exact Hy.
Qed.

Lemma NoDup_map_inj_in {A B} (g : A -> B) : forall l x y,
  NoDup (map g l) -> In x l -> In y l -> g x = g y -> x = y.
Proof.
  induction l as [| a l IH]; intros x y Hnd Hx Hy E; [destruct Hx|].
  cbn [map] in Hnd. inversion Hnd as [| ? ? Hna Hl]; subst.
  destruct Hx as [-> | Hx]; destruct Hy as [-> | Hy]; try reflexivity.
  - exfalso. apply Hna. rewrite E. apply in_map. exact Hy.
  - exfalso. apply Hna. rewrite <- E. apply in_map. exact Hx.
  - apply IH; assumption.
Qed.

Lemma pos_of_fst (e : nat * instr * list sval) : fst (fst e) = pos_of e.
Proof. destruct e as [[k o] a]. reflexivity. Qed.

(* the entry of a position of the block, when the positions are pairwise distinct *)
Lemma ast_find p poss ast k op args (sel : list (nat * instr * list sval) -> list (nat * instr * list sval)) :
  (forall e, In e (sel ast) <-> In e ast) ->
  emulate p poss [] = Some ast -> NoDup poss -> In (k, op, args) ast ->
  find (fun e => Nat.eqb (fst (fst e)) k) (sel ast) = Some (k, op, args).
Proof.
  intros Hsel H Hnd Hin. apply find_unique.
  - apply Hsel. exact Hin.
  - cbn. apply Nat.eqb_refl.
  - intros y Hy Hq. apply Hsel in Hy. apply Nat.eqb_eq in Hq.
    apply (NoDup_map_inj_in pos_of ast).
    + rewrite (emulate_positions p poss [] ast H). exact Hnd.
    + exact Hy.
    + exact Hin.
    + rewrite <- pos_of_fst. exact Hq.
Qed.

Lemma args_of_find ast k :
  args_of ast k = option_map (fun e => snd e) (find (fun e => Nat.eqb (fst (fst e)) k) ast).
Proof.
  unfold args_of. induction ast as [| [[k' o] a] t IH]; [reflexivity|].
  cbn [find fst snd]. destruct (Nat.eqb k' k); [reflexivity | exact IH].
Qed.

Lemma fold_left_map_eq {A B S} (G : option S -> A -> option S) (step : S -> B -> S) (h : B -> A) : forall l,
  (forall acc e, In e l -> G (Some acc) (h e) = Some (step acc e)) ->
  forall acc, fold_left G (map h l) (Some acc) = Some (fold_left step l acc).
Proof.
  induction l as [| e l IH]; intros H acc; [reflexivity|].
  cbn [map fold_left]. rewrite (H acc e (or_introl eq_refl)). apply IH.
  intros acc' e' He'. apply H. right. exact He'.
Qed.

Lemma pop_assert : stack_pop_size IAssert = Some 1. Proof. reflexivity. Qed.
Lemma pop_return : stack_pop_size IReturn = Some 1. Proof. reflexivity. Qed.
Lemma pop_bz : forall l, stack_pop_size (IBZ l) = Some 1. Proof. reflexivity. Qed.
Lemma pop_bnz : forall l, stack_pop_size (IBNZ l) = Some 1. Proof. reflexivity. Qed.

Lemma length_one {A} (l : list A) : Some 1 = Some (length l) -> exists a, l = [a].
Proof. intros H. destruct l as [| a [| b r]]; try discriminate. eauto. Qed.

(* ====================================================================== *)
(* 2. The glue on a block of f                                              *)
(* ====================================================================== *)
Section Glue.
  Variable f : func.
  Variables (n : nat) (b : block).
  Hypothesis Hb : fblock f n = Some b.
  Variable ast : list (nat * instr * list sval).
  Hypothesis Hast : emulate (fn_prog f) (b_ins b) [] = Some ast.
  Hypothesis Hnd : NoDup (b_ins b).

  Lemma glue_instructions : attr_instructions f n = Some (map (fun e => (n, pos_of e)) ast).
  Proof.
    unfold attr_instructions. rewrite Hb. cbn [option_map].
    rewrite <- (emulate_positions _ _ _ _ Hast), map_map. reflexivity.
  Qed.

  Lemma glue_stack_value k op args :
    In (k, op, args) ast -> call_get_stack_value_for_ins f (n, k) = Some (SKnown op k args 0).
  Proof.
    intros Hin. unfold call_get_stack_value_for_ins. cbn [fst snd]. rewrite Hb. cbn [bind]. rewrite Hast. cbn [bind].
    rewrite (ast_find _ _ ast k op args (@rev _) (fun e => iff_sym (in_rev ast e)) Hast Hnd Hin). reflexivity.
  Qed.

  Lemma glue_ins_op k op args : In (k, op, args) ast -> ins_op f (n, k) = Some op.
  Proof. intros Hin. unfold ins_op. cbn [snd]. exact (emulate_ops _ _ _ _ Hast k op args Hin). Qed.
End Glue.

(* ====================================================================== *)
(* 2b. The instruction-level successors of a conditional branch             *)
(* ====================================================================== *)
Definition cond_branch (i : instr) : bool := match i with IBZ _ | IBNZ _ => true | _ => false end.

(* On a block that ends in bz / bnz and has ONE successor, Python tells "the jump target is the next line" (jump and
   fall-through coincide) from "the branch is the last line of the source" by counting the instruction-level
   successors (len(block.exit_instr.next) > 1); the model looks at the jump target (Analysis.branch_to_next).  The two
   tests agree on the blocks of a parsed contract (section 6); this is the hypothesis under which generated = model. *)
Definition exit_next_ok (f : func) (n : nat) (pred : block) : Prop :=
  forall br j, fexit_op f pred = Some br -> cond_branch br = true -> b_next pred = [j] ->
    exists l, attr_ins_next f (n, List.last (b_ins pred) 0) = Some l /\
              Nat.ltb 1 (length l) = branch_to_next (fn_prog f) br (List.last (b_ins pred) 0).

(* ====================================================================== *)
(* 3. _block_level_constraints                                              *)
(* ====================================================================== *)
Section Dom.
  Variable T : Type.
  Variable univ null : T.
  Variable union inter : T -> T -> T.
  Variable single : instr -> nat -> list sval -> T * T.
  Variable f : func.

  Notation gen_asserted := (get_asserted_gen T univ null union inter single).
  Notation ass := (asserted T univ null union inter single).
  Notation bcst := (block_constraint T univ null union inter single f).
  Notation ecst := (edge_constraint T univ null union inter single f).
  Notation block_gen := (block_level_constraints_gen T univ null union inter single f).
  Notation path_gen := (path_level_constraints_gen T univ null union inter single f).

  (* what _get_asserted returns on an operand of an instruction of the block *)
  Lemma operand_asserted b ast fuel k op args a :
    emulate (fn_prog f) (b_ins b) [] = Some ast -> length (b_ins b) < fuel ->
    In (k, op, args) ast -> In a args -> a <> SUnknown ->
    gen_asserted fuel a = Some (ass (cond_of a)).
  Proof.
    intros Hast Hfuel Hin Ha Hk.
    apply (emulate_get_asserted_gen_eq T univ null union inter single _ _ _ Hast k op args a fuel Hin Ha Hk).
    pose proof (emulate_depth _ _ _ Hast k op args a Hin Ha). lia.
  Qed.

  Theorem block_level_constraints_gen_eq : forall fuel n b,
    fblock f n = Some b -> NoDup (b_ins b) -> emulate (fn_prog f) (b_ins b) [] <> None ->
    length (b_ins b) < fuel ->
    block_gen fuel n = bcst b.
  Proof.
    intros fuel n b Hb Hnd Hdef Hfuel.
    destruct (emulate (fn_prog f) (b_ins b) []) as [ast |] eqn:Hast; [| congruence]. clear Hdef.
    unfold block_level_constraints_gen, block_constraint. rewrite Hast.
    rewrite (glue_instructions f n b Hb ast Hast). cbn [bind]. unfold ret at 1.
    rewrite (fold_left_map_eq _
      (fun acc '(pos, op, args) =>
         match op with
         | IAssert => match args with SUnknown :: _ => acc | a :: _ => inter acc (fst (ass (cond_of a))) | [] => acc end
         | IReturn =>
             match args with
             | SUnknown :: _ => acc
             | (SKnown aop _ _ _ as a) :: _ =>
                 match is_int_push_ins (fn_intcs f) aop with
                 | IntNum 0 => null
                 | _ => inter acc (fst (ass (cond_of a)))
                 end
             | [] => acc
             end
         | IErr | ICustomErr => null
         | _ => acc
         end)
      (fun e => (n, pos_of e))); [reflexivity|].
    intros acc [[k op] args] Hin. cbn [pos_of bind].
    rewrite (glue_ins_op f n b ast Hast k op args Hin). cbn [bind ret].
    pose proof (emulate_args_length _ _ _ Hast k op args Hin) as Hlen.
    destruct op; try reflexivity. (* err, TealerCustomErr and the other instructions: by computation *)
    - (* assert *)
      cbn [ifE]. rewrite (glue_stack_value f n b Hb ast Hast Hnd k _ args Hin). cbn [bind attr_args].
      rewrite pop_assert in Hlen. destruct (length_one _ Hlen) as [a ->]. cbn [subscript nth_error bind].
      destruct a as [| aop ap aa ao]; [reflexivity|]. cbn [isinstance_UnknownStackValue].
      rewrite (operand_asserted b ast fuel k _ _ _ Hast Hfuel Hin (or_introl eq_refl)) by discriminate.
      reflexivity.
    - (* return *)
      cbn [ifE]. rewrite (glue_stack_value f n b Hb ast Hast Hnd k _ args Hin). cbn [bind attr_args].
      rewrite pop_return in Hlen. destruct (length_one _ Hlen) as [a ->]. cbn [subscript nth_error bind].
      destruct a as [| aop ap aa ao]; [reflexivity|]. cbn [isinstance_UnknownStackValue attr_instruction bind ret].
      unfold call_is_int_push_ins.
      rewrite (operand_asserted b ast fuel k _ _ _ Hast Hfuel Hin (or_introl eq_refl)) by discriminate.
      destruct (is_int_push_ins (fn_intcs f) aop) as [| | m | s]; try reflexivity.
      destruct m; reflexivity.
  Qed.

  (* ====================================================================== *)
  (* 4. _path_level_constraints                                               *)
  (* ====================================================================== *)
  Notation pstate := (ConstraintsGen.pstate T).
  Notation lastw := (last_write T).

  (* the first-level entries created by the initialisation loop *)
  Fixpoint created (cr : list nat) (nx : list nat) : list nat :=
    match nx with [] => cr | x :: t => created (if nat_mem x cr then cr else cr ++ [x]) t end.

  Lemma nat_mem_app x l1 l2 : nat_mem x (l1 ++ l2) = nat_mem x l1 || nat_mem x l2.
  Proof. unfold nat_mem. apply existsb_app. Qed.

  Lemma created_mem x : forall nx cr, nat_mem x (created cr nx) = nat_mem x cr || nat_mem x nx.
  Proof.
    induction nx as [| y t IH]; intros cr; cbn [created].
    - cbn. rewrite orb_false_r. reflexivity.
    - rewrite IH. change (nat_mem x (y :: t)) with (Nat.eqb x y || nat_mem x t).
      destruct (nat_mem y cr) eqn:Ey.
      + destruct (Nat.eqb_spec x y) as [-> | _]; [rewrite Ey; reflexivity | reflexivity].
      + rewrite nat_mem_app. cbn. rewrite orb_false_r, orb_assoc. reflexivity.
  Qed.

  Definition step_init (s : pstate) (b : nat) : pstate :=
    (fst (path_ensure T s b), snd (path_ensure T s b) ++ [(b, univ)]).

  Lemma ensure_mem s b : nat_mem b (fst (path_ensure T s b)) = true.
  Proof.
    unfold path_ensure. destruct (nat_mem b (fst s)) eqn:E; [exact E|].
    cbn [fst]. rewrite nat_mem_app. cbn. rewrite Nat.eqb_refl. apply orb_true_r.
  Qed.

  Lemma fold_step_init : forall nx cr w,
    fold_left step_init nx (cr, w) = (created cr nx, w ++ map (fun x => (x, univ)) nx).
  Proof.
    induction nx as [| x t IH]; intros cr w; cbn [fold_left created map].
    - rewrite app_nil_r. reflexivity.
    - unfold step_init at 2. unfold path_ensure. cbn [fst snd].
      destruct (nat_mem x cr); cbn [fst snd]; rewrite IH, <- app_assoc; reflexivity.
  Qed.

  Lemma fold_left_some {A S} (G : option S -> A -> option S) (step : S -> A -> S) : forall l,
    (forall acc e, G (Some acc) e = Some (step acc e)) ->
    forall acc, fold_left G l (Some acc) = Some (fold_left step l acc).
  Proof.
    induction l as [| e l IH]; intros H acc; [reflexivity|]. cbn [fold_left]. rewrite H. apply IH. exact H.
  Qed.

  Lemma path_set_ok (s : pstate) b v :
    nat_mem b (fst s) = true -> path_set T s b v = Some (fst s, snd s ++ [(b, v)]).
  Proof. intros H. unfold path_set. rewrite H. reflexivity. Qed.

  Lemma lastw_app w b v succ :
    lastw (w ++ [(b, v)]) succ = if Nat.eqb b succ then Some v else lastw w succ.
  Proof. unfold last_write. rewrite fold_left_app. reflexivity. Qed.

  Lemma lastw_init succ : forall nx,
    lastw (map (fun x => (x, univ)) nx) succ = if nat_mem succ nx then Some univ else None.
  Proof.
    induction nx as [| x t IH] using rev_ind; [reflexivity|].
    rewrite map_app. cbn [map]. rewrite lastw_app, IH, nat_mem_app. cbn [nat_mem existsb].
    rewrite (Nat.eqb_sym x succ), orb_false_r.
    destruct (Nat.eqb succ x); [rewrite orb_true_r; reflexivity | rewrite orb_false_r; reflexivity].
  Qed.

  Lemma last_In {A} (l : list A) d : l <> [] -> In (List.last l d) l.
  Proof.
    intros H. destruct (exists_last H) as (l' & a & ->). rewrite last_last. apply in_or_app. right. left. reflexivity.
  Qed.

  Lemma next_global_branch pred xop :
    fexit_op f pred = Some xop -> cond_branch xop = true -> next_global f pred = Some (b_next pred).
  Proof.
    intros Hx Hc. unfold next_global, f_is_retsub. rewrite Hx.
    destruct xop; try discriminate; reflexivity.
  Qed.

  Theorem path_level_constraints_gen_eq : forall fuel n pred succ,
    fblock f n = Some pred -> main_name_fresh f -> NoDup (b_ins pred) -> fexit_op f pred <> None ->
    exit_next_ok f n pred -> length (b_ins pred) < fuel ->
    bind (path_gen fuel n) (fun w => lastw w succ) = ecst pred succ.
  Proof.
    intros fuel n pred succ Hb Hmain Hnd Hex Hgeo Hfuel.
    unfold path_level_constraints_gen, edge_constraint.
    rewrite (next_blocks_global_gen_eq f n pred Hmain Hb).
    destruct (next_global f pred) as [nx |] eqn:Hnx; [| reflexivity]. cbn [bind].
    rewrite (fold_left_some _ step_init).
    2:{ intros acc e. cbn [bind]. rewrite (path_set_ok _ _ _ (ensure_mem acc e)). reflexivity. }
    unfold path_init. rewrite fold_step_init. cbn [bind app].
    destruct (fexit_op f pred) as [xop |] eqn:Hx; [| congruence]. clear Hex.
    assert (Hop : b_ins pred <> [] /\ op_at (fn_prog f) (List.last (b_ins pred) 0) = Some xop).
    { unfold fexit_op in Hx. destruct (b_ins pred) as [| i r]; [discriminate|]. split; [discriminate | exact Hx]. }
    destruct Hop as [Hne Hop].
    set (k := List.last (b_ins pred) 0) in *.
    assert (Hexit : attr_exit_instr f n = Some (n, k)).
    { unfold attr_exit_instr. rewrite Hb. cbn [bind]. unfold k. destruct (b_ins pred); [congruence | reflexivity]. }
    rewrite Hexit. cbn [bind]. unfold ins_op. cbn [snd]. rewrite Hop. cbn [bind ret].
    (* everything that is not a conditional branch: the initialisation only *)
    assert (Hinit : bind (ret (path_writes T (created [] nx, map (fun x => (x, univ)) nx))) (fun w => lastw w succ) =
                    (if negb (nat_mem succ nx) then None else Some univ)).
    { cbn [bind ret path_writes snd]. rewrite lastw_init. destruct (nat_mem succ nx); reflexivity. }
    change (match xop with IBZ _ | IBNZ _ => true | _ => false end) with (cond_branch xop).
    destruct (cond_branch xop) eqn:Hcb; [| destruct xop; try discriminate Hcb; exact Hinit].
    (* a conditional branch *)
    cbn [ifE ret].
    transitivity
      (if negb (nat_mem succ nx) then None else
       match emulate (fn_prog f) (b_ins pred) [] with
       | None => None
       | Some ast =>
           match args_of ast k with
           | Some (SUnknown :: _) | Some [] | None => Some univ
           | Some (a :: _) =>
               let '(tv, fv) := ass (cond_of a) in
               let is_bz := match xop with IBZ _ => true | _ => false end in
               match b_next pred with
               | [j] =>
                   if branch_to_next (fn_prog f) xop k then Some univ
                   else if Nat.eqb succ j then Some (if is_bz then fv else tv) else Some univ
               | d :: j :: _ =>
                   if Nat.eqb succ d then Some (if is_bz then tv else fv)
                   else if Nat.eqb succ j then Some (if is_bz then fv else tv)
                   else Some univ
               | [] => None
               end
           end
       end).
    2:{ destruct xop; try discriminate Hcb; reflexivity. }
    assert (Hpop : stack_pop_size xop = Some 1) by (destruct xop; try discriminate Hcb; reflexivity).
    assert (Enx : nx = b_next pred).
    { rewrite (next_global_branch pred xop Hx Hcb) in Hnx. congruence. }
    set (isbz := match xop with IBZ _ => true | _ => false end).
    set (isbnz := match xop with IBNZ _ => true | _ => false end).
    assert (Ebnz : isbnz = negb isbz) by (unfold isbz, isbnz; destruct xop; try discriminate Hcb; reflexivity).
    clearbody isbnz isbz. subst isbnz.
    destruct (emulate (fn_prog f) (b_ins pred) []) as [ast |] eqn:Hast.
    2:{ unfold call_get_stack_value_for_ins. cbn [fst]. rewrite Hb. cbn [bind]. rewrite Hast. cbn [bind].
        destruct (negb (nat_mem succ nx)); reflexivity. }
    (* the entry of the exit instruction *)
    assert (Hent : exists args, In (k, xop, args) ast).
    { pose proof (last_In (b_ins pred) 0 Hne) as Hk. fold k in Hk.
      rewrite <- (emulate_positions _ _ _ _ Hast) in Hk. apply in_map_iff in Hk.
      destruct Hk as ([[k' o] a] & Ek & Hin). cbn [pos_of] in Ek. subst k'.
      pose proof (emulate_ops _ _ _ _ Hast k o a Hin) as Ho. rewrite Hop in Ho. inversion Ho; subst o. eauto. }
    destruct Hent as (args & Hin).
    rewrite (glue_stack_value f n pred Hb ast Hast Hnd k xop args Hin). cbn [bind attr_args].
    rewrite args_of_find, (ast_find _ _ ast k xop args (fun x => x) (fun e => iff_refl _) Hast Hnd Hin).
    cbn [option_map snd].
    pose proof (emulate_args_length _ _ _ Hast k xop args Hin) as Hlen. rewrite Hpop in Hlen.
    destruct (length_one _ Hlen) as [a ->]. cbn [subscript nth_error bind].
    destruct a as [| aop ap aa ao]; cbn [isinstance_UnknownStackValue].
    { exact Hinit. }
    rewrite (operand_asserted pred ast fuel k _ _ _ Hast Hfuel Hin (or_introl eq_refl)) by discriminate.
    cbn [bind]. destruct (ass (cond_of (SKnown aop ap aa ao))) as [tv fv]. cbn [fst snd].
    unfold attr_next. rewrite Hb. cbn [option_map bind ret].
    set (w0 := map (fun x => (x, univ)) nx) in *.
    assert (Hw0 : lastw w0 succ = if nat_mem succ nx then Some univ else None) by apply lastw_init.
    destruct (b_next pred) as [| d [| j r]] eqn:En.
    - (* no successor: IndexError *)
      cbn. destruct (negb (nat_mem succ nx)); reflexivity.
    - (* a single successor *)
      cbn [length Nat.eqb ifE ret bind].
      destruct (Hgeo xop d Hx Hcb En) as (l' & Hl' & Hlt). fold k in Hl', Hlt.
      rewrite Hl'. cbn [bind ret]. rewrite Hlt.
      destruct (branch_to_next (fn_prog f) xop k); cbn [ifE ret].
      + exact Hinit.
      + cbn [subscript nth_error bind].
        assert (Hd : nat_mem d (fst (created [] nx, w0)) = true)
          by (cbn [fst]; rewrite created_mem, Enx; cbn; rewrite Nat.eqb_refl; reflexivity).
        destruct isbz; cbn [negb ifE ret]; rewrite (path_set_ok _ _ _ Hd);
          cbn [bind ret path_writes fst snd]; rewrite lastw_app, Hw0, Enx; cbn [nat_mem existsb];
          rewrite orb_false_r, (Nat.eqb_sym d succ); destruct (Nat.eqb succ d); reflexivity.
    - (* two successors: the jump assignment first, the default one second *)
      cbn [length Nat.eqb ifE ret subscript nth_error bind].
      assert (Hj : forall w : list (nat * T), nat_mem j (fst (created [] nx, w)) = true)
        by (intros w; cbn [fst]; rewrite created_mem, Enx; cbn; rewrite Nat.eqb_refl, !orb_true_r; reflexivity).
      assert (Hd : forall w : list (nat * T), nat_mem d (fst (created [] nx, w)) = true)
        by (intros w; cbn [fst]; rewrite created_mem, Enx; cbn; rewrite Nat.eqb_refl; reflexivity).
      assert (Hmem : nat_mem succ nx = Nat.eqb succ d || (Nat.eqb succ j || nat_mem succ r)) by (rewrite Enx; reflexivity).
      destruct isbz; cbn [negb ifE ret]; rewrite (path_set_ok _ _ _ (Hj _)); cbn [bind fst snd];
        rewrite (path_set_ok _ _ _ (Hd _)); cbn [bind ret path_writes fst snd]; rewrite !lastw_app, Hw0;
        rewrite (Nat.eqb_sym d succ), (Nat.eqb_sym j succ), Hmem;
        (destruct (Nat.eqb succ d); [reflexivity|]); (destruct (Nat.eqb succ j); [reflexivity|]);
        cbn [orb]; destruct (nat_mem succ r); reflexivity.
  Qed.
End Dom.

(* ====================================================================== *)
(* 5. The same for `In b (fn_blocks f)` under the executable definedness check *)
(* ====================================================================== *)
Corollary constraints_gen_eq_In : forall T univ null union inter single f b fuel succ,
  NoDup (ids f) -> In b (fn_blocks f) -> defined_okb f = true -> NoDup (b_ins b) -> length (b_ins b) < fuel ->
  block_level_constraints_gen T univ null union inter single f fuel (b_idx b) =
    block_constraint T univ null union inter single f b /\
  (main_name_fresh f -> fexit_op f b <> None -> exit_next_ok f (b_idx b) b ->
   bind (path_level_constraints_gen T univ null union inter single f fuel (b_idx b)) (fun w => last_write T w succ) =
     edge_constraint T univ null union inter single f b succ).
Proof.
  intros T univ null union inter single f b fuel succ Hids Hin Hdef Hnd Hfuel.
  pose proof (fblock_of_In f b Hids Hin) as Hb. split.
  - apply block_level_constraints_gen_eq; try assumption.
    destruct (def_emulate f Hdef b Hin) as [ast ->]. discriminate.
  - intros Hm Hex Hgeo. apply path_level_constraints_gen_eq; assumption.
Qed.

(* what _calculate_reachin reads (Gen/GraphGen.v: path_context[succ][pred], glued to the model's edge_constraint) is
   what the regenerated _path_level_constraints wrote while it processed pred *)
Corollary self_path_contexts_gen_eq : forall T univ null union inter single f fuel n pred succ,
  fblock f n = Some pred -> main_name_fresh f -> NoDup (b_ins pred) -> fexit_op f pred <> None ->
  exit_next_ok f n pred -> length (b_ins pred) < fuel ->
  path_get T (self_path_contexts T univ null union inter single f) succ n =
  bind (path_level_constraints_gen T univ null union inter single f fuel n) (fun w => last_write T w succ).
Proof.
  intros T univ null union inter single f fuel n pred succ Hb Hm Hnd Hex Hgeo Hfuel.
  unfold path_get, self_path_contexts. rewrite Hb. cbn [bind]. symmetry.
  apply path_level_constraints_gen_eq; assumption.
Qed.

(* ====================================================================== *)
(* 6. exit_next_ok holds on the blocks of a parsed contract                 *)
(* ====================================================================== *)
(* on a text without TealerCustomErr instructions the instruction-level successors are Cfg.ins_next *)
Lemma src_line_ltb p k : (forall j, op_at p j <> Some ICustomErr) -> src_line p k = Nat.ltb k (length p).
Proof.
  intros Hsrc. unfold src_line. destruct (op_at p k) as [o |] eqn:Ho.
  - assert (Hlt : k < length p).
    { unfold op_at in Ho. destruct (nth_error p k) eqn:E; [| discriminate]. apply nth_error_Some. congruence. }
    apply Nat.ltb_lt in Hlt. rewrite Hlt. destruct o; try reflexivity. exfalso. exact (Hsrc _ Ho).
  - symmetry. apply Nat.ltb_ge. unfold op_at in Ho.
    destruct (nth_error p k) eqn:E; [discriminate|]. apply nth_error_None. exact E.
Qed.

Lemma attr_ins_next_src f i :
  (forall k, op_at (fn_prog f) k <> Some ICustomErr) -> attr_ins_next f i = ins_next (fn_prog f) (snd i).
Proof.
  intros Hsrc. unfold attr_ins_next, ins_next. rewrite (src_line_ltb _ _ Hsrc).
  destruct (op_at (fn_prog f) (snd i)) as [o |]; [| reflexivity]. cbn [bind].
  destruct (map_opt (find_label (fn_prog f)) (jump_labels o)) as [js |]; reflexivity.
Qed.

Section Parsed.
  Variables (p : prog) (t : teal).
  Hypothesis Hparse : parse_teal p = Ok t.
  (* the source text holds no TealerCustomErr instruction (the parser creates none) *)
  Hypothesis Hsrc : forall k, op_at p k <> Some ICustomErr.
  Notation W := (whole_function t).

  Theorem exit_next_ok_whole : forall pred, In pred (fn_blocks W) -> exit_next_ok W (b_idx pred) pred.
  Proof.
    intros pred Hin br j Hex Hcb Hnx.
    assert (Hbr : exists l, br = IBZ l \/ br = IBNZ l) by (destruct br; try discriminate Hcb; eauto).
    destruct Hbr as (l & Hbr).
    rewrite attr_ins_next_src by (rewrite (whole_prog p t Hparse); exact Hsrc).
    rewrite (whole_prog p t Hparse). cbn [snd].
    apply (fn_blocks_In t) in Hin. destruct Hin as [_ Htb].
    assert (Hb : In pred (t_blocks t)) by (apply (in_t_blocks p t pred Hparse); exact Htb).
    unfold fexit_op in Hex. rewrite (whole_prog p t Hparse) in Hex.
    destruct (b_ins pred) as [| h r] eqn:Ei; [discriminate|]. rewrite <- Ei in *.
    rewrite (branch_to_next_ins_next p t Hparse pred br l j Hb ltac:(rewrite Ei; discriminate) Hex Hbr Hnx).
    destruct (walk_setup p t Hparse) as (bs & rbs & Hbs & Hc).
    destruct (tblock_raw p t bs rbs Hparse Hbs Hc _ pred Htb) as (b0 & rb & nx & _ & _ & Hi & _ & _ & _ & _ & Hinx).
    rewrite <- Hi in Hinx. exists nx. split; [exact Hinx|].
    unfold two_next. rewrite Hinx. destruct nx as [| a [| c r']]; reflexivity.
  Qed.
End Parsed.

(* ... and on the blocks of a function cut out of it by construct_function (Group.construct_function = cf_func on a
   valid dispatch path): the err instructions appended to the text are not source lines *)
Lemma map_opt_ext {A B} (g1 g2 : A -> option B) : (forall a, g1 a = g2 a) -> forall l, map_opt g1 l = map_opt g2 l.
Proof. intros H l. induction l as [| a l IH]; [reflexivity|]. cbn [map_opt]. rewrite H, IH. reflexivity. Qed.

Section CutFunction.
  Variables (p : prog) (t : teal) (path : list nat).
  Hypothesis Hparse : parse_teal p = Ok t.
  Hypothesis Hsrc : forall k, op_at p k <> Some ICustomErr.
  Notation W := (whole_function t).
  Notation F := (cf_func t path).

  Lemma src_line_cut k : src_line (fn_prog F) k = src_line (t_prog t) k.
  Proof.
    unfold src_line. destruct (Nat.lt_ge_cases k (length (t_prog t))) as [Hlt | Hge].
    - rewrite (cf_op_at_old p t path Hparse k Hlt). reflexivity.
    - assert (E : op_at (t_prog t) k = None).
      { unfold op_at. destruct (nth_error (t_prog t) k) eqn:En; [| reflexivity].
        exfalso. apply (proj2 (nth_error_None (t_prog t) k)) in Hge. congruence. }
      rewrite E. destruct (cf_op_at_new p t path Hparse k Hge) as [-> | ->]; reflexivity.
  Qed.

  Lemma attr_ins_next_cut n n' k : k < length (t_prog t) -> attr_ins_next F (n, k) = attr_ins_next W (n', k).
  Proof.
    intros Hk. unfold attr_ins_next. cbn [snd]. change (fn_prog W) with (t_prog t).
    rewrite (cf_op_at_old p t path Hparse k Hk), src_line_cut.
    destruct (op_at (t_prog t) k) as [o |]; [| reflexivity]. cbn [bind].
    destruct (cf_prog p t path Hparse) as (m & E).
    rewrite (map_opt_ext (find_label (fn_prog F)) (find_label (t_prog t))); [reflexivity|].
    intros l. rewrite E. apply find_label_errs.
  Qed.

  Theorem exit_next_ok_cut : forall n blk, fblock F n = Some blk -> exit_next_ok F n blk.
  Proof.
    intros n blk Hb br j Hex Hcb Hnx.
    destruct (le_lt_dec n (max_idx (t_blocks t))) as [Hold | Herr].
    2:{ destruct (cf_err_block p t path Hparse n blk Hb Herr) as (_ & pos & _ & _ & _ & He).
        rewrite He in Hex. inversion Hex; subst br. discriminate Hcb. }
    assert (Hne : ~ is_err_block t n) by (unfold is_err_block; lia).
    destruct (cf_block_bwd p t path Hparse n blk Hb Hne) as (b0 & HW & Hi & Hx & Hrel).
    rewrite Hnx in Hrel. inversion Hrel as [| ? j0 ? r0 _ Hr0 E1 E2]. inversion Hr0. subst.
    pose proof (exit_next_ok_whole p t Hparse Hsrc b0 (fblock_In _ _ _ HW)) as Hok.
    rewrite Hx in Hex.
    destruct (Hok br j0 Hex Hcb (eq_sym E2)) as (l & Hl & Hlt).
    assert (Hk : List.last (b_ins b0) 0 < length (t_prog t)).
    { apply (tblock_ins_lt p t Hparse n b0 _ (W_fblock_tblock t n b0 HW)).
      apply last_In_ne. unfold fexit_op in Hex. destruct (b_ins b0); [discriminate | discriminate]. }
    exists l. rewrite Hi. split.
    - rewrite (attr_ins_next_cut n (b_idx b0) _ Hk). exact Hl.
    - destruct (cf_prog p t path Hparse) as (m & E). rewrite E, branch_to_next_errs. exact Hlt.
  Qed.
End CutFunction.

(* ====================================================================== *)
(* 7. Transport: soundness of the generated constraints                     *)
(* ====================================================================== *)
(* ExecLemmas.block_constraint_sound and edge_constraint_sound restated for the generated functions: a block that
   executes without failing passes the value the regenerated _block_level_constraints stores for it, and the edge it
   leaves by passes the value the regenerated _path_level_constraints stores for that edge. *)
Section Sound.
  Variable T : Type.
  Variable univ null : T.
  Variable union inter : T -> T -> T.
  Variable single : instr -> nat -> list sval -> T * T.
  Variable V : Type.
  Variable gamma : T -> V -> Prop.
  Hypothesis gamma_univ : forall x, gamma univ x.
  Hypothesis gamma_union_l : forall a b x, gamma a x -> gamma (union a b) x.
  Hypothesis gamma_union_r : forall a b x, gamma b x -> gamma (union a b) x.
  Hypothesis gamma_inter : forall a b x, gamma a x -> gamma b x -> gamma (inter a b) x.
  Variable e : env.
  Variable sem : opsem.
  Hypothesis Hsem : sem_ok e sem.
  Variable f : func.
  Variable x : V.

  Theorem block_level_constraints_gen_sound : forall fuel n blk cs tr cs' c,
    fn_intcs f = e_intcs e ->
    fblock f n = Some blk -> NoDup (b_ins blk) -> length (b_ins blk) < fuel ->
    bexec e sem (fn_prog f) blk cs tr cs' ->
    (forall op pos args, block_leaf f blk op pos args -> leaf_hyp T single V gamma e x op pos args) ->
    block_level_constraints_gen T univ null union inter single f fuel n = Some c -> gamma c x.
  Proof.
    intros fuel n blk cs tr cs' c Hintcs Hb Hnd Hfuel Hex Hleaves Hc.
    destruct (crun_emulate sem (fn_prog f) _ _ _ _ (proj1 Hex) []) as [ast Hast].
    rewrite (block_level_constraints_gen_eq T univ null union inter single f fuel n blk Hb Hnd) in Hc;
      [| rewrite Hast; discriminate | exact Hfuel].
    exact (block_constraint_sound T univ null union inter single V gamma gamma_univ gamma_union_l gamma_union_r
             gamma_inter e sem Hsem f Hintcs x blk cs cs' tr Hex Hleaves ast Hast c Hc).
  Qed.

  Theorem path_level_constraints_gen_sound : forall fuel n blk cs tr cs' w b' c,
    fblock f n = Some blk -> main_name_fresh f -> NoDup (b_ins blk) -> NoDup (b_next blk) ->
    fexit_op f blk <> None -> exit_next_ok f n blk -> length (b_ins blk) < fuel ->
    (forall l, fexit_op f blk = Some (IBZ l) \/ fexit_op f blk = Some (IBNZ l) -> find_label (fn_prog f) l <> None) ->
    bexec e sem (fn_prog f) blk cs tr cs' ->
    (forall op pos args, block_leaf f blk op pos args -> leaf_hyp T single V gamma e x op pos args) ->
    branch_ok f blk tr b' ->
    path_level_constraints_gen T univ null union inter single f fuel n = Some w ->
    last_write T w b' = Some c -> gamma c x.
  Proof.
    intros fuel n blk cs tr cs' w b' c Hb Hmain Hnd Hnn Hexit Hgeo Hfuel Hlab Hex Hleaves Hbr Hw Hc.
    destruct (crun_emulate sem (fn_prog f) _ _ _ _ (proj1 Hex) []) as [ast Hast].
    pose proof (path_level_constraints_gen_eq T univ null union inter single f fuel n blk b' Hb Hmain Hnd Hexit Hgeo Hfuel) as E.
    rewrite Hw in E. cbn [bind] in E. rewrite Hc in E. symmetry in E.
    exact (edge_constraint_sound T univ null union inter single V gamma gamma_univ gamma_union_l gamma_union_r
             gamma_inter e sem Hsem f x blk cs cs' tr Hex Hleaves ast Hast Hnd Hnn Hlab b' c Hbr E).
  Qed.
End Sound.

(* ====================================================================== *)
(* 8. The hypotheses are needed: where the Python and the model differ      *)
(* ====================================================================== *)
Definition w_single (op : instr) (pos : nat) (args : list sval) : nat * nat := (2, 3).
Notation w_path := (path_level_constraints_gen nat 0 1 Nat.add Nat.mul w_single).
Notation w_edge := (edge_constraint nat 0 1 Nat.add Nat.mul w_single).

(* (a) a block WITHOUT instructions: Python's block.exit_instr raises IndexError (self._instructions[-1]); the model
   reads "no exit instruction" and gives the edge no constraint.  No such block exists in a parsed contract. *)
Definition w_empty : func := mkFunc [] [mkBlock 0 [] [1] []; mkBlock 1 [] [] [0]] 0 [0; 1] [] [] None.
Theorem path_level_constraints_gen_eq_refuted_empty :
  exists f n pred succ fuel,
    fblock f n = Some pred /\ main_name_fresh f /\ NoDup (b_ins pred) /\ exit_next_ok f n pred /\
    length (b_ins pred) < fuel /\
    bind (w_path f fuel n) (fun w => last_write nat w succ) = None /\ w_edge f pred succ = Some 0.
Proof.
  exists w_empty, 0, (mkBlock 0 [] [1] []), 1, 1.
  split; [reflexivity|]. split; [reflexivity|]. split; [constructor|].
  split; [intros br j H; discriminate H|]. split; [cbn; lia|]. split; vm_compute; reflexivity.
Qed.

(* (b) a func value whose block graph contradicts its text: the block ends in `bz L`, has ONE successor, L is not the
   next line and the branch is not the last source line.  Python (len(exit_instr.next) > 1) stores no constraint, the
   model (the jump target is not the next line) stores the jump side.  exit_next_ok excludes it; it cannot come from
   parse_teal (section 6). *)
Definition w_geo_prog : prog :=
  [mkIns 1 (IInt (IANum 1)); mkIns 2 (IBZ "L"); mkIns 3 IErr; mkIns 4 (ILabel "L")].
Definition w_geo : func := mkFunc w_geo_prog [mkBlock 0 [0; 1] [1] []; mkBlock 1 [3] [] [0]] 0 [0; 1] [] [] None.
Theorem path_level_constraints_gen_eq_refuted_geometry :
  exists f n pred succ fuel,
    fblock f n = Some pred /\ main_name_fresh f /\ NoDup (b_ins pred) /\ fexit_op f pred <> None /\
    length (b_ins pred) < fuel /\
    bind (w_path f fuel n) (fun w => last_write nat w succ) = Some 0 /\ w_edge f pred succ = Some 3.
Proof.
  exists w_geo, 0, (mkBlock 0 [0; 1] [1] []), 1, 3.
  split; [reflexivity|]. split; [reflexivity|].
  split; [repeat constructor; cbn; intuition discriminate|]. split; [discriminate|]. split; [cbn; lia|].
  split; vm_compute; reflexivity.
Qed.

(* (c) laziness: Python emulates the stack of a block only when it meets an assert / return (get_stack_value_for_ins,
   lru-cached construct_stack_ast); the model emulates every block first.  On a block without assert / return whose
   emulation is undefined (an instruction without arity in the class table -- no such instruction object exists in
   tealer) the model raises and the Python does not.  TotalSolver.defined_okb excludes it. *)
Definition w_lazy : func :=
  mkFunc [mkIns 1 (IOther "NoSuchClass" [])] [mkBlock 0 [0] [] []] 0 [0] [] [] None.
Theorem block_level_constraints_gen_eq_refuted_lazy :
  exists f n b fuel,
    fblock f n = Some b /\ NoDup (b_ins b) /\ length (b_ins b) < fuel /\
    block_level_constraints_gen nat 0 1 Nat.add Nat.mul w_single f fuel n = Some 0 /\
    block_constraint nat 0 1 Nat.add Nat.mul w_single f b = None.
Proof.
  exists w_lazy, 0, (mkBlock 0 [0] [] []), 2.
  split; [reflexivity|]. split; [repeat constructor; cbn; intuition|]. split; [cbn; lia|].
  split; vm_compute; reflexivity.
Qed.

Print Assumptions emulate_depth.
Print Assumptions block_level_constraints_gen_eq.
Print Assumptions path_level_constraints_gen_eq.
Print Assumptions constraints_gen_eq_In.
Print Assumptions self_path_contexts_gen_eq.
Print Assumptions exit_next_ok_whole.
Print Assumptions exit_next_ok_cut.
Print Assumptions block_level_constraints_gen_sound.
Print Assumptions path_level_constraints_gen_sound.
Print Assumptions path_level_constraints_gen_eq_refuted_empty.
Print Assumptions path_level_constraints_gen_eq_refuted_geometry.
Print Assumptions block_level_constraints_gen_eq_refuted_lazy.
