(* EXACTNESS ("L6") of the two dataflow passes of Model/Analysis.v with respect to Spec/Literal.v.

   Lemmas/RunLemmas.v proves soundness: a value admitted along an accepting run is in the result.  This file
   proves the converse for an EXACT concretisation gamma (gamma of null is empty, gamma of a union / an
   intersection is at most the union / the intersection of the gammas): every value x in the result at b is
   justified by the graph itself,
       forward  result holds x at b  ->  ReachOut b        (forward_exact)
       backward result holds x at b  ->  LiveOut b         (backward_exact, solve_exact)
   and, for fixpoints (covering worklists), LiveOut b -> the result holds x at b  (solve_exact_iff).
   Consequence (C03): if no literal accepting path admits x at the entry block and the detector's validated
   predicate at the entry follows from "x is excluded there", the detector reports nothing. *)
From Coq Require Import String List NArith ZArith Bool Arith Lia.
From Tealer Require Import Tables Syntax Parse Cfg StackAst Keys Analysis SolverLemmas Literal.
From Tealer Require Domains Detect RunLemmas.
Import ListNotations.
Open Scope list_scope.

(* ------------------------------------------------------------------ graph facts *)
Lemma existsb_find_some {A} (P : A -> bool) (l : list A) : existsb P l = true -> exists c, find P l = Some c.
Proof.
  induction l as [|a l IH]; simpl; [discriminate|].
  destruct (P a); [eauto|exact IH].
Qed.

(* the block after a callsub block has a call site: the "forall c" of Spec/Literal.v is the equations' "exists c" *)
Lemma rp_has_callsub f blk : is_sub_return_point f blk = true -> exists c, callsub_block_of f blk = Some c.
Proof. apply existsb_find_some. Qed.

Lemma leaf_next_nil f blk : leaf_global f blk = true -> next_global f blk = Some [].
Proof.
  unfold leaf_global. intros H.
  apply andb_true_iff in H. destruct H as [H H3]. apply andb_true_iff in H. destruct H as [H1 H2].
  apply negb_true_iff in H2, H3. unfold next_global. rewrite H2.
  unfold f_is_callsub in H3.
  destruct (fexit_op f blk) as [[]|]; try discriminate; destruct (b_next blk); try discriminate; reflexivity.
Qed.

(* ------------------------------------------------------------------ (D) the detector, entry block validated *)
Lemma entry_validated_no_report f (validated : nat -> bool) (report : list nat -> bool) :
  validated (fn_entry f) = true ->
  forall fuel, fuel <> 0 -> Detect.detect_paths f validated report fuel = Done [].
Proof.
  intros Hv [|fu] Hf; [congruence|].
  unfold Detect.detect_paths. simpl. rewrite Hv. reflexivity.
Qed.

Section Exact.
  Variable T : Type.
  Variable t_eqb : T -> T -> bool.
  Variable univ null : T.
  Variable union inter : T -> T -> T.
  Variable single : instr -> nat -> list sval -> T * T.
  Variable f : func.

  (* concretisation, for one fixed concrete value x *)
  Variable V : Type.
  Variable gamma : T -> V -> Prop.
  Variable x : V.

  (* exactness laws *)
  Hypothesis gamma_null : ~ gamma null x.
  Hypothesis gamma_union_inv : forall a b, gamma (union a b) x -> gamma a x \/ gamma b x.
  Hypothesis gamma_inter_inv : forall a b, gamma (inter a b) x -> gamma a x /\ gamma b x.

  Notation state := (Analysis.state T).
  Notation lookup := (Analysis.lookup T).
  Notation update := (Analysis.update T).
  Notation reachin := (Analysis.reachin T univ null union inter single f).
  Notation livein := (Analysis.livein T null union inter f).
  Notation edgec := (edge_constraint T univ null union inter single f).
  Notation rst := (SolverLemmas.rstep T univ null union inter single f).
  Notation lst := (SolverLemmas.lstep T union).
  Notation forward := (Analysis.forward T t_eqb univ null union inter single f).
  Notation backward := (Analysis.backward T t_eqb null union inter f).
  Notation fwd_st0 := (SolverLemmas.fwd_st0 T null f).
  Notation bwd_st0 := (SolverLemmas.bwd_st0 T null f).

  (* block-level constraints (the init_constraints result) *)
  Variable bc : list (nat * T).

  (* x passes block b / x can take the edge p -> b *)
  Definition okb (b : nat) : Prop := exists c, lookup bc b = Some c /\ gamma c x.
  Definition oke (p b : nat) : Prop :=
    exists pb c, fblock f p = Some pb /\ edgec pb b = Some c /\ gamma c x.

  Notation ReachOut := (Literal.ReachOut f okb oke).
  Notation LiveOut := (Literal.LiveOut f okb oke).

  (* x is in the value the state holds for block b *)
  Definition G (st : state) (b : nat) : Prop := exists v, lookup st b = Some v /\ gamma v x.

  (* the existential edge predicate implies the universal one used by Lemmas/RunLemmas.v *)
  Lemma oke_run p b : oke p b -> RunLemmas.oke T univ null union inter single f V gamma x p b.
  Proof.
    intros [pb [c [H1 [H2 H3]]]] pb' c' E1 E2. rewrite H1 in E1. inversion E1; subst pb'.
    rewrite H2 in E2. inversion E2; subst c'. exact H3.
  Qed.

  (* ================================================================ reachin / livein, inverted *)
  Lemma rfold_inv st xb ps : forall a r, fold_left (rst st xb) ps (Some a) = Some r -> gamma r x ->
    gamma a x \/ exists p, In p ps /\ G st p /\ oke p (b_idx xb).
  Proof.
    induction ps as [|q ps IH]; intros a r H Hr.
    - simpl in H. inversion H; subst; auto.
    - cbn [fold_left] in H.
      destruct (rst st xb (Some a) q) as [a'|] eqn:E; [|rewrite rfold_none in H; discriminate].
      unfold SolverLemmas.rstep in E.
      destruct (lookup st q) as [ro|] eqn:El; [|discriminate].
      destruct (fblock f q) as [pb|] eqn:Ep; [|discriminate].
      destruct (edgec pb (b_idx xb)) as [ec|] eqn:Ee; [|discriminate]. inversion E; subst a'.
      destruct (IH _ _ H Hr) as [Ha|[p [Hin R]]].
      + apply gamma_union_inv in Ha. destruct Ha as [Ha|Ha]; auto.
        apply gamma_inter_inv in Ha. destruct Ha as [Hro Hec]. right. exists q. split; [left; auto|]. split.
        * exists ro. auto.
        * exists pb, ec. auto.
      + right. exists p. split; [right; auto|auto].
  Qed.

  Lemma reachin_exact st xb ri : reachin st xb = Some ri -> gamma ri x ->
    (b_idx xb = fn_entry f \/
     exists ps p, prev_global f xb = Some ps /\ In p ps /\ G st p /\ oke p (b_idx xb)) /\
    (forall c, after_call f xb c -> G st c).
  Proof.
    rewrite reachin_unfold. intros H Hg.
    destruct (prev_global f xb) as [ps|] eqn:Hps; [|discriminate].
    destruct (fold_left (rst st xb) ps _) as [acc|] eqn:F; [|discriminate].
    assert (Hacc : gamma acc x /\ forall c, after_call f xb c -> G st c).
    { unfold after_call. destruct (is_sub_return_point f xb) eqn:Erp.
      - destruct (callsub_block_of f xb) as [c|] eqn:Ec; [|discriminate].
        destruct (lookup st c) as [rc|] eqn:El; [|discriminate]. inversion H; subst ri.
        apply gamma_inter_inv in Hg. destruct Hg as [Ha Hrc]. split; auto.
        intros c' [_ Hc']. inversion Hc'; subst c'. exists rc. auto.
      - inversion H; subst ri. split; auto. intros c [Hc _]. discriminate. }
    destruct Hacc as [Hacc Hcall]. split; auto.
    destruct (rfold_inv _ _ _ _ _ F Hacc) as [Hi|[p [Hin [Hg' Ho]]]].
    - destruct (Nat.eqb (b_idx xb) (fn_entry f)) eqn:E.
      + left. apply Nat.eqb_eq. exact E.
      + contradiction.
    - right. exists ps, p. auto.
  Qed.

  Lemma lfold_inv st nx : forall a r, fold_left (lst st) nx (Some a) = Some r -> gamma r x ->
    gamma a x \/ exists s, In s nx /\ G st s.
  Proof.
    induction nx as [|q nx IH]; intros a r H Hr.
    - simpl in H. inversion H; subst; auto.
    - cbn [fold_left] in H.
      destruct (lst st (Some a) q) as [a'|] eqn:E; [|rewrite lfold_none in H; discriminate].
      unfold lstep in E. destruct (lookup st q) as [lo|] eqn:El; [|discriminate]. inversion E; subst a'.
      destruct (IH _ _ H Hr) as [Ha|[s [Hin R]]].
      + apply gamma_union_inv in Ha. destruct Ha as [Ha|Ha]; auto.
        right. exists q. split; [left; auto|]. exists lo. auto.
      + right. exists s. split; [right; auto|auto].
  Qed.

  Lemma livein_exact st xb li : livein st xb = Some li -> gamma li x ->
    (exists nx s, next_global f xb = Some nx /\ In s nx /\ G st s) /\
    (forall r, returning_call f xb r -> G st r).
  Proof.
    rewrite livein_unfold. intros H Hg.
    destruct (next_global f xb) as [nx|] eqn:Hnx; [|discriminate].
    destruct (fold_left (lst st) nx _) as [acc|] eqn:F; [|discriminate].
    assert (Hacc : gamma acc x /\ forall r, returning_call f xb r -> G st r).
    { unfold returning_call.
      assert (Hdef : Some acc = Some li ->
                (forall r, ~ (exists l s, fexit_op f xb = Some (ICallsub l) /\ sub_return_point xb = Some r /\
                                        f_find_sub f l = Some s /\ sub_retsub_blocks f s <> [])) ->
                gamma acc x /\ forall r, (exists l s, fexit_op f xb = Some (ICallsub l) /\ sub_return_point xb = Some r /\
                                        f_find_sub f l = Some s /\ sub_retsub_blocks f s <> []) -> G st r).
      { intros E Hno. inversion E; subst li. split; auto. intros r Hr. destruct (Hno r Hr). }
      destruct (fexit_op f xb) as [op|] eqn:Eop.
      2:{ apply Hdef; auto. intros r [l [s [E _]]]. discriminate. }
      destruct op; try (apply Hdef; [exact H|intros r [l' [s [E _]]]; discriminate]).
      destruct (sub_return_point xb) as [rp|] eqn:Erp.
      2:{ apply Hdef; auto. intros r [l' [s [_ [E _]]]]. discriminate. }
      destruct (f_find_sub f l) as [s|] eqn:Es; [|discriminate].
      destruct (sub_retsub_blocks f s) as [|n0 rs] eqn:Er.
      { apply Hdef; auto. intros r [l' [s' [E1 [_ [E2 E3]]]]]. inversion E1; subst l'.
        rewrite Es in E2. inversion E2; subst s'. auto. }
      destruct (lookup st rp) as [lr|] eqn:El; [|discriminate]. inversion H; subst li.
      apply gamma_inter_inv in Hg. destruct Hg as [Ha Hlr]. split; auto.
      intros r [l' [s' [_ [E _]]]]. inversion E; subst r. exists lr. auto. }
    destruct Hacc as [Hacc Hret]. split; auto.
    destruct (lfold_inv _ _ _ _ F Hacc) as [Hi|[s [Hin Hs]]]; [contradiction|].
    exists nx, s. auto.
  Qed.

  (* ================================================================ (A) the forward pass *)
  Definition fwd_justified (st : state) : Prop := forall b v, lookup st b = Some v -> gamma v x -> ReachOut b.

  Lemma fwd_st0_justified : fwd_justified fwd_st0.
  Proof.
    intros b v H Hg. unfold SolverLemmas.fwd_st0 in H. rewrite lookup_map_blocks in H.
    destruct (fblock f b); [|discriminate]. simpl in H. inversion H; subst v. contradiction.
  Qed.

  Lemma fwd_step_justified blockc st b xb ri bcv old :
    (forall c, blockc b = Some c -> lookup bc b = Some c) ->
    fwd_justified st -> fblock f b = Some xb -> reachin st xb = Some ri -> blockc b = Some bcv ->
    lookup st b = Some old -> fwd_justified (update st b (inter ri bcv)).
  Proof.
    intros Hbc HP Hfb Hri Hb Hold b' v Hl Hg.
    destruct (Nat.eq_dec b b') as [<-|Hne].
    2:{ rewrite lookup_update_other in Hl by exact Hne. eapply HP; eauto. }
    rewrite (lookup_update_same T st b _ old Hold) in Hl. inversion Hl; subst v.
    apply gamma_inter_inv in Hg. destruct Hg as [Hgri Hgbc].
    assert (Hok : okb b) by (exists bcv; split; auto).
    pose proof (fblock_idx _ _ _ Hfb) as Hidx.
    destruct (reachin_exact _ _ _ Hri Hgri) as [Hsrc Hcall].
    assert (Hc : forall c, after_call f xb c -> ReachOut c).
    { intros c Hc. destruct (Hcall c Hc) as [w [E Hw]]. eapply HP; eauto. }
    rewrite Hidx in Hsrc. destruct Hsrc as [He|[ps [p [Hps [Hin [[w [E Hw]] Ho]]]]]].
    - eapply RO_entry; eauto.
    - eapply RO_step; eauto.
  Qed.

  Theorem forward_exact fuel wl0 ro :
    forward (lookup bc) fuel wl0 fwd_st0 = Done ro ->
    forall b v, lookup ro b = Some v -> gamma v x -> ReachOut b.
  Proof.
    intros Hrun.
    apply (forward_state_ind T t_eqb univ null union inter single f (lookup bc) fwd_justified)
      with (fuel := fuel) (wl := wl0) (st := fwd_st0); [|exact fwd_st0_justified|exact Hrun].
    intros st b xb ri bcv old HP Hfb Hri Hb Hold _.
    eapply fwd_step_justified; eauto.
  Qed.

  (* ================================================================ (B) the backward pass *)
  Lemma LiveOut_ReachOut b : LiveOut b -> ReachOut b.
  Proof. intros H. destruct H; auto. Qed.

  Definition bwd_justified (st : state) : Prop := forall b v, lookup st b = Some v -> gamma v x -> LiveOut b.

  Lemma bwd_st0_justified ro : fwd_justified ro -> bwd_justified (bwd_st0 ro).
  Proof.
    intros Hro b v H Hg. unfold SolverLemmas.bwd_st0 in H. rewrite lookup_map_blocks in H.
    destruct (fblock f b) as [xb|] eqn:Hfb; [|discriminate]. simpl in H. inversion H; subst v; clear H.
    destruct (leaf_global f xb) eqn:Hleaf; [|contradiction].
    rewrite (fblock_idx _ _ _ Hfb) in Hg.
    destruct (lookup ro b) as [w|] eqn:E; [|contradiction].
    eapply LO_leaf; eauto.
  Qed.

  Lemma bwd_step_justified ro st b xb li bcv old :
    fwd_justified ro -> bwd_justified st -> fblock f b = Some xb -> livein st xb = Some li ->
    lookup ro b = Some bcv -> lookup st b = Some old -> bwd_justified (update st b (inter li bcv)).
  Proof.
    intros Hro HP Hfb Hli Hb Hold b' v Hl Hg.
    destruct (Nat.eq_dec b b') as [<-|Hne].
    2:{ rewrite lookup_update_other in Hl by exact Hne. eapply HP; eauto. }
    rewrite (lookup_update_same T st b _ old Hold) in Hl. inversion Hl; subst v.
    apply gamma_inter_inv in Hg. destruct Hg as [Hgli Hgbc].
    destruct (livein_exact _ _ _ Hli Hgli) as [[nx [s [Hnx [Hin [w [E Hw]]]]]] Hret].
    eapply LO_inner; eauto.
    intros r Hr. destruct (Hret r Hr) as [w' [E' Hw']]. eapply HP; eauto.
  Qed.

  Theorem backward_exact_gen fuel wlB ro lo :
    fwd_justified ro ->
    backward (lookup ro) fuel wlB (bwd_st0 ro) = Done lo ->
    forall b v, lookup lo b = Some v -> gamma v x -> LiveOut b.
  Proof.
    intros Hro Hrun.
    apply (backward_state_ind T t_eqb null union inter f (lookup ro) bwd_justified)
      with (fuel := fuel) (wl := wlB) (st := bwd_st0 ro); [|exact (bwd_st0_justified ro Hro)|exact Hrun].
    intros st b xb li bcv old HP Hfb _ Hli Hb Hold _.
    eapply bwd_step_justified; eauto.
  Qed.

  Theorem backward_exact fuelF fuelB wlF wlB ro lo :
    forward (lookup bc) fuelF wlF fwd_st0 = Done ro ->
    backward (lookup ro) fuelB wlB (bwd_st0 ro) = Done lo ->
    forall b v, lookup lo b = Some v -> gamma v x -> LiveOut b.
  Proof.
    intros Hf. apply backward_exact_gen. exact (forward_exact _ _ _ Hf).
  Qed.

  (* ================================================================ (C) Domains.solve *)
  Theorem solve_exact fuel lo :
    Domains.solve T t_eqb univ null union inter single f fuel bc = Done lo ->
    forall b v, lookup lo b = Some v -> gamma v x -> LiveOut b.
  Proof.
    intros Hs. apply solve_passes in Hs. destruct Hs as [ro [Hf Hb]].
    exact (backward_exact _ _ _ _ ro lo Hf Hb).
  Qed.

  (* contrapositive: no literal accepting path through b admits x  =>  the result at b excludes x *)
  Corollary solve_excludes fuel lo b :
    Domains.solve T t_eqb univ null union inter single f fuel bc = Done lo ->
    ~ LiveOut b -> forall v, lookup lo b = Some v -> ~ gamma v x.
  Proof. intros Hs Hn v Hv Hg. apply Hn. eapply solve_exact; eauto. Qed.

  (* ================================================================ (D) C03: nothing is reported *)
  Theorem C03_no_literal_path_no_report fuel lo (validated : nat -> bool) (report : list nat -> bool) dfuel :
    Domains.solve T t_eqb univ null union inter single f fuel bc = Done lo ->
    ~ LiveOut (fn_entry f) ->
    ((forall v, lookup lo (fn_entry f) = Some v -> ~ gamma v x) -> validated (fn_entry f) = true) ->
    dfuel <> 0 ->
    Detect.detect_paths f validated report dfuel = Done [].
  Proof.
    intros Hs Hn Hval Hfu.
    assert (Hv : validated (fn_entry f) = true) by (apply Hval; eapply solve_excludes; eauto).
    apply entry_validated_no_report; auto.
  Qed.

  (* ================================================================ the converse: LiveOut is below every solution *)
  Section Converse.
    Hypothesis gamma_univ : gamma univ x.
    Hypothesis gamma_union_l : forall a b, gamma a x -> gamma (union a b) x.
    Hypothesis gamma_union_r : forall a b, gamma b x -> gamma (union a b) x.
    Hypothesis gamma_inter : forall a b, gamma a x -> gamma b x -> gamma (inter a b) x.
    Hypothesis gamma_eqb : forall a b, t_eqb a b = true -> (gamma a x <-> gamma b x).

    (* any state satisfying the forward equations holds x wherever ReachOut says so *)
    Lemma fwd_contains ro :
      (forall b, In b (ids f) -> fwd_ok T t_eqb univ null union inter single f (lookup bc) ro b) ->
      forall b, ReachOut b -> G ro b.
    Proof.
      intros Hfix b H.
      assert (Hblk : forall b blk, fblock f b = Some blk -> okb b ->
                (b = fn_entry f \/ exists ps p, prev_global f blk = Some ps /\ In p ps /\ G ro p /\ oke p b) ->
                (forall c, after_call f blk c -> G ro c) -> G ro b).
      { clear b H. intros b blk Hb Hok Hsrc Hc.
        destruct (Hfix b) as [xb [ri [bcv [old [H1 [H2 [H3 [H4 H5]]]]]]]].
        { apply fblock_ids. eauto. }
        rewrite Hb in H1. inversion H1; subst xb.
        pose proof (fblock_idx _ _ _ Hb) as Hidx.
        exists old. split; auto. apply (gamma_eqb _ _ H5). apply gamma_inter.
        - apply (RunLemmas.reachin_sound T univ null union inter single f V gamma x
                   gamma_univ gamma_union_l gamma_union_r gamma_inter ro blk ri H2).
          + rewrite Hidx. destruct Hsrc as [He|[ps [p [Hps [Hin [Hg Ho]]]]]]; [left; auto|].
            right. exists ps, p. repeat split; auto. apply oke_run; auto.
          + intros Hrp c Hcs. apply Hc. split; auto.
        - destruct Hok as [c [E Hg]]. rewrite H3 in E. inversion E; subst c. exact Hg. }
      induction H as [b blk Hb Hok He Hc IHc | b blk ps p Hb Hok Hps Hin Hp IHp Ho Hc IHc].
      - eapply Hblk; eauto.
      - eapply Hblk; eauto. right. exists ps, p. auto.
    Qed.

    (* any state satisfying the backward equations (and keeping ro at the leaves) holds x wherever LiveOut says so *)
    Lemma bwd_contains ro lo :
      (forall b, ReachOut b -> G ro b) ->
      (forall b, In b (ids f) -> bwd_ok T t_eqb null union inter f (lookup ro) lo b) ->
      (forall b blk v, fblock f b = Some blk -> leaf_global f blk = true ->
         lookup ro b = Some v -> lookup lo b = Some v) ->
      forall b, LiveOut b -> G lo b.
    Proof.
      intros Hro Hfix Hleaf b H.
      induction H as [b blk Hb Hr Hl | b blk nx s Hb Hr Hnx Hin Hs IHs Hret IHret].
      - destruct (Hro b Hr) as [v [E Hg]]. exists v. split; auto. eapply Hleaf; eauto.
      - destruct (Hfix b) as [xb [H1 H2]].
        { apply fblock_ids. eauto. }
        rewrite Hb in H1. inversion H1; subst xb.
        destruct (Hro b Hr) as [v [E Hg]].
        destruct H2 as [Hl|[li [bcv [old [H2 [H3 [H4 H5]]]]]]].
        + exists v. split; auto. eapply Hleaf; eauto.
        + exists old. split; auto. apply (gamma_eqb _ _ H5). apply gamma_inter.
          * apply (RunLemmas.livein_sound T null union inter f V gamma x
                     gamma_union_l gamma_union_r gamma_inter lo blk li H2).
            -- intros nx' E'. rewrite Hnx in E'. inversion E'; subst nx'. exists s. auto.
            -- intros l rp s' E1 E2 E3 E4. apply IHret. exists l, s'. auto.
          * rewrite E in H3. inversion H3; subst bcv. exact Hg.
    Qed.

    Section Fix.
      Hypothesis teq_refl : forall a, t_eqb a a = true.
      Hypothesis cover_prev : cover_prev_P f.
      Hypothesis cover_ret : cover_ret_P f.
      Hypothesis cover_next : cover_next_P f.
      Hypothesis cover_call : cover_call_P f.

      Theorem forward_exact_iff fuel wl0 ro :
        (forall b, In b (ids f) -> In b wl0) ->
        forward (lookup bc) fuel wl0 fwd_st0 = Done ro ->
        forall b, G ro b <-> ReachOut b.
      Proof.
        intros Hcov Hrun b. split.
        - intros [v [E Hg]]. eapply forward_exact; eauto.
        - apply fwd_contains.
          exact (forward_fixpoint_initial T t_eqb univ null union inter single f (lookup bc) teq_refl
                   cover_prev cover_ret fuel wl0 _ ro Hcov Hrun).
      Qed.

      Theorem backward_exact_iff fuelF fuelB wlF wlB ro lo :
        (forall b, In b (ids f) -> In b wlF) ->
        (forall b xb, fblock f b = Some xb -> leaf_global f xb = false -> In b wlB) ->
        forward (lookup bc) fuelF wlF fwd_st0 = Done ro ->
        backward (lookup ro) fuelB wlB (bwd_st0 ro) = Done lo ->
        forall b, G lo b <-> LiveOut b.
      Proof.
        intros HcovF HcovB Hfw Hbw b. split.
        - intros [v [E Hg]]. eapply backward_exact; eauto.
        - apply (bwd_contains ro lo).
          + intros b0. apply (forward_exact_iff fuelF wlF ro HcovF Hfw b0).
          + exact (backward_fixpoint_initial T t_eqb null union inter f (lookup ro) teq_refl
                     cover_next cover_call fuelB wlB _ lo HcovB Hbw).
          + intros b0 blk v Hb Hl Hv.
            rewrite (backward_leaf_unchanged T t_eqb null union inter f (lookup ro) fuelB wlB (bwd_st0 ro) lo b0).
            * unfold SolverLemmas.bwd_st0. rewrite lookup_map_blocks, Hb. simpl.
              rewrite Hl, (fblock_idx _ _ _ Hb), Hv. reflexivity.
            * intros xb Hxb. rewrite Hb in Hxb. inversion Hxb; subst xb. exact Hl.
            * exact Hbw.
      Qed.

      (* the result of Domains.solve holds x at b  iff  some literal accepting path through b admits x *)
      Theorem solve_exact_iff fuel lo :
        (forall b, In b (ids f) -> In b (forward_worklist f)) ->
        (forall b xb, fblock f b = Some xb -> leaf_global f xb = false -> In b (backward_worklist f)) ->
        Domains.solve T t_eqb univ null union inter single f fuel bc = Done lo ->
        forall b, (exists v, lookup lo b = Some v /\ gamma v x) <-> LiveOut b.
      Proof.
        intros HcovF HcovB Hs. apply solve_passes in Hs. destruct Hs as [ro [Hfw Hbw]].
        exact (backward_exact_iff fuel fuel _ _ ro lo HcovF HcovB Hfw Hbw).
      Qed.
    End Fix.
  End Converse.

  (* ================================================================ Spec/Literal.v read as equations *)
  Lemma ReachOut_unfold b : ReachOut b <-> okb b /\ Literal.ReachIn f okb oke b.
  Proof.
    split.
    - intros H. destruct H as [b blk Hb Hok He Hc | b blk ps p Hb Hok Hps Hin Hp Ho Hc].
      + split; auto. exists blk. auto.
      + split; auto. exists blk. split; auto. split; auto. right. exists ps, p. auto.
    - intros [Hok [blk [Hb [[He|[ps [p [Hps [Hin [Hp Ho]]]]]] Hc]]]].
      + eapply RO_entry; eauto.
      + eapply RO_step; eauto.
  Qed.

  Lemma LiveOut_unfold b : LiveOut b <->
    ReachOut b /\ exists blk, fblock f b = Some blk /\
      (leaf_global f blk = true \/
       (exists nx s, next_global f blk = Some nx /\ In s nx /\ LiveOut s) /\
       (forall r, returning_call f blk r -> LiveOut r)).
  Proof.
    split.
    - intros H. destruct H as [b blk Hb Hr Hl | b blk nx s Hb Hr Hnx Hin Hs Hret].
      + split; auto. exists blk. auto.
      + split; auto. exists blk. split; auto. right. split; auto. exists nx, s. auto.
    - intros [Hr [blk [Hb [Hl|[[nx [s [Hnx [Hin Hs]]]] Hret]]]]].
      + eapply LO_leaf; eauto.
      + eapply LO_inner; eauto.
  Qed.
End Exact.

(* ================================================================== non-vacuity: "if x == false then err else return"
   over the domain of sets of booleans *)
Module Example.
  Local Open Scope string_scope.
  (* a set of booleans: (contains false, contains true) *)
  Definition BS := (bool * bool)%type.
  Definition bs_eqb (a b : BS) : bool := Bool.eqb (fst a) (fst b) && Bool.eqb (snd a) (snd b).
  Definition bs_univ : BS := (true, true).
  Definition bs_null : BS := (false, false).
  Definition bs_union (a b : BS) : BS := (fst a || fst b, snd a || snd b).
  Definition bs_inter (a b : BS) : BS := (fst a && fst b, snd a && snd b).
  Definition bs_gamma (a : BS) (v : bool) : Prop := (if v then snd a else fst a) = true.
  (* the only understood comparison: "== false" holds exactly for the value false *)
  Definition bs_single (op : instr) (pos : nat) (args : list sval) : BS * BS :=
    match op with IEq => ((true, false), (false, true)) | _ => (bs_univ, bs_univ) end.

  (* 0: ==   1: bnz L   2: return   3: L: err *)
  Definition p1 : prog := [mkIns 0 IEq; mkIns 1 (IBNZ "L"); mkIns 2 IReturn; mkIns 3 IErr].
  Definition B0 := mkBlock 0 [0; 1] [1; 2] [].
  Definition B1 := mkBlock 1 [2] [] [0].
  Definition B2 := mkBlock 2 [3] [] [0].
  Definition f1 : func := mkFunc p1 [B0; B1; B2] 0 [0; 1; 2] [] [] None.

  (* the block constraints the analyzer computes: B2 (err) admits nothing *)
  Definition bc1 : list (nat * BS) := [(0, bs_univ); (1, bs_univ); (2, bs_null)].
  Example bc1_init : Domains.init_constraints BS bs_univ bs_null bs_union bs_inter bs_single f1 = Some bc1.
  Proof. vm_compute. reflexivity. Qed.

  (* the edge constraints the analyzer computes: fall-through admits {true}, the jump admits {false} *)
  Example edge_01 : edge_constraint BS bs_univ bs_null bs_union bs_inter bs_single f1 B0 1 = Some (false, true).
  Proof. vm_compute. reflexivity. Qed.
  Example edge_02 : edge_constraint BS bs_univ bs_null bs_union bs_inter bs_single f1 B0 2 = Some (true, false).
  Proof. vm_compute. reflexivity. Qed.

  Notation okb1 v := (okb BS bool bs_gamma v bc1).
  Notation oke1 v := (oke BS bs_univ bs_null bs_union bs_inter bs_single f1 bool bs_gamma v).

  Lemma no_after_call_B0 c : ~ after_call f1 B0 c.
  Proof. intros [H _]. discriminate. Qed.

  (* the value true is possible at the entry: 0 -> 1 *)
  Example live_true : LiveOut f1 (okb1 true) (oke1 true) 0.
  Proof.
    assert (R0 : ReachOut f1 (okb1 true) (oke1 true) 0).
    { apply (RO_entry f1 _ _ 0 B0); try reflexivity.
      - exists bs_univ. split; reflexivity.
      - intros c Hc. destruct (no_after_call_B0 c Hc). }
    assert (R1 : ReachOut f1 (okb1 true) (oke1 true) 1).
    { apply (RO_step f1 _ _ 1 B1 [0] 0); try reflexivity; auto.
      - exists bs_univ. split; reflexivity.
      - simpl. auto.
      - exists B0, (false, true). split; [reflexivity|]. split; [exact edge_01|reflexivity].
      - intros c [H _]. discriminate. }
    apply (LO_inner f1 _ _ 0 B0 [1; 2] 1); try reflexivity; auto.
    - simpl. auto.
    - apply (LO_leaf f1 _ _ 1 B1); try reflexivity; auto.
    - intros r [l [s [H _]]]. discriminate.
  Qed.

  (* the value false is not: the edge 0 -> 1 rejects it, and block 2 rejects everything *)
  Example not_live_false : ~ LiveOut f1 (okb1 false) (oke1 false) 0.
  Proof.
    intros H. inversion H as [b blk Hb Hr Hl | b blk nx s Hb Hr Hnx Hin Hs Hret]; subst.
    - inversion Hb; subst blk. discriminate.
    - inversion Hb; subst blk. vm_compute in Hnx. inversion Hnx; subst nx.
      destruct Hin as [<-|[<-|[]]].
      + apply LiveOut_ReachOut in Hs.
        inversion Hs as [b blk Hb1 Hok He Hc | b blk ps p Hb1 Hok Hps Hin Hp Ho Hc]; subst.
        * discriminate.
        * inversion Hb1; subst blk. vm_compute in Hps. inversion Hps; subst ps.
          destruct Hin as [<-|[]].
          destruct Ho as [pb [c [E1 [E2 Hg]]]]. inversion E1; subst pb.
          rewrite edge_01 in E2. inversion E2; subst c. discriminate.
      + apply LiveOut_ReachOut in Hs.
        assert (Hok : okb1 false 2) by (inversion Hs; auto).
        destruct Hok as [c [E Hg]]. inversion E; subst c. discriminate.
  Qed.

  (* the solver agrees: the result at every block is {true} or empty *)
  Example solve_f1 :
    Domains.solve BS bs_eqb bs_univ bs_null bs_union bs_inter bs_single f1 10 bc1
    = Done [(0, (false, true)); (1, (false, true)); (2, (false, false))].
  Proof. vm_compute. reflexivity. Qed.

  (* the exactness laws hold for this domain, for every value *)
  Lemma bs_null_empty v : ~ bs_gamma bs_null v.
  Proof. destruct v; discriminate. Qed.
  Lemma bs_union_inv v a b : bs_gamma (bs_union a b) v -> bs_gamma a v \/ bs_gamma b v.
  Proof. destruct a, b, v; unfold bs_gamma; simpl; intros H; apply orb_true_iff in H; exact H. Qed.
  Lemma bs_inter_inv v a b : bs_gamma (bs_inter a b) v -> bs_gamma a v /\ bs_gamma b v.
  Proof. destruct a, b, v; unfold bs_gamma; simpl; intros H; apply andb_true_iff in H; exact H. Qed.

  (* C03 on the example: a detector whose check is "false is excluded" reports nothing *)
  Example no_report_f1 (report : list nat -> bool) (lo : list (nat * BS)) fuel dfuel :
    Domains.solve BS bs_eqb bs_univ bs_null bs_union bs_inter bs_single f1 fuel bc1 = Done lo ->
    dfuel <> 0 ->
    Detect.detect_paths f1
      (fun b => match Analysis.lookup BS lo b with Some v => negb (fst v) | None => true end) report dfuel = Done [].
  Proof.
    intros Hs Hfu.
    apply (C03_no_literal_path_no_report BS bs_eqb bs_univ bs_null bs_union bs_inter bs_single f1 bool bs_gamma false
             (bs_null_empty false) (bs_union_inv false) (bs_inter_inv false) bc1 fuel lo _ report dfuel Hs
             not_live_false); auto.
    intros Hex. change (fn_entry f1) with 0.
    destruct (Analysis.lookup BS lo 0) as [v|] eqn:E; auto.
    specialize (Hex v E). unfold bs_gamma in Hex. destruct (fst v); [destruct (Hex eq_refl)|reflexivity].
  Qed.
End Example.

Print Assumptions forward_exact.
Print Assumptions backward_exact.
Print Assumptions solve_exact.
Print Assumptions solve_exact_iff.
Print Assumptions entry_validated_no_report.
Print Assumptions C03_no_literal_path_no_report.
Print Assumptions Example.live_true.
Print Assumptions Example.not_live_false.
Print Assumptions Example.no_report_f1.
