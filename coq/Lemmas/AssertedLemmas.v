(* Lemmas about the model of _get_asserted (Model/Analysis.v, Section Domain):
   - and_parts_char / or_parts_char : characterisation of the spine functions,
   - asserted_sound  (L2)           : soundness w.r.t. a nondeterministic evaluation of the condition tree,
   - csat_total, asserted_exact (L6 ingredient) : exactness w.r.t. literal satisfiability when the
     abstraction gamma is exact on union / inter / null and the leaves are classified by [det]. *)
From Coq Require Import String List NArith ZArith Bool Arith Lia.
From Tealer Require Import Tables Syntax Parse Cfg StackAst Keys Analysis.
Import ListNotations.
Open Scope list_scope.

Section Asserted.
  Variable T : Type.
  Variable univ null : T.
  Variable union inter : T -> T -> T.
  Variable single : instr -> nat -> list sval -> T * T.

  Notation ass := (asserted T univ null union inter single).
  Notation aparts := (and_parts T univ null union inter single).
  Notation oparts := (or_parts T univ null union inter single).
  Notation fin_and := (finish_and T univ null union inter).
  Notation fin_or := (finish_or T univ null union inter).
  Notation negc := (neg_case T univ).

  (* ------------------------------------------------------------------ TASK 1 *)
  Lemma and_parts_char : forall c,
    aparts c = match c with
               | CUnknown => [None]
               | CAnd a b => aparts a ++ aparts b
               | _ => [Some (ass c)]
               end.
  Proof. destruct c; reflexivity. Qed.

  Lemma or_parts_char : forall c,
    oparts c = match c with
               | CUnknown => [None]
               | COr a b => oparts a ++ oparts b
               | _ => [Some (ass c)]
               end.
  Proof. destruct c; reflexivity. Qed.

  Lemma asserted_and : forall a b, ass (CAnd a b) = fin_and (aparts (CAnd a b)).
  Proof. reflexivity. Qed.
  Lemma asserted_or : forall a b, ass (COr a b) = fin_or (oparts (COr a b)).
  Proof. reflexivity. Qed.
  Lemma asserted_not : forall a, ass (CNot a) = negc a (ass a).
  Proof. reflexivity. Qed.

  (* ------------------------------------------------------------------ TASK 2 *)
  Section Sound.
    Variable V : Type.
    Variable gamma : T -> V -> Prop.
    Hypothesis gamma_univ : forall x, gamma univ x.
    Hypothesis gamma_union_l : forall a b x, gamma a x -> gamma (union a b) x.
    Hypothesis gamma_union_r : forall a b x, gamma b x -> gamma (union a b) x.
    Hypothesis gamma_inter : forall a b x, gamma a x -> gamma b x -> gamma (inter a b) x.

    Variable rho : instr -> nat -> list sval -> bool.

    Inductive ceval : cond -> bool -> Prop :=
    | ev_unknown b : ceval CUnknown b
    | ev_leaf op pos args : ceval (CLeaf op pos args) (rho op pos args)
    | ev_not a b : ceval a b -> ceval (CNot a) (negb b)
    | ev_and a b x y : ceval a x -> ceval b y -> ceval (CAnd a b) (x && y)
    | ev_or a b x y : ceval a x -> ceval b y -> ceval (COr a b) (x || y).

    Definition leaf_sound (x : V) :=
      forall op pos args,
        if rho op pos args then gamma (fst (single op pos args)) x
        else gamma (snd (single op pos args)) x.

    Definition isNone (o : option (T * T)) : bool :=
      match o with None => true | Some _ => false end.

    (* a predicate on results lifted to spine parts: an unknown part satisfies [weak], not [strict] *)
    Definition weak (P : T * T -> Prop) (o : option (T * T)) : Prop :=
      match o with Some r => P r | None => True end.
    Definition strict (P : T * T -> Prop) (o : option (T * T)) : Prop :=
      match o with Some r => P r | None => False end.

    Lemma strict_weak : forall P l, Exists (strict P) l -> Exists (weak P) l.
    Proof.
      intros P l H. eapply Exists_impl; [|exact H].
      intros [r|]; simpl; auto.
    Qed.

    Lemma weak_strict : forall P l,
      existsb isNone l = false -> Exists (weak P) l -> Exists (strict P) l.
    Proof.
      intros P l E H. apply Exists_exists in H as (o & Hin & Ho).
      apply Exists_exists. exists o. split; auto.
      destruct o as [r|]; simpl in *; auto.
      assert (E' : existsb isNone l = true) by (apply existsb_exists; exists None; auto).
      congruence.
    Qed.

    Lemma none_weak : forall P l, existsb isNone l = true -> Exists (weak P) l.
    Proof.
      intros P l E. apply existsb_exists in E as (o & Hin & Ho).
      apply Exists_exists. exists o. split; auto.
      destruct o; [discriminate | simpl; auto].
    Qed.

    Section X.
      Variable x : V.

      Definition Pt (r : T * T) : Prop := gamma (fst r) x.
      Definition Pf (r : T * T) : Prop := gamma (snd r) x.
      Definition sound (r : T * T) (b : bool) : Prop := if b then Pt r else Pf r.
      Definition P_and (l : list (option (T * T))) (b : bool) : Prop :=
        if b then Forall (weak Pt) l else Exists (weak Pf) l.
      Definition P_or (l : list (option (T * T))) (b : bool) : Prop :=
        if b then Exists (weak Pt) l else Forall (weak Pf) l.

      (* the four folds of finish_and / finish_or *)
      Lemma fold_inter_t : forall l acc,
        gamma acc x -> Forall (weak Pt) l ->
        gamma (fold_left (fun acc o => match o with Some (t, _) => inter acc t | None => acc end) l acc) x.
      Proof.
        induction l as [|o l IH]; simpl; intros acc Ha Hf; auto.
        inversion Hf; subst. apply IH; auto.
        destruct o as [[t f]|]; simpl in *; auto.
      Qed.

      Lemma fold_inter_f : forall l acc,
        gamma acc x -> Forall (weak Pf) l ->
        gamma (fold_left (fun acc o => match o with Some (_, f) => inter acc f | None => acc end) l acc) x.
      Proof.
        induction l as [|o l IH]; simpl; intros acc Ha Hf; auto.
        inversion Hf; subst. apply IH; auto.
        destruct o as [[t f]|]; simpl in *; auto.
      Qed.

      Lemma fold_union_f : forall l acc,
        gamma acc x \/ Exists (strict Pf) l ->
        gamma (fold_left (fun acc o => match o with Some (_, f) => union acc f | None => acc end) l acc) x.
      Proof.
        induction l as [|o l IH]; simpl; intros acc [H|H]; auto.
        - inversion H.
        - apply IH. left. destruct o as [[t f]|]; auto.
        - inversion H; subst.
          + apply IH. left. destruct o as [[t f]|]; simpl in *; [auto | contradiction].
          + apply IH. right; auto.
      Qed.

      Lemma fold_union_t : forall l acc,
        gamma acc x \/ Exists (strict Pt) l ->
        gamma (fold_left (fun acc o => match o with Some (t, _) => union acc t | None => acc end) l acc) x.
      Proof.
        induction l as [|o l IH]; simpl; intros acc [H|H]; auto.
        - inversion H.
        - apply IH. left. destruct o as [[t f]|]; auto.
        - inversion H; subst.
          + apply IH. left. destruct o as [[t f]|]; simpl in *; [auto | contradiction].
          + apply IH. right; auto.
      Qed.

      Lemma finish_and_sound : forall l b, P_and l b -> sound (fin_and l) b.
      Proof.
        intros l [|] H; unfold sound, Pt, Pf, P_and, finish_and in *; simpl.
        - apply fold_inter_t; auto.
        - fold isNone. destruct (existsb isNone l) eqn:E; auto.
          apply fold_union_f. right. apply weak_strict; auto.
      Qed.

      Lemma finish_or_sound : forall l b, P_or l b -> sound (fin_or l) b.
      Proof.
        intros l [|] H; unfold sound, Pt, Pf, P_or, finish_or in *; simpl.
        - fold isNone. destruct (existsb isNone l) eqn:E; auto.
          apply fold_union_t. right. apply weak_strict; auto.
        - apply fold_inter_f; auto.
      Qed.

      Lemma P_and_single : forall r b, sound r b -> P_and [Some r] b.
      Proof. intros r [|] H; simpl; constructor; simpl; auto. Qed.
      Lemma P_or_single : forall r b, sound r b -> P_or [Some r] b.
      Proof. intros r [|] H; simpl; constructor; simpl; auto. Qed.
      Lemma P_and_none : forall b, P_and [None] b.
      Proof. intros [|]; simpl; constructor; simpl; auto. Qed.
      Lemma P_or_none : forall b, P_or [None] b.
      Proof. intros [|]; simpl; constructor; simpl; auto. Qed.

      Lemma P_and_app : forall la lb u v, P_and la u -> P_and lb v -> P_and (la ++ lb) (u && v).
      Proof.
        intros la lb [|] [|] Ha Hb; simpl in *.
        - apply Forall_app; auto.
        - apply Exists_app; auto.
        - apply Exists_app; auto.
        - apply Exists_app; auto.
      Qed.

      Lemma P_or_app : forall la lb u v, P_or la u -> P_or lb v -> P_or (la ++ lb) (u || v).
      Proof.
        intros la lb [|] [|] Ha Hb; simpl in *.
        - apply Exists_app; auto.
        - apply Exists_app; auto.
        - apply Exists_app; auto.
        - apply Forall_app; auto.
      Qed.

      Lemma sound_univ : forall b, sound (univ, univ) b.
      Proof. intros [|]; simpl; unfold Pt, Pf; simpl; auto. Qed.

      Lemma sound_neg : forall a r b, sound r b -> sound (negc a r) (negb b).
      Proof.
        intros a r b H.
        destruct a; simpl; try apply sound_univ;
          destruct b; simpl in *; unfold Pt, Pf, swap in *; simpl; auto.
      Qed.

      Hypothesis Hleaf : leaf_sound x.

      Lemma sound_all : forall c,
        (forall b, ceval c b -> sound (ass c) b) /\
        (forall b, ceval c b -> P_and (aparts c) b) /\
        (forall b, ceval c b -> P_or (oparts c) b).
      Proof.
        induction c as [|a IHa b IHb|a IHa b IHb|a IHa|op pos args].
        - (* CUnknown *)
          split; [|split]; intros b _.
          + apply sound_univ.
          + apply P_and_none.
          + apply P_or_none.
        - (* CAnd *)
          destruct IHa as (Xa & Aa & Oa). destruct IHb as (Xb & Ab & Ob).
          assert (A : forall b0, ceval (CAnd a b) b0 -> P_and (aparts (CAnd a b)) b0).
          { intros b0 H. inversion H; subst. rewrite and_parts_char. apply P_and_app; auto. }
          assert (X : forall b0, ceval (CAnd a b) b0 -> sound (ass (CAnd a b)) b0).
          { intros b0 H. rewrite asserted_and. apply finish_and_sound. auto. }
          split; [|split]; auto.
          intros b0 H. rewrite or_parts_char. apply P_or_single. auto.
        - (* COr *)
          destruct IHa as (Xa & Aa & Oa). destruct IHb as (Xb & Ab & Ob).
          assert (O : forall b0, ceval (COr a b) b0 -> P_or (oparts (COr a b)) b0).
          { intros b0 H. inversion H; subst. rewrite or_parts_char. apply P_or_app; auto. }
          assert (X : forall b0, ceval (COr a b) b0 -> sound (ass (COr a b)) b0).
          { intros b0 H. rewrite asserted_or. apply finish_or_sound. auto. }
          split; [|split]; auto.
          intros b0 H. rewrite and_parts_char. apply P_and_single. auto.
        - (* CNot *)
          destruct IHa as (Xa & Aa & Oa).
          assert (X : forall b0, ceval (CNot a) b0 -> sound (ass (CNot a)) b0).
          { intros b0 H. inversion H; subst. rewrite asserted_not. apply sound_neg. auto. }
          split; [|split]; auto.
          + intros b0 H. rewrite and_parts_char. apply P_and_single. auto.
          + intros b0 H. rewrite or_parts_char. apply P_or_single. auto.
        - (* CLeaf *)
          assert (X : forall b0, ceval (CLeaf op pos args) b0 -> sound (ass (CLeaf op pos args)) b0).
          { intros b0 H. inversion H; subst. simpl. apply Hleaf. }
          split; [|split]; auto.
          + intros b0 H. rewrite and_parts_char. apply P_and_single. auto.
          + intros b0 H. rewrite or_parts_char. apply P_or_single. auto.
      Qed.
    End X.

    Theorem asserted_sound : forall x, leaf_sound x -> forall c b, ceval c b ->
      if b then gamma (fst (ass c)) x else gamma (snd (ass c)) x.
    Proof.
      intros x Hl c b H. exact (proj1 (sound_all x Hl c) b H).
    Qed.

    (* spine-level corollaries *)
    Corollary and_parts_sound : forall x, leaf_sound x -> forall c b, ceval c b -> P_and x (aparts c) b.
    Proof. intros x Hl c b H. exact (proj1 (proj2 (sound_all x Hl c)) b H). Qed.
    Corollary or_parts_sound : forall x, leaf_sound x -> forall c b, ceval c b -> P_or x (oparts c) b.
    Proof. intros x Hl c b H. exact (proj2 (proj2 (sound_all x Hl c)) b H). Qed.

    (* ---------------------------------------------------------------- TASK 3 *)
    Section Exact.
      Hypothesis gamma_null : forall x, ~ gamma null x.
      Hypothesis gamma_union_inv : forall a b x, gamma (union a b) x -> gamma a x \/ gamma b x.
      Hypothesis gamma_inter_inv : forall a b x, gamma (inter a b) x -> gamma a x /\ gamma b x.

      Variable det : instr -> nat -> list sval -> option (V -> bool).
      Hypothesis leaf_exact : forall op pos args x,
        match det op pos args with
        | Some f => (gamma (fst (single op pos args)) x <-> f x = true) /\
                    (gamma (snd (single op pos args)) x <-> f x = false)
        | None => gamma (fst (single op pos args)) x /\ gamma (snd (single op pos args)) x
        end.

      Inductive csat (x : V) : cond -> bool -> Prop :=
      | cs_unknown b : csat x CUnknown b
      | cs_leaf_det op pos args f : det op pos args = Some f -> csat x (CLeaf op pos args) (f x)
      | cs_leaf_free op pos args b : det op pos args = None -> csat x (CLeaf op pos args) b
      | cs_not a b : csat x a b -> csat x (CNot a) (negb b)
      | cs_and a b u v : csat x a u -> csat x b v -> csat x (CAnd a b) (u && v)
      | cs_or a b u v : csat x a u -> csat x b v -> csat x (COr a b) (u || v).

      Theorem csat_total : forall x c, exists b, csat x c b.
      Proof.
        intros x. induction c as [|a [u Hu] b [v Hv]|a [u Hu] b [v Hv]|a [u Hu]|op pos args].
        - exists true. constructor.
        - exists (u && v). constructor; auto.
        - exists (u || v). constructor; auto.
        - exists (negb u). constructor; auto.
        - destruct (det op pos args) as [f|] eqn:E.
          + exists (f x). constructor; auto.
          + exists true. apply cs_leaf_free; auto.
      Qed.

      Section XE.
        Variable x : V.

        (* inversion principles for csat *)
        Lemma csat_and_inv : forall a b w, csat x (CAnd a b) w ->
          exists u v, csat x a u /\ csat x b v /\ u && v = w.
        Proof. intros a b w H. inversion H; subst. eauto. Qed.
        Lemma csat_or_inv : forall a b w, csat x (COr a b) w ->
          exists u v, csat x a u /\ csat x b v /\ u || v = w.
        Proof. intros a b w H. inversion H; subst. eauto. Qed.

        Lemma csat_and_true : forall a b, csat x (CAnd a b) true <-> csat x a true /\ csat x b true.
        Proof.
          intros a b. split.
          - intro H. apply csat_and_inv in H as (u & v & Hu & Hv & E2).
            apply andb_true_iff in E2 as [-> ->]. auto.
          - intros [Ha Hb]. change true with (true && true). constructor; auto.
        Qed.

        Lemma csat_and_false : forall a b, csat x (CAnd a b) false <-> csat x a false \/ csat x b false.
        Proof.
          intros a b. split.
          - intro H. apply csat_and_inv in H as (u & v & Hu & Hv & E2).
            apply andb_false_iff in E2 as [-> | ->]; auto.
          - intros [Ha | Hb].
            + destruct (csat_total x b) as [v Hv].
              change false with (false && v). constructor; auto.
            + destruct (csat_total x a) as [u Hu].
              rewrite <- (andb_false_r u). constructor; auto.
        Qed.

        Lemma csat_or_true : forall a b, csat x (COr a b) true <-> csat x a true \/ csat x b true.
        Proof.
          intros a b. split.
          - intro H. apply csat_or_inv in H as (u & v & Hu & Hv & E2).
            apply orb_true_iff in E2 as [-> | ->]; auto.
          - intros [Ha | Hb].
            + destruct (csat_total x b) as [v Hv].
              change true with (true || v). constructor; auto.
            + destruct (csat_total x a) as [u Hu].
              rewrite <- (orb_true_r u). constructor; auto.
        Qed.

        Lemma csat_or_false : forall a b, csat x (COr a b) false <-> csat x a false /\ csat x b false.
        Proof.
          intros a b. split.
          - intro H. apply csat_or_inv in H as (u & v & Hu & Hv & E2).
            apply orb_false_iff in E2 as [-> ->]. auto.
          - intros [Ha Hb]. change false with (false || false). constructor; auto.
        Qed.

        Lemma csat_not : forall a b, csat x (CNot a) b <-> csat x a (negb b).
        Proof.
          intros a b. split.
          - intro H. inversion H; subst. rewrite negb_involutive. auto.
          - intro H. rewrite <- (negb_involutive b). constructor; auto.
        Qed.

        Lemma csat_unknown : forall b, csat x CUnknown b <-> True.
        Proof. intros b; split; auto. intros _. constructor. Qed.

        Notation Pt' := (Pt x).
        Notation Pf' := (Pf x).

        (* inverse fold lemmas *)
        Lemma fold_inter_t_inv : forall l acc,
          gamma (fold_left (fun acc o => match o with Some (t, _) => inter acc t | None => acc end) l acc) x ->
          gamma acc x /\ Forall (weak Pt') l.
        Proof.
          induction l as [|o l IH]; simpl; intros acc H; auto.
          apply IH in H as [H1 H2].
          destruct o as [[t f]|]; simpl.
          - apply gamma_inter_inv in H1 as [H1 H3]. split; auto; constructor; simpl; auto.
          - split; auto; constructor; simpl; auto.
        Qed.

        Lemma fold_inter_f_inv : forall l acc,
          gamma (fold_left (fun acc o => match o with Some (_, f) => inter acc f | None => acc end) l acc) x ->
          gamma acc x /\ Forall (weak Pf') l.
        Proof.
          induction l as [|o l IH]; simpl; intros acc H; auto.
          apply IH in H as [H1 H2].
          destruct o as [[t f]|]; simpl.
          - apply gamma_inter_inv in H1 as [H1 H3]. split; auto; constructor; simpl; auto.
          - split; auto; constructor; simpl; auto.
        Qed.

        Lemma fold_union_f_inv : forall l acc,
          gamma (fold_left (fun acc o => match o with Some (_, f) => union acc f | None => acc end) l acc) x ->
          gamma acc x \/ Exists (strict Pf') l.
        Proof.
          induction l as [|o l IH]; simpl; intros acc H; auto.
          apply IH in H as [H|H].
          - destruct o as [[t f]|]; auto.
            apply gamma_union_inv in H as [H|H]; auto.
          - right. apply Exists_cons_tl; auto.
        Qed.

        Lemma fold_union_t_inv : forall l acc,
          gamma (fold_left (fun acc o => match o with Some (t, _) => union acc t | None => acc end) l acc) x ->
          gamma acc x \/ Exists (strict Pt') l.
        Proof.
          induction l as [|o l IH]; simpl; intros acc H; auto.
          apply IH in H as [H|H].
          - destruct o as [[t f]|]; auto.
            apply gamma_union_inv in H as [H|H]; auto.
          - right. apply Exists_cons_tl; auto.
        Qed.

        Lemma finish_and_fst : forall l, Pt' (fin_and l) <-> Forall (weak Pt') l.
        Proof.
          intros l. unfold Pt, finish_and; simpl. split; intro H.
          - apply fold_inter_t_inv in H. tauto.
          - apply fold_inter_t; auto.
        Qed.

        Lemma finish_and_snd : forall l, Pf' (fin_and l) <-> Exists (weak Pf') l.
        Proof.
          intros l. unfold Pf, finish_and; simpl. fold isNone.
          destruct (existsb isNone l) eqn:E; split; intro H; auto.
          - apply none_weak; auto.
          - apply fold_union_f_inv in H as [H|H].
            + exfalso. eapply gamma_null; eauto.
            + apply strict_weak; auto.
          - apply fold_union_f. right. apply weak_strict; auto.
        Qed.

        Lemma finish_or_fst : forall l, Pt' (fin_or l) <-> Exists (weak Pt') l.
        Proof.
          intros l. unfold Pt, finish_or; simpl. fold isNone.
          destruct (existsb isNone l) eqn:E; split; intro H; auto.
          - apply none_weak; auto.
          - apply fold_union_t_inv in H as [H|H].
            + exfalso. eapply gamma_null; eauto.
            + apply strict_weak; auto.
          - apply fold_union_t. right. apply weak_strict; auto.
        Qed.

        Lemma finish_or_snd : forall l, Pf' (fin_or l) <-> Forall (weak Pf') l.
        Proof.
          intros l. unfold Pf, finish_or; simpl. split; intro H.
          - apply fold_inter_f_inv in H. tauto.
          - apply fold_inter_f; auto.
        Qed.

        (* exactness of a result / of an And-spine / of an Or-spine w.r.t. a condition *)
        Definition EX (r : T * T) (c : cond) : Prop :=
          (Pt' r <-> csat x c true) /\ (Pf' r <-> csat x c false).
        Definition EA (l : list (option (T * T))) (c : cond) : Prop :=
          (Forall (weak Pt') l <-> csat x c true) /\ (Exists (weak Pf') l <-> csat x c false).
        Definition EO (l : list (option (T * T))) (c : cond) : Prop :=
          (Exists (weak Pt') l <-> csat x c true) /\ (Forall (weak Pf') l <-> csat x c false).

        Lemma Forall_single : forall (P : option (T * T) -> Prop) o, Forall P [o] <-> P o.
        Proof.
          intros P o; split; intro H.
          - inversion H; auto.
          - constructor; auto.
        Qed.
        Lemma Exists_single : forall (P : option (T * T) -> Prop) o, Exists P [o] <-> P o.
        Proof.
          intros P o; split; intro H.
          - inversion H as [? ? H1|? ? H1]; subst; auto. inversion H1.
          - constructor; auto.
        Qed.

        Lemma EA_single : forall r c, EX r c -> EA [Some r] c.
        Proof.
          intros r c [H1 H2]. split.
          - rewrite Forall_single. exact H1.
          - rewrite Exists_single. exact H2.
        Qed.
        Lemma EO_single : forall r c, EX r c -> EO [Some r] c.
        Proof.
          intros r c [H1 H2]. split.
          - rewrite Exists_single. exact H1.
          - rewrite Forall_single. exact H2.
        Qed.
        Lemma EA_none : EA [None] CUnknown.
        Proof.
          split.
          - rewrite Forall_single, csat_unknown. simpl. tauto.
          - rewrite Exists_single, csat_unknown. simpl. tauto.
        Qed.
        Lemma EO_none : EO [None] CUnknown.
        Proof.
          split.
          - rewrite Exists_single, csat_unknown. simpl. tauto.
          - rewrite Forall_single, csat_unknown. simpl. tauto.
        Qed.

        Lemma EA_app : forall la lb a b, EA la a -> EA lb b -> EA (la ++ lb) (CAnd a b).
        Proof.
          intros la lb a b [A1 A2] [B1 B2]. split.
          - rewrite Forall_app, csat_and_true. tauto.
          - rewrite Exists_app, csat_and_false. tauto.
        Qed.
        Lemma EO_app : forall la lb a b, EO la a -> EO lb b -> EO (la ++ lb) (COr a b).
        Proof.
          intros la lb a b [A1 A2] [B1 B2]. split.
          - rewrite Exists_app, csat_or_true. tauto.
          - rewrite Forall_app, csat_or_false. tauto.
        Qed.

        Lemma EA_fin : forall l c, EA l c -> EX (fin_and l) c.
        Proof.
          intros l c [H1 H2]. split.
          - rewrite finish_and_fst. exact H1.
          - rewrite finish_and_snd. exact H2.
        Qed.
        Lemma EO_fin : forall l c, EO l c -> EX (fin_or l) c.
        Proof.
          intros l c [H1 H2]. split.
          - rewrite finish_or_fst. exact H1.
          - rewrite finish_or_snd. exact H2.
        Qed.

        Lemma EX_univ_unknown : EX (univ, univ) CUnknown.
        Proof.
          split; unfold Pt, Pf; simpl; rewrite csat_unknown; split; auto.
        Qed.

        Lemma EX_neg : forall a r, EX r a -> EX (negc a r) (CNot a).
        Proof.
          intros a r [H1 H2].
          assert (S : EX (swap T r) (CNot a)).
          { split; unfold Pt, Pf, swap in *; simpl; rewrite csat_not; simpl; auto. }
          destruct a; simpl; auto.
          (* CNot CUnknown: both sides universal, and CNot CUnknown may evaluate to anything *)
          split; unfold Pt, Pf; simpl; rewrite csat_not, csat_unknown; split; auto.
        Qed.

        Lemma EX_leaf : forall op pos args, EX (single op pos args) (CLeaf op pos args).
        Proof.
          intros op pos args. pose proof (leaf_exact op pos args x) as L.
          unfold EX, Pt, Pf.
          destruct (det op pos args) as [f|] eqn:E.
          - destruct L as [L1 L2]. split.
            + rewrite L1. split; intro H.
              * rewrite <- H. constructor; auto.
              * inversion H as [|? ? ? f' E' E1 E2|? ? ? ? E'| | |]; subst; congruence.
            + rewrite L2. split; intro H.
              * rewrite <- H. constructor; auto.
              * inversion H as [|? ? ? f' E' E1 E2|? ? ? ? E'| | |]; subst; congruence.
          - destruct L as [L1 L2]. split; split; intro H; auto; apply cs_leaf_free; auto.
        Qed.

        Lemma exact_all : forall c,
          EX (ass c) c /\ EA (aparts c) c /\ EO (oparts c) c.
        Proof.
          induction c as [|a IHa b IHb|a IHa b IHb|a IHa|op pos args].
          - split; [|split].
            + apply EX_univ_unknown.
            + apply EA_none.
            + apply EO_none.
          - destruct IHa as (Xa & Aa & Oa). destruct IHb as (Xb & Ab & Ob).
            assert (A : EA (aparts (CAnd a b)) (CAnd a b)).
            { rewrite and_parts_char. apply EA_app; auto. }
            assert (X : EX (ass (CAnd a b)) (CAnd a b)).
            { rewrite asserted_and. apply EA_fin; auto. }
            split; [|split]; auto.
            rewrite or_parts_char. apply EO_single; auto.
          - destruct IHa as (Xa & Aa & Oa). destruct IHb as (Xb & Ab & Ob).
            assert (O : EO (oparts (COr a b)) (COr a b)).
            { rewrite or_parts_char. apply EO_app; auto. }
            assert (X : EX (ass (COr a b)) (COr a b)).
            { rewrite asserted_or. apply EO_fin; auto. }
            split; [|split]; auto.
            rewrite and_parts_char. apply EA_single; auto.
          - destruct IHa as (Xa & Aa & Oa).
            assert (X : EX (ass (CNot a)) (CNot a)).
            { rewrite asserted_not. apply EX_neg; auto. }
            split; [|split]; auto.
            + rewrite and_parts_char. apply EA_single; auto.
            + rewrite or_parts_char. apply EO_single; auto.
          - assert (X : EX (ass (CLeaf op pos args)) (CLeaf op pos args)).
            { simpl. apply EX_leaf. }
            split; [|split]; auto.
            + rewrite and_parts_char. apply EA_single; auto.
            + rewrite or_parts_char. apply EO_single; auto.
        Qed.
      End XE.

      Theorem asserted_exact : forall x c,
        (gamma (fst (ass c)) x <-> csat x c true) /\
        (gamma (snd (ass c)) x <-> csat x c false).
      Proof. intros x c. exact (proj1 (exact_all x c)). Qed.
    End Exact.
  End Sound.
End Asserted.

Check and_parts_char.
Check or_parts_char.
Check asserted_sound.
Print Assumptions and_parts_char.
Print Assumptions or_parts_char.
Print Assumptions asserted_sound.
Check csat_total.
Check asserted_exact.
Print Assumptions csat_total.
Print Assumptions asserted_exact.

(* Non-vacuity: the exact-abstraction hypotheses are satisfiable (T := V -> bool, gamma s x := s x = true). *)
Lemma exact_hyps_inhabited : forall V : Type,
  let T := V -> bool in
  let gamma (s : T) (x : V) := s x = true in
  let univ : T := fun _ => true in
  let null : T := fun _ => false in
  let union (a b : T) : T := fun x => a x || b x in
  let inter (a b : T) : T := fun x => a x && b x in
  (forall x, gamma univ x) /\
  (forall a b x, gamma a x -> gamma (union a b) x) /\
  (forall a b x, gamma b x -> gamma (union a b) x) /\
  (forall a b x, gamma a x -> gamma b x -> gamma (inter a b) x) /\
  (forall x, ~ gamma null x) /\
  (forall a b x, gamma (union a b) x -> gamma a x \/ gamma b x) /\
  (forall a b x, gamma (inter a b) x -> gamma a x /\ gamma b x).
Proof.
  intros V T gamma univ null union inter. unfold gamma, univ, null, union, inter.
  repeat split; intros.
  - rewrite H; reflexivity.
  - rewrite H; apply orb_true_r.
  - rewrite H, H0; reflexivity.
  - discriminate.
  - apply orb_true_iff in H; exact H.
  - apply andb_true_iff in H; tauto.
  - apply andb_true_iff in H; tauto.
Qed.
Print Assumptions exact_hyps_inhabited.
