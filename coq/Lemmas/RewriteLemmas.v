(* C15: meaning-preserving rewrites of the contract text do not change the block structure.

   PART 0  extensionality of the CFG builder: create_bb / build_blocks read a program only through
           ins_next and through the "kind" of each instruction (label / callsub / b / other)
   PART 1  label renaming along an injective map
   PART 2  inserting comment / blank lines only renumbers; line numbers are never read by the CFG builder
   PART 3  integer / named-constant spellings at the analysis level
   PART 4  int c  ->  intc k / intc_k with an intcblock *)
From Coq Require Import String List NArith ZArith Bool Ascii Lia Arith.
From Tealer Require Import Tables Syntax Parse Cfg StackAst Keys Domains ParseLemmas.
Import ListNotations.
Open Scope string_scope.
Open Scope list_scope.

(* ====================================================================== *)
(* PART 0 : what the CFG builder reads                                      *)
(* ====================================================================== *)
Inductive ikind := KLabel | KCallsub | KB | KPlain.
Definition kind_of (i : instr) : ikind :=
  match i with ILabel _ => KLabel | ICallsub _ => KCallsub | IB _ => KB | _ => KPlain end.
Definition kinds (p : prog) : list ikind := map (fun i => kind_of (i_op i)) p.

(* scan_step as a function of the kind only (and it never reads the program) *)
Definition scan_step_k (lastk : nat) (st : list rawblock * list nat) (k : nat) (kd : ikind) (nnext : nat)
  : list rawblock * list nat :=
  let '(done, cur) := st in
  let '(done1, cur1) :=
    match kd, cur with
    | KLabel, _ :: _ => (mkRaw (rev cur) true :: done, [])
    | _, _ => (done, cur)
    end in
  let cur2 := k :: cur1 in
  if (Nat.ltb 1 nnext || (match kd with KCallsub => true | _ => false end))%bool then
    if Nat.eqb k lastk then (done1, cur2) else (mkRaw (rev cur2) true :: done1, [])
  else if (Nat.eqb nnext 0 || (match kd with KB => true | _ => false end))%bool then
    if Nat.eqb k lastk then (done1, cur2) else (mkRaw (rev cur2) false :: done1, [])
  else (done1, cur2).

Lemma scan_step_kind : forall p lastk st k i n,
  scan_step p lastk st k i n = scan_step_k lastk st k (kind_of i) n.
Proof. intros p lastk [done cur] k i n. destruct i; destruct cur; reflexivity. Qed.

Lemma kinds_length : forall p p', kinds p' = kinds p -> length p' = length p.
Proof. intros p p' H. unfold kinds in H. apply (f_equal (@length _)) in H. rewrite !map_length in H. exact H. Qed.

Lemma scan_ext : forall p p', (forall k, ins_next p' k = ins_next p k) ->
  forall rest rest' lastk k st, kinds rest' = kinds rest ->
  scan p' lastk rest' k st = scan p lastk rest k st.
Proof.
  intros p p' Hn. induction rest as [|i t IH]; intros [|i' t'] lastk k st Hk; try discriminate; [reflexivity|].
  unfold kinds in Hk. simpl in Hk. injection Hk as Hk1 Hk2.
  cbn [scan]. rewrite Hn. destruct (ins_next p k) as [nx|]; [|reflexivity].
  rewrite !scan_step_kind, Hk1. apply IH. exact Hk2.
Qed.

Theorem create_bb_ext : forall p p', (forall k, ins_next p' k = ins_next p k) -> kinds p' = kinds p ->
  create_bb p' = create_bb p.
Proof.
  intros p p' Hn Hk. unfold create_bb. rewrite (kinds_length _ _ Hk).
  rewrite (scan_ext p p' Hn p p' _ _ _ Hk). reflexivity.
Qed.

Lemma raw_next_ext : forall p p', (forall k, ins_next p' k = ins_next p k) ->
  forall bs n b, raw_next p' bs n b = raw_next p bs n b.
Proof. intros p p' Hn bs n b. unfold raw_next. rewrite Hn. reflexivity. Qed.

Lemma raw_nexts_ext : forall p p', (forall k, ins_next p' k = ins_next p k) ->
  forall all bs n, raw_nexts p' all bs n = raw_nexts p all bs n.
Proof.
  intros p p' Hn all. induction bs as [|b t IH]; intros n; [reflexivity|].
  cbn [raw_nexts]. rewrite (raw_next_ext p p' Hn), IH. reflexivity.
Qed.

Theorem build_blocks_ext : forall p p', (forall k, ins_next p' k = ins_next p k) -> kinds p' = kinds p ->
  build_blocks p' = build_blocks p.
Proof.
  intros p p' Hn Hk. unfold build_blocks. rewrite (create_bb_ext p p' Hn Hk).
  destruct (create_bb p) as [bs|]; [|reflexivity]. rewrite (raw_nexts_ext p p' Hn). reflexivity.
Qed.

(* parse_teal, cut into named pieces (the statement is checked by conversion against Model/Cfg.v) *)
Definition pt_subs0 (p : prog) (bs : list block) (ctab : list (string * list nat))
  : option (list (string * list nat * nat * list nat)) :=
  map_opt (fun '(name, ks) =>
             match find_label p name with
             | None => None
             | Some lp => match bb_of_pos bs lp with
                          | None => None
                          | Some e => Some (name, ks, e, identify_subroutine_blocks bs e)
                          end
             end) ctab.

Definition pt_version (i0 : ins) : N := match i_op i0 with IPragma v => v | _ => 1%N end.
Definition pt_reachable (bs : list block) (subs0 : list (string * list nat * nat * list nat)) : list nat :=
  flat_map (fun '(_, _, _, blks) => blks) subs0 ++ identify_subroutine_blocks bs 0.
Definition pt_blocks (bs : list block) (reachable : list nat) : list block :=
  let retained := dedup_sorted reachable (length bs) in
  map (fun b => mkBlock (b_idx b) (b_ins b) (b_next b) (filter (fun m => nat_mem m retained) (b_prev b)))
      (filter (fun b => nat_mem (b_idx b) retained) bs).
Definition pt_sub (bs : list block) (reachable : list nat) (x : string * list nat * nat * list nat) : subroutine :=
  let '(name, ks, e, blks) := x in
  mkSub name e blks
        (filter (fun b => nat_mem b reachable)
                (flat_map (fun k => match bb_of_pos bs k with Some b => [b] | None => [] end) ks)).
Definition pt_intcblocks (p : prog) : list (nat * list N) :=
  flat_map (fun '(k, i) => match i_op i with IIntcblock cs => [(k, cs)] | _ => [] end) (combine (seq 0 (length p)) p).
Definition pt_intcs (p : prog) (bs : list block) : option (list N) :=
  match pt_intcblocks p with
  | [(k, cs)] => if match bb_of_pos bs k with Some 0 => true | _ => false end then Some cs else None
  | _ => None end.
Definition pt_finish (i0 : ins) (p : prog) (bs : list block) (subs0 : list (string * list nat * nat * list nat)) : teal :=
  let reachable := pt_reachable bs subs0 in
  let bs' := pt_blocks bs reachable in
  mkTeal (pt_version i0) (detect_mode p) p (flat_map b_ins bs') bs'
         (mkSub "__main__" 0 (identify_subroutine_blocks bs 0) [])
         (map (pt_sub bs reachable) subs0) (pt_intcs p bs).

Lemma parse_teal_unfold : forall i0 p0,
  parse_teal (i0 :: p0) =
  match build_blocks (i0 :: p0) with
  | None => Err "KeyError: label"
  | Some bs =>
      match pt_subs0 (i0 :: p0) bs (callsub_table (i0 :: p0) 0 []) with
      | None => Err "KeyError: callsub label"
      | Some subs0 => Ok (pt_finish i0 (i0 :: p0) bs subs0)
      end
  end.
Proof. reflexivity. Qed.

(* ====================================================================== *)
(* PART 1 : label renaming                                                  *)
(* ====================================================================== *)
Definition rename_instr (s : string -> string) (i : instr) : instr :=
  match i with
  | ILabel l => ILabel (s l)
  | IB l => IB (s l)
  | IBZ l => IBZ (s l)
  | IBNZ l => IBNZ (s l)
  | ICallsub l => ICallsub (s l)
  | ISwitch ls => ISwitch (map s ls)
  | IMatch ls => IMatch (map s ls)
  | _ => i
  end.
Definition rename_prog (s : string -> string) (p : prog) : prog :=
  map (fun i => mkIns (i_line i) (rename_instr s (i_op i))) p.

Definition injective (s : string -> string) : Prop := forall a b, s a = s b -> a = b.

(* --- classification functions are invariant *)
Lemma no_fallthrough_rename : forall s i, no_fallthrough (rename_instr s i) = no_fallthrough i.
Proof. destruct i; reflexivity. Qed.
Lemma is_b_rename : forall s i, is_b (rename_instr s i) = is_b i.
Proof. destruct i; reflexivity. Qed.
Lemma is_retsub_rename : forall s i, is_retsub (rename_instr s i) = is_retsub i.
Proof. destruct i; reflexivity. Qed.
Lemma jump_labels_rename : forall s i, jump_labels (rename_instr s i) = map s (jump_labels i).
Proof. destruct i; reflexivity. Qed.
Lemma jump_labels_length_rename : forall s i, length (jump_labels (rename_instr s i)) = length (jump_labels i).
Proof. intros. rewrite jump_labels_rename. apply map_length. Qed.
Lemma is_label_rename : forall s i, is_label (rename_instr s i) = option_map s (is_label i).
Proof. destruct i; reflexivity. Qed.
Lemma is_callsub_rename : forall s i, is_callsub (rename_instr s i) = option_map s (is_callsub i).
Proof. destruct i; reflexivity. Qed.
Lemma kind_of_rename : forall s i, kind_of (rename_instr s i) = kind_of i.
Proof. destruct i; reflexivity. Qed.
Lemma cls_of_rename : forall s i, cls_of (rename_instr s i) = cls_of i.
Proof. destruct i; reflexivity. Qed.
Lemma ins_mode_rename : forall s i, ins_mode (rename_instr s i) = ins_mode i.
Proof. intros. unfold ins_mode. rewrite cls_of_rename. reflexivity. Qed.
Lemma ins_version_rename : forall s i, ins_version (rename_instr s i) = ins_version i.
Proof. intros. unfold ins_version. rewrite cls_of_rename. reflexivity. Qed.
Lemma is_int_push_ins_rename : forall s intcs i, is_int_push_ins intcs (rename_instr s i) = is_int_push_ins intcs i.
Proof. destruct i; reflexivity. Qed.

Lemma eval_aexpr_rename : forall s e i, eval_aexpr e (params_of (rename_instr s i)) = eval_aexpr e (params_of i).
Proof.
  intros s e i. destruct i; try reflexivity;
    (destruct e as [c|k pl|k pl|k a b]; try reflexivity;
     destruct k as [|[|k]]; try reflexivity; cbn; rewrite ?map_length; reflexivity).
Qed.
Lemma stack_pop_size_rename : forall s i, stack_pop_size (rename_instr s i) = stack_pop_size i.
Proof. intros. unfold stack_pop_size. rewrite cls_of_rename. destruct (lookup_class (cls_of i)); [apply eval_aexpr_rename|reflexivity]. Qed.
Lemma stack_push_size_rename : forall s i, stack_push_size (rename_instr s i) = stack_push_size i.
Proof. intros. unfold stack_push_size. rewrite cls_of_rename. destruct (lookup_class (cls_of i)); [apply eval_aexpr_rename|reflexivity]. Qed.

Lemma rename_prog_length : forall s p, length (rename_prog s p) = length p.
Proof. intros. apply map_length. Qed.
Lemma kinds_rename : forall s p, kinds (rename_prog s p) = kinds p.
Proof.
  intros. unfold kinds, rename_prog. rewrite map_map. apply map_ext. intros i. cbn [i_op]. apply kind_of_rename.
Qed.
Lemma op_at_rename : forall s p k, op_at (rename_prog s p) k = option_map (rename_instr s) (op_at p k).
Proof.
  intros. unfold op_at, rename_prog. rewrite nth_error_map. destruct (nth_error p k); reflexivity.
Qed.

(* --- labels *)
Lemma injective_eqb : forall s, injective s -> forall a b, (s a =? s b) = (a =? b).
Proof.
  intros s Hs a b. destruct (a =? b) eqn:E.
  - apply String.eqb_eq in E. subst. apply String.eqb_refl.
  - apply String.eqb_neq. apply String.eqb_neq in E. intros H. apply E. apply Hs. exact H.
Qed.

Lemma find_label_from_rename : forall s, injective s -> forall l p k acc,
  find_label_from (s l) (rename_prog s p) k acc = find_label_from l p k acc.
Proof.
  intros s Hs l. induction p as [|i t IH]; intros k acc; [reflexivity|].
  cbn [rename_prog map find_label_from i_op]. fold (rename_prog s t). rewrite IH. f_equal.
  destruct (i_op i); try reflexivity. cbn [rename_instr]. rewrite injective_eqb by exact Hs. reflexivity.
Qed.

Theorem find_label_rename : forall s, injective s -> forall p l,
  find_label (rename_prog s p) (s l) = find_label p l.
Proof. intros. unfold find_label. apply find_label_from_rename. assumption. Qed.

Lemma map_opt_find_label_rename : forall s, injective s -> forall p ls,
  map_opt (find_label (rename_prog s p)) (map s ls) = map_opt (find_label p) ls.
Proof.
  intros s Hs p. induction ls as [|l t IH]; [reflexivity|].
  cbn [map map_opt]. rewrite find_label_rename, IH by exact Hs. reflexivity.
Qed.

Theorem ins_next_rename : forall s, injective s -> forall p k,
  ins_next (rename_prog s p) k = ins_next p k.
Proof.
  intros s Hs p k. unfold ins_next. rewrite op_at_rename. destruct (op_at p k) as [i|]; [|reflexivity].
  cbn [option_map]. rewrite no_fallthrough_rename, rename_prog_length, jump_labels_rename.
  rewrite map_opt_find_label_rename by exact Hs. reflexivity.
Qed.

Theorem create_bb_rename : forall s, injective s -> forall p, create_bb (rename_prog s p) = create_bb p.
Proof. intros s Hs p. apply create_bb_ext; [apply ins_next_rename; exact Hs|apply kinds_rename]. Qed.

Theorem build_blocks_rename : forall s, injective s -> forall p, build_blocks (rename_prog s p) = build_blocks p.
Proof. intros s Hs p. apply build_blocks_ext; [apply ins_next_rename; exact Hs|apply kinds_rename]. Qed.

(* --- subroutine table *)
Definition rename_entry (s : string -> string) (x : string * list nat) : string * list nat :=
  let '(n, ks) := x in (s n, ks).

Lemma callsub_table_rename_gen : forall s, injective s -> forall p k acc,
  callsub_table (rename_prog s p) k (map (rename_entry s) acc) = map (rename_entry s) (callsub_table p k acc).
Proof.
  intros s Hs. induction p as [|i t IH]; intros k acc; [reflexivity|].
  cbn [rename_prog map callsub_table i_op]. fold (rename_prog s t).
  destruct (i_op i) as [ | | | | | | | | | | | | | | | | | | | | | | | | | | | | | | |l| | | ]; cbn [rename_instr]; try apply IH.
  assert (Hex : existsb (fun '(n, _) => n =? s l) (map (rename_entry s) acc) = existsb (fun '(n, _) => n =? l) acc).
  { clear IH. induction acc as [|[n ks] acc IHa]; [reflexivity|].
    cbn [map existsb rename_entry]. rewrite injective_eqb by exact Hs. rewrite IHa. reflexivity. }
  rewrite Hex. rewrite <- IH. f_equal. destruct (existsb (fun '(n, _) => n =? l) acc).
  - rewrite !map_map. apply map_ext. intros [n ks]. cbn [rename_entry]. rewrite injective_eqb by exact Hs.
    destruct (n =? l); reflexivity.
  - rewrite map_app. reflexivity.
Qed.

Theorem callsub_table_rename : forall s, injective s -> forall p,
  callsub_table (rename_prog s p) 0 [] = map (fun '(n, ks) => (s n, ks)) (callsub_table p 0 []).
Proof. intros s Hs p. exact (callsub_table_rename_gen s Hs p 0 []). Qed.

(* --- the Teal record *)
Definition rename_sub (s : string -> string) (sb : subroutine) : subroutine :=
  mkSub (s (s_name sb)) (s_entry sb) (s_blocks sb) (s_callers sb).
(* the main subroutine keeps its fixed name "__main__" (it is not a label of the program) *)
Definition rename_teal (s : string -> string) (t : teal) : teal :=
  mkTeal (t_version t) (t_mode t) (rename_prog s (t_prog t)) (t_retained_ins t) (t_blocks t)
         (t_main t) (map (rename_sub s) (t_subs t)) (t_intcs t).

Definition rename_sub0 (s : string -> string) (x : string * list nat * nat * list nat) :=
  let '(name, ks, e, blks) := x in (s name, ks, e, blks).

Lemma pt_subs0_rename : forall s, injective s -> forall p bs ctab,
  pt_subs0 (rename_prog s p) bs (map (rename_entry s) ctab) = option_map (map (rename_sub0 s)) (pt_subs0 p bs ctab).
Proof.
  intros s Hs p bs. unfold pt_subs0. induction ctab as [|[name ks] t IH]; [reflexivity|].
  cbn [map map_opt rename_entry]. rewrite find_label_rename by exact Hs. rewrite IH.
  destruct (find_label p name) as [lp|]; [|reflexivity].
  destruct (bb_of_pos bs lp) as [e|]; [|reflexivity].
  destruct (map_opt _ t); reflexivity.
Qed.

Lemma find_map_pre : forall {A B} (g : A -> B) (f : B -> bool) l,
  find f (map g l) = option_map g (find (fun x => f (g x)) l).
Proof. intros A B g f. induction l as [|x t IH]; [reflexivity|]. cbn [map find]. destruct (f (g x)); [reflexivity|exact IH]. Qed.

Lemma find_ext' : forall {A} (f g : A -> bool) l, (forall x, f x = g x) -> find f l = find g l.
Proof. intros A f g l H. induction l as [|x t IH]; [reflexivity|]. cbn [find]. rewrite H, IH. reflexivity. Qed.

Lemma detect_mode_rename : forall s p, detect_mode (rename_prog s p) = detect_mode p.
Proof.
  intros s p. unfold detect_mode, rename_prog. rewrite find_map_pre. cbn [i_op].
  rewrite (find_ext' _ (fun i => match ins_mode (i_op i) with Some MAny => false | Some _ => true | None => false end))
    by (intros i; rewrite ins_mode_rename; reflexivity).
  destruct (find _ p) as [i|]; [|reflexivity]. cbn [option_map i_op]. rewrite ins_mode_rename. reflexivity.
Qed.

Lemma pt_intcblocks_rename : forall s p, pt_intcblocks (rename_prog s p) = pt_intcblocks p.
Proof.
  intros s p. unfold pt_intcblocks. rewrite rename_prog_length. generalize 0 (length p).
  induction p as [|i t IH]; intros a n; [destruct (seq a n); reflexivity|].
  destruct n as [|n]; [reflexivity|].
  cbn [rename_prog map seq combine flat_map i_op]. fold (rename_prog s t). rewrite IH. f_equal.
  destruct (i_op i); reflexivity.
Qed.

Lemma pt_reachable_rename : forall s bs subs0, pt_reachable bs (map (rename_sub0 s) subs0) = pt_reachable bs subs0.
Proof.
  intros. unfold pt_reachable. f_equal. induction subs0 as [|[[[name ks] e] blks] t IH]; [reflexivity|].
  cbn [map flat_map rename_sub0]. rewrite IH. reflexivity.
Qed.

Lemma pt_finish_rename : forall s i0 p bs subs0,
  pt_finish (mkIns (i_line i0) (rename_instr s (i_op i0))) (rename_prog s p) bs (map (rename_sub0 s) subs0)
  = rename_teal s (pt_finish i0 p bs subs0).
Proof.
  intros. unfold pt_finish, rename_teal.
  cbn [t_version t_mode t_prog t_retained_ins t_blocks t_main t_subs t_intcs].
  rewrite pt_reachable_rename, detect_mode_rename. f_equal.
  - unfold pt_version. cbn [i_op]. destruct (i_op i0); reflexivity.
  - rewrite !map_map. apply map_ext. intros [[[name ks] e] blks]. reflexivity.
  - unfold pt_intcs. rewrite pt_intcblocks_rename. reflexivity.
Qed.

(* strong form: the error message is the same as well *)
Theorem parse_teal_rename_strong : forall s, injective s -> forall p,
  parse_teal (rename_prog s p) = match parse_teal p with Ok t => Ok (rename_teal s t) | Err e => Err e end.
Proof.
  intros s Hs [|i0 p0]; [reflexivity|].
  change (rename_prog s (i0 :: p0)) with (mkIns (i_line i0) (rename_instr s (i_op i0)) :: rename_prog s p0).
  rewrite !parse_teal_unfold.
  change (mkIns (i_line i0) (rename_instr s (i_op i0)) :: rename_prog s p0) with (rename_prog s (i0 :: p0)).
  rewrite build_blocks_rename by exact Hs.
  destruct (build_blocks (i0 :: p0)) as [bs|]; [|reflexivity].
  change (callsub_table (rename_prog s (i0 :: p0)) 0 []) with (callsub_table (rename_prog s (i0 :: p0)) 0 (map (rename_entry s) [])).
  rewrite (callsub_table_rename_gen s Hs (i0 :: p0) 0 []). rewrite pt_subs0_rename by exact Hs.
  destruct (pt_subs0 (i0 :: p0) bs (callsub_table (i0 :: p0) 0 [])) as [subs0|]; [|reflexivity].
  cbn [option_map]. rewrite pt_finish_rename. reflexivity.
Qed.

Theorem parse_teal_rename : forall s, injective s -> forall p,
  match parse_teal p with
  | Ok t => parse_teal (rename_prog s p) = Ok (rename_teal s t)
  | Err e => exists e', parse_teal (rename_prog s p) = Err e'
  end.
Proof.
  intros s Hs p. rewrite (parse_teal_rename_strong s Hs p). destruct (parse_teal p) as [t|e]; [reflexivity|eauto].
Qed.

(* derived accessors of the renamed Teal *)
Lemma tblock_rename : forall s t n, tblock (rename_teal s t) n = tblock t n.
Proof. reflexivity. Qed.
Lemma exit_op_rename : forall s t b, exit_op (rename_teal s t) b = option_map (rename_instr s) (exit_op t b).
Proof. intros. unfold exit_op. cbn [rename_teal t_prog]. destruct (b_ins b); [reflexivity|apply op_at_rename]. Qed.
Lemma is_callsub_block_rename : forall s t b, is_callsub_block (rename_teal s t) b = is_callsub_block t b.
Proof. intros. unfold is_callsub_block. rewrite exit_op_rename. destruct (exit_op t b) as [i|]; [destruct i|]; reflexivity. Qed.
Lemma is_retsub_block_rename : forall s t b, is_retsub_block (rename_teal s t) b = is_retsub_block t b.
Proof. intros. unfold is_retsub_block. rewrite exit_op_rename. destruct (exit_op t b) as [i|]; [destruct i|]; reflexivity. Qed.
Lemma find_sub_rename : forall s, injective s -> forall t name,
  find_sub (rename_teal s t) (s name) = option_map (rename_sub s) (find_sub t name).
Proof.
  intros s Hs t name. unfold find_sub. cbn [rename_teal t_subs]. rewrite find_map_pre. f_equal.
  apply find_ext'. intros sb. cbn [rename_sub s_name]. apply injective_eqb. exact Hs.
Qed.
Lemma called_subroutine_rename : forall s, injective s -> forall t b,
  called_subroutine (rename_teal s t) b = option_map (rename_sub s) (called_subroutine t b).
Proof.
  intros s Hs t b. unfold called_subroutine. rewrite exit_op_rename.
  destruct (exit_op t b) as [i|]; [|reflexivity]. destruct i; try reflexivity.
  cbn [option_map rename_instr]. apply find_sub_rename. exact Hs.
Qed.

(* ====================================================================== *)
(* PART 2 : comment lines, blank lines, indentation                         *)
(* ====================================================================== *)
Definition res_map {A B} (f : A -> B) (r : res A) : res B :=
  match r with Ok a => Ok (f a) | Err e => Err e end.

(* a line that first_pass drops: a comment line or a blank line (after strip) *)
Definition ignorable (c : string) : Prop := starts_with "//" (strip c) = true \/ strip c = "".

Definition bump_line (i : ins) : ins := mkIns (S (i_line i)) (i_op i).
(* every instruction at source line >= m moves one line down *)
Definition renumber (m : nat) (r : prog) : prog :=
  map (fun i => if Nat.leb m (i_line i) then bump_line i else i) r.

Lemma map_i_op_bump : forall r, map i_op (map bump_line r) = map i_op r.
Proof. intros. rewrite map_map. reflexivity. Qed.
Lemma map_i_op_renumber : forall m r, map i_op (renumber m r) = map i_op r.
Proof.
  intros. unfold renumber. rewrite map_map. apply map_ext. intros i. destruct (Nat.leb m (i_line i)); reflexivity.
Qed.

Lemma parse_lines_ignorable : forall c t n, ignorable c -> parse_lines (c :: t) n = parse_lines t (S n).
Proof.
  intros c t n [H|H]; cbn [parse_lines].
  - rewrite H. reflexivity.
  - unfold parse_line. rewrite H. cbn. destruct (parse_lines t (S n)); reflexivity.
Qed.

Lemma parse_lines_S : forall ls n, parse_lines ls (S n) = res_map (map bump_line) (parse_lines ls n).
Proof.
  induction ls as [|l t IH]; intros n; [reflexivity|]. cbn [parse_lines].
  destruct (starts_with "//" (strip l)); [apply IH|].
  destruct (parse_line l) as [oi|e]; [|reflexivity]. cbn [bind]. rewrite (IH (S n)).
  destruct (parse_lines t (S n)) as [r|e]; [|reflexivity]. cbn [bind res_map]. destruct oi; reflexivity.
Qed.

Lemma parse_lines_app : forall l1 l2 n,
  parse_lines (l1 ++ l2) n =
  do r1 <- parse_lines l1 n; do r2 <- parse_lines l2 (n + length l1); Ok (r1 ++ r2).
Proof.
  induction l1 as [|l t IH]; intros l2 n.
  - cbn [app parse_lines bind length]. rewrite Nat.add_0_r. destruct (parse_lines l2 n); reflexivity.
  - cbn [app parse_lines length]. rewrite Nat.add_succ_r. destruct (starts_with "//" (strip l)); [apply (IH l2 (S n))|].
    destruct (parse_line l) as [oi|e]; [|reflexivity]. cbn [bind]. rewrite (IH l2 (S n)).
    destruct (parse_lines t (S n)) as [r1|e]; [|reflexivity]. cbn [bind].
    change (S n + length t) with (S (n + length t)).
    destruct (parse_lines l2 (S (n + length t))) as [r2|e]; [|destruct oi; reflexivity]. cbn [bind].
    destruct oi; reflexivity.
Qed.

Lemma parse_lines_bounds : forall ls n r, parse_lines ls n = Ok r ->
  Forall (fun i => n <= i_line i < n + length ls) r.
Proof.
  induction ls as [|l t IH]; intros n r H; cbn [parse_lines] in H.
  - inversion H. constructor.
  - assert (Hw : forall r', Forall (fun i => S n <= i_line i < S n + length t) r' ->
                            Forall (fun i => n <= i_line i < n + length (l :: t)) r').
    { intros r' Hr. eapply Forall_impl; [|exact Hr]. cbn [length]. intros; lia. }
    destruct (starts_with "//" (strip l)); [apply Hw, IH, H|].
    destruct (parse_line l) as [oi|e]; [|discriminate]. cbn [bind] in H.
    destruct (parse_lines t (S n)) as [r'|e] eqn:E; [|discriminate]. cbn [bind] in H.
    specialize (IH _ _ E). destruct oi; inversion H; subst; [|apply Hw, IH].
    constructor; [cbn [i_line length]; lia|apply Hw, IH].
Qed.

Lemma renumber_below : forall m r, Forall (fun i => i_line i < m) r -> renumber m r = r.
Proof.
  intros m r H. unfold renumber. induction H as [|i t Hi Ht IH]; [reflexivity|].
  cbn [map]. rewrite IH. apply Nat.leb_gt in Hi. rewrite Hi. reflexivity.
Qed.
Lemma renumber_above : forall m r, Forall (fun i => m <= i_line i) r -> renumber m r = map bump_line r.
Proof.
  intros m r H. unfold renumber. induction H as [|i t Hi Ht IH]; [reflexivity|].
  cbn [map]. rewrite IH. apply Nat.leb_le in Hi. rewrite Hi. reflexivity.
Qed.

(* explicit form: the instructions of l1 are untouched, those of l2 move one line down *)
Theorem parse_lines_insert_split : forall l1 c l2 n r1 r2, ignorable c ->
  parse_lines l1 n = Ok r1 -> parse_lines l2 (n + length l1) = Ok r2 ->
  parse_lines (l1 ++ l2) n = Ok (r1 ++ r2) /\
  parse_lines (l1 ++ c :: l2) n = Ok (r1 ++ map bump_line r2).
Proof.
  intros l1 c l2 n r1 r2 Hc H1 H2. rewrite !parse_lines_app, H1. cbn [bind].
  rewrite (parse_lines_ignorable c l2 _ Hc), parse_lines_S, H2. cbn [bind res_map]. auto.
Qed.

Theorem parse_lines_insert : forall l1 c l2 n, ignorable c ->
  parse_lines (l1 ++ c :: l2) n = res_map (renumber (n + length l1)) (parse_lines (l1 ++ l2) n).
Proof.
  intros l1 c l2 n Hc. rewrite !parse_lines_app.
  rewrite (parse_lines_ignorable c l2 _ Hc), parse_lines_S.
  destruct (parse_lines l1 n) as [r1|e] eqn:E1; [|reflexivity]. cbn [bind].
  destruct (parse_lines l2 (n + length l1)) as [r2|e] eqn:E2; [|reflexivity]. cbn [bind res_map]. f_equal.
  unfold renumber. rewrite map_app. fold (renumber (n + length l1) r1) (renumber (n + length l1) r2).
  rewrite renumber_below, renumber_above; [reflexivity| |].
  - eapply Forall_impl; [|exact (parse_lines_bounds _ _ _ E2)]. cbv beta. intros; lia.
  - eapply Forall_impl; [|exact (parse_lines_bounds _ _ _ E1)]. cbv beta. intros; lia.
Qed.

(* indentation / trailing blanks: parse_lines reads each line through strip only *)
Theorem parse_lines_strip_ext : forall ls ls' n, Forall2 (fun a b => strip a = strip b) ls ls' ->
  parse_lines ls n = parse_lines ls' n.
Proof.
  intros ls ls' n H. revert n. induction H as [|a b t t' Hab Ht IH]; intros n; [reflexivity|].
  cbn [parse_lines]. rewrite Hab, IH. unfold parse_line, tokenize. rewrite Hab. reflexivity.
Qed.

(* more generally parse_lines reads a line only through line_result; this covers trailing comments *)
Definition line_result (l : string) : res (option instr) :=
  if starts_with "//" (strip l) then Ok None else parse_line l.

Lemma parse_lines_cons_result : forall l t n,
  parse_lines (l :: t) n =
  do oi <- line_result l; do r <- parse_lines t (S n);
  Ok (match oi with Some i => mkIns n i :: r | None => r end).
Proof.
  intros. cbn [parse_lines]. unfold line_result. destruct (starts_with "//" (strip l)).
  - cbn [bind]. destruct (parse_lines t (S n)); reflexivity.
  - destruct (parse_line l) as [oi|e]; [|reflexivity]. cbn [bind].
    destruct (parse_lines t (S n)); [|reflexivity]. cbn [bind]. destruct oi; reflexivity.
Qed.

Theorem parse_lines_line_ext : forall ls ls' n, Forall2 (fun a b => line_result a = line_result b) ls ls' ->
  parse_lines ls n = parse_lines ls' n.
Proof.
  intros ls ls' n H. revert n. induction H as [|a b t t' Hab Ht IH]; intros n; [reflexivity|].
  rewrite !parse_lines_cons_result, Hab, IH. reflexivity.
Qed.

Lemma line_result_strip_ext : forall a b, strip a = strip b -> line_result a = line_result b.
Proof. intros a b H. unfold line_result. rewrite H, (parse_line_strip_ext a b H). reflexivity. Qed.

(* l without quote and without "//", not ending with the token base64 / b64 (after which "//..." is data); c arbitrary *)
Theorem line_result_trailing_comment : forall l c, plain l = true -> last_tok_b64 l = false ->
  line_result (l ++ " //" ++ c) = line_result l.
Proof.
  intros l c Hp Hb. unfold line_result. rewrite parse_line_comment_gen by assumption.
  destruct (lstrip l) as [|c0 L0] eqn:EL.
  - apply lstrip_nil_all_space in EL. rewrite (parse_line_blank l EL).
    destruct (starts_with "//" (strip (l ++ " //" ++ c))); destruct (starts_with "//" (strip l)); reflexivity.
  - pose proof (lstrip_head_nonspace _ _ _ EL) as Hc0.
    assert (HpL : plain (String c0 L0) = true) by (rewrite <- EL; apply plain_lstrip; exact Hp).
    assert (E1 : starts_with "//" (strip (l ++ " //" ++ c)) = false).
    { rewrite strip_eq, lstrip_nonblank_app by (rewrite EL; discriminate). rewrite EL.
      change (String c0 L0 ++ " //" ++ c)%string with (String c0 L0 ++ " " ++ String "/" (String "/" c))%string.
      rewrite <- sapp_assoc.
      rewrite rstrip'_app_nonblank; rewrite rstrip'_comment; [|discriminate]. rewrite sapp_assoc.
      change (" " ++ String "/" (String "/" (rstrip' c)))%string with (String " " (String "/" (String "/" (rstrip' c)))).
      rewrite starts_with_cc_app_space. apply plain_not_comment. exact HpL. }
    assert (E2 : starts_with "//" (strip l) = false).
    { rewrite strip_eq, EL. destruct (rstrip'_decomp (String c0 L0)) as [sp [Hsp ER]].
      apply plain_not_comment. eapply plain_app_l. rewrite <- ER. exact HpL. }
    rewrite E1, E2. reflexivity.
Qed.

Corollary line_result_lead_spaces : forall sp l, all_space sp = true -> line_result (sp ++ l) = line_result l.
Proof. intros. apply line_result_strip_ext. apply strip_lead_spaces. assumption. Qed.
Corollary line_result_trail_spaces : forall l sp, all_space sp = true -> line_result (l ++ sp) = line_result l.
Proof. intros. apply line_result_strip_ext. apply strip_trail_spaces. assumption. Qed.

(* replacing one line by a line_result-equal one (indent, trailing blanks, trailing comment) changes nothing *)
Corollary parse_lines_replace_line : forall l1 a b l2 n, line_result a = line_result b ->
  parse_lines (l1 ++ a :: l2) n = parse_lines (l1 ++ b :: l2) n.
Proof.
  intros l1 a b l2 n H. apply parse_lines_line_ext. apply Forall2_app; [|constructor; [exact H|]];
    (match goal with |- Forall2 _ ?x ?x => induction x; constructor; auto end).
Qed.

(* --- the CFG builder never reads i_line *)
Lemma find_label_from_ops : forall l p p' k acc, map i_op p' = map i_op p ->
  find_label_from l p' k acc = find_label_from l p k acc.
Proof.
  intros l. induction p as [|i t IH]; intros [|i' t'] k acc H; try discriminate; [reflexivity|].
  cbn [map] in H. injection H as H1 H2. cbn [find_label_from]. rewrite H1. apply IH. exact H2.
Qed.
Lemma find_label_ops : forall p p' l, map i_op p' = map i_op p -> find_label p' l = find_label p l.
Proof. intros. unfold find_label. apply find_label_from_ops. assumption. Qed.
Lemma op_at_ops : forall p k, op_at p k = nth_error (map i_op p) k.
Proof. intros. unfold op_at. symmetry. apply nth_error_map. Qed.
Lemma length_ops : forall p p', map i_op p' = map i_op p -> length p' = length p.
Proof. intros p p' H. apply (f_equal (@length _)) in H. rewrite !map_length in H. exact H. Qed.
Lemma kinds_ops : forall p p', map i_op p' = map i_op p -> kinds p' = kinds p.
Proof.
  intros p p' H. unfold kinds. rewrite <- (map_map i_op kind_of p'), <- (map_map i_op kind_of p), H. reflexivity.
Qed.

Lemma map_opt_ext' : forall {A B} (l : list A) (d : unit) (f g : A -> option B),
  (forall x, f x = g x) -> map_opt f l = map_opt g l.
Proof. intros A B l _ f g H. induction l as [|x t IH]; [reflexivity|]. cbn [map_opt]. rewrite H, IH. reflexivity. Qed.

Theorem ins_next_lines_irrelevant : forall p p', map i_op p' = map i_op p ->
  forall k, ins_next p' k = ins_next p k.
Proof.
  intros p p' H k. unfold ins_next. rewrite !op_at_ops, H, (length_ops _ _ H).
  destruct (nth_error (map i_op p) k) as [i|]; [|reflexivity].
  rewrite (map_opt_ext' (jump_labels i) tt (find_label p') (find_label p)); [reflexivity|].
  intros l. apply find_label_ops. exact H.
Qed.

Theorem create_bb_lines_irrelevant : forall p p', map i_op p' = map i_op p ->
  create_bb p' = create_bb p /\ build_blocks p' = build_blocks p /\ (forall k, ins_next p' k = ins_next p k).
Proof.
  intros p p' H. pose proof (ins_next_lines_irrelevant p p' H) as Hn. pose proof (kinds_ops p p' H) as Hk.
  split; [apply create_bb_ext; assumption|]. split; [apply build_blocks_ext; assumption|exact Hn].
Qed.

(* --- the whole Teal record reads line numbers only through t_prog *)
Definition set_prog (p' : prog) (t : teal) : teal :=
  mkTeal (t_version t) (t_mode t) p' (t_retained_ins t) (t_blocks t) (t_main t) (t_subs t) (t_intcs t).

Lemma callsub_table_ops : forall p p' k acc, map i_op p' = map i_op p ->
  callsub_table p' k acc = callsub_table p k acc.
Proof.
  induction p as [|i t IH]; intros [|i' t'] k acc H; try discriminate; [reflexivity|].
  cbn [map] in H. injection H as H1 H2. cbn [callsub_table]. rewrite H1.
  destruct (i_op i); apply IH; exact H2.
Qed.

Lemma detect_mode_ops : forall p p', map i_op p' = map i_op p -> detect_mode p' = detect_mode p.
Proof.
  unfold detect_mode. induction p as [|i t IH]; intros [|i' t'] H; try discriminate; [reflexivity|].
  cbn [map] in H. injection H as H1 H2. cbn [find]. rewrite H1.
  destruct (match ins_mode (i_op i) with Some MAny => false | Some _ => true | None => false end);
    [rewrite H1; reflexivity|apply IH; exact H2].
Qed.

Lemma pt_intcblocks_ops : forall p p', map i_op p' = map i_op p -> pt_intcblocks p' = pt_intcblocks p.
Proof.
  intros p p' H. unfold pt_intcblocks. rewrite (length_ops _ _ H). generalize 0 (length p). revert p' H.
  induction p as [|i t IH]; intros [|i' t'] H a n; try discriminate; [reflexivity|].
  cbn [map] in H. injection H as H1 H2. destruct n as [|n]; [reflexivity|].
  cbn [seq combine flat_map]. rewrite H1, (IH t' H2). reflexivity.
Qed.

Theorem parse_teal_lines_irrelevant : forall p p', map i_op p' = map i_op p ->
  parse_teal p' = res_map (set_prog p') (parse_teal p).
Proof.
  intros p p' H. destruct p as [|i0 p0]; destruct p' as [|i0' p0']; try discriminate; [reflexivity|].
  rewrite !parse_teal_unfold.
  destruct (create_bb_lines_irrelevant _ _ H) as [_ [Hb _]]. rewrite Hb.
  destruct (build_blocks (i0 :: p0)) as [bs|]; [|reflexivity].
  rewrite (callsub_table_ops _ _ 0 [] H).
  assert (Hs : forall ctab, pt_subs0 (i0' :: p0') bs ctab = pt_subs0 (i0 :: p0) bs ctab).
  { intros ctab. unfold pt_subs0. apply map_opt_ext'; [exact tt|]. intros [name ks].
    rewrite (find_label_ops _ _ name H). reflexivity. }
  rewrite Hs. destruct (pt_subs0 (i0 :: p0) bs _) as [subs0|]; [|reflexivity].
  cbn [res_map]. f_equal. unfold pt_finish, set_prog.
  cbn [t_version t_mode t_prog t_retained_ins t_blocks t_main t_subs t_intcs].
  rewrite (detect_mode_ops _ _ H). unfold pt_intcs. rewrite (pt_intcblocks_ops _ _ H).
  cbn [map] in H. injection H as H1 _. unfold pt_version. rewrite H1. reflexivity.
Qed.

(* Inserting a comment / blank line: same instructions, renumbered; same blocks; same Teal up to t_prog *)
Corollary insert_ignorable_line : forall l1 c l2 n r, ignorable c ->
  parse_lines (l1 ++ l2) n = Ok r ->
  let r' := renumber (n + length l1) r in
  parse_lines (l1 ++ c :: l2) n = Ok r' /\
  map i_op r' = map i_op r /\
  create_bb r' = create_bb r /\ build_blocks r' = build_blocks r /\
  (forall k, ins_next r' k = ins_next r k) /\
  parse_teal r' = res_map (set_prog r') (parse_teal r).
Proof.
  intros l1 c l2 n r Hc H r'. pose proof (map_i_op_renumber (n + length l1) r : map i_op r' = map i_op r) as Ho.
  split; [rewrite parse_lines_insert, H by exact Hc; reflexivity|].
  split; [exact Ho|]. destruct (create_bb_lines_irrelevant _ _ Ho) as [A [B C]].
  repeat split; auto. apply parse_teal_lines_irrelevant. exact Ho.
Qed.

(* errors are preserved too *)
Corollary insert_ignorable_line_err : forall l1 c l2 n e, ignorable c ->
  parse_lines (l1 ++ l2) n = Err e -> parse_lines (l1 ++ c :: l2) n = Err e.
Proof. intros l1 c l2 n e Hc H. rewrite parse_lines_insert, H by exact Hc. reflexivity. Qed.

(* ====================================================================== *)
(* PART 3 : integer and named-constant spellings at the analysis level      *)
(* ====================================================================== *)
Theorem is_int_push_pushint : forall intcs a, is_int_push_ins intcs (IPushInt a) = is_int_push_ins intcs (IInt a).
Proof. reflexivity. Qed.

Definition opt_str_eqb (a b : option string) : bool :=
  match a, b with Some x, Some y => x =? y | None, None => true | _, _ => false end.
Lemma opt_str_eqb_eq : forall a b, opt_str_eqb a b = true -> a = b.
Proof.
  intros [x|] [y|] H; try discriminate; [|reflexivity]. apply String.eqb_eq in H. congruence.
Qed.

(* word and number agree, and both are recognised (not None) *)
Definition named_ok (f : intres -> option string) (x : string * N) : bool :=
  opt_str_eqb (f (IntName (fst x))) (f (IntNum (snd x))) &&
  match f (IntNum (snd x)) with Some _ => true | None => false end.

Lemma named_ok_all_txn : forallb (named_ok transaction_type_to_tealer_type) transaction_type_to_tealer_type_names = true.
Proof. vm_compute. reflexivity. Qed.
Lemma named_ok_all_oc : forallb (named_ok oncompletion_to_tealer_type) oncompletion_to_tealer_type_names = true.
Proof. vm_compute. reflexivity. Qed.

Theorem named_type_constants : forall name n, In (name, n) transaction_type_to_tealer_type_names ->
  transaction_type_to_tealer_type (IntName name) = transaction_type_to_tealer_type (IntNum n) /\
  transaction_type_to_tealer_type (IntNum n) <> None.
Proof.
  intros name n Hin. pose proof named_ok_all_txn as H. rewrite forallb_forall in H. specialize (H _ Hin).
  unfold named_ok in H. cbn [fst snd] in H. apply andb_true_iff in H. destruct H as [H1 H2].
  split; [apply opt_str_eqb_eq; exact H1|]. destruct (transaction_type_to_tealer_type (IntNum n)); [discriminate|discriminate].
Qed.

Theorem named_oncompletion_constants : forall name n, In (name, n) oncompletion_to_tealer_type_names ->
  oncompletion_to_tealer_type (IntName name) = oncompletion_to_tealer_type (IntNum n) /\
  oncompletion_to_tealer_type (IntNum n) <> None.
Proof.
  intros name n Hin. pose proof named_ok_all_oc as H. rewrite forallb_forall in H. specialize (H _ Hin).
  unfold named_ok in H. cbn [fst snd] in H. apply andb_true_iff in H. destruct H as [H1 H2].
  split; [apply opt_str_eqb_eq; exact H1|]. destruct (oncompletion_to_tealer_type (IntNum n)); [discriminate|discriminate].
Qed.

(* --- the same at the source-line level: "int" / "pushint" followed by any spelling of the number *)
Lemma parse_line_int_word : forall w a, word_ok w = true -> parse_int_or_name w = Ok a ->
  parse_line ("int " ++ w) = Ok (Some (IInt a)) /\ parse_line ("pushint " ++ w) = Ok (Some (IPushInt a)).
Proof.
  intros w a Hw Hp. split.
  - use_engine ["int"] "int " "Int" SIntOrName w.
    + cbn [join parse_shape]. rewrite Hp. reflexivity.
    + exact Hw.
  - use_engine ["pushint"] "pushint " "PushInt" SIntOrName w.
    + cbn [join parse_shape]. rewrite Hp. reflexivity.
    + exact Hw.
Qed.

Definition good_char (c : ascii) : bool :=
  negb (is_space c) && negb (Ascii.eqb c """"%char) && negb (Ascii.eqb c "/"%char).
Fixpoint all_good (s : string) : bool :=
  match s with EmptyString => true | String c t => good_char c && all_good t end.

Lemma hex_digit_good : forall d, (d < 16)%N -> good_char (hex_digit d) = true.
Proof.
  intros d H. apply small_cases16 in H.
  repeat (destruct H as [H|H]; [subst; reflexivity|]). subst; reflexivity.
Qed.
Lemma base_digits_good : forall b, (1 < b)%N -> (b <= 16)%N ->
  forall fuel n acc, all_good acc = true -> all_good (base_digits b fuel n acc) = true.
Proof.
  intros b Hb1 Hb2. induction fuel as [|f IH]; intros n acc H; [exact H|].
  rewrite base_digits_S.
  assert (H' : all_good (String (hex_digit (n mod b)) acc) = true).
  { cbn [all_good]. rewrite H, hex_digit_good; [reflexivity|].
    pose proof (N.mod_lt n b ltac:(lia)). lia. }
  destruct (n <? b)%N; [exact H'|]. apply IH. exact H'.
Qed.
Lemma good_char_elim : forall c, good_char c = true ->
  is_space c = false /\ Ascii.eqb c """"%char = false /\ c <> "/"%char.
Proof.
  intros c H. unfold good_char in H. apply andb_true_iff in H. destruct H as [H H3].
  apply andb_true_iff in H. destruct H as [H1 H2].
  apply negb_true_iff in H1. apply negb_true_iff in H2. apply negb_true_iff in H3.
  repeat split; auto. intros E. subst. discriminate.
Qed.
Lemma all_good_word : forall s, s <> "" -> all_good s = true -> word_ok s = true.
Proof.
  intros s Hne H. unfold word_ok. apply String.eqb_neq in Hne. rewrite Hne. cbn [negb andb].
  assert (Hn : no_space s = true /\ plain s = true).
  { clear Hne. induction s as [|c t IH]; [auto|]. cbn [all_good] in H. apply andb_true_iff in H. destruct H as [H1 H2].
    apply good_char_elim in H1. destruct H1 as [Hs [Hq Hsl]]. destruct (IH H2) as [IH1 IH2].
    split; [simpl; rewrite Hs, IH1; reflexivity|].
    cbn [plain]. rewrite Hq, IH2. unfold starts_with. cbn [String.prefix].
    destruct (ascii_dec "/" c); [congruence|reflexivity]. }
  destruct Hn as [-> ->]. reflexivity.
Qed.

Lemma word_ok_hex : forall n, word_ok ("0x" ++ hex_of_N n) = true.
Proof.
  intros n. apply all_good_word; [discriminate|]. cbn [String.append all_good]. 
  change (good_char "0") with true. change (good_char "x") with true. cbn [andb].
  unfold hex_of_N. apply base_digits_good; [lia|lia|reflexivity].
Qed.
Lemma all_digits_base8 : forall fuel n acc, all_digits acc = true -> all_digits (base_digits 8 fuel n acc) = true.
Proof.
  induction fuel as [|f IH]; intros n acc H; [exact H|].
  rewrite base_digits_S.
  assert (H' : all_digits (String (hex_digit (n mod 8)) acc) = true).
  { cbn [all_digits]. rewrite H. rewrite (dec_digit_char (n mod 8)%N); [reflexivity|].
    pose proof (N.mod_lt n 8 ltac:(lia)). lia. }
  destruct (n <? 8)%N; [exact H'|]. apply IH. exact H'.
Qed.
Lemma all_digits_oct : forall n, all_digits ("0" ++ oct_of_N n) = true.
Proof. intros n. cbn [String.append all_digits]. unfold oct_of_N. rewrite all_digits_base8; reflexivity. Qed.
Lemma word_ok_oct : forall n, word_ok ("0" ++ oct_of_N n) = true.
Proof. intros n. apply all_digits_word; [discriminate|apply all_digits_oct]. Qed.

Lemma parse_int_or_name_hex : forall n, parse_int_or_name ("0x" ++ hex_of_N n) = Ok (IANum n).
Proof. intros n. unfold parse_int_or_name. rewrite is_int_hex, parse_int_hex. reflexivity. Qed.
Lemma parse_int_or_name_oct : forall n, parse_int_or_name ("0" ++ oct_of_N n) = Ok (IANum n).
Proof.
  intros n. unfold parse_int_or_name.
  assert (is_int ("0" ++ oct_of_N n) = true) as ->.
  { unfold is_int. pose proof (all_digits_oct n) as H. cbn [String.append] in *. rewrite H. apply orb_true_r. }
  rewrite parse_int_oct. reflexivity.
Qed.

Theorem int_line_spellings : forall n,
  parse_line ("int " ++ string_of_N n) = Ok (Some (IInt (IANum n))) /\
  parse_line ("int " ++ "0x" ++ hex_of_N n) = Ok (Some (IInt (IANum n))) /\
  parse_line ("int " ++ "0" ++ oct_of_N n) = Ok (Some (IInt (IANum n))) /\
  parse_line ("pushint " ++ string_of_N n) = Ok (Some (IPushInt (IANum n))) /\
  parse_line ("pushint " ++ "0x" ++ hex_of_N n) = Ok (Some (IPushInt (IANum n))) /\
  parse_line ("pushint " ++ "0" ++ oct_of_N n) = Ok (Some (IPushInt (IANum n))).
Proof.
  intros n.
  destruct (parse_line_int_word _ _ (word_ok_string_of_N n) (parse_int_or_name_num n)) as [A1 A2].
  destruct (parse_line_int_word _ _ (word_ok_hex n) (parse_int_or_name_hex n)) as [B1 B2].
  destruct (parse_line_int_word _ _ (word_ok_oct n) (parse_int_or_name_oct n)) as [C1 C2].
  repeat split; assumption.
Qed.

(* a named constant is kept as a name by the parser (it is resolved by the analyses, see named_type_constants) *)
Theorem int_line_named : forall w, word_ok w = true -> is_int w = false ->
  parse_line ("int " ++ w) = Ok (Some (IInt (IAName w))) /\ parse_line ("pushint " ++ w) = Ok (Some (IPushInt (IAName w))).
Proof.
  intros w Hw Hi. apply parse_line_int_word; [exact Hw|]. unfold parse_int_or_name. rewrite Hi. reflexivity.
Qed.

(* ====================================================================== *)
(* PART 4 : int c  ->  intc k / intc_k with an intcblock                    *)
(* ====================================================================== *)
Theorem is_int_push_intc : forall cs k c, nth_error cs (N.to_nat k) = Some c ->
  is_int_push_ins (Some cs) (IIntc k) = IntNum c /\
  is_int_push_ins (Some cs) (IIntcK k) = IntNum c /\
  is_int_push_ins (Some cs) (IIntc k) = is_int_push_ins (Some cs) (IInt (IANum c)) /\
  is_int_push_ins (Some cs) (IIntcK k) = is_int_push_ins (Some cs) (IPushInt (IANum c)).
Proof. intros cs k c H. cbn [is_int_push_ins intarg_res]. rewrite H. auto. Qed.

(* without a (unique, entry-block) intcblock the constant is unknown: the rewrite is NOT neutral then *)
Theorem is_int_push_intc_no_block : forall k,
  is_int_push_ins None (IIntc k) = IntUnknown /\ is_int_push_ins None (IIntcK k) = IntUnknown.
Proof. intros; split; reflexivity. Qed.

(* ====================================================================== *)
(* Assumption audit                                                         *)
(* ====================================================================== *)
Print Assumptions find_label_rename.
Print Assumptions ins_next_rename.
Print Assumptions create_bb_rename.
Print Assumptions build_blocks_rename.
Print Assumptions callsub_table_rename.
Print Assumptions parse_teal_rename_strong.
Print Assumptions parse_teal_rename.
Print Assumptions called_subroutine_rename.
Print Assumptions parse_lines_insert.
Print Assumptions parse_lines_insert_split.
Print Assumptions parse_lines_strip_ext.
Print Assumptions parse_lines_line_ext.
Print Assumptions line_result_trailing_comment.
Print Assumptions parse_lines_replace_line.
Print Assumptions create_bb_lines_irrelevant.
Print Assumptions parse_teal_lines_irrelevant.
Print Assumptions insert_ignorable_line.
Print Assumptions is_int_push_pushint.
Print Assumptions named_type_constants.
Print Assumptions named_oncompletion_constants.
Print Assumptions int_line_spellings.
Print Assumptions int_line_named.
Print Assumptions is_int_push_intc.
