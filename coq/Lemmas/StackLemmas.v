(* Property C11: the operands reconstructed by the symbolic stack emulation of one basic block
   (Model/StackAst.v, [emulate]) are the operands the machine would pass, for every arity-respecting
   concrete semantics of the opcodes; producers named in [SKnown] are real earlier instructions of the
   same block; structural lemmas about [emulate], [and_leaves_c], [or_leaves_c]. *)
From Coq Require Import List Arith Lia Bool.
From Tealer Require Import Tables Syntax Parse Cfg StackAst.
Import ListNotations.

Arguments stack_pop_size : simpl never.
Arguments stack_push_size : simpl never.
Arguments op_at : simpl never.

(* ------------------------------------------------------------------ induction principle for sval *)
Section SvalInd.
  Variable P : sval -> Prop.
  Hypothesis HU : P SUnknown.
  Hypothesis HK : forall op pos args out, Forall P args -> P (SKnown op pos args out).
  Fixpoint sval_ind' (v : sval) : P v :=
    match v with
    | SUnknown => HU
    | SKnown op pos args out =>
        HK op pos args out
          ((fix go (l : list sval) : Forall P l :=
              match l with
              | [] => @Forall_nil _ P
              | a :: t => @Forall_cons _ P a t (sval_ind' a) (go t)
              end) args)
    end.
End SvalInd.

(* ------------------------------------------------------------------ generic list facts *)
Section ListFacts.
  Context {A B : Type}.
  Variable R : A -> B -> Prop.

  Lemma Forall2_length' : forall l1 l2, Forall2 R l1 l2 -> length l1 = length l2.
  Proof. induction 1; simpl; auto. Qed.

  Lemma Forall2_rev' : forall l1 l2, Forall2 R l1 l2 -> Forall2 R (rev l1) (rev l2).
  Proof. induction 1; simpl; [constructor | apply Forall2_app; auto]. Qed.

  Lemma Forall2_firstn' : forall n l1 l2, Forall2 R l1 l2 -> Forall2 R (firstn n l1) (firstn n l2).
  Proof. intros n l1 l2 H; revert n; induction H; intros [|n]; simpl; constructor; auto. Qed.

  Lemma Forall2_skipn' : forall n l1 l2, Forall2 R l1 l2 -> Forall2 R (skipn n l1) (skipn n l2).
  Proof.
    intros n l1 l2 H; revert n; induction H; intros [|n]; simpl; try constructor; auto.
  Qed.

  Lemma Forall2_Forall_impl : forall (R' : A -> B -> Prop) l1 l2,
      Forall (fun a => forall b, R a b -> R' a b) l1 -> Forall2 R l1 l2 -> Forall2 R' l1 l2.
  Proof.
    intros R' l1 l2 HF H; induction H; constructor.
    - inversion HF; subst; auto.
    - inversion HF; subst; auto.
  Qed.
End ListFacts.

Lemma Forall_rev' {A} (P : A -> Prop) l : Forall P l -> Forall P (rev l).
Proof. rewrite !Forall_forall; intros H x Hx; apply H, in_rev; exact Hx. Qed.

Lemma Forall_firstn' {A} (P : A -> Prop) n l : Forall P l -> Forall P (firstn n l).
Proof.
  rewrite !Forall_forall; intros H x Hx. apply H.
  rewrite <- (firstn_skipn n l). apply in_or_app; left; exact Hx.
Qed.

Lemma Forall_skipn' {A} (P : A -> Prop) n l : Forall P l -> Forall P (skipn n l).
Proof.
  rewrite !Forall_forall; intros H x Hx. apply H.
  rewrite <- (firstn_skipn n l). apply in_or_app; right; exact Hx.
Qed.

Lemma Forall_repeat' {A} (P : A -> Prop) x n : P x -> Forall P (repeat x n).
Proof. intros Hx; induction n; simpl; constructor; auto. Qed.

(* ------------------------------------------------------------------ pop_n: structure *)
Lemma pop_n_length st n : length (fst (pop_n st n)) = n.
Proof.
  unfold pop_n. destruct (Nat.leb n (length st)) eqn:E; simpl.
  - apply Nat.leb_le in E. rewrite rev_length, firstn_length. lia.
  - apply Nat.leb_gt in E. rewrite app_length, repeat_length, rev_length. lia.
Qed.

Lemma pop_n_Forall (P : sval -> Prop) st n :
  P SUnknown -> Forall P st -> Forall P (fst (pop_n st n)) /\ Forall P (snd (pop_n st n)).
Proof.
  intros HU H. unfold pop_n. destruct (Nat.leb n (length st)); simpl; split.
  - apply Forall_rev', Forall_firstn'; exact H.
  - apply Forall_skipn'; exact H.
  - apply Forall_app; split; [apply Forall_repeat'; exact HU | apply Forall_rev'; exact H].
  - constructor.
Qed.

(* ------------------------------------------------------------------ emulate: structure *)
Definition pos_of (e : nat * instr * list sval) : nat := let '(k, _, _) := e in k.

(* unfolding one step of emulate *)
Lemma emulate_cons_inv p k t st ast :
  emulate p (k :: t) st = Some ast ->
  exists op n m r,
    op_at p k = Some op /\ stack_pop_size op = Some n /\ stack_push_size op = Some m /\
    emulate p t (push_outs op k (fst (pop_n st n)) m (snd (pop_n st n))) = Some r /\
    ast = (k, op, fst (pop_n st n)) :: r.
Proof.
  simpl. destruct (op_at p k) as [op|] eqn:Hop; try discriminate.
  unfold emulate_ins.
  destruct (stack_pop_size op) as [n|] eqn:Hn; try discriminate.
  destruct (stack_push_size op) as [m|] eqn:Hm; try discriminate.
  destruct (pop_n st n) as [a s'] eqn:Hp.
  destruct (emulate p t (push_outs op k a m s')) as [r|] eqn:Hr; try discriminate.
  intros H; inversion H; subst. exists op, n, m, r. rewrite Hp. simpl. auto 10.
Qed.

Lemma emulate_positions p : forall poss st ast,
    emulate p poss st = Some ast -> map pos_of ast = poss.
Proof.
  induction poss as [|k t IH]; intros st ast H.
  - simpl in H. inversion H; reflexivity.
  - apply emulate_cons_inv in H. destruct H as (op & n & m & r & _ & _ & _ & Hr & ->).
    simpl. f_equal. eapply IH; eauto.
Qed.

Lemma emulate_ops p : forall poss st ast,
    emulate p poss st = Some ast ->
    forall k op args, In (k, op, args) ast -> op_at p k = Some op.
Proof.
  induction poss as [|k0 t IH]; intros st ast H k op args Hin.
  - simpl in H. inversion H; subst. destruct Hin.
  - apply emulate_cons_inv in H. destruct H as (op0 & n & m & r & Hop & _ & _ & Hr & ->).
    destruct Hin as [E|Hin].
    + inversion E; subst; exact Hop.
    + eapply IH; eauto.
Qed.

Lemma emulate_args_length_gen p : forall poss st ast,
    emulate p poss st = Some ast ->
    forall k op args, In (k, op, args) ast -> stack_pop_size op = Some (length args).
Proof.
  induction poss as [|k0 t IH]; intros st ast H k op args Hin.
  - simpl in H. inversion H; subst. destruct Hin.
  - apply emulate_cons_inv in H. destruct H as (op0 & n & m & r & _ & Hn & _ & Hr & ->).
    destruct Hin as [E|Hin].
    + inversion E; subst. rewrite pop_n_length. exact Hn.
    + eapply IH; eauto.
Qed.

Theorem emulate_args_length p poss ast :
  emulate p poss [] = Some ast ->
  forall k op args, In (k, op, args) ast -> stack_pop_size op = Some (length args).
Proof. apply emulate_args_length_gen. Qed.

(* ------------------------------------------------------------------ provenance of SKnown values *)
(* every SKnown node (at any depth) satisfies Q *)
Inductive sv_ok (Q : instr -> nat -> list sval -> nat -> Prop) : sval -> Prop :=
| sv_ok_unknown : sv_ok Q SUnknown
| sv_ok_known : forall op pos args j,
    Q op pos args j -> Forall (sv_ok Q) args -> sv_ok Q (SKnown op pos args j).

Lemma sv_ok_mono (Q Q' : instr -> nat -> list sval -> nat -> Prop) :
  (forall op pos args j, Q op pos args j -> Q' op pos args j) ->
  forall v, sv_ok Q v -> sv_ok Q' v.
Proof.
  intros HQ v. induction v as [|op pos args j IH] using sval_ind'; intros H.
  - constructor.
  - inversion H as [|? ? ? ? HQ0 HF]; subst. constructor; auto.
    rewrite Forall_forall in *. intros a Ha. apply IH; auto.
Qed.

(* the producer (pos, op, args) is one of the instructions in [done], its opcode is the one in the
   program at that position, and the output index is within its push size *)
Definition producer_ok (p : prog) (done : list (nat * instr * list sval))
           (op : instr) (pos : nat) (args : list sval) (j : nat) : Prop :=
  In (pos, op, args) done /\ op_at p pos = Some op /\
  exists m, stack_push_size op = Some m /\ j < m.

Lemma producer_ok_mono p d d' : incl d d' ->
  forall op pos args j, producer_ok p d op pos args j -> producer_ok p d' op pos args j.
Proof. intros Hi op pos args j (H1 & H2 & H3). split; auto. Qed.

Lemma push_outs_Forall (P : sval -> Prop) op pos args m st :
  (forall j, j < m -> P (SKnown op pos args j)) -> Forall P st ->
  Forall P (push_outs op pos args m st).
Proof.
  intros Hn Hst. unfold push_outs. apply Forall_app; split; auto.
  apply Forall_rev'. rewrite Forall_forall. intros x Hx.
  apply in_map_iff in Hx. destruct Hx as (j & <- & Hj). apply in_seq in Hj. apply Hn. lia.
Qed.

Lemma emulate_provenance_gen p : forall poss done st ast,
    Forall (sv_ok (producer_ok p done)) st ->
    emulate p poss st = Some ast ->
    forall k op args, In (k, op, args) ast ->
      exists a1 a2, ast = a1 ++ (k, op, args) :: a2 /\
                    Forall (sv_ok (producer_ok p (done ++ a1))) args.
Proof.
  induction poss as [|k0 t IH]; intros done st ast Hst H k op args Hin.
  - simpl in H. inversion H; subst. destruct Hin.
  - apply emulate_cons_inv in H. destruct H as (op0 & n & m & r & Hop & Hn & Hm & Hr & ->).
    destruct (pop_n_Forall (sv_ok (producer_ok p done)) st n (sv_ok_unknown _) Hst) as [Ha Hs].
    destruct Hin as [E|Hin].
    + inversion E; subst. exists [], r. split; [reflexivity|]. rewrite app_nil_r. exact Ha.
    + assert (Hmono : forall v, sv_ok (producer_ok p done) v ->
                                sv_ok (producer_ok p (done ++ [(k0, op0, fst (pop_n st n))])) v).
      { apply sv_ok_mono. apply producer_ok_mono. apply incl_appl, incl_refl. }
      assert (Hst' : Forall (sv_ok (producer_ok p (done ++ [(k0, op0, fst (pop_n st n))])))
                            (push_outs op0 k0 (fst (pop_n st n)) m (snd (pop_n st n)))).
      { apply push_outs_Forall.
        - intros j Hj. constructor.
          + split; [apply in_or_app; right; left; reflexivity|].
            split; [exact Hop|]. exists m; auto.
          + eapply Forall_impl; [exact Hmono | exact Ha].
        - eapply Forall_impl; [exact Hmono | exact Hs]. }
      destruct (IH _ _ _ Hst' Hr k op args Hin) as (a1 & a2 & E & Hargs). subst r.
      exists ((k0, op0, fst (pop_n st n)) :: a1), a2. split; [reflexivity|].
      rewrite <- app_assoc in Hargs. exact Hargs.
Qed.

(* deep form: every SKnown node anywhere inside the operands reconstructed for k names an instruction
   that occurs strictly earlier in the emulation result, with that instruction's own reconstructed
   operands, the program's opcode at that position, and an output index below its push size *)
Theorem emulate_provenance p poss ast :
  emulate p poss [] = Some ast ->
  forall k op args, In (k, op, args) ast ->
    exists a1 a2, ast = a1 ++ (k, op, args) :: a2 /\ Forall (sv_ok (producer_ok p a1)) args.
Proof.
  intros H k op args Hin.
  destruct (emulate_provenance_gen p poss [] [] ast (Forall_nil _) H k op args Hin)
    as (a1 & a2 & E & HF).
  exists a1, a2. auto.
Qed.

(* attribution corollary *)
Theorem producer_is_real p poss ast :
  emulate p poss [] = Some ast ->
  forall k op args, In (k, op, args) ast ->
  forall op' pos' args' j, In (SKnown op' pos' args' j) args ->
    (exists l1 l2, poss = l1 ++ k :: l2 /\ In pos' l1) /\
    op_at p pos' = Some op' /\
    In (pos', op', args') ast /\
    (exists m, stack_push_size op' = Some m /\ j < m).
Proof.
  intros H k op args Hin op' pos' args' j Hv.
  destruct (emulate_provenance p poss ast H k op args Hin) as (a1 & a2 & E & HF).
  rewrite Forall_forall in HF. specialize (HF _ Hv).
  inversion HF as [|? ? ? ? HQ0 _]; subst.
  destruct HQ0 as (Hd & Hop & Hm).
  split; [|split; [exact Hop | split; [|exact Hm]]].
  - exists (map pos_of a1), (map pos_of a2). split.
    + rewrite <- (emulate_positions p poss [] _ H). rewrite map_app. reflexivity.
    + exact (in_map pos_of _ _ Hd).
  - apply in_or_app; left; exact Hd.
Qed.

(* ------------------------------------------------------------------ concrete semantics *)
Section Concrete.
  Variable val : Type.
  (* effect of the opcode occurrence (op, pos) on its arguments (deepest first): results in push order *)
  Variable sem : instr -> nat -> list val -> list val.
  Hypothesis sem_len : forall op pos vs n m,
      stack_pop_size op = Some n -> stack_push_size op = Some m ->
      length vs = n -> length (sem op pos vs) = m.

  (* (pos, concrete arguments deepest first, concrete results in push order) *)
  Definition trace := list (nat * list val * list val).

  (* concrete stack: head = top.  None: unknown arity or stack underflow *)
  Definition cstep (op : instr) (pos : nat) (cs : list val)
    : option (list val * list val * list val) :=
    match stack_pop_size op, stack_push_size op with
    | Some n, Some _ =>
        if Nat.leb n (length cs)
        then Some (rev (firstn n cs),
                   sem op pos (rev (firstn n cs)),
                   rev (sem op pos (rev (firstn n cs))) ++ skipn n cs)
        else None
    | _, _ => None
    end.

  Fixpoint crun_tr (p : prog) (poss : list nat) (cs : list val) : option (trace * list val) :=
    match poss with
    | [] => Some ([], cs)
    | k :: t =>
        match op_at p k with
        | None => None
        | Some op =>
            match cstep op k cs with
            | None => None
            | Some (args, outs, cs') =>
                match crun_tr p t cs' with
                | None => None
                | Some (tr, fin) => Some ((k, args, outs) :: tr, fin)
                end
            end
        end
    end.

  Definition consumed (tr : trace) : list (nat * list val) :=
    map (fun '(pos, a, _) => (pos, a)) tr.

  (* the run as specified: per position the concrete argument list consumed, and the final stack *)
  Definition crun (p : prog) (poss : list nat) (cs : list val)
    : option (list (nat * list val) * list val) :=
    match crun_tr p poss cs with
    | Some (tr, fin) => Some (consumed tr, fin)
    | None => None
    end.

  (* denotation of a symbolic value w.r.t. the record of one concrete run *)
  Inductive den (tr : trace) : sval -> val -> Prop :=
  | den_unknown : forall x, den tr SUnknown x
  | den_known : forall op pos args k x cargs couts,
      In (pos, cargs, couts) tr ->
      nth_error couts k = Some x ->
      Forall2 (den tr) args cargs ->
      den tr (SKnown op pos args k) x.

  Lemma den_mono tr tr' : incl tr tr' -> forall v x, den tr v x -> den tr' v x.
  Proof.
    intros Hi v. induction v as [|op pos args j IH] using sval_ind'; intros x H.
    - constructor.
    - inversion H; subst. econstructor; eauto.
      eapply Forall2_Forall_impl; [exact IH | eassumption].
  Qed.

  Lemma crun_tr_cons_inv p k t cs tr fin :
    crun_tr p (k :: t) cs = Some (tr, fin) ->
    exists op n m tr1,
      op_at p k = Some op /\ stack_pop_size op = Some n /\ stack_push_size op = Some m /\
      n <= length cs /\
      crun_tr p t (rev (sem op k (rev (firstn n cs))) ++ skipn n cs) = Some (tr1, fin) /\
      tr = (k, rev (firstn n cs), sem op k (rev (firstn n cs))) :: tr1.
  Proof.
    simpl. destruct (op_at p k) as [op|] eqn:Hop; try discriminate.
    unfold cstep.
    destruct (stack_pop_size op) as [n|] eqn:Hn; try discriminate.
    destruct (stack_push_size op) as [m|] eqn:Hm; try discriminate.
    destruct (Nat.leb n (length cs)) eqn:Hle; try discriminate.
    destruct (crun_tr p t _) as [[tr1 f1]|] eqn:Hr; try discriminate.
    intros H; inversion H; subst. apply Nat.leb_le in Hle.
    exists op, n, m, tr1. auto 10.
  Qed.

  Definition tr_pos (e : nat * list val * list val) : nat := let '(k, _, _) := e in k.

  Lemma crun_tr_positions p : forall poss cs tr fin,
      crun_tr p poss cs = Some (tr, fin) -> map tr_pos tr = poss.
  Proof.
    induction poss as [|k t IH]; intros cs tr fin H.
    - simpl in H. inversion H; reflexivity.
    - apply crun_tr_cons_inv in H.
      destruct H as (op & n & m & tr1 & _ & _ & _ & _ & Hr & ->).
      simpl. f_equal. eapply IH; eauto.
  Qed.

  (* with distinct positions the trace has exactly one entry per position, so the witnesses in
     [den] and in [emulate_sound] are uniquely determined *)
  Lemma crun_tr_functional p poss cs tr fin :
    NoDup poss -> crun_tr p poss cs = Some (tr, fin) ->
    forall k a o a' o', In (k, a, o) tr -> In (k, a', o') tr -> a = a' /\ o = o'.
  Proof.
    intros Hnd H. apply crun_tr_positions in H. subst poss.
    induction tr as [|e tr IH]; intros k a o a' o' H1 H2; [destruct H1|].
    simpl in Hnd. inversion Hnd as [|? ? Hnotin Hnd']; subst.
    destruct H1 as [E1|H1], H2 as [E2|H2].
    - rewrite E1 in E2. inversion E2; auto.
    - exfalso. apply Hnotin. rewrite E1. exact (in_map tr_pos _ _ H2).
    - exfalso. apply Hnotin. rewrite E2. exact (in_map tr_pos _ _ H1).
    - eapply IH; eauto.
  Qed.

  (* the symbolic stack describes the top part of the concrete stack, in the same order *)
  Definition inv (T : trace) (st : sstack) (cs : list val) : Prop :=
    exists cs1 cs2, cs = cs1 ++ cs2 /\ Forall2 (den T) st cs1.

  Lemma inv_iff T st cs :
    inv T st cs <-> Forall2 (den T) st (firstn (length st) cs) /\ length st <= length cs.
  Proof.
    split.
    - intros (cs1 & cs2 & -> & HF). pose proof (Forall2_length' _ _ _ HF) as HL.
      rewrite HL, firstn_app, firstn_all, Nat.sub_diag, firstn_O, app_nil_r, app_length.
      split; [exact HF | lia].
    - intros [HF HL]. exists (firstn (length st) cs), (skipn (length st) cs).
      rewrite firstn_skipn. auto.
  Qed.

  Lemma den_repeat_unknown T : forall l, Forall2 (den T) (repeat SUnknown (length l)) l.
  Proof. induction l; simpl; constructor; auto. constructor. Qed.

  Lemma pop_n_den T st cs n :
    inv T st cs -> n <= length cs ->
    Forall2 (den T) (fst (pop_n st n)) (rev (firstn n cs)) /\
    inv T (snd (pop_n st n)) (skipn n cs).
  Proof.
    intros (cs1 & cs2 & -> & HF) Hn. pose proof (Forall2_length' _ _ _ HF) as HL.
    unfold pop_n. destruct (Nat.leb n (length st)) eqn:E; simpl.
    - apply Nat.leb_le in E.
      rewrite firstn_app, skipn_app.
      replace (n - length cs1) with 0 by lia. rewrite firstn_O, app_nil_r. simpl.
      split.
      + apply Forall2_rev', Forall2_firstn'; exact HF.
      + exists (skipn n cs1), cs2. split; [reflexivity|]. apply Forall2_skipn'; exact HF.
    - apply Nat.leb_gt in E. rewrite app_length in Hn.
      rewrite firstn_app, skipn_app.
      rewrite (firstn_all2 (n := n) cs1) by lia. rewrite (skipn_all2 (n := n) cs1) by lia.
      rewrite rev_app_distr. simpl. split.
      + apply Forall2_app.
        * replace (n - length st) with (length (rev (firstn (n - length cs1) cs2))).
          -- apply den_repeat_unknown.
          -- rewrite rev_length, firstn_length. lia.
        * apply Forall2_rev'; exact HF.
      + exists [], (skipn (n - length cs1) cs2). split; [reflexivity | constructor].
  Qed.

  Lemma den_outs T op pos args cargs : forall outs pre,
      In (pos, cargs, pre ++ outs) T -> Forall2 (den T) args cargs ->
      Forall2 (den T) (map (fun k => SKnown op pos args k) (seq (length pre) (length outs))) outs.
  Proof.
    induction outs as [|x outs IH]; intros pre Hin Hargs; simpl; constructor.
    - econstructor; eauto. rewrite nth_error_app2 by lia. rewrite Nat.sub_diag. reflexivity.
    - specialize (IH (pre ++ [x])). rewrite app_length in IH. simpl in IH.
      rewrite Nat.add_1_r in IH. apply IH; auto. rewrite <- app_assoc. exact Hin.
  Qed.

  Lemma push_outs_den T op pos args cargs m st cs outs :
    In (pos, cargs, outs) T -> Forall2 (den T) args cargs -> length outs = m ->
    inv T st cs -> inv T (push_outs op pos args m st) (rev outs ++ cs).
  Proof.
    intros Hin Hargs <- (cs1 & cs2 & -> & HF).
    exists (rev outs ++ cs1), cs2. split; [apply app_assoc|].
    unfold push_outs. apply Forall2_app; [|exact HF].
    apply Forall2_rev'. apply (den_outs T op pos args cargs outs []); auto.
  Qed.

  Lemma emulate_sound_gen p T : forall poss st cs ast tr fin,
      inv T st cs ->
      emulate p poss st = Some ast ->
      crun_tr p poss cs = Some (tr, fin) ->
      incl tr T ->
      forall k op args, In (k, op, args) ast ->
        exists cargs couts, In (k, cargs, couts) tr /\ Forall2 (den T) args cargs.
  Proof.
    induction poss as [|k0 t IH]; intros st cs ast tr fin Hinv He Hc Hincl k op args Hin.
    - simpl in He. inversion He; subst. destruct Hin.
    - apply emulate_cons_inv in He. destruct He as (op0 & n & m & r & Hop & Hn & Hm & Hr & ->).
      apply crun_tr_cons_inv in Hc.
      destruct Hc as (op1 & n1 & m1 & tr1 & Hop1 & Hn1 & Hm1 & Hle & Hc & ->).
      rewrite Hop in Hop1; inversion Hop1; subst op1.
      rewrite Hn in Hn1; inversion Hn1; subst n1.
      rewrite Hm in Hm1; inversion Hm1; subst m1.
      destruct (pop_n_den T st cs n Hinv Hle) as [Hargs Hinv'].
      destruct Hin as [E|Hin].
      + inversion E; subst. do 2 eexists. split; [left; reflexivity | exact Hargs].
      + edestruct (IH _ _ _ _ _ (push_outs_den T op0 k0 _ _ m _ _ _
                                   (Hincl _ (or_introl eq_refl)) Hargs
                                   (sem_len _ _ _ _ _ Hn Hm
                                      (eq_trans (rev_length _)
                                                (firstn_length_le _ Hle)))
                                   Hinv') Hr Hc)
          as (cargs & couts & Hi & HF); [ | exact Hin | ].
        * intros e He. apply Hincl. right. exact He.
        * exists cargs, couts. split; [right; exact Hi | exact HF].
  Qed.

  (* C11, first sentence *)
  Theorem emulate_sound p poss cs ast tr fin :
    NoDup poss ->
    emulate p poss [] = Some ast ->
    crun_tr p poss cs = Some (tr, fin) ->
    forall k op args, In (k, op, args) ast ->
      exists cargs, In (k, cargs) (consumed tr) /\ Forall2 (den tr) args cargs.
  Proof.
    intros _ He Hc k op args Hin.
    assert (Hinv : inv tr [] cs) by (exists [], cs; split; [reflexivity | constructor]).
    destruct (emulate_sound_gen p tr poss [] cs ast tr fin Hinv He Hc (incl_refl _) k op args Hin)
      as (cargs & couts & Hi & HF).
    exists cargs. split; [|exact HF].
    unfold consumed. apply in_map_iff. exists (k, cargs, couts). auto.
  Qed.

  (* the same, phrased with [crun] (arguments only) *)
  Corollary emulate_sound_crun p poss cs ast consumed_args fin :
    NoDup poss ->
    emulate p poss [] = Some ast ->
    crun p poss cs = Some (consumed_args, fin) ->
    exists tr, crun_tr p poss cs = Some (tr, fin) /\ consumed_args = consumed tr /\
      forall k op args, In (k, op, args) ast ->
        exists cargs, In (k, cargs) consumed_args /\ Forall2 (den tr) args cargs /\
                      (forall cargs', In (k, cargs') consumed_args -> cargs' = cargs).
  Proof.
    intros Hnd He Hc. unfold crun in Hc.
    destruct (crun_tr p poss cs) as [[tr f]|] eqn:Hr; try discriminate.
    inversion Hc; subst. exists tr. split; [reflexivity|]. split; [reflexivity|].
    intros k op args Hin.
    destruct (emulate_sound p poss cs ast tr fin Hnd He Hr k op args Hin) as (cargs & Hi & HF).
    exists cargs. split; [exact Hi|]. split; [exact HF|].
    intros cargs' Hi'. unfold consumed in Hi, Hi'.
    apply in_map_iff in Hi. destruct Hi as ([[k1 a1] o1] & E1 & H1).
    apply in_map_iff in Hi'. destruct Hi' as ([[k2 a2] o2] & E2 & H2).
    inversion E1; subst. inversion E2; subst.
    destruct (crun_tr_functional p poss cs tr fin Hnd Hr _ _ _ _ _ H1 H2); auto.
  Qed.

End Concrete.

(* ------------------------------------------------------------------ flattening *)
Lemma and_leaves_c_no_and : forall c x,
    In x (and_leaves_c c) -> match x with CAnd _ _ => False | _ => True end.
Proof.
  induction c; intros x Hin; simpl in Hin;
    try (destruct Hin as [<-|[]]; exact I).
  apply in_app_or in Hin. destruct Hin; [apply IHc1 | apply IHc2]; assumption.
Qed.

Lemma or_leaves_c_no_or : forall c x,
    In x (or_leaves_c c) -> match x with COr _ _ => False | _ => True end.
Proof.
  induction c; intros x Hin; simpl in Hin;
    try (destruct Hin as [<-|[]]; exact I).
  apply in_app_or in Hin. destruct Hin; [apply IHc1 | apply IHc2]; assumption.
Qed.

(* ------------------------------------------------------------------ sanity (non-vacuity) *)
Module Sanity.
  Definition p0 : prog := [mkIns 1 (IIntcK BinNums.N0); mkIns 2 IAdd; mkIns 3 INot].
  Definition sem0 (op : instr) (pos : nat) (vs : list nat) : list nat :=
    match op with
    | IIntcK _ => [7]
    | IAdd => [fold_right Nat.add 0 vs]
    | INot => [match vs with [0] => 1 | _ => 0 end]
    | _ => []
    end.
  Example emulate_p0 :
    emulate p0 [0; 1; 2] [] =
    Some [(0, IIntcK BinNums.N0, []);
          (1, IAdd, [SUnknown; SKnown (IIntcK BinNums.N0) 0 [] 0]);
          (2, INot, [SKnown IAdd 1 [SUnknown; SKnown (IIntcK BinNums.N0) 0 [] 0] 0])].
  Proof. vm_compute. reflexivity. Qed.
  Example crun_p0 :
    crun_tr nat sem0 p0 [0; 1; 2] [5] =
    Some ([(0, [], [7]); (1, [5; 7], [12]); (2, [12], [0])], [0]).
  Proof. vm_compute. reflexivity. Qed.
  (* underflow: the machine fails, the emulation does not *)
  Example crun_p0_underflow : crun_tr nat sem0 p0 [0; 1; 2] [] = None.
  Proof. vm_compute. reflexivity. Qed.
End Sanity.

Check emulate_sound.
Check emulate_sound_crun.
Check den_mono.
Check producer_is_real.
Check emulate_provenance.
Check emulate_args_length.
Print Assumptions emulate_sound.
Print Assumptions emulate_sound_crun.
Print Assumptions den_mono.
Print Assumptions producer_is_real.
Print Assumptions emulate_provenance.
Print Assumptions emulate_args_length.
Print Assumptions and_leaves_c_no_and.
Print Assumptions or_leaves_c_no_or.
