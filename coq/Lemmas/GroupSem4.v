(* C13, last sentence, for SINGLE-FIELD detectors: the side condition [GroupSem3.leaves_justified] of
   [GroupSem3.single_group_eq_contract_exact] is DISCHARGED from the solver's equations, for every function whose
   graph is well formed (GraphWf.graph_wf: true of every parsed structured contract) and that has no callsub / retsub
   (GroupSem3.subroutine_free), and for the result of Domains.run_all.

   Why a single field is not "one key".  Detect.validated_in_block reads THREE things of a block b:
     the detector's field for the key KSelf (`txn F`), the possible own indices of b (r_indices), and the field for
     every key KAtIndex i with i a possible index (`gtxn i F`).  What makes the exit-only criterion of group mode
     coincide with the path criterion nevertheless is the refinement of Domains.run_family: the block constraint of
     the key KAtIndex i at b is  null  when i is not a possible index of b, and otherwise the key's own constraint
     intersected with the FINAL KSelf value of b.  Hence for a dangerous 'point' d of the domain (a predicate dg on
     abstract values that is prime: dg (a U b) <-> dg a \/ dg b, dg (a n b) <-> dg a /\ dg b, ~ dg null, dg univ)

         b is unvalidated   <->   exists i < 16,  dg (result of the ONE key KAtIndex i at b)          (unval_iff_key)

     and the result of one key is, by ExactLemmas.solve_exact / bwd_contains, exactly Spec/Literal.LiveOut: forward
     reach-in intersected with backward live-in, read inductively.  LiveOut b gives a chain of global predecessors
     from the entry to b every member of which is again LiveOut (live_pred), i.e. unvalidated:

         solve_unvalidated_reachable   one solve: dg at b  ->  b is reachable from the entry through blocks holding dg
         family_unvalidated_reachable  run_family: every unvalidated block is reachable through unvalidated blocks
         unvalidated_leaf_has_unvalidated_path   ... hence, for an unvalidated exit, a Paths.GoodPath

   The abstract condition on the detector is [single_key_pred]: checks (ctx_of r b fam) = false  <->  dg (value of
   the field's key fam at b), for one family result of run_all -- the predicate is antitone in that one value and
   reads nothing else.

   Instances: missing-fee-check (dg v := the bound is known and > MAX_TRANSACTION_COST; an unknown bound is
   credited by the detector, so it is not dangerous) and rekey-to (dg s := ANY_ADDRESS in s, on the well-formed
   values the analysis produces).  Then

         single_group_eq_contract_fee / _rekey :  the group of one transaction running the contract reports the
         transaction  IFF  the single-contract detector reports a path.

   NOT covered here (see NOTES-lj.md): functions with subroutines.  The solver's graph is context-insensitive
   (a retsub block flows to every return point) and GoodPath is context-sensitive and cuts recursion; the argument
   above needs a same-level-path construction that is not done. *)
From Coq Require Import String List NArith ZArith Bool Arith Lia.
From Tealer Require Import Tables LeafPrelude Leaves Syntax Parse Cfg StackAst Keys Analysis Domains Detect Group Driver.
From Tealer Require Import Paths Literal LeafLemmas SolverLemmas ExactLemmas ExecLemmas GraphWf GraphOk NoMiss ExactInstances.
From Tealer Require Import TypeExec GroupLemmas GroupSem GroupSem2 GroupSem3.
Import ListNotations.
Open Scope string_scope.
Open Scope list_scope.

(* ====================================================================== *)
(* 0. small facts                                                          *)
(* ====================================================================== *)
Lemma find_nodup_idx : forall (l : list block) b,
  NoDup (map b_idx l) -> In b l -> find (fun x => Nat.eqb (b_idx x) (b_idx b)) l = Some b.
Proof.
  induction l as [|a l IH]; intros b Hnd Hin; [destruct Hin|].
  cbn [map] in Hnd. inversion Hnd as [|x xs Hna Hnd']; subst. cbn [find].
  destruct Hin as [->|Hin]; [rewrite Nat.eqb_refl; reflexivity|].
  destruct (Nat.eqb_spec (b_idx a) (b_idx b)) as [E|_]; [|exact (IH b Hnd' Hin)].
  exfalso. apply Hna. rewrite E. apply in_map. exact Hin.
Qed.

Lemma fblock_of_In f b : NoDup (map b_idx (fn_blocks f)) -> In b (fn_blocks f) -> fblock f (b_idx b) = Some b.
Proof. intros Hnd Hin. exact (find_nodup_idx (fn_blocks f) b Hnd Hin). Qed.

Lemma seq_outcomes_all {A B} (g : A -> outcome B) : forall (l : list A) rs,
  seq_outcomes l g = Done rs -> forall a, In a l -> exists b, In b rs /\ g a = Done b.
Proof.
  unfold seq_outcomes. induction l as [|a0 l IH]; intros rs H a Ha; [destruct Ha|].
  cbn [fold_right] in H.
  destruct (fold_right _ (Done []) l) as [r| |] eqn:E; try discriminate.
  destruct (g a0) as [y| |] eqn:Ea; try discriminate. inversion H; subst rs.
  destruct Ha as [<-|Ha].
  - exists y. split; [left; reflexivity | exact Ea].
  - destruct (IH r eq_refl a Ha) as (b & Hb & Hg). exists b. split; [right; exact Hb | exact Hg].
Qed.

Lemma at_index_in_fams (n : N) : (n < 16)%N -> In (KAtIndex n) all_gtx_fams.
Proof.
  intros Hn. unfold all_gtx_fams. apply in_or_app. left. apply in_flat_map.
  exists (N.to_nat n). split.
  - apply in_seq. change max_group_size with 16. lia.
  - left. rewrite N2Nat.id. reflexivity.
Qed.

Lemma lookup_refine_at_inv {T} (inter : T -> T -> T) null indices base i : forall bc b c,
  Analysis.lookup T (refine_at inter null indices base i bc) b = Some c ->
  exists c0, Analysis.lookup T bc b = Some c0 /\
    c = (if zmem (Z.of_N i) (match Analysis.lookup _ indices b with Some l => l | None => [] end)
         then inter c0 (match Analysis.lookup _ base b with Some v => v | None => null end) else null).
Proof.
  intros bc b c H. destruct (Analysis.lookup T bc b) as [c0|] eqn:E.
  - exists c0. split; [reflexivity|].
    rewrite (lookup_refine_at inter null indices base i bc b c0 E) in H. inversion H. reflexivity.
  - exfalso. revert H E. induction bc as [|[k w] bc IH]; intros H E; [discriminate|].
    cbn [refine_at map] in H. cbn [Analysis.lookup] in E.
    destruct (zmem (Z.of_N i) (match Analysis.lookup _ indices k with Some l => l | None => [] end));
      cbn [Analysis.lookup] in H; destruct (Nat.eqb k b); try discriminate; exact (IH H E).
Qed.

(* ====================================================================== *)
(* 1. one solve: a block holding the point is reachable through such blocks *)
(* ====================================================================== *)
Section PathCore.
  Variable T : Type.
  Variable t_eqb : T -> T -> bool.
  Variable univ null : T.
  Variable union inter : T -> T -> T.
  Variable single : instr -> nat -> list sval -> T * T.
  Variable f : func.

  (* the dangerous point of the domain, as a predicate on abstract values *)
  Variable dg : T -> Prop.
  (* it is PRIME (join-irreducible, and meets are read pointwise) and not below null *)
  Hypothesis dg_null : ~ dg null.
  Hypothesis dg_union_inv : forall a b, dg (union a b) -> dg a \/ dg b.
  Hypothesis dg_inter_inv : forall a b, dg (inter a b) -> dg a /\ dg b.
  Hypothesis dg_univ : dg univ.
  Hypothesis dg_union_l : forall a b, dg a -> dg (union a b).
  Hypothesis dg_union_r : forall a b, dg b -> dg (union a b).
  Hypothesis dg_inter : forall a b, dg a -> dg b -> dg (inter a b).
  Hypothesis dg_eqb : forall a b, t_eqb a b = true -> (dg a <-> dg b).
  Hypothesis teq_refl : forall a, t_eqb a a = true.

  Hypothesis Hwf : graph_wf f = true.
  Hypothesis Hsf : subroutine_free f.

  Variable bc : list (nat * T).

  Definition pgamma (v : T) (_ : unit) : Prop := dg v.
  Notation okbv := (ExactLemmas.okb T unit pgamma tt bc).
  Notation okev := (ExactLemmas.oke T univ null union inter single f unit pgamma tt).
  Notation RO := (Literal.ReachOut f okbv okev).
  Notation LO := (Literal.LiveOut f okbv okev).

  Lemma sf_next_global p pb : fblock f p = Some pb -> next_global f pb = Some (b_next pb).
  Proof.
    intros Hp. destruct (Hsf p pb Hp) as [Hc Hr]. unfold next_global. rewrite Hr.
    unfold f_is_callsub in Hc. destruct (fexit_op f pb) as [[]|]; try discriminate; reflexivity.
  Qed.

  Lemma sf_no_returning_call p pb r : fblock f p = Some pb -> ~ returning_call f pb r.
  Proof.
    intros Hp (l & s & Hop & _). destruct (Hsf p pb Hp) as [Hc _]. unfold f_is_callsub in Hc.
    rewrite Hop in Hc. discriminate.
  Qed.

  Lemma RO_block b : RO b -> exists blk, fblock f b = Some blk.
  Proof. intros H. destruct H; eauto. Qed.

  Lemma RO_okb b : RO b -> okbv b.
  Proof. intros H. destruct H; assumption. Qed.

  (* a predecessor the point came from is live as soon as the block is *)
  Lemma live_pred p b blk ps :
    RO p -> fblock f b = Some blk -> prev_global f blk = Some ps -> In p ps -> LO b -> LO p.
  Proof.
    intros Hp Hb Hps Hin Hl.
    destruct (graph_wf_sound f Hwf) as (C1 & _).
    destruct (C1 p b blk ps Hb Hps Hin) as (pb & nx & Hpb & Hnx & Hbn).
    apply (LO_inner f okbv okev p pb nx b Hpb Hp Hnx Hbn Hl).
    intros r Hr. destruct (sf_no_returning_call p pb r Hpb Hr).
  Qed.

  (* the chain of predecessors of ReachOut, read as plain reachability through blocks on which v is false *)
  Theorem live_ureach (v : nat -> bool) :
    (forall b, LO b -> v b = false) -> forall b, RO b -> LO b -> UReach f v b.
  Proof.
    intros Hv b H.
    induction H as [b blk Hb Hok He Hc IHc | b blk ps p Hb Hok Hps Hin Hp IHp Ho Hc IHc]; intros Hl.
    - subst b. apply UR_entry. exact (Hv _ Hl).
    - pose proof (live_pred p b blk ps Hp Hb Hps Hin Hl) as Hlp.
      destruct (graph_wf_sound f Hwf) as (C1 & _).
      destruct (C1 p b blk ps Hb Hps Hin) as (pb & nx & Hpb & Hnx & Hbn).
      rewrite (sf_next_global p pb Hpb) in Hnx. inversion Hnx; subst nx.
      exact (UR_step f v p pb b (IHp Hlp) Hpb Hbn (Hv _ Hl)).
  Qed.

  (* LiveOut is contained in the result (ExactLemmas.bwd_contains with the graph facts of graph_wf) *)
  Lemma LO_contains fuel lo :
    solve T t_eqb univ null union inter single f fuel bc = Done lo ->
    forall b, LO b -> exists x, Analysis.lookup T lo b = Some x /\ dg x.
  Proof.
    intros Hs. destruct (graph_wf_sound f Hwf) as (C1 & C2 & C3 & C4 & W1 & W2 & _ & _).
    apply solve_passes in Hs. destruct Hs as (ro & Hfw & Hbw).
    apply (bwd_contains T t_eqb univ null union inter single f unit pgamma tt bc dg_union_l dg_union_r dg_inter dg_eqb ro lo).
    - apply (fwd_contains T t_eqb univ null union inter single f unit pgamma tt bc dg_univ dg_union_l dg_union_r dg_inter dg_eqb ro).
      exact (forward_fixpoint_initial T t_eqb univ null union inter single f (Analysis.lookup T bc) teq_refl
               C1 C2 fuel _ _ ro W1 Hfw).
    - exact (backward_fixpoint_initial T t_eqb null union inter f (Analysis.lookup T ro) teq_refl
               C3 C4 fuel _ _ lo W2 Hbw).
    - intros b0 blk x Hb Hl Hx.
      rewrite (backward_leaf_unchanged T t_eqb null union inter f (Analysis.lookup T ro) fuel
                 (backward_worklist f) (SolverLemmas.bwd_st0 T null f ro) lo b0).
      + unfold SolverLemmas.bwd_st0. rewrite lookup_map_blocks, Hb. cbn [option_map].
        rewrite Hl, (fblock_idx _ _ _ Hb), Hx. reflexivity.
      + intros xb Hxb. rewrite Hb in Hxb. inversion Hxb; subst xb. exact Hl.
      + exact Hbw.
  Qed.

  (* ONE SOLVE: if the result holds the point at b, then b is reachable from the entry through blocks at which the
     result holds the point and whose block constraint admits it *)
  Theorem solve_unvalidated_reachable fuel lo (v : nat -> bool) :
    solve T t_eqb univ null union inter single f fuel bc = Done lo ->
    (forall b, (exists x, Analysis.lookup T lo b = Some x /\ dg x) -> okbv b -> v b = false) ->
    forall b x, Analysis.lookup T lo b = Some x -> dg x -> UReach f v b.
  Proof.
    intros Hs Hv b x Hx Hd.
    assert (Hl : LO b).
    { exact (solve_exact T t_eqb univ null union inter single f unit pgamma tt dg_null dg_union_inv dg_inter_inv
               bc fuel lo Hs b x Hx Hd). }
    apply live_ureach; [| exact (LiveOut_ReachOut T univ null union inter single f unit pgamma tt bc b Hl) | exact Hl].
    intros b' Hl'. apply Hv; [exact (LO_contains fuel lo Hs b' Hl')|].
    apply RO_okb. exact (LiveOut_ReachOut T univ null union inter single f unit pgamma tt bc b' Hl').
  Qed.
End PathCore.

(* ====================================================================== *)
(* 2. run_family: the own key, the possible indices and the at-index keys    *)
(* ====================================================================== *)
Section FamilyPath.
  Variable T : Type.
  Variable t_eqb : T -> T -> bool.
  Variable univ null : T.
  Variable union inter : T -> T -> T.
  Variable single : keyfam -> instr -> nat -> list sval -> T * T.
  Variable dg : T -> Prop.
  Hypothesis dg_null : ~ dg null.
  Hypothesis dg_union_inv : forall a b, dg (union a b) -> dg a \/ dg b.
  Hypothesis dg_inter_inv : forall a b, dg (inter a b) -> dg a /\ dg b.
  Hypothesis dg_univ : dg univ.
  Hypothesis dg_union_l : forall a b, dg a -> dg (union a b).
  Hypothesis dg_union_r : forall a b, dg b -> dg (union a b).
  Hypothesis dg_inter : forall a b, dg a -> dg b -> dg (inter a b).
  Hypothesis dg_eqb : forall a b, t_eqb a b = true -> (dg a <-> dg b).
  Hypothesis teq_refl : forall a, t_eqb a a = true.

  Variable f : func.
  Variable fuel : nat.
  Variable indices : list (nat * list Z).
  Variable res : list (keyfam * list (nat * T)).
  Hypothesis Hwf : graph_wf f = true.
  Hypothesis Hsf : subroutine_free f.
  Hypothesis Hrun : run_family f fuel t_eqb univ null union inter single indices = Done res.
  (* the recorded possible indices are group indices *)
  Hypothesis Hidx : forall b l i, Analysis.lookup _ indices b = Some l -> In i l -> (0 <= i < 16)%Z.

  (* the value of the key fam at block b as Detect.ctx_of reads it: the FIRST entry for fam, the universal value
     when there is none *)
  Definition fam_val (fam : keyfam) (b : nat) : T :=
    match find (fun '(fm, _) => keyfam_eqb fm fam) res with
    | Some (_, l) => match Analysis.lookup T l b with Some v => v | None => univ end
    | None => univ
    end.
  Definition gidx (b : nat) : list Z := match Analysis.lookup _ indices b with Some l => l | None => [] end.

  (* validated_in_block = false, in terms of the point *)
  Definition unval (b : nat) : Prop :=
    dg (fam_val KSelf b) /\ exists i, In i (gidx b) /\ dg (fam_val (KAtIndex (Z.to_N i)) b).

  Lemma keyfam_eqb_refl fam : keyfam_eqb fam fam = true.
  Proof. destruct fam; cbn [keyfam_eqb]; try reflexivity; try apply N.eqb_refl; apply Z.eqb_refl. Qed.

  Lemma solve_lookup_block sg bc0 lo b blk :
    solve T t_eqb univ null union inter sg f fuel bc0 = Done lo -> fblock f b = Some blk ->
    exists x, Analysis.lookup T lo b = Some x.
  Proof.
    intros Hs Hb. apply solve_passes in Hs. destruct Hs as (ro & _ & Hbw).
    apply lookup_in_keys. rewrite (backward_keys _ _ _ _ _ _ _ _ _ _ _ Hbw). unfold SolverLemmas.bwd_st0.
    rewrite map_map. cbn [fst]. apply fblock_ids. eauto.
  Qed.

  (* unvalidated  <->  ONE at-index key holds the point (the refinement of run_family does the rest) *)
  Theorem unval_iff_key b blk :
    fblock f b = Some blk ->
    (unval b <->
     exists n bc0 base rest bcn l x,
       (n < 16)%N /\ res = (KSelf, base) :: rest /\ In (KAtIndex n, l) rest /\
       init_constraints T univ null union inter (single KSelf) f = Some bc0 /\
       init_constraints T univ null union inter (single (KAtIndex n)) f = Some bcn /\
       solve T t_eqb univ null union inter (single (KAtIndex n)) f fuel (refine_at inter null indices base n bcn) = Done l /\
       fam_val (KAtIndex n) b = x /\ Analysis.lookup T l b = Some x /\ dg x).
  Proof.
    intros Hb.
    destruct (run_family_inv T t_eqb univ null union inter single f fuel indices res Hrun)
      as (bc0 & base & rest & Hi0 & Hs0 & Hres & Hrest).
    (* every at-index key below 16 has exactly the entry found by fam_val *)
    assert (Hcov : forall n, (n < 16)%N -> exists l bcn,
              In (KAtIndex n, l) rest /\
              init_constraints T univ null union inter (single (KAtIndex n)) f = Some bcn /\
              solve T t_eqb univ null union inter (single (KAtIndex n)) f fuel (refine_at inter null indices base n bcn) = Done l /\
              forall b', fam_val (KAtIndex n) b' = match Analysis.lookup T l b' with Some v => v | None => univ end).
    { intros n Hn. unfold fam_val. rewrite Hres. cbn [find keyfam_eqb].
      destruct (find (fun '(fm, _) => keyfam_eqb fm (KAtIndex n)) rest) as [[fm l]|] eqn:Ef.
      - destruct (find_some _ _ Ef) as [Hin Hk]. apply keyfam_eqb_eq in Hk. subst fm.
        destruct (Hrest _ _ Hin) as (bcn & Hin' & Hsn). exists l, bcn. repeat split; auto.
      - exfalso. pose proof Hrun as Hr0. unfold run_family in Hr0. rewrite Hi0, Hs0 in Hr0.
        match type of Hr0 with match ?S with _ => _ end = _ => destruct S as [rest'| |] eqn:Er; try discriminate end.
        inversion Hr0 as [E']. rewrite Hres in E'. inversion E'; subst rest'.
        destruct (seq_outcomes_all _ _ _ Er (KAtIndex n) (at_index_in_fams n Hn)) as ([fm l] & Hin & Hg).
        destruct (init_constraints T univ null union inter (single (KAtIndex n)) f); [|discriminate].
        match type of Hg with match ?S with _ => _ end = _ => destruct S; try discriminate end.
        inversion Hg; subst fm.
        pose proof (find_none _ _ Ef _ Hin) as Hk. cbn beta iota in Hk. rewrite keyfam_eqb_refl in Hk. discriminate. }
    split.
    - intros (Hself & i & Hi & Hd).
      assert (Hr : (0 <= i < 16)%Z).
      { unfold gidx in Hi. destruct (Analysis.lookup _ indices b) as [li|] eqn:El; [|destruct Hi].
        exact (Hidx b li i El Hi). }
      assert (Hn : (Z.to_N i < 16)%N) by lia.
      destruct (Hcov (Z.to_N i) Hn) as (l & bcn & Hin & Hin' & Hsn & Hval).
      destruct (solve_lookup_block _ _ l b blk Hsn Hb) as (x & Hx).
      exists (Z.to_N i), bc0, base, rest, bcn, l, x. rewrite Hval, Hx in Hd |- *. repeat split; auto.
    - intros (n & bc0' & base' & rest' & bcn & l & x & Hn & Hres' & Hin & _ & Hin' & Hsn & Hval & Hx & Hd).
      rewrite Hres in Hres'. inversion Hres'; subst base' rest'.
      (* the point passes the refined block constraint of b: LiveOut b, hence okb *)
      assert (Hok : ExactLemmas.okb T unit (pgamma T dg) tt (refine_at inter null indices base n bcn) b).
      { pose proof (solve_exact T t_eqb univ null union inter (single (KAtIndex n)) f unit (pgamma T dg) tt
                      dg_null dg_union_inv dg_inter_inv _ fuel l Hsn b x Hx Hd) as Hl.
        apply LiveOut_ReachOut in Hl. destruct Hl; assumption. }
      destruct Hok as (c & Hc & Hdc).
      destruct (lookup_refine_at_inv inter null indices base n bcn b c Hc) as (c0 & _ & Ec).
      fold (gidx b) in Ec. unfold pgamma in Hdc.
      destruct (zmem (Z.of_N n) (gidx b)) eqn:Ez; [|subst c; destruct (dg_null Hdc)].
      subst c. apply dg_inter_inv in Hdc. destruct Hdc as [_ Hbase].
      split.
      + unfold fam_val. rewrite Hres. cbn [find keyfam_eqb].
        destruct (Analysis.lookup T base b) as [vb|]; [exact Hbase | exact dg_univ].
      + exists (Z.of_N n). split; [apply zmem_In; exact Ez|]. rewrite N2Z.id, Hval. exact Hd.
  Qed.

  (* RUN_FAMILY: every unvalidated block of the function is reachable from the entry through unvalidated blocks *)
  Theorem family_unvalidated_reachable (v : nat -> bool) :
    (forall b, v b = false <-> unval b) ->
    forall b blk, fblock f b = Some blk -> v b = false -> UReach f v b.
  Proof.
    intros Hv b blk Hb Hvb. apply Hv in Hvb.
    destruct (proj1 (unval_iff_key b blk Hb) Hvb)
      as (n & bc0 & base & rest & bcn & l & x & Hn & Hres & Hin & Hi0 & Hin' & Hsn & Hval & Hx & Hd).
    apply (solve_unvalidated_reachable T t_eqb univ null union inter (single (KAtIndex n)) f dg
             dg_null dg_union_inv dg_inter_inv dg_univ dg_union_l dg_union_r dg_inter dg_eqb teq_refl Hwf Hsf
             (refine_at inter null indices base n bcn) fuel l v Hsn) with (x := x); [|exact Hx|exact Hd].
    intros b' (x' & Hx' & Hd') Hok'.
    assert (Hb' : exists blk', fblock f b' = Some blk').
    { destruct Hok' as (c & Hc & _). destruct (lookup_refine_at_inv inter null indices base n bcn b' c Hc) as (c0 & Hc0 & _).
      destruct (init_lookup_inv _ _ _ _ _ _ _ _ _ _ Hin' Hc0) as (blk' & Hblk' & _). eauto. }
    destruct Hb' as (blk' & Hblk').
    apply Hv. apply (unval_iff_key b' blk' Hblk').
    exists n, bc0, base, rest, bcn, l, x'. repeat split; auto.
    destruct (run_family_inv T t_eqb univ null union inter single f fuel indices res Hrun)
      as (bc0' & base' & rest' & _ & _ & Hres' & Hrest').
    rewrite Hres in Hres'. inversion Hres'; subst base' rest'.
    unfold fam_val. rewrite Hres. cbn [find keyfam_eqb].
    destruct (find (fun '(fm, _) => keyfam_eqb fm (KAtIndex n)) rest) as [[fm l']|] eqn:Ef.
    - (* the entry found first is the entry of the key: entries of one key are produced by one solve *)
      destruct (find_some _ _ Ef) as [Hin2 Hk]. apply keyfam_eqb_eq in Hk. subst fm.
      destruct (Hrest' _ _ Hin2) as (bcn2 & Hi2 & Hs2). rewrite Hin' in Hi2. inversion Hi2; subst bcn2.
      rewrite Hsn in Hs2. inversion Hs2; subst l'. rewrite Hx'. reflexivity.
    - exfalso. pose proof (find_none _ _ Ef _ Hin) as Hk. cbn beta iota in Hk. rewrite keyfam_eqb_refl in Hk. discriminate.
  Qed.

  (* THE ABSTRACT CONDITION on a detector: its validation predicate v on the analysis result is false at b exactly
     when the point is in the field's own value at b and in its value for one possible index of b -- the reading of
     Detect.validated_in_block for a predicate `checks` that is antitone in the value of ONE key family (checks ctx =
     false <-> dg (value)) and reads nothing else *)
  Definition single_key_pred (v : nat -> bool) : Prop := forall b, v b = false <-> unval b.

  (* an unvalidated exit ends a path of unvalidated blocks (Spec/Paths.GoodPath: what the single-contract search
     enumerates) -- and it is the end of that path *)
  Theorem unvalidated_leaf_has_unvalidated_path (v : nat -> bool) b :
    single_key_pred v -> fn_leaf_block f b -> v b = false ->
    exists p, GoodPath f v p /\ last p 0 = b.
  Proof.
    intros Hv (blk & Hin & Hleaf & Hidxb) Hvb.
    destruct (graph_wf_sound f Hwf) as (_ & _ & _ & _ & _ & _ & Hnd & _).
    pose proof (fblock_of_In f blk Hnd Hin) as Hb. rewrite Hidxb in Hb.
    pose proof (family_unvalidated_reachable v Hv b blk Hb Hvb) as Hr.
    exact (ureach_good_path f v b blk Hsf Hr Hb Hleaf).
  Qed.
End FamilyPath.

(* ====================================================================== *)
(* 3. instance: missing-fee-check                                          *)
(* ====================================================================== *)
(* the dangerous point of the fee domain: the bound is KNOWN and above MAX_TRANSACTION_COST (an unknown bound --
   a comparison of Fee with a run-time value -- is credited by the detector) *)
Definition fee_danger (v : feeval) : Prop := fee_unknown v = false /\ (MAX_TRANSACTION_COSTz < fee_value v)%Z.

Lemma cost_nonneg : (0 <= MAX_TRANSACTION_COSTz)%Z.
Proof. apply Z.leb_le. vm_compute. reflexivity. Qed.
Lemma cost_below_max : (MAX_TRANSACTION_COSTz < MAX_UINT64z)%Z.
Proof. apply Z.ltb_lt. vm_compute. reflexivity. Qed.

Ltac fee_cases :=
  intros a b; destruct a as [ua va], b as [ub vb];
  unfold fee_danger, fee_union, fee_intersection; cbn [fee_unknown fee_value];
  destruct ua, ub; cbn [andb fee_unknown fee_value];
  repeat match goal with
         | |- context [Z.gtb ?x ?y] => destruct (Z.gtb_spec x y)
         | |- context [Z.ltb ?x ?y] => destruct (Z.ltb_spec x y)
         end;
  cbn [fee_unknown fee_value]; intuition (try discriminate; try lia).

Lemma fee_danger_null : ~ fee_danger fee_null_set.
Proof. unfold fee_danger, fee_null_set. cbn [fee_unknown fee_value]. pose proof cost_nonneg. lia. Qed.
Lemma fee_danger_univ : fee_danger fee_universal_set.
Proof. unfold fee_danger, fee_universal_set. cbn [fee_unknown fee_value]. split; [reflexivity | exact cost_below_max]. Qed.
Lemma fee_danger_union_inv : forall a b, fee_danger (fee_union a b) -> fee_danger a \/ fee_danger b.
Proof. fee_cases. Qed.
Lemma fee_danger_inter_inv : forall a b, fee_danger (fee_intersection a b) -> fee_danger a /\ fee_danger b.
Proof. fee_cases. Qed.
Lemma fee_danger_union_l : forall a b, fee_danger a -> fee_danger (fee_union a b).
Proof. fee_cases. Qed.
Lemma fee_danger_union_r : forall a b, fee_danger b -> fee_danger (fee_union a b).
Proof. fee_cases. Qed.
Lemma fee_danger_inter : forall a b, fee_danger a -> fee_danger b -> fee_danger (fee_intersection a b).
Proof. fee_cases. Qed.
Lemma fee_danger_eqb : forall a b, feeval_eqb a b = true -> (fee_danger a <-> fee_danger b).
Proof. intros a b H. apply feeval_eqb_spec in H. subst. tauto. Qed.

(* the detector's predicate is antitone in the ONE value it reads *)
Lemma fee_check_danger r b fam :
  checks_missing_fee_check (ctx_of r b fam) = false <-> fee_danger (res_fee r fam b).
Proof.
  unfold checks_missing_fee_check, ctx_of, fee_danger. cbn [ctx_max_fee_unknown ctx_max_fee].
  destruct (fee_unknown (res_fee r fam b)); cbn [orb].
  - split; [discriminate | intros [H _]; discriminate].
  - rewrite Z.leb_gt. tauto.
Qed.

Lemma fam_val_res_fee r fam b : fam_val feeval fee_universal_set (r_fees r) fam b = res_fee r fam b.
Proof. reflexivity. Qed.

(* the recorded own indices of run_all are group indices *)
Lemma run_all_indices_range f fuel r : run_all f fuel = Done r ->
  forall b l i, Analysis.lookup _ (r_indices r) b = Some l -> In i l -> (0 <= i < 16)%Z.
Proof.
  intros Hrun b l i Hl Hi.
  destruct (run_all_inv f fuel r Hrun) as (sizes & idx0 & _ & Ex & _ & Eidx & _).
  rewrite Eidx in Hl. unfold indices_of in Hl.
  rewrite (lookup_map_vals (fun b gi => filter (fun i => Z.ltb i (zmax_default
             match Analysis.lookup _ sizes b with Some l => l | None => [] end)) gi) idx0 b) in Hl.
  destruct (Analysis.lookup (list Z) idx0 b) as [gi|] eqn:Eg; [|discriminate].
  cbn [option_map] in Hl. inversion Hl; subst l. apply filter_In in Hi. destruct Hi as [Hi _].
  pose proof (C06_listed_in_universe f false fuel idx0 Ex b gi Eg i Hi) as Hu.
  change (SingleLemmas.int_U false) with (map (fun k => (0 + Z.of_nat k)%Z) (seq 0 16)) in Hu.
  apply in_map_iff in Hu. destruct Hu as (k & <- & Hk). apply in_seq in Hk. lia.
Qed.

Lemma validated_fee_unval r b :
  validated_in_block r checks_missing_fee_check None b = false <->
  unval feeval fee_universal_set fee_danger (r_indices r) (r_fees r) b.
Proof.
  unfold validated_in_block, unval, gidx.
  change (ctx_group_indices (ctx_of r b KSelf))
    with (match Analysis.lookup _ (r_indices r) b with Some l => l | None => [] end).
  rewrite !fam_val_res_fee.
  destruct (checks_missing_fee_check (ctx_of r b KSelf)) eqn:E.
  - split; [discriminate|]. intros [Hs _]. apply fee_check_danger in Hs. congruence.
  - apply fee_check_danger in E. rewrite forallb_false. split.
    + intros (i & Hi & Hc). split; [exact E|]. exists i. split; [exact Hi|].
      rewrite fam_val_res_fee. apply fee_check_danger. exact Hc.
    + intros (_ & i & Hi & Hd). exists i. split; [exact Hi|]. apply fee_check_danger.
      rewrite fam_val_res_fee in Hd. exact Hd.
Qed.

(* leaves_justified DISCHARGED for missing-fee-check, and the end of the path is the unvalidated exit *)
Theorem unvalidated_leaf_has_unvalidated_path_fee f fuel r b :
  graph_wf f = true -> subroutine_free f -> run_all f fuel = Done r ->
  fn_leaf_block f b -> validated_in_block r checks_missing_fee_check None b = false ->
  exists p, GoodPath f (validated_in_block r checks_missing_fee_check None) p /\ last p 0 = b.
Proof.
  intros Hwf Hsf Hrun Hleaf Hv.
  destruct (run_all_inv f fuel r Hrun) as (sizes & idx0 & _ & _ & _ & Eidx & Hfam).
  rewrite <- Eidx in Hfam.
  apply (unvalidated_leaf_has_unvalidated_path feeval feeval_eqb fee_universal_set fee_null_set fee_union fee_intersection
           (fun fam => fee_single (fn_intcs f) fam) fee_danger
           fee_danger_null fee_danger_union_inv fee_danger_inter_inv fee_danger_univ fee_danger_union_l fee_danger_union_r
           fee_danger_inter fee_danger_eqb feeval_eqb_refl f fuel (r_indices r) (r_fees r) Hwf Hsf Hfam
           (run_all_indices_range f fuel r Hrun)); [|exact Hleaf|exact Hv].
  intros b'. apply validated_fee_unval.
Qed.

Theorem leaves_justified_fee f fuel r :
  graph_wf f = true -> subroutine_free f -> run_all f fuel = Done r ->
  leaves_justified f r checks_missing_fee_check.
Proof.
  intros Hwf Hsf Hrun (b & Hleaf & Hv).
  destruct (unvalidated_leaf_has_unvalidated_path_fee f fuel r b Hwf Hsf Hrun Hleaf Hv) as (p & HG & _).
  exists p. exact HG.
Qed.

(* C13, last sentence, for missing-fee-check: the one-transaction group reports the transaction IFF the
   single-contract detector reports a path *)
Theorem single_group_eq_contract_fee funcs dtype vtypes t k f r fuelr fuel ps :
  single_contract t k -> nth_error funcs k = Some (f, r) -> relative_accessors [t] t = [] ->
  eligible dtype vtypes t -> g_abs t = None ->
  graph_wf f = true -> subroutine_free f -> run_all f fuelr = Done r ->
  run_detector f r fuel "missing-fee-check" checks_missing_fee_check = Done ps ->
  (txn_vulnerable funcs checks_missing_fee_check dtype vtypes [t] t = true <-> ps <> []).
Proof.
  intros Hone Hfun Hself Hel Habs Hwf Hsf Hrun Hdet.
  apply (single_group_eq_contract_partial funcs checks_missing_fee_check dtype vtypes t k f r Hone Hfun Hself Hel
           fuel "missing-fee-check" ps); [discriminate | exact Habs | exact (leaves_justified_fee f fuelr r Hwf Hsf Hrun) | exact Hdet].
Qed.

(* ... for every parsed structured contract without subroutines *)
Corollary single_group_eq_contract_fee_parsed funcs dtype vtypes t k p tl r fuelr fuel ps :
  parse_teal p = Ok tl -> struct_ok tl -> subroutine_free (whole_function tl) ->
  single_contract t k -> nth_error funcs k = Some (whole_function tl, r) -> relative_accessors [t] t = [] ->
  eligible dtype vtypes t -> g_abs t = None ->
  run_all (whole_function tl) fuelr = Done r ->
  run_detector (whole_function tl) r fuel "missing-fee-check" checks_missing_fee_check = Done ps ->
  (txn_vulnerable funcs checks_missing_fee_check dtype vtypes [t] t = true <-> ps <> []).
Proof.
  intros Hp Hok Hsf Hone Hfun Hself Hel Habs Hrun Hdet.
  exact (single_group_eq_contract_fee funcs dtype vtypes t k _ r fuelr fuel ps Hone Hfun Hself Hel Habs
           (graph_wf_whole_function p tl Hp Hok) Hsf Hrun Hdet).
Qed.

(* ====================================================================== *)
(* 4. instances: the kind-only detectors is-updatable / is-deletable        *)
(* ====================================================================== *)
(* the point of the kind domain: the label L is in the set (plain sets: every law is membership) *)
Section KindOnly.
  Variable L : string.
  Hypothesis L_in_U : In L ALL_TRANSACTION_TYPES.
  Variable checks : bctx -> bool.
  (* the predicate reads the kind set only, and only through membership of L *)
  Hypothesis checks_reads_L : forall c, checks c = negb (smem L (ctx_transaction_types c)).

  Definition kind_danger (v : list string) : Prop := In L v.

  Lemma kind_check_danger r b fam : checks (ctx_of r b fam) = false <-> kind_danger (res_types r fam b).
  Proof.
    rewrite checks_reads_L. unfold ctx_of, kind_danger. cbn [ctx_transaction_types].
    rewrite negb_false_iff. apply LeafLemmas.smem_In.
  Qed.

  Lemma fam_val_res_types r fam b : fam_val (list string) ALL_TRANSACTION_TYPES (r_types r) fam b = res_types r fam b.
  Proof. reflexivity. Qed.

  Lemma validated_kind_unval r b :
    validated_in_block r checks None b = false <->
    unval (list string) ALL_TRANSACTION_TYPES kind_danger (r_indices r) (r_types r) b.
  Proof.
    unfold validated_in_block, unval, gidx.
    change (ctx_group_indices (ctx_of r b KSelf))
      with (match Analysis.lookup _ (r_indices r) b with Some l => l | None => [] end).
    rewrite !fam_val_res_types.
    destruct (checks (ctx_of r b KSelf)) eqn:E.
    - split; [discriminate|]. intros [Hs _]. apply kind_check_danger in Hs. congruence.
    - apply kind_check_danger in E. rewrite forallb_false. split.
      + intros (i & Hi & Hc). split; [exact E|]. exists i. split; [exact Hi|].
        rewrite fam_val_res_types. apply kind_check_danger. exact Hc.
      + intros (_ & i & Hi & Hd). exists i. split; [exact Hi|]. apply kind_check_danger.
        rewrite fam_val_res_types in Hd. exact Hd.
  Qed.

  Theorem unvalidated_leaf_has_unvalidated_path_kind f fuel r b :
    graph_wf f = true -> subroutine_free f -> run_all f fuel = Done r ->
    fn_leaf_block f b -> validated_in_block r checks None b = false ->
    exists p, GoodPath f (validated_in_block r checks None) p /\ last p 0 = b.
  Proof.
    intros Hwf Hsf Hrun Hleaf Hv.
    destruct (run_all_inv f fuel r Hrun) as (sizes & idx0 & Es & Ex & _ & Eidx & _).
    destruct (run_all_type_inv f fuel r Hrun) as (sizes' & idx0' & Es' & Ex' & Hfam).
    rewrite Es in Es'. rewrite Ex in Ex'. inversion Es'; inversion Ex'; subst sizes' idx0'.
    rewrite <- Eidx in Hfam.
    apply (unvalidated_leaf_has_unvalidated_path (list string) lset_eqb ALL_TRANSACTION_TYPES [] lunion linter
             (fun fam => type_single (fn_intcs f) fam) kind_danger
             (fun H => H)
             (fun a b H => proj1 (lunion_In a b L) H)
             (fun a b H => proj1 (linter_In a b L) H)
             L_in_U
             (fun a b H => proj2 (lunion_In a b L) (or_introl H))
             (fun a b H => proj2 (lunion_In a b L) (or_intror H))
             (fun a b Ha Hb => proj2 (linter_In a b L) (conj Ha Hb))
             (fun a b H => proj1 (lset_eqb_spec a b) H L)
             lset_eqb_refl f fuel (r_indices r) (r_types r) Hwf Hsf Hfam
             (run_all_indices_range f fuel r Hrun)); [|exact Hleaf|exact Hv].
    intros b'. apply validated_kind_unval.
  Qed.

  Theorem leaves_justified_kind f fuel r :
    graph_wf f = true -> subroutine_free f -> run_all f fuel = Done r -> leaves_justified f r checks.
  Proof.
    intros Hwf Hsf Hrun (b & Hleaf & Hv).
    destruct (unvalidated_leaf_has_unvalidated_path_kind f fuel r b Hwf Hsf Hrun Hleaf Hv) as (p & HG & _).
    exists p. exact HG.
  Qed.

  Theorem single_group_eq_contract_kind name funcs dtype vtypes t k f r fuelr fuel ps :
    name <> "group-size-check" ->
    single_contract t k -> nth_error funcs k = Some (f, r) -> relative_accessors [t] t = [] ->
    eligible dtype vtypes t -> g_abs t = None ->
    graph_wf f = true -> subroutine_free f -> run_all f fuelr = Done r ->
    run_detector f r fuel name checks = Done ps ->
    (txn_vulnerable funcs checks dtype vtypes [t] t = true <-> ps <> []).
  Proof.
    intros Hn Hone Hfun Hself Hel Habs Hwf Hsf Hrun Hdet.
    exact (single_group_eq_contract_partial funcs checks dtype vtypes t k f r Hone Hfun Hself Hel
             fuel name ps Hn Habs (leaves_justified_kind f fuelr r Hwf Hsf Hrun) Hdet).
  Qed.
End KindOnly.

Lemma updatable_in_U : In "ApplUpdateApplication" ALL_TRANSACTION_TYPES.
Proof. vm_compute. auto 12. Qed.
Lemma deletable_in_U : In "ApplDeleteApplication" ALL_TRANSACTION_TYPES.
Proof. vm_compute. auto 13. Qed.

Theorem single_group_eq_contract_updatable funcs dtype vtypes t k f r fuelr fuel ps :
  single_contract t k -> nth_error funcs k = Some (f, r) -> relative_accessors [t] t = [] ->
  eligible dtype vtypes t -> g_abs t = None ->
  graph_wf f = true -> subroutine_free f -> run_all f fuelr = Done r ->
  run_detector f r fuel "is-updatable" checks_is_updatable = Done ps ->
  (txn_vulnerable funcs checks_is_updatable dtype vtypes [t] t = true <-> ps <> []).
Proof.
  apply (single_group_eq_contract_kind "ApplUpdateApplication" updatable_in_U checks_is_updatable (fun c => eq_refl)
           "is-updatable"). discriminate.
Qed.

Theorem single_group_eq_contract_deletable funcs dtype vtypes t k f r fuelr fuel ps :
  single_contract t k -> nth_error funcs k = Some (f, r) -> relative_accessors [t] t = [] ->
  eligible dtype vtypes t -> g_abs t = None ->
  graph_wf f = true -> subroutine_free f -> run_all f fuelr = Done r ->
  run_detector f r fuel "is-deletable" checks_is_deletable = Done ps ->
  (txn_vulnerable funcs checks_is_deletable dtype vtypes [t] t = true <-> ps <> []).
Proof.
  apply (single_group_eq_contract_kind "ApplDeleteApplication" deletable_in_U checks_is_deletable (fun c => eq_refl)
           "is-deletable"). discriminate.
Qed.

(* ====================================================================== *)
(* 5. non-vacuity: parsed contracts on which all hypotheses are discharged  *)
(* ====================================================================== *)
Module Witness.
  Definition teal0 : teal := mkTeal 0 MAny [] [] [] (mkSub "" 0 [] []) [] None.
  Definition prog_of (ls : list string) : prog := match parse_program (unlines ls) with Ok p => p | Err _ => [] end.
  Definition teal_of (p : prog) : teal := match parse_teal p with Ok t => t | Err _ => teal0 end.
  Definition res_of (f : func) : fn_result := match run_all f 100 with Done r => r | _ => mkRes [] [] [] [] [] end.

  (* A. a logic-sig that bounds the fee on one branch only: both modes REPORT.
        txn TypeEnum; int 1; ==; bnz pay; txn Fee; int 1000; <=; assert; pay: int 1; return *)
  Definition linesA : list string :=
    ["#pragma version 6"; "txn TypeEnum"; "int 1"; "=="; "bnz pay"; "txn Fee"; "int 1000"; "<="; "assert";
     "pay:"; "int 1"; "return"].
  Definition pA : prog := Eval vm_compute in prog_of linesA.
  Definition tA : teal := Eval vm_compute in teal_of pA.
  Definition fA : func := whole_function tA.
  Definition rA : fn_result := Eval vm_compute in res_of fA.
  (* B. a logic-sig that bounds the fee on every path (a diamond): both modes are SILENT.
        txn TypeEnum; int 1; ==; bnz pay; txn Fee; int 1000; <=; assert; b done; pay: txn Fee; int 2000; <; assert;
        done: int 1; return *)
  Definition linesB : list string :=
    ["#pragma version 6"; "txn TypeEnum"; "int 1"; "=="; "bnz pay"; "txn Fee"; "int 1000"; "<="; "assert"; "b done";
     "pay:"; "txn Fee"; "int 2000"; "<"; "assert"; "done:"; "int 1"; "return"].
  Definition pB : prog := Eval vm_compute in prog_of linesB.
  Definition tB : teal := Eval vm_compute in teal_of pB.
  Definition fB : func := whole_function tB.
  Definition rB : fn_result := Eval vm_compute in res_of fB.
  (* C. an application that forbids updates and allows everything else: is-updatable SILENT, is-deletable REPORTS.
        txn OnCompletion; int UpdateApplication; !=; assert; int 1; return *)
  Definition linesC : list string :=
    ["#pragma version 6"; "txn OnCompletion"; "int UpdateApplication"; "!="; "assert"; "int 1"; "return"].
  Definition pC : prog := Eval vm_compute in prog_of linesC.
  Definition tC : teal := Eval vm_compute in teal_of pC.
  Definition fC : func := whole_function tC.
  Definition rC : fn_result := Eval vm_compute in res_of fC.

  Definition TL : gtxn := mkTxn "T" "Pay" true (Some 0) None None [].
  Definition TA : gtxn := mkTxn "U" "Appl" false None (Some 0) None [].

  Lemma parsed :
    (parse_program (unlines linesA) = Ok pA /\ parse_teal pA = Ok tA /\ struct_okb tA = true /\
     subroutine_freeb fA = true /\ run_all fA 100 = Done rA) /\
    (parse_program (unlines linesB) = Ok pB /\ parse_teal pB = Ok tB /\ struct_okb tB = true /\
     subroutine_freeb fB = true /\ run_all fB 100 = Done rB) /\
    (parse_program (unlines linesC) = Ok pC /\ parse_teal pC = Ok tC /\ struct_okb tC = true /\
     subroutine_freeb fC = true /\ run_all fC 100 = Done rC).
  Proof. repeat split; vm_compute; reflexivity. Qed.

  (* the computed verdicts *)
  Example fee_both_report :
    run_detector fA rA 100 "missing-fee-check" checks_missing_fee_check = Done [[0; 2]] /\
    txn_vulnerable [(fA, rA)] checks_missing_fee_check "STATELESS" None [TL] TL = true.
  Proof. split; vm_compute; reflexivity. Qed.
  Example fee_both_silent :
    run_detector fB rB 100 "missing-fee-check" checks_missing_fee_check = Done [] /\
    txn_vulnerable [(fB, rB)] checks_missing_fee_check "STATELESS" None [TL] TL = false.
  Proof. split; vm_compute; reflexivity. Qed.
  Example updatable_both_silent :
    run_detector fC rC 100 "is-updatable" checks_is_updatable = Done [] /\
    txn_vulnerable [(fC, rC)] checks_is_updatable "STATEFULL" None [TA] TA = false.
  Proof. split; vm_compute; reflexivity. Qed.
  Example deletable_both_report :
    run_detector fC rC 100 "is-deletable" checks_is_deletable = Done [[0]] /\
    txn_vulnerable [(fC, rC)] checks_is_deletable "STATEFULL" None [TA] TA = true.
  Proof. split; vm_compute; reflexivity. Qed.

  (* the theorem applied: every hypothesis of single_group_eq_contract_fee_parsed is discharged on A and on B *)
  Example fee_eq_on_A ps :
    run_detector fA rA 100 "missing-fee-check" checks_missing_fee_check = Done ps ->
    (txn_vulnerable [(fA, rA)] checks_missing_fee_check "STATELESS" None [TL] TL = true <-> ps <> []).
  Proof.
    destruct parsed as ((_ & Hp & Hok & Hsf & Hrun) & _).
    apply (single_group_eq_contract_fee_parsed [(fA, rA)] "STATELESS" None TL 0 pA tA rA 100 100 ps Hp
             (struct_okb_sound tA Hok) (subroutine_freeb_sound fA Hsf)
             (or_introl (conj eq_refl eq_refl)) eq_refl eq_refl (eligible_stateless TL eq_refl) eq_refl Hrun).
  Qed.
  Example fee_eq_on_B ps :
    run_detector fB rB 100 "missing-fee-check" checks_missing_fee_check = Done ps ->
    (txn_vulnerable [(fB, rB)] checks_missing_fee_check "STATELESS" None [TL] TL = true <-> ps <> []).
  Proof.
    destruct parsed as (_ & (_ & Hp & Hok & Hsf & Hrun) & _).
    apply (single_group_eq_contract_fee_parsed [(fB, rB)] "STATELESS" None TL 0 pB tB rB 100 100 ps Hp
             (struct_okb_sound tB Hok) (subroutine_freeb_sound fB Hsf)
             (or_introl (conj eq_refl eq_refl)) eq_refl eq_refl (eligible_stateless TL eq_refl) eq_refl Hrun).
  Qed.
  (* the path whose existence the theorem asserts for the unvalidated exit 2 of A ends there *)
  Example fee_path_on_A :
    exists p, GoodPath fA (validated_in_block rA checks_missing_fee_check None) p /\ last p 0 = 2.
  Proof.
    destruct parsed as ((_ & Hp & Hok & Hsf & Hrun) & _).
    apply (unvalidated_leaf_has_unvalidated_path_fee fA 100 rA 2
             (graph_wf_whole_function pA tA Hp (struct_okb_sound tA Hok)) (subroutine_freeb_sound fA Hsf) Hrun).
    - exists (mkBlock 2 [9; 10; 11] [] [1; 0]). split; [vm_compute; auto|]. split; vm_compute; reflexivity.
    - vm_compute. reflexivity.
  Qed.
  Example kind_eq_on_C :
    (forall ps, run_detector fC rC 100 "is-updatable" checks_is_updatable = Done ps ->
       (txn_vulnerable [(fC, rC)] checks_is_updatable "STATEFULL" None [TA] TA = true <-> ps <> [])) /\
    (forall ps, run_detector fC rC 100 "is-deletable" checks_is_deletable = Done ps ->
       (txn_vulnerable [(fC, rC)] checks_is_deletable "STATEFULL" None [TA] TA = true <-> ps <> [])).
  Proof.
    destruct parsed as (_ & _ & (_ & Hp & Hok & Hsf & Hrun)).
    pose proof (graph_wf_whole_function pC tC Hp (struct_okb_sound tC Hok)) as Hwf.
    pose proof (subroutine_freeb_sound fC Hsf) as Hsf'.
    split; intros ps.
    - apply (single_group_eq_contract_updatable [(fC, rC)] "STATEFULL" None TA 0 fC rC 100 100 ps
               (or_intror (conj eq_refl eq_refl)) eq_refl eq_refl (eligible_statefull TA 0 eq_refl) eq_refl Hwf Hsf' Hrun).
    - apply (single_group_eq_contract_deletable [(fC, rC)] "STATEFULL" None TA 0 fC rC 100 100 ps
               (or_intror (conj eq_refl eq_refl)) eq_refl eq_refl (eligible_statefull TA 0 eq_refl) eq_refl Hwf Hsf' Hrun).
  Qed.
End Witness.

(* ====================================================================== *)
(* 6. subroutine_free cannot simply be dropped: a refutation for missing-fee-check *)
(* ====================================================================== *)
(* A parsed, structured, NON-recursive logic-sig with one subroutine that both approves and returns (the shape of
   known finding D4), run at group index 0:
       txn GroupIndex; int 0; ==; assert; callsub S; int 1; return
       S: txn Sender; global CreatorAddress; ==; bnz ret; int 1; return
       ret: gtxn 0 Fee; int 1000; <=; assert; retsub
   The key `gtxn 0 Fee` is bounded on the returning branch only.  The backward pass intersects the callsub block with
   its return point (Analysis.livein), so the ENTRY block is validated for index 0 (its only possible index) and the
   path search reports nothing; the approving exit inside S is unvalidated and group mode reports the transaction.
   The contract does approve a transaction at index 0 with any fee (through `int 1; return` in S): here group mode is
   right and the single-contract detector misses (D4).  So for functions with subroutines leaves_justified does not
   follow from the solver's equations even for a single-field detector. *)
Module FeeSubRefuted.
  Definition linesS : list string :=
    ["#pragma version 6"; "txn GroupIndex"; "int 0"; "=="; "assert"; "callsub S"; "int 1"; "return";
     "S:"; "txn Sender"; "global CreatorAddress"; "=="; "bnz ret"; "int 1"; "return";
     "ret:"; "gtxn 0 Fee"; "int 1000"; "<="; "assert"; "retsub"].
  Definition pS : prog := Eval vm_compute in Witness.prog_of linesS.
  Definition tS : teal := Eval vm_compute in Witness.teal_of pS.
  Definition fS : func := whole_function tS.
  Definition rS : fn_result := Eval vm_compute in Witness.res_of fS.
  Lemma parsedS :
    parse_program (unlines linesS) = Ok pS /\ parse_teal pS = Ok tS /\ struct_okb tS = true /\
    subroutine_freeb fS = false /\ run_all fS 100 = Done rS.
  Proof. repeat split; vm_compute; reflexivity. Qed.
  Example validatedS :
    map (fun b => (b_idx b, validated_in_block rS checks_missing_fee_check None (b_idx b))) (fn_blocks fS) =
    [(0, true); (1, true); (2, false); (4, true); (3, false)].
  Proof. vm_compute. reflexivity. Qed.
  Example differS :
    run_detector fS rS 100 "missing-fee-check" checks_missing_fee_check = Done [] /\
    txn_vulnerable [(fS, rS)] checks_missing_fee_check "STATELESS" None [Witness.TL] Witness.TL = true.
  Proof. split; vm_compute; reflexivity. Qed.
End FeeSubRefuted.

Theorem single_group_eq_contract_fee_subroutine_refuted :
  ~ (forall funcs dtype vtypes t k p tl r fuelr fuel ps,
       parse_teal p = Ok tl -> struct_ok tl -> graph_wf (whole_function tl) = true ->
       single_contract t k -> nth_error funcs k = Some (whole_function tl, r) -> relative_accessors [t] t = [] ->
       eligible dtype vtypes t -> g_abs t = None ->
       run_all (whole_function tl) fuelr = Done r ->
       run_detector (whole_function tl) r fuel "missing-fee-check" checks_missing_fee_check = Done ps ->
       (txn_vulnerable funcs checks_missing_fee_check dtype vtypes [t] t = true <-> ps <> [])).
Proof.
  intros H. destruct FeeSubRefuted.parsedS as (_ & Hp & Hok & _ & Hrun).
  pose proof (struct_okb_sound _ Hok) as Hok'.
  destruct (H [(FeeSubRefuted.fS, FeeSubRefuted.rS)] "STATELESS" None Witness.TL 0 FeeSubRefuted.pS FeeSubRefuted.tS
              FeeSubRefuted.rS 100 100 [] Hp Hok' (graph_wf_whole_function _ _ Hp Hok')
              (or_introl (conj eq_refl eq_refl)) eq_refl eq_refl (eligible_stateless Witness.TL eq_refl) eq_refl Hrun
              (proj1 FeeSubRefuted.differS)) as [H1 _].
  exact (H1 (proj2 FeeSubRefuted.differS) eq_refl).
Qed.

Corollary leaves_justified_fee_subroutine_refuted :
  ~ leaves_justified FeeSubRefuted.fS FeeSubRefuted.rS checks_missing_fee_check.
Proof.
  intros Hj.
  pose proof (single_group_eq_contract_partial [(FeeSubRefuted.fS, FeeSubRefuted.rS)] checks_missing_fee_check
                "STATELESS" None Witness.TL 0 FeeSubRefuted.fS FeeSubRefuted.rS
                (or_introl (conj eq_refl eq_refl)) eq_refl eq_refl (eligible_stateless Witness.TL eq_refl)
                100 "missing-fee-check" []) as H.
  assert (Hn : "missing-fee-check" <> "group-size-check") by discriminate.
  destruct (H Hn eq_refl Hj (proj1 FeeSubRefuted.differS)) as [H1 _].
  exact (H1 (proj2 FeeSubRefuted.differS) eq_refl).
Qed.

Print Assumptions solve_unvalidated_reachable.
Print Assumptions unval_iff_key.
Print Assumptions family_unvalidated_reachable.
Print Assumptions unvalidated_leaf_has_unvalidated_path.
Print Assumptions unvalidated_leaf_has_unvalidated_path_fee.
Print Assumptions leaves_justified_fee.
Print Assumptions single_group_eq_contract_fee.
Print Assumptions single_group_eq_contract_fee_parsed.
Print Assumptions single_group_eq_contract_kind.
Print Assumptions single_group_eq_contract_updatable.
Print Assumptions single_group_eq_contract_deletable.
Print Assumptions Witness.fee_eq_on_A.
Print Assumptions Witness.fee_eq_on_B.
Print Assumptions Witness.fee_path_on_A.
Print Assumptions Witness.kind_eq_on_C.
Print Assumptions single_group_eq_contract_fee_subroutine_refuted.
Print Assumptions leaves_justified_fee_subroutine_refuted.
